// Package crashdb wraps a kvdb.Backend so that a harness owns crash timing at the
// granularity the backends guarantee: a committed read-write transaction is atomic
// and durable. It counts committed write transactions and can be armed so that the
// k-th commit from now succeeds and every later write transaction fails with
// ErrCrashed ("the process died right after the k-th durable write"). It can also
// inject a one-off failure of the next write transaction (rollback testing).
//
// The wrapper deliberately does not implement walletdb.BatchDB, so kvdb.Batch
// degrades to Update (bbolt's batch timer is wall-clock).
package crashdb

import (
	"errors"
	"io"
	"sync"

	"github.com/btcsuite/btcwallet/walletdb"
)

// ErrCrashed is returned by every write transaction after the crash point.
var ErrCrashed = errors.New("crashdb: process crashed (write refused)")

// ErrInjected is returned by a write transaction selected for failure injection.
var ErrInjected = errors.New("crashdb: injected write failure")

// DB is the wrapper.
type DB struct {
	walletdb.DB

	mu        sync.Mutex
	commits   int64 // committed write transactions since creation
	remaining int64 // <0: not armed; otherwise commits still allowed
	failNext  bool
	refused   int64
	// Before, if set, is called before every write transaction (scheduling point).
	Before func()
}

// New wraps inner.
func New(inner walletdb.DB) *DB { return &DB{DB: inner, remaining: -1} }

// Commits is the number of committed write transactions so far.
func (d *DB) Commits() int64 { d.mu.Lock(); defer d.mu.Unlock(); return d.commits }

// CrashAfter arms the wrapper: n more write transactions commit, later ones fail.
func (d *DB) CrashAfter(n int64) { d.mu.Lock(); d.remaining = n; d.mu.Unlock() }

// Crashed reports whether a write has been refused since arming.
func (d *DB) Armed() bool { d.mu.Lock(); defer d.mu.Unlock(); return d.remaining >= 0 }

// Refused is the number of write transactions refused since creation.
func (d *DB) Refused() int64 { d.mu.Lock(); defer d.mu.Unlock(); return d.refused }

// Disarm lets writes through again (the "process" restarted).
func (d *DB) Disarm() { d.mu.Lock(); d.remaining = -1; d.failNext = false; d.mu.Unlock() }

// FailNextWrite makes the next write transaction roll back with ErrInjected.
func (d *DB) FailNextWrite() { d.mu.Lock(); d.failNext = true; d.mu.Unlock() }

func (d *DB) admit() error {
	d.mu.Lock()
	defer d.mu.Unlock()
	if d.failNext {
		d.failNext = false
		return ErrInjected
	}
	if d.remaining == 0 {
		d.refused++
		return ErrCrashed
	}
	return nil
}

func (d *DB) committed() {
	d.mu.Lock()
	d.commits++
	if d.remaining > 0 {
		d.remaining--
	}
	d.mu.Unlock()
}

// Update runs one write transaction.
func (d *DB) Update(f func(tx walletdb.ReadWriteTx) error, reset func()) error {
	if d.Before != nil {
		d.Before()
	}
	if err := d.admit(); err != nil {
		return err
	}
	err := d.DB.Update(f, reset)
	if err == nil {
		d.committed()
	}
	return err
}

// BeginReadWriteTx opens a manual write transaction.
func (d *DB) BeginReadWriteTx() (walletdb.ReadWriteTx, error) {
	if d.Before != nil {
		d.Before()
	}
	if err := d.admit(); err != nil {
		return nil, err
	}
	tx, err := d.DB.BeginReadWriteTx()
	if err != nil {
		return nil, err
	}
	return &rwTx{ReadWriteTx: tx, d: d}, nil
}

type rwTx struct {
	walletdb.ReadWriteTx
	d *DB
}

func (t *rwTx) Commit() error {
	err := t.ReadWriteTx.Commit()
	if err == nil {
		t.d.committed()
	}
	return err
}

// Copy is passed through.
func (d *DB) Copy(w io.Writer) error { return d.DB.Copy(w) }
