// Package vsync is a drop-in replacement for the parts of package sync that lnd's
// lock-based stores use. At check time bin/check rewrites the `"sync"` import line of
// one repo source file (e.g. htlcswitch/circuit_map.go) to
//
//	sync "github.com/lightningnetwork/lnd/verifmc/vsync"
//
// so that every Lock/RLock of that file becomes a scheduling point of the
// cooperative scheduler verifmc/vsched when — and only when — the calling goroutine
// is a thread of a vsched.Sched. For every other goroutine (and in the free-running
// -race target) Mutex and RWMutex behave exactly like their sync counterparts: the
// real sync primitive is embedded and always taken, so mutual exclusion, the race
// detector's happens-before edges and zero-value usability are preserved.
//
// Model of RWMutex under the scheduler: a writer needs "no writer, no readers", a
// reader needs "no writer". Go's writer preference (a waiting writer blocks *new*
// readers) is not modelled: the set of acquisition orders explored is a superset of
// the real one (sound for safety clauses); the only behaviour not reproduced is the
// recursive-RLock-with-waiting-writer deadlock.
//
// Everything else of package sync that a rewritten file might name is passed
// through unchanged (type aliases / functions): Once, WaitGroup, Cond, Map, Pool,
// Locker, NewCond, OnceFunc, OnceValue(s).
//
// Which thread is calling is decided through the Sched the mutex has been bound to
// with Bind (cheap: one atomic load), else through vsched.Current (goroutine-id
// lookup, slow, can be switched off). Bind finds the shimmed mutexes of an object by
// TYPE, not by field name, so it does not depend on unexported identifiers; it
// returning 0 is the signal that the import rewrite is not in effect.
package vsync

import (
	"fmt"
	"reflect"
	"sync"
	"sync/atomic"
	"unsafe"

	"github.com/lightningnetwork/lnd/verifmc/vsched"
)

// Pass-throughs.
type (
	// Once is sync.Once.
	Once = sync.Once
	// WaitGroup is sync.WaitGroup.
	WaitGroup = sync.WaitGroup
	// Cond is sync.Cond (its Locker may be a shimmed mutex).
	Cond = sync.Cond
	// Map is sync.Map.
	Map = sync.Map
	// Pool is sync.Pool.
	Pool = sync.Pool
	// Locker is sync.Locker.
	Locker = sync.Locker
)

// NewCond is sync.NewCond.
func NewCond(l Locker) *Cond { return sync.NewCond(l) }

// OnceFunc is sync.OnceFunc.
func OnceFunc(f func()) func() { return sync.OnceFunc(f) }

// OnceValue is sync.OnceValue.
func OnceValue[T any](f func() T) func() T { return sync.OnceValue(f) }

// OnceValues is sync.OnceValues.
func OnceValues[T1, T2 any](f func() (T1, T2)) func() (T1, T2) { return sync.OnceValues(f) }

// lstate is the logical lock state seen by the scheduler. It is only touched by the
// goroutine holding the baton.
type lstate struct {
	owner   atomic.Pointer[vsched.Sched] // set by Bind
	writer  *vsched.Thread
	readers []*vsched.Thread
}

// caller identifies the calling thread: through the Sched the mutex is bound to
// (cheap), else through the goroutine-id lookup (if enabled).
func (l *lstate) caller() *vsched.Thread {
	if s := l.owner.Load(); s != nil {
		return s.Running()
	}
	return vsched.Current()
}

var (
	typRW = reflect.TypeOf((*RWMutex)(nil)).Elem()
	typMu = reflect.TypeOf((*Mutex)(nil)).Elem()
)

// Bind associates every shimmed mutex that is a direct field of the struct obj
// points to (obj may be an interface holding such a pointer) with the scheduler s,
// whatever the fields are called, and returns how many it found. While the object
// is only used by s's controller and threads this replaces the goroutine-id
// lookup. A result of 0 means the import rewrite is not in effect for that type.
func Bind(s *vsched.Sched, obj any) int {
	v := reflect.ValueOf(obj)
	for v.Kind() == reflect.Interface || v.Kind() == reflect.Ptr {
		if v.IsNil() {
			return 0
		}
		v = v.Elem()
	}
	if v.Kind() != reflect.Struct || !v.CanAddr() {
		return 0
	}
	n := 0
	for i := 0; i < v.NumField(); i++ {
		f := v.Field(i)
		switch f.Type() {
		case typRW:
			(*RWMutex)(unsafe.Pointer(f.UnsafeAddr())).l.owner.Store(s)
			n++
		case typMu:
			(*Mutex)(unsafe.Pointer(f.UnsafeAddr())).l.owner.Store(s)
			n++
		}
	}
	return n
}

func (l *lstate) holders() []int {
	var h []int
	if l.writer != nil {
		h = append(h, l.writer.ID())
	}
	for _, r := range l.readers {
		h = append(h, r.ID())
	}
	return h
}

func (l *lstate) dropReader(t *vsched.Thread) bool {
	for i, r := range l.readers {
		if r == t {
			l.readers = append(l.readers[:i], l.readers[i+1:]...)
			return true
		}
	}
	return false
}

// RWMutex is a scheduler-aware sync.RWMutex. The zero value is an unlocked mutex.
type RWMutex struct {
	real sync.RWMutex
	l    lstate
}

// Available implements vsched.Resource.
func (m *RWMutex) Available(t *vsched.Thread, write bool) bool {
	if m.l.writer != nil {
		return false
	}
	if write && len(m.l.readers) > 0 {
		return false
	}
	return true
}

// Holders implements vsched.Resource.
func (m *RWMutex) Holders() []int { return m.l.holders() }

// ResName implements vsched.Resource.
func (m *RWMutex) ResName() string {
	return fmt.Sprintf("rwmutex@%x", uintptr(unsafe.Pointer(m))&0xffff)
}

// Lock locks for writing.
func (m *RWMutex) Lock() {
	if t := m.l.caller(); t != nil && !t.Aborted() {
		t.Acquire("Lock", m, true)
		if !t.Aborted() {
			m.l.writer = t
			t.NoteAcquired()
		}
	}
	m.real.Lock()
}

// Unlock unlocks for writing.
func (m *RWMutex) Unlock() {
	// (sync allows unlocking from another goroutine than the locker)
	if t := m.l.caller(); t != nil && m.l.writer != nil {
		m.l.writer.NoteReleased()
		m.l.writer = nil
	}
	m.real.Unlock()
}

// RLock locks for reading.
func (m *RWMutex) RLock() {
	if t := m.l.caller(); t != nil && !t.Aborted() {
		t.Acquire("RLock", m, false)
		if !t.Aborted() {
			m.l.readers = append(m.l.readers, t)
			t.NoteAcquired()
		}
	}
	m.real.RLock()
}

// RUnlock undoes one RLock.
func (m *RWMutex) RUnlock() {
	if t := m.l.caller(); t != nil {
		if m.l.dropReader(t) {
			t.NoteReleased()
		}
	}
	m.real.RUnlock()
}

// TryLock tries to lock for writing.
func (m *RWMutex) TryLock() bool {
	if t := m.l.caller(); t != nil && !t.Aborted() {
		t.Point("TryLock")
		if !m.Available(t, true) {
			return false
		}
		if !m.real.TryLock() {
			return false
		}
		m.l.writer = t
		t.NoteAcquired()
		return true
	}
	return m.real.TryLock()
}

// TryRLock tries to lock for reading.
func (m *RWMutex) TryRLock() bool {
	if t := m.l.caller(); t != nil && !t.Aborted() {
		t.Point("TryRLock")
		if !m.Available(t, false) {
			return false
		}
		if !m.real.TryRLock() {
			return false
		}
		m.l.readers = append(m.l.readers, t)
		t.NoteAcquired()
		return true
	}
	return m.real.TryRLock()
}

// RLocker returns a Locker whose Lock/Unlock are RLock/RUnlock.
func (m *RWMutex) RLocker() Locker { return (*rlocker)(m) }

type rlocker RWMutex

func (r *rlocker) Lock()   { (*RWMutex)(r).RLock() }
func (r *rlocker) Unlock() { (*RWMutex)(r).RUnlock() }

// Mutex is a scheduler-aware sync.Mutex. The zero value is an unlocked mutex.
type Mutex struct {
	real sync.Mutex
	l    lstate
}

// Available implements vsched.Resource.
func (m *Mutex) Available(t *vsched.Thread, write bool) bool { return m.l.writer == nil }

// Holders implements vsched.Resource.
func (m *Mutex) Holders() []int { return m.l.holders() }

// ResName implements vsched.Resource.
func (m *Mutex) ResName() string { return fmt.Sprintf("mutex@%x", uintptr(unsafe.Pointer(m))&0xffff) }

// Lock locks m.
func (m *Mutex) Lock() {
	if t := m.l.caller(); t != nil && !t.Aborted() {
		t.Acquire("Lock", m, true)
		if !t.Aborted() {
			m.l.writer = t
			t.NoteAcquired()
		}
	}
	m.real.Lock()
}

// Unlock unlocks m.
func (m *Mutex) Unlock() {
	// (sync allows unlocking from another goroutine than the locker)
	if t := m.l.caller(); t != nil && m.l.writer != nil {
		m.l.writer.NoteReleased()
		m.l.writer = nil
	}
	m.real.Unlock()
}

// TryLock tries to lock m.
func (m *Mutex) TryLock() bool {
	if t := m.l.caller(); t != nil && !t.Aborted() {
		t.Point("TryLock")
		if m.l.writer != nil || !m.real.TryLock() {
			return false
		}
		m.l.writer = t
		t.NoteAcquired()
		return true
	}
	return m.real.TryLock()
}
