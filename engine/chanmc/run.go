package chanmc

import (
	"encoding/json"
	"fmt"
	"os"
	"sync"
	"time"

	"github.com/lightningnetwork/lnd/input"
	"github.com/lightningnetwork/lnd/lnwallet/chainfee"
	"github.com/lightningnetwork/lnd/verifmc/evid"
	"github.com/lightningnetwork/lnd/verifmc/explore"
)

// Thresholds returns, in satoshi, the four dust thresholds of a world:
// [offered by A on A's commitment, offered by A on B's commitment,
//
//	offered by B on B's commitment, offered by B on A's commitment].
func Thresholds(typ string, feePerKw, dustA, dustB int64) [4]int64 {
	ct := ChanTypes[typ]
	var to, su int64
	f := chainfee.SatPerKWeight(feePerKw)
	switch {
	case ct.ZeroHtlcTxFee():
	case ct.HasAnchors():
		to, su = int64(f.FeeForWeight(input.HtlcTimeoutWeightConfirmed)), int64(f.FeeForWeight(input.HtlcSuccessWeightConfirmed))
	default:
		to, su = int64(f.FeeForWeight(input.HtlcTimeoutWeight)), int64(f.FeeForWeight(input.HtlcSuccessWeight))
	}
	return [4]int64{dustA + to, dustB + su, dustB + to, dustA + su}
}

// Space is one exploration job.
type Space struct {
	P   Params
	Dev int // deviation bound, <0 = full state space
	// Hooks are installed on every world of this space.
	Hooks Hooks
	// OnState, if set, is called exactly once per newly discovered canonical
	// state with the live world that reached it (it may call read-only APIs such
	// as ForceClose()/State(); it must not advance the state machines).
	OnState func(w *World)
}

// Agg aggregates coverage over several spaces.
type Agg struct {
	mu          sync.Mutex
	States      int64
	Transitions int64
	Replays     int64
	ReplaySteps int64
	Terminals   int64
	MaxDepth    int
	Spaces      int
	Complete    int
	Caps        []string
	PerSpace    []map[string]any
	Samples     []any
	Stats       Stats
	Recheck     map[string]any
}

// RunSpaces explores every space with the shared worker pool, until the
// deadline. Violations go to run.
func RunSpaces(run *evid.Run, spaces []Space, deadline time.Time, workers int) *Agg {
	agg := &Agg{}
	report := func(sig, what string, hist []string, p Params) {
		run.Violation(p.Type+":"+sig, what, map[string]any{"params": p, "history": hist})
	}
	// Pre-pass: run the eager schedule of every crash-point space once so the
	// durable-writes-per-step table is complete before exploration lists crash points.
	for _, sp := range spaces {
		if !sp.P.CrashPoints {
			continue
		}
		pp := sp.P
		pp.MaxCuts = 0
		if w, err := New(pp, report, &agg.Stats); err == nil {
			for n := 0; n < 200; n++ {
				acts := w.Enabled()
				if len(acts) == 0 {
					break
				}
				if err := w.Do(acts[0]); err != nil {
					break
				}
			}
			w.Close()
		}
	}
	FreezeWritesTable()
	for _, sp := range spaces {
		if time.Now().After(deadline) {
			agg.Caps = append(agg.Caps, "deadline before "+sp.P.Name())
			agg.Spaces++
			continue
		}
		sp := sp
		t0 := time.Now()
		res := explore.Run(explore.Options{
			New: func() (explore.World, error) {
				w, err := New(sp.P, report, &agg.Stats)
				if err != nil {
					return nil, err
				}
				w.Hooks = sp.Hooks
				return w, nil
			},
			MaxDeviations: sp.Dev,
			Deadline:      deadline,
			Workers:       workers,
			Stop:          func() bool { return run.Violations() >= 3 },
			OnState: func(ew explore.World, hist []string) {
				if sp.OnState != nil {
					sp.OnState(ew.(*World))
				}
			},
		}, func(hist []string, v any) {
			run.Violation(sp.P.Type+":panic", fmt.Sprintf("panic inside lnd during exploration: %v", v), map[string]any{"params": sp.P, "history": hist})
		})
		agg.mu.Lock()
		agg.Spaces++
		agg.States += res.States
		agg.Transitions += res.Transitions
		agg.Replays += res.Replays
		agg.ReplaySteps += res.ReplaySteps
		agg.Terminals += res.Terminals
		if res.MaxDepth > agg.MaxDepth {
			agg.MaxDepth = res.MaxDepth
		}
		if res.Exhaustive {
			agg.Complete++
		} else {
			agg.Caps = append(agg.Caps, res.CapHit+" in "+sp.P.Name())
		}
		agg.PerSpace = append(agg.PerSpace, map[string]any{
			"space": sp.P.Name(), "deviation_bound": sp.Dev, "states": res.States, "transitions": res.Transitions,
			"terminals": res.Terminals, "max_depth": res.MaxDepth, "exhaustive": res.Exhaustive, "wall_s": time.Since(t0).Seconds(),
		})
		if len(agg.Samples) < 4 && len(res.SampleHist) > 0 {
			agg.Samples = append(agg.Samples, map[string]any{"space": sp.P.Name(), "history": res.SampleHist[0]})
		}
		agg.mu.Unlock()
	}
	// Determinism re-check: re-explore one completed space and require identical
	// coverage (a differing count means hidden state outside the canonical key).
	for i, ps := range agg.PerSpace {
		if ps["exhaustive"] != true || ps["states"].(int64) > 4000 || time.Now().After(deadline) {
			continue
		}
		sp := spaces[i]
		if sp.P.Name() != ps["space"] {
			continue
		}
		res := explore.Run(explore.Options{
			New: func() (explore.World, error) {
				w, err := New(sp.P, report, &agg.Stats)
				if err != nil {
					return nil, err
				}
				w.Hooks = sp.Hooks
				return w, nil
			},
			MaxDeviations: sp.Dev, Workers: workers, Deadline: deadline,
		}, nil)
		agg.Recheck = map[string]any{"space": sp.P.Name(), "states_first": ps["states"], "states_second": res.States,
			"transitions_first": ps["transitions"], "transitions_second": res.Transitions,
			// under a deviation bound a state is re-expanded when it is reached again with
			// fewer deviations, so the number of transitions executed depends on which
			// worker reaches it first; the set of states does not
			"identical": res.States == ps["states"].(int64) &&
				(sp.Dev >= 0 || res.Transitions == ps["transitions"].(int64))}
		if res.Exhaustive && agg.Recheck["identical"] != true {
			agg.Caps = append(agg.Caps, "nondeterminism_detected in "+sp.P.Name())
		}
		break
	}
	return agg
}

// Coverage renders the aggregate in the model_checking evidence shape.
func (a *Agg) Coverage(rule string) map[string]any {
	return map[string]any{
		"states":                        a.States,
		"transitions":                   a.Transitions,
		"traces_validated_against_impl": a.Replays,
		"samples":                       a.Samples,
		"evaluations":                   a.Transitions,
		"distinct_nontrivial":           a.States,
		"rule":                          rule,
		"exhaustive":                    len(a.Caps) == 0,
		"caps_hit":                      a.Caps,
		"spaces":                        a.Spaces,
		"spaces_completed":              a.Complete,
		"terminal_states":               a.Terminals,
		"max_depth":                     a.MaxDepth,
		"replay_steps_on_impl":          a.ReplaySteps,
		"per_space":                     a.PerSpace,
		"determinism_recheck":           a.Recheck,
		"oracle_counts": map[string]any{
			"signatures_verified_by_peer":  a.Stats.SigsVerified.Load(),
			"commitments_checked":          a.Stats.CommitsChecked.Load(),
			"mirror_checks_at_quiescence":  a.Stats.MirrorChecks.Load(),
			"reloads":                      a.Stats.Reloads.Load(),
			"retransmitted_messages":       a.Stats.Retransmissions.Load(),
			"revocations_checked":          a.Stats.RevokesChecked.Load(),
			"constraint_noops":             a.Stats.ConstraintNoops.Load(),
			"crash_mid_step":               a.Stats.CrashMidStep.Load(),
			"side_writer_calls":            a.Stats.SideWrites.Load(),
			"side_writer_calls_refused":    a.Stats.SideRefused.Load(),
			"reestablish_msgs_judged":      a.Stats.ReestChecked.Load(),
			"reestablish_heights_equal":    a.Stats.ReestInSync.Load(),
			"reestablish_local_ahead":      a.Stats.ReestLocalAhead.Load(),
			"reestablish_remote_ahead":     a.Stats.ReestRemoteAhead.Load(),
			"max_durable_writes_per_step":  a.Stats.MaxWrites.Load(),
			"durable_writes_table":         WritesTable(),
			"crash_points_discovered_late": WritesTableLate.Load(),
		},
	}
}

// Replay re-executes a recorded history (from a replay artefact) on a fresh
// world, printing every step; it is the explorer-free reproduction path.
func Replay(run *evid.Run, path string) error {
	b, err := os.ReadFile(path)
	if err != nil {
		return err
	}
	var doc struct {
		Replay struct {
			Params  Params   `json:"params"`
			History []string `json:"history"`
		} `json:"replay"`
	}
	if err := json.Unmarshal(b, &doc); err != nil {
		return err
	}
	report := func(sig, what string, hist []string, p Params) {
		fmt.Printf("INFO   !! %s: %s\n", sig, what)
		run.Violation(p.Type+":"+sig, what, map[string]any{"params": p, "history": hist})
	}
	w, err := New(doc.Replay.Params, report, nil)
	if err != nil {
		return err
	}
	defer w.Close()
	fmt.Printf("INFO replaying %d steps on %s\n", len(doc.Replay.History), doc.Replay.Params.Name())
	for i, a := range doc.Replay.History {
		fmt.Printf("INFO step %d: %s   (enabled: %v)\n", i, a, w.Enabled())
		if err := w.Do(a); err != nil {
			return fmt.Errorf("step %d (%s): %w", i, a, err)
		}
		fmt.Printf("INFO    -> %s\n", w.Key())
		// per-state read-only probe of the channel_reestablish monitor (no-op
		// unless Params.ReestMonitor)
		w.CheckReestHere()
	}
	if len(w.Enabled()) == 0 {
		w.Terminal()
	}
	return nil
}
