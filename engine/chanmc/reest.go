package chanmc

import (
	"bytes"
	"fmt"

	"github.com/btcsuite/btcd/btcec/v2"
	"github.com/lightningnetwork/lnd/chanstate"
	"github.com/lightningnetwork/lnd/input"
	"github.com/lightningnetwork/lnd/lnwire"
)

// The channel_reestablish monitor (Params.ReestMonitor; C06 "the secrets and next
// commitment points it sends [on reconnect] follow its own derivation chain without
// gaps or repeats").
//
// Every channel_reestablish a party produces is judged FIELD BY FIELD against
// values the explorer derives without looking at the message or at the object that
// produced it:
//
//   L  = the party's own commitment height that is durable = 1 + highest own height
//        whose secret the party released (explorer bookkeeping: every revoke_and_ack
//        ever returned went through onRevoke), cross-checked with
//        LocalCommitment.CommitHeight of a handle re-read from disk;
//   R  = number of the peer's revoke_and_acks this party accepted (explorer
//        bookkeeping), cross-checked with RemoteCommitment.CommitHeight re-read
//        from disk;
//
//   next_commitment_number            == L+1
//   next_revocation_number            == R
//   your_last_per_commitment_secret   == PEER producer.AtIndex(R-1)   (zero iff R==0)
//   my_current_per_commitment_point   == point(OWN producer.AtIndex(L))
//   next_local_nonce(s) (taproot)     == verification nonce of height L+1 derived from
//                                        the own producer; absent for other types
//   channel_id                        == id of the funding outpoint
//
// In worlds with crash points the bookkeeping can lag the disk by the step that
// crashed, so there only the heights re-read from disk are used.

// ownPoint is the commitment point of party i's own chain at height h.
func (w *World) ownPoint(i int, h uint64) *btcec.PublicKey {
	s, err := w.pt[i].producer.AtIndex(h)
	if err != nil {
		return nil
	}
	return input.ComputeCommitmentPoint(s[:])
}

// whichHeight finds the height (0..max) of party i's chain whose point is pk.
func (w *World) whichHeight(i int, pk *btcec.PublicKey, max uint64) string {
	if pk == nil {
		return "absent"
	}
	for h := uint64(0); h <= max; h++ {
		if p := w.ownPoint(i, h); p != nil && p.IsEqual(pk) {
			return fmt.Sprintf("the point of height %d", h)
		}
	}
	return "no point of its chain near the current height"
}

// judgeReest compares one channel_reestablish produced by party i with the
// reference. src names how it was produced (for the message only).
func (w *World) judgeReest(i int, msg *lnwire.ChannelReestablish, src string, disk *chanstate.OpenChannel) {
	if msg == nil {
		return
	}
	p, q := w.pt[i], w.pt[1-i]
	w.Stats.ReestChecked.Add(1)

	// durable heights, re-read through a fresh handle
	if disk == nil {
		chans, err := p.db.ChannelStateDB().FetchOpenChannels(p.identity)
		if err != nil || len(chans) != 1 {
			w.violate("reest:disk-unreadable", fmt.Sprintf("%s: cannot read channel from disk when building channel_reestablish (%s): %d channels, %v", p.name, src, len(chans), err))
			return
		}
		disk = chans[0]
	}
	L, R := disk.LocalCommitment.CommitHeight, disk.RemoteCommitment.CommitHeight
	if !w.P.CrashPoints {
		// the explorer's own count of the dance
		eL, eR := uint64(p.lastRevoked+1), uint64(p.revsIn)
		if eL != L || eR != R {
			w.violate("reest:durable-heights-differ-from-history", fmt.Sprintf("%s (%s): durable heights local %d / remote %d, but the party released %d own secrets and accepted %d revocations of the peer", p.name, src, L, R, eL, eR))
			return
		}
	}
	switch {
	case L == R:
		w.Stats.ReestInSync.Add(1)
	case L > R:
		w.Stats.ReestLocalAhead.Add(1)
	default:
		w.Stats.ReestRemoteAhead.Add(1)
	}
	where := fmt.Sprintf("%s (%s; durable local height %d, remote height %d)", p.name, src, L, R)

	if want := lnwire.NewChanIDFromOutPoint(disk.FundingOutpoint); msg.ChanID != want {
		w.violate("reest:chan-id", fmt.Sprintf("%s: channel_reestablish carries channel id %v, want %v", where, msg.ChanID, want))
	}
	if msg.NextLocalCommitHeight != L+1 {
		w.violate("reest:next-commitment-number", fmt.Sprintf("%s: next_commitment_number %d, want %d (durable local commitment + 1)", where, msg.NextLocalCommitHeight, L+1))
	}
	if msg.RemoteCommitTailHeight != R {
		w.violate("reest:next-revocation-number", fmt.Sprintf("%s: next_revocation_number %d, want %d (revocations of the peer accepted so far)", where, msg.RemoteCommitTailHeight, R))
	}
	var wantSecret [32]byte
	if R > 0 {
		s, err := q.producer.AtIndex(R - 1)
		if err == nil {
			wantSecret = [32]byte(*s)
		}
	}
	if msg.LastRemoteCommitSecret != wantSecret {
		what := "not a secret of the peer's chain near that height"
		for h := uint64(0); h <= R+2; h++ {
			if s, err := q.producer.AtIndex(h); err == nil && bytes.Equal(s[:], msg.LastRemoteCommitSecret[:]) {
				what = fmt.Sprintf("the peer's secret of height %d", h)
			}
		}
		if msg.LastRemoteCommitSecret == ([32]byte{}) {
			what = "all zero"
		}
		w.violate("reest:last-remote-secret", fmt.Sprintf("%s: your_last_per_commitment_secret must be the peer's secret of height %d (zero when no revocation was accepted), but is %s", where, int64(R)-1, what))
	}
	wantPoint := w.ownPoint(i, L)
	if msg.LocalUnrevokedCommitPoint == nil || wantPoint == nil || !msg.LocalUnrevokedCommitPoint.IsEqual(wantPoint) {
		w.violate("reest:unrevoked-commit-point", fmt.Sprintf("%s: my_current_per_commitment_point must be the point of the durable local commitment (height %d of its own chain), but is %s", where, L, w.whichHeight(i, msg.LocalUnrevokedCommitPoint, L+3)))
	}
	w.judgeReestNonce(i, msg, disk, L, where)
}

func (w *World) judgeReestNonce(i int, msg *lnwire.ChannelReestablish, disk *chanstate.OpenChannel, L uint64, where string) {
	p := w.pt[i]
	if !w.ct.IsTaproot() {
		if msg.LocalNonce.IsSome() || msg.LocalNonces.IsSome() {
			w.violate("reest:nonce-on-non-taproot", fmt.Sprintf("%s: channel_reestablish of a non-taproot channel carries a musig2 nonce", where))
		}
		return
	}
	tp, err := chanstate.DeriveMusig2Shachain(p.producer)
	if err != nil {
		return
	}
	nonceAt := func(h uint64) (lnwire.Musig2Nonce, bool) {
		n, err := chanstate.NewMusigVerificationNonce(p.keys[0].PubKey(), h, tp)
		if err != nil {
			return lnwire.Musig2Nonce{}, false
		}
		return lnwire.Musig2Nonce(n.PubNonce), true
	}
	want, ok := nonceAt(L + 1)
	if !ok {
		return
	}
	var got []lnwire.Musig2Nonce
	if w.ct.IsTaprootFinal() {
		if msg.LocalNonces.IsSome() {
			d := msg.LocalNonces.UnsafeFromSome()
			for txid, n := range d.NoncesMap {
				if txid != disk.FundingOutpoint.Hash {
					w.violate("reest:nonce-key", fmt.Sprintf("%s: next_local_nonces is keyed by %v, not by the funding txid", where, txid))
				}
				got = append(got, n)
			}
		}
	} else {
		msg.LocalNonce.WhenSomeV(func(n lnwire.Musig2Nonce) { got = append(got, n) })
	}
	if len(got) != 1 || got[0] != want {
		what := fmt.Sprintf("%d nonces", len(got))
		if len(got) == 1 {
			what = "a nonce of no height near the current one"
			for h := uint64(0); h <= L+3; h++ {
				if n, ok := nonceAt(h); ok && n == got[0] {
					what = fmt.Sprintf("the verification nonce of height %d", h)
				}
			}
		}
		w.violate("reest:nonce", fmt.Sprintf("%s: the musig2 nonce announced on reconnect must be the verification nonce of its next commitment (height %d), but the message carries %s", where, L+1, what))
	}
}

// CheckReestHere answers, for the current state and for both parties, "what would
// this node send if it reconnected / restarted right now": channel_reestablish is
// built (a) by the live channel object and (b) by a channel freshly loaded from
// disk (restart), and each is judged by judgeReest. Read-only: nothing is
// delivered, no state machine advances. No-op unless Params.ReestMonitor.
func (w *World) CheckReestHere() {
	if !w.P.ReestMonitor || w.dead || w.closed {
		return
	}
	for i := 0; i < 2; i++ {
		p := w.pt[i]
		if p == nil || p.ch == nil {
			continue
		}
		func() {
			defer func() {
				if v := recover(); v != nil {
					w.violate("reest:panic", fmt.Sprintf("%s: building channel_reestablish panicked: %v", p.name, v))
				}
			}()
			chans, ferr := p.db.ChannelStateDB().FetchOpenChannels(p.identity)
			if ferr != nil || len(chans) != 1 {
				w.violate("reest:disk-unreadable", fmt.Sprintf("%s: cannot read channel from disk: %d channels, %v", p.name, len(chans), ferr))
				return
			}
			live, err := p.ch.State().ChanSyncMsg()
			if err != nil {
				w.violate("reest:chansync-msg-failed", fmt.Sprintf("%s.ChanSyncMsg on the live channel failed: %v", p.name, err))
			} else {
				w.judgeReest(i, live, "live object", chans[0])
			}
			// the restart path: peer and link build the message from the channel
			// state they just fetched from disk
			msg, err := chans[0].ChanSyncMsg()
			if err != nil {
				w.violate("reest:chansync-msg-failed", fmt.Sprintf("%s.ChanSyncMsg on the channel loaded from disk failed: %v", p.name, err))
				return
			}
			w.judgeReest(i, msg, "restart here", chans[0])
		}()
	}
}
