package chanmc

import (
	"bytes"
	"errors"
	"fmt"
	"strings"

	"github.com/btcsuite/btcd/btcec/v2"
	"github.com/btcsuite/btcd/chainhash/v2"
	"github.com/btcsuite/btcd/wire/v2"

	"github.com/lightningnetwork/lnd/channeldb"
	"github.com/lightningnetwork/lnd/chanstate"
	"github.com/lightningnetwork/lnd/fn/v2"
	"github.com/lightningnetwork/lnd/lntypes"
	"github.com/lightningnetwork/lnd/lnwallet"
	"github.com/lightningnetwork/lnd/lnwire"
)

func lntypesWU(n int) lntypes.WeightUnit { return lntypes.WeightUnit(n) }

// projection is everything the in-memory object mirrors from disk.
func projection(st *channeldb.OpenChannel) string {
	var b strings.Builder
	full := func(c *channeldb.ChannelCommitment) {
		fmt.Fprintf(&b, "{%s li%d lh%d ri%d rh%d sig%x ", commitKey(c), c.LocalLogIndex, c.LocalHtlcIndex, c.RemoteLogIndex, c.RemoteHtlcIndex, c.CommitSig)
		if c.CommitTx != nil {
			var x bytes.Buffer
			_ = c.CommitTx.SerializeNoWitness(&x)
			fmt.Fprintf(&b, "tx%x ", x.Bytes())
		}
		hs := append([]channeldb.HTLC{}, c.Htlcs...)
		for i := 0; i < len(hs); i++ {
			for j := i + 1; j < len(hs); j++ {
				if fmt.Sprint(hs[j].Incoming, hs[j].HtlcIndex) < fmt.Sprint(hs[i].Incoming, hs[i].HtlcIndex) {
					hs[i], hs[j] = hs[j], hs[i]
				}
			}
		}
		for _, h := range hs {
			fmt.Fprintf(&b, "[%v %d %d %x %d %d %d s%x o%x]", h.Incoming, h.HtlcIndex, h.Amt, h.RHash[:4], h.RefundTimeout, h.OutputIndex, h.LogIndex, h.Signature, h.OnionBlob[:2])
		}
		b.WriteString("}")
	}
	full(&st.LocalCommitment)
	full(&st.RemoteCommitment)
	if tip, err := st.RemoteCommitChainTip(); err == nil && tip != nil {
		b.WriteString("T")
		full(&tip.Commitment)
		fmt.Fprintf(&b, "u%d", len(tip.LogUpdates))
	}
	if st.RemoteCurrentRevocation != nil {
		fmt.Fprintf(&b, " cur%x", st.RemoteCurrentRevocation.SerializeCompressed())
	}
	if st.RemoteNextRevocation != nil {
		fmt.Fprintf(&b, " nxt%x", st.RemoteNextRevocation.SerializeCompressed())
	}
	var rs bytes.Buffer
	if st.RevocationStore != nil {
		_ = st.RevocationStore.Encode(&rs)
	}
	fmt.Fprintf(&b, " store%x status%v", rs.Bytes(), st.ChanStatus())
	// static channel parameters every script derivation depends on
	fmt.Fprintf(&b, " type%d init%v cap%d thaw%d scid%v fo%v", st.ChanType, st.IsInitiator, st.Capacity, st.ThawHeight, st.ShortChannelID, st.FundingOutpoint)
	for _, c := range []*channeldb.ChannelConfig{&st.LocalChanCfg, &st.RemoteChanCfg} {
		fmt.Fprintf(&b, " cfg{d%d r%d csv%d min%d maxp%d maxh%d", c.DustLimit, c.ChanReserve, c.CsvDelay, c.MinHTLC, c.MaxPendingAmount, c.MaxAcceptedHtlcs)
		for _, k := range []*btcec.PublicKey{c.MultiSigKey.PubKey, c.RevocationBasePoint.PubKey, c.PaymentBasePoint.PubKey, c.DelayBasePoint.PubKey, c.HtlcBasePoint.PubKey} {
			if k != nil {
				fmt.Fprintf(&b, " %x", k.SerializeCompressed()[:6])
			}
		}
		b.WriteString("}")
	}
	st.TapscriptRoot.WhenSome(func(h chainhash.Hash) { fmt.Fprintf(&b, " tap%x", h[:6]) })
	return b.String()
}

// Projection exposes the disk-mirrored projection of party i (for C02).
func (w *World) Projection(i int) string { return projection(w.pt[i].ch.State()) }

func kindsOf(ms []wmsg) []string {
	var out []string
	for _, m := range ms {
		switch m.kind {
		case "sig", "rev", "reest":
			out = append(out, m.kind)
		default:
			out = append(out, fmt.Sprintf("%s%d", m.kind, m.k))
		}
	}
	return out
}

// cut drops the connection: each direction has delivered exactly the prefix
// already consumed; both sides discard their in-memory channel and reload from disk
// (what peer does on every reconnect); both then send channel_reestablish.
func (w *World) cut() error {
	w.cuts++
	// Reference model: what must each side retransmit?
	for i := 0; i < 2; i++ {
		p := w.pt[i]
		var exp []string
		if p.needSync {
			// p never got to process the peer's channel_reestablish after
			// the previous cut: what it owed then, it still owes.
			exp = append(exp, p.expectRetx...)
		}
		for _, m := range w.wire[1-i] {
			switch m.kind {
			case "rev":
				exp = append(exp, "rev")
			case "sig":
				exp = append(exp, kindsOf(coalesceFees(p.lastSigCovered))...)
				exp = append(exp, "sig")
			}
		}
		p.expectRetx = exp
		p.unsignedSent = nil
	}
	w.wire[0], w.wire[1] = nil, nil
	// Updates never covered by a signature of their sender are forgotten by both.
	for _, h := range w.h {
		if h.sent && !h.addSigned {
			h.sent, h.id = false, 0
		}
		if h.resolved && !h.resSigned {
			h.resolved = false
		}
	}
	w.feeSent = w.feeSigned
	// Everything that survives is rebuilt from disk on both sides.
	for _, h := range w.h {
		if h.sent {
			h.addRestored = true
		}
		if h.resolved {
			h.resRestored = true
		}
	}
	w.feeRestored = w.feeRestored[:0]
	for k := 0; k < w.feeSent; k++ {
		w.feeRestored = append(w.feeRestored, true)
	}
	for i := 0; i < 2; i++ {
		if err := w.reload(i); err != nil {
			return err
		}
	}
	for i := 0; i < 2; i++ {
		p := w.pt[i]
		if p.ch == nil {
			continue
		}
		msg, err := p.ch.State().ChanSyncMsg()
		if err != nil {
			w.violate("chansync-msg-failed", fmt.Sprintf("%s.ChanSyncMsg failed after reload: %v", p.name, err))
			continue
		}
		if w.P.ReestMonitor {
			w.judgeReest(i, msg, "reconnect", nil)
		}
		if w.P.NoDLP {
			msg.LocalUnrevokedCommitPoint = nil
			msg.LastRemoteCommitSecret = [32]byte{}
		}
		w.send(1-i, wmsg{kind: "reest", m: msg})
	}
	return nil
}

// reload discards party i's in-memory channel and rebuilds it from disk.
func (w *World) reload(i int) (err error) {
	p := w.pt[i]
	w.Stats.Reloads.Add(1)
	crashedMid := p.cdb.Armed()
	pre := ""
	if !crashedMid && p.ch != nil {
		pre = projection(p.ch.State())
	}
	p.cdb.Disarm()
	defer func() {
		if v := recover(); v != nil {
			w.violate("reload-panic", fmt.Sprintf("%s: NewLightningChannel panicked on the reloaded state: %v", p.name, v))
			err = nil
		}
	}()
	chans, ferr := p.db.ChannelStateDB().FetchOpenChannels(p.identity)
	if ferr != nil || len(chans) != 1 {
		w.violate("reload-fetch-failed", fmt.Sprintf("%s: FetchOpenChannels after crash: %d channels, err=%v", p.name, len(chans), ferr))
		return nil
	}
	ch, nerr := lnwallet.NewLightningChannel(p.signer, chans[0], p.pool,
		lnwallet.WithLeafStore(&lnwallet.MockAuxLeafStore{}))
	if nerr != nil {
		w.violate("reload-failed", fmt.Sprintf("%s: NewLightningChannel on the reloaded state failed: %v", p.name, nerr))
		return nil
	}
	p.ch = ch
	p.needSync = true
	tip, terr := chans[0].RemoteCommitChainTip()
	p.awaitingRevoke = terr == nil && tip != nil
	if pre != "" {
		if post := projection(ch.State()); post != pre {
			w.violate("reload-projection-differs", fmt.Sprintf("%s: state reloaded from disk differs from the pre-crash state it should mirror:\n pre  %s\n post %s", p.name, clip(pre), clip(post)))
		}
	}
	// Safety: never hold as broadcastable a commitment whose secret was released.
	if int64(chans[0].LocalCommitment.CommitHeight) <= p.lastRevoked {
		w.violate("reload-revoked-commitment", fmt.Sprintf("%s reloaded local commitment height %d, but it already released the secret of height %d", p.name, chans[0].LocalCommitment.CommitHeight, p.lastRevoked))
	}
	if w.Hooks.OnReload != nil {
		w.Hooks.OnReload(w, i)
	}
	return nil
}

func clip(s string) string {
	if len(s) > 1500 {
		return s[:1500] + "…"
	}
	return s
}

func (w *World) intentOf(offerer int, id uint64) int {
	for k, h := range w.h {
		if h.By == offerer && h.sent && h.id == id {
			return k
		}
	}
	return -1
}

func (w *World) processReest(i int, msg *lnwire.ChannelReestablish) error {
	p := w.pt[i]
	msgs, _, _, err := p.ch.ProcessChanSyncMsg(ctxb, msg)
	if err != nil {
		cls := "other"
		var dl *lnwallet.ErrCommitSyncLocalDataLoss
		switch {
		case errors.As(err, &dl):
			cls = "local-data-loss"
		case errors.Is(err, lnwallet.ErrCommitSyncRemoteDataLoss):
			cls = "remote-data-loss"
		case errors.Is(err, lnwallet.ErrCannotSyncCommitChains):
			cls = "cannot-sync"
		case errors.Is(err, lnwallet.ErrInvalidLastCommitSecret), errors.Is(err, lnwallet.ErrInvalidLocalUnrevokedCommitPoint):
			cls = "invalid-dlp-field"
		}
		w.violate("chansync-error:"+cls, fmt.Sprintf("%s.ProcessChanSyncMsg between honest peers returned: %v", p.name, err))
		p.needSync = false
		return nil
	}
	p.needSync = false
	var got []wmsg
	for _, m := range msgs {
		switch mm := m.(type) {
		case *lnwire.UpdateAddHTLC:
			got = append(got, wmsg{kind: "add", k: w.intentOf(i, mm.ID), m: m})
		case *lnwire.UpdateFulfillHTLC:
			got = append(got, wmsg{kind: "settle", k: w.intentOf(1-i, mm.ID), m: m})
		case *lnwire.UpdateFailHTLC:
			got = append(got, wmsg{kind: "fail", k: w.intentOf(1-i, mm.ID), m: m})
		case *lnwire.UpdateFailMalformedHTLC:
			got = append(got, wmsg{kind: "malformed", k: w.intentOf(1-i, mm.ID), m: m})
		case *lnwire.UpdateFee:
			k := 0
			for j, f := range w.P.Fees {
				if uint32(f) == mm.FeePerKw {
					k = j
				}
			}
			got = append(got, wmsg{kind: "fee", k: k, m: m})
		case *lnwire.CommitSig:
			got = append(got, wmsg{kind: "sig", m: m})
		case *lnwire.RevokeAndAck:
			got = append(got, wmsg{kind: "rev", m: m})
		default:
			w.violate("retransmit-unknown-message", fmt.Sprintf("%s retransmitted an unexpected %T", p.name, m))
		}
	}
	gotK := kindsOf(got)
	exp := p.expectRetx
	// A fresh signature may follow a retransmitted revocation when the party
	// owes one (it is a new commitment, not a retransmission).
	freshSig := false
	if len(gotK) == len(exp)+1 && gotK[len(gotK)-1] == "sig" && !contains(exp, "sig") && contains(exp, "rev") {
		freshSig = true
		gotK = gotK[:len(gotK)-1]
	}
	if !sameRetx(gotK, exp) {
		w.violate("retransmission-mismatch", fmt.Sprintf("%s must retransmit %v (reference model of undelivered messages) but ProcessChanSyncMsg returned %v", p.name, exp, kindsOf(got)))
	}
	w.Stats.Retransmissions.Add(int64(len(got)))
	for idx, m := range got {
		switch m.kind {
		case "rev":
			w.onRevoke(i, m.m.(*lnwire.RevokeAndAck), true)
		case "sig":
			p.awaitingRevoke = true
			if freshSig && idx == len(got)-1 {
				p.lastWasRevoke = false
				p.lastSigCovered = nil
				for _, h := range w.h {
					if h.By == i && h.sent {
						h.addSigned = true
					}
					if h.By != i && h.resolved {
						h.resSigned = true
					}
				}
			}
		}
		w.send(1-i, m)
	}
	p.expectRetx = nil
	return nil
}

func contains(s []string, v string) bool {
	for _, x := range s {
		if x == v {
			return true
		}
	}
	return false
}

// sameRetx compares retransmissions: same update sequence, same relative order
// of sig and rev, all covered updates before the sig.
func sameRetx(got, exp []string) bool {
	filter := func(s []string, ctl bool) []string {
		var o []string
		for _, x := range s {
			if (x == "sig" || x == "rev") == ctl {
				o = append(o, x)
			}
		}
		return o
	}
	if fmt.Sprint(filter(got, true)) != fmt.Sprint(filter(exp, true)) {
		return false
	}
	if fmt.Sprint(filter(got, false)) != fmt.Sprint(filter(exp, false)) {
		return false
	}
	seenSig := false
	for _, x := range got {
		if x == "sig" {
			seenSig = true
		} else if x != "rev" && seenSig {
			return false
		}
	}
	return true
}

// crashStep: party who performs `inner` but dies after its k-th durable write of
// that step; then the connection drops and both sides reload.
func (w *World) crashStep(who int, k int64, inner string) error {
	w.Stats.CrashMidStep.Add(1)
	p := w.pt[who]
	refusedBefore := p.cdb.Refused()
	p.cdb.CrashAfter(k)
	var saved *wmsg
	if strings.HasPrefix(inner, "dl>") {
		to := int(inner[3] - 'A')
		if len(w.wire[to]) > 0 {
			m := w.wire[to][0]
			saved = &m
		}
		if err := w.deliver(to); err != nil {
			return err
		}
		if to == who && p.cdb.Refused() > refusedBefore && saved != nil && (saved.kind == "sig" || saved.kind == "rev") {
			// the step did not complete durably: the message counts as undelivered
			w.wire[to] = append([]wmsg{*saved}, w.wire[to]...)
			if saved.kind == "rev" {
				// nothing
			}
		}
	} else {
		if err := w.local(int(inner[0]-'A'), inner[2:]); err != nil {
			return err
		}
	}
	return w.cut()
}

// coalesceFees models lnd's documented coalescing of fee updates: an update_fee
// that no commitment covers yet is overwritten in place by a newer one
// (updateLog.appendFeeUpdate), so of several fee updates covered by one signature
// only the last value exists in the commit diff and is retransmitted. The peer ends
// at the same fee rate, so this is not a lost update.
func coalesceFees(ms []wmsg) []wmsg {
	last := -1
	for i, m := range ms {
		if m.kind == "fee" {
			last = i
		}
	}
	var out []wmsg
	first := true
	for i, m := range ms {
		if m.kind == "fee" {
			if !first {
				continue
			}
			// the coalesced entry keeps the position (log index) of the first
			// update and carries the value of the last one
			first = false
			m = ms[last]
			_ = i
		}
		out = append(out, m)
	}
	return out
}

// probeLiveReest: party i verifies the peer's commitment_signed (in-memory chain
// advances, nothing durable yet) and then processes the peer's channel_reestablish
// on the live object. Every revoke_and_ack it returns goes through the release
// monitor. The world is dead afterwards (terminal probe).
func (w *World) probeLiveReest(i int) error {
	w.dead = true
	p, q := w.pt[i], w.pt[1-i]
	m := w.wire[i][0]
	mm := m.m.(*lnwire.CommitSig)
	err := p.ch.ReceiveNewCommitment(&lnwallet.CommitSigs{CommitSig: mm.CommitSig, HtlcSigs: mm.HtlcSigs, PartialSig: mm.PartialSig})
	if err != nil {
		w.recvErr(p, "ReceiveNewCommitment", err)
		return nil
	}
	if w.Hooks.OnMidStep != nil {
		w.Hooks.OnMidStep(w, i)
	}
	if !w.P.ProbeLiveReest {
		return nil
	}
	peerMsg, err := q.ch.State().ChanSyncMsg()
	if err != nil {
		return nil
	}
	if w.P.ReestMonitor {
		w.judgeReest(1-i, peerMsg, "live object of the signer", nil)
	}
	defer func() {
		if v := recover(); v != nil {
			w.violate("probe-live-reest-panic", fmt.Sprintf("%s.ProcessChanSyncMsg panicked on the live channel: %v", p.name, v))
		}
	}()
	msgs, _, _, err := p.ch.ProcessChanSyncMsg(ctxb, peerMsg)
	if err != nil {
		// Refusing to resynchronise a live, mid-step channel is acceptable.
		return nil
	}
	for _, r := range msgs {
		if rev, ok := r.(*lnwire.RevokeAndAck); ok {
			w.onRevoke(i, rev, true)
		}
	}
	return nil
}

// maskFields removes the named space-delimited fields ("status…", "scid…") from a
// projection so that two projections can be compared "except for" them.
func maskFields(s string, names ...string) string {
	parts := strings.Split(s, " ")
	out := parts[:0]
	for _, f := range parts {
		drop := false
		for _, n := range names {
			if strings.HasPrefix(f, n) {
				drop = true
			}
		}
		if !drop {
			out = append(out, f)
		}
	}
	return strings.Join(out, " ")
}

// probeSideWriters: through the handle of party i's channel that was loaded when
// the world was created, call every auxiliary channeldb writer; after each, the
// channel read back from disk must equal the channel read before the call except
// for the field the writer sets. In lnd these writers are called by the chain
// watcher, the channel arbitrator and the funding manager, each of which holds
// its own handle that is as old as the last start-up, while the link's handle
// moves on. The world is dead afterwards (terminal probe).
func (w *World) probeSideWriters(i int) error {
	w.dead = true
	p := w.pt[i]
	st := p.stale
	if st == nil {
		return nil
	}
	fresh := func() (*channeldb.OpenChannel, bool) {
		chans, err := p.db.ChannelStateDB().FetchOpenChannels(p.identity)
		if err != nil || len(chans) != 1 {
			w.violate("side:disk-unreadable", fmt.Sprintf("%s: cannot read channel from disk: %d channels, %v", p.name, len(chans), err))
			return nil, false
		}
		return chans[0], true
	}
	base, ok := fresh()
	if !ok {
		return nil
	}
	mask := []string{"status", "scid"}
	ref := maskFields(projection(base), mask...)
	// The durable state must also be what the live object mirrors.
	if live := maskFields(projection(p.ch.State()), mask...); live != ref {
		w.violate("side:live-differs-from-disk", fmt.Sprintf("%s: live channel state differs from the state on disk before any side writer ran:\n live %s\n disk %s", p.name, clip(live), clip(ref)))
		return nil
	}
	dummyTx := wire.NewMsgTx(2)
	dummyTx.AddTxIn(&wire.TxIn{PreviousOutPoint: base.FundingOutpoint})
	dummyTx.AddTxOut(&wire.TxOut{Value: 1000, PkScript: []byte{0x00, 0x14, 1, 2, 3, 4, 5, 6, 7, 8, 9, 10, 11, 12, 13, 14, 15, 16, 17, 18, 19, 20}})
	scid := lnwire.NewShortChanIDFromInt(uint64(700_000)<<40 | 7<<16 | 1)
	writers := []struct {
		name string
		call func() error
		own  []string // projection fields the writer is documented to set
	}{
		{"MarkCloseConfirmationHeight", func() error { return st.MarkCloseConfirmationHeight(fn.Some(uint32(700_123))) }, nil},
		{"ResetCloseConfirmationHeight", func() error { return st.ResetCloseConfirmationHeight() }, nil},
		{"MarkConfirmationHeight", func() error { return st.MarkConfirmationHeight(700_000) }, nil},
		{"MarkScidAliasNegotiated", func() error { return st.MarkScidAliasNegotiated() }, []string{"type"}},
		{"MarkRealScid", func() error { return st.MarkRealScid(scid) }, nil},
		{"MarkAsOpen", func() error { return st.MarkAsOpen(scid) }, nil},
		{"ApplyChanStatus", func() error { return st.ApplyChanStatus(channeldb.ChanStatusRemoteCloseInitiator) }, nil},
		{"ClearChanStatus", func() error { return st.ClearChanStatus(channeldb.ChanStatusRemoteCloseInitiator) }, nil},
		{"MarkShutdownSent", func() error {
			return st.MarkShutdownSent(chanstate.NewShutdownInfo(lnwire.DeliveryAddress(dummyTx.TxOut[0].PkScript), true))
		}, nil},
		{"MarkDataLoss", func() error { return st.MarkDataLoss(p.identity) }, nil},
		{"MarkCoopBroadcasted", func() error { return st.MarkCoopBroadcasted(dummyTx, lntypes.Local) }, nil},
		{"MarkCommitmentBroadcasted", func() error { return st.MarkCommitmentBroadcasted(dummyTx, lntypes.Remote) }, nil},
		{"MarkBorked", func() error { return st.MarkBorked() }, nil},
	}
	for _, wr := range writers {
		var err error
		func() {
			defer func() {
				if v := recover(); v != nil {
					err = fmt.Errorf("panic: %v", v)
				}
			}()
			err = wr.call()
		}()
		w.Stats.SideWrites.Add(1)
		if err != nil {
			// a writer may refuse (e.g. status not applicable); what it must not
			// do is change anything else.
			w.Stats.SideRefused.Add(1)
		}
		after, ok := fresh()
		if !ok {
			return nil
		}
		m := append(append([]string{}, mask...), wr.own...)
		got, want := maskFields(projection(after), m...), maskFields(ref, m...)
		ref = maskFields(projection(after), mask...)
		if got != want {
			w.violate("side:"+wr.name+":clobbers-channel-state", fmt.Sprintf("%s: %s through a handle loaded at start-up changed more than its own field on disk (commit heights before: local %d remote %d; after: local %d remote %d):\n before %s\n after  %s", p.name, wr.name, base.LocalCommitment.CommitHeight, base.RemoteCommitment.CommitHeight, after.LocalCommitment.CommitHeight, after.RemoteCommitment.CommitHeight, clip(want), clip(got)))
			return nil
		}
		// what the stale handle itself now reads back (the chain watcher calls
		// these right after marking the close height)
		if rs, err := st.RemoteRevocationStore(); err == nil && base.RevocationStore != nil {
			var a, b bytes.Buffer
			_ = rs.Encode(&a)
			_ = base.RevocationStore.Encode(&b)
			if !bytes.Equal(a.Bytes(), b.Bytes()) {
				w.violate("side:"+wr.name+":revocation-store-differs", fmt.Sprintf("%s: RemoteRevocationStore() read through the start-up handle after %s differs from the store on disk before", p.name, wr.name))
				return nil
			}
		}
	}
	return nil
}
