package chanmc

import (
	"bytes"
	"fmt"
	"sort"

	"github.com/btcsuite/btcd/btcutil/v2"
	"github.com/lightningnetwork/lnd/channeldb"
	"github.com/lightningnetwork/lnd/input"
	"github.com/lightningnetwork/lnd/lnwallet"
	"github.com/lightningnetwork/lnd/lnwallet/chainfee"
	"github.com/lightningnetwork/lnd/lnwire"
)

// view is one commitment as seen by one party.
type view struct {
	viewer int // party holding it
	owner  int // whose commitment chain it belongs to
	c      *channeldb.ChannelCommitment
	label  string
}

func (w *World) views() []view {
	var out []view
	for i := 0; i < 2; i++ {
		st := w.pt[i].ch.State()
		out = append(out, view{i, i, &st.LocalCommitment, w.pt[i].name + ".local"})
		out = append(out, view{i, 1 - i, &st.RemoteCommitment, w.pt[i].name + ".remote"})
		if tip, err := st.RemoteCommitChainTip(); err == nil && tip != nil {
			out = append(out, view{i, 1 - i, &tip.Commitment, w.pt[i].name + ".remote-pending"})
		}
	}
	return out
}

// findIntent maps an HTLC on a commitment to the script intent.
func (w *World) findIntent(v view, h *channeldb.HTLC) int {
	offerer := v.viewer
	if h.Incoming {
		offerer = 1 - v.viewer
	}
	for k, in := range w.h {
		if in.By == offerer && in.sent && in.id == h.HtlcIndex {
			return k
		}
	}
	return -1
}

// checkAll runs the per-state C01 oracles on every commitment either side holds.
func (w *World) checkAll(after string) {
	capacitySat := w.P.CapacitySat
	capMsat := capacitySat * 1000
	var anchorsMsat int64
	if w.ct.HasAnchors() {
		anchorsMsat = 2 * anchorSat * 1000
	}
	vs := w.views()
	// First pass: record on which height of which chain every HTLC is present.
	for _, v := range vs {
		for i := range v.c.Htlcs {
			k := w.findIntent(v, &v.c.Htlcs[i])
			if k < 0 {
				w.violate("unknown-htlc-on-commitment", fmt.Sprintf("after %s: %s (height %d) carries an HTLC (incoming=%v id=%d amt=%d) that nobody offered", after, v.label, v.c.CommitHeight, v.c.Htlcs[i].Incoming, v.c.Htlcs[i].HtlcIndex, v.c.Htlcs[i].Amt))
				continue
			}
			hh := w.h[k]
			if hh.seen[v.owner] == 0 || v.c.CommitHeight+1 < hh.seen[v.owner] {
				hh.seen[v.owner] = v.c.CommitHeight + 1
			}
		}
	}
	for _, v := range vs {
		w.Stats.CommitsChecked.Add(1)
		c := v.c
		present := map[int]bool{}
		var htlcSum int64
		for i := range c.Htlcs {
			htlcSum += int64(c.Htlcs[i].Amt)
			if k := w.findIntent(v, &c.Htlcs[i]); k >= 0 {
				if present[k] {
					w.violate("htlc-twice-on-commitment", fmt.Sprintf("after %s: %s lists HTLC %d twice", after, v.label, k))
				}
				present[k] = true
				if int64(c.Htlcs[i].Amt) != int64(w.h[k].Amt) || c.Htlcs[i].RHash != w.h[k].hash || c.Htlcs[i].RefundTimeout != w.h[k].Expiry {
					w.violate("htlc-fields-differ", fmt.Sprintf("after %s: %s HTLC %d has amt/hash/expiry different from what was offered", after, v.label, k))
				}
			}
		}
		// (2) conservation to the msat.
		total := int64(c.LocalBalance) + int64(c.RemoteBalance) + htlcSum + int64(c.CommitFee)*1000 + anchorsMsat
		if total != capMsat {
			w.violate("conservation:"+kindOf(v), fmt.Sprintf("after %s: %s height %d: local %d + remote %d + htlcs %d + fee %d*1000 + anchors %d = %d != capacity %d msat (diff %d)", after, v.label, c.CommitHeight, c.LocalBalance, c.RemoteBalance, htlcSum, c.CommitFee, anchorsMsat, total, capMsat, total-capMsat))
		}
		// (3) exact balances from the explorer's own HTLC table.
		opener := 0
		if w.P.OpenerB {
			opener = 1
		}
		exp := [2]int64{w.gross[0] * 1000, w.gross[1] * 1000}
		for k, hh := range w.h {
			if !hh.sent {
				continue
			}
			switch {
			case present[k]:
				exp[hh.By] -= int64(hh.Amt)
			case hh.seen[v.owner] != 0 && hh.seen[v.owner] <= c.CommitHeight:
				// was on this chain earlier and is gone: removed
				if hh.gone[v.owner] == 0 || c.CommitHeight+1 < hh.gone[v.owner] {
					hh.gone[v.owner] = c.CommitHeight + 1
				}
				if hh.Fate == "settle" {
					exp[hh.By] -= int64(hh.Amt)
					exp[1-hh.By] += int64(hh.Amt)
				}
			}
		}
		exp[opener] -= int64(c.CommitFee)*1000 + anchorsMsat
		got := [2]int64{}
		got[v.viewer], got[1-v.viewer] = int64(c.LocalBalance), int64(c.RemoteBalance)
		if got != exp {
			w.violate("balance-delta:"+kindOf(v), fmt.Sprintf("after %s: %s height %d: balances A=%d B=%d but the HTLC history implies A=%d B=%d (diff A %+d, B %+d)", after, v.label, c.CommitHeight, got[0], got[1], exp[0], exp[1], got[0]-exp[0], got[1]-exp[1]))
		}
		// fee and dust classification from first principles
		w.checkFeeAndTx(v, present, after)
	}
	// Byte-identical derivation: the signer's view of the peer's commitment equals
	// the commitment the peer stored, whenever both hold the same height.
	for i := 0; i < 2; i++ {
		loc := &w.pt[i].ch.State().LocalCommitment
		for _, v := range vs {
			if v.viewer != 1-i || v.owner != i || v.c.CommitHeight != loc.CommitHeight {
				continue
			}
			if loc.CommitTx != nil && v.c.CommitTx != nil && loc.CommitTx.TxHash() != v.c.CommitTx.TxHash() {
				w.violate("commit-tx-differs", fmt.Sprintf("after %s: %s and %s.local at height %d are different transactions", after, v.label, w.pt[i].name, loc.CommitHeight))
			}
			if commitKeyFlip(v.c) != commitKeyNoIdx(loc) {
				w.violate("commit-view-differs", fmt.Sprintf("after %s: %s = {%s} but %s.local = {%s}", after, v.label, commitKeyFlip(v.c), w.pt[i].name, commitKeyNoIdx(loc)))
			}
		}
	}
}

func kindOf(v view) string {
	if v.viewer == v.owner {
		return "local"
	}
	return "remote"
}

func commitKeyNoIdx(c *channeldb.ChannelCommitment) string {
	var s []string
	for _, h := range c.Htlcs {
		s = append(s, fmt.Sprintf("%v:%d:%d:%d", h.Incoming, h.HtlcIndex, h.Amt, h.OutputIndex))
	}
	sort.Strings(s)
	return fmt.Sprintf("h%d l%d r%d f%d k%d %v", c.CommitHeight, c.LocalBalance, c.RemoteBalance, c.CommitFee, c.FeePerKw, s)
}

// commitKeyFlip renders a remote-view commitment from the owner's perspective.
func commitKeyFlip(c *channeldb.ChannelCommitment) string {
	var s []string
	for _, h := range c.Htlcs {
		s = append(s, fmt.Sprintf("%v:%d:%d:%d", !h.Incoming, h.HtlcIndex, h.Amt, h.OutputIndex))
	}
	sort.Strings(s)
	return fmt.Sprintf("h%d l%d r%d f%d k%d %v", c.CommitHeight, c.RemoteBalance, c.LocalBalance, c.CommitFee, c.FeePerKw, s)
}

// htlcWeights returns the second-level tx weights per channel type, taken from
// the BOLT-3 constants in package input (not from lnwallet's fee helpers).
func (w *World) htlcFees(feePerKw chainfee.SatPerKWeight) (timeout, success btcutil.Amount) {
	if w.ct.ZeroHtlcTxFee() {
		return 0, 0
	}
	if w.ct.HasAnchors() {
		return feePerKw.FeeForWeight(input.HtlcTimeoutWeightConfirmed), feePerKw.FeeForWeight(input.HtlcSuccessWeightConfirmed)
	}
	return feePerKw.FeeForWeight(input.HtlcTimeoutWeight), feePerKw.FeeForWeight(input.HtlcSuccessWeight)
}

func (w *World) checkFeeAndTx(v view, present map[int]bool, after string) {
	c := v.c
	feePerKw := chainfee.SatPerKWeight(c.FeePerKw)
	toFee, sucFee := w.htlcFees(feePerKw)
	ownerDust := w.pt[v.owner].dust
	nonDust := 0
	var expOut []int64
	var dustMsat int64
	for k := range present {
		hh := w.h[k]
		sat := int64(hh.Amt) / 1000
		// On owner's commitment an HTLC offered by the owner is spent by a
		// timeout tx, one offered by the peer by a success tx.
		fee := int64(sucFee)
		if hh.By == v.owner {
			fee = int64(toFee)
		}
		if sat < ownerDust+fee {
			dustMsat += int64(hh.Amt)
			continue
		}
		nonDust++
		expOut = append(expOut, sat)
	}
	// dust verdict recorded by lnd must agree
	recNonDust := 0
	for i := range c.Htlcs {
		if c.Htlcs[i].OutputIndex >= 0 {
			recNonDust++
		}
	}
	// every recorded output index must point at an output of exactly that
	// HTLC's value, and no two HTLCs may share an index
	if c.CommitTx != nil {
		used := map[int32]bool{}
		for i := range c.Htlcs {
			idx := c.Htlcs[i].OutputIndex
			if idx < 0 {
				continue
			}
			if int(idx) >= len(c.CommitTx.TxOut) {
				w.violate("htlc-output-index-out-of-range", fmt.Sprintf("after %s: %s height %d: HTLC %d records output index %d of %d outputs", after, v.label, c.CommitHeight, c.Htlcs[i].HtlcIndex, idx, len(c.CommitTx.TxOut)))
				continue
			}
			if used[idx] {
				w.violate("htlc-output-index-shared", fmt.Sprintf("after %s: %s height %d: two HTLCs record output index %d", after, v.label, c.CommitHeight, idx))
			}
			used[idx] = true
			if got, want := c.CommitTx.TxOut[idx].Value, int64(c.Htlcs[i].Amt)/1000; got != want {
				w.violate("htlc-output-index-wrong-value", fmt.Sprintf("after %s: %s height %d: HTLC id %d (incoming=%v) of %d sat records output index %d, which is worth %d sat", after, v.label, c.CommitHeight, c.Htlcs[i].HtlcIndex, c.Htlcs[i].Incoming, want, idx, got))
			}
		}
	}
	if recNonDust != nonDust {
		w.violate("dust-classification", fmt.Sprintf("after %s: %s height %d records %d HTLC outputs, first-principles dust rule (dust %d, fee/kw %d) gives %d", after, v.label, c.CommitHeight, recNonDust, ownerDust, c.FeePerKw, nonDust))
	}
	expFee := feePerKw.FeeForWeight(lnwallet.CommitWeight(w.ct) + input.HTLCWeight*lntypesWU(nonDust))
	if expFee != c.CommitFee {
		w.violate("commit-fee", fmt.Sprintf("after %s: %s height %d: CommitFee %d, expected %d for %d non-dust HTLCs at %d sat/kw", after, v.label, c.CommitHeight, c.CommitFee, expFee, nonDust, c.FeePerKw))
	}
	if c.CommitTx == nil {
		return
	}
	ownerBal, otherBal := int64(c.LocalBalance), int64(c.RemoteBalance)
	if v.viewer != v.owner {
		ownerBal, otherBal = otherBal, ownerBal
	}
	if ownerBal/1000 >= ownerDust {
		expOut = append(expOut, ownerBal/1000)
	}
	if otherBal/1000 >= ownerDust {
		expOut = append(expOut, otherBal/1000)
	}
	var gotOut []int64
	var sum int64
	anchorsSeen := 0
	for _, o := range c.CommitTx.TxOut {
		sum += o.Value
		if w.ct.HasAnchors() && o.Value == anchorSat && anchorsSeen < 2 {
			anchorsSeen++
			continue
		}
		gotOut = append(gotOut, o.Value)
	}
	sort.Slice(expOut, func(i, j int) bool { return expOut[i] < expOut[j] })
	sort.Slice(gotOut, func(i, j int) bool { return gotOut[i] < gotOut[j] })
	if fmt.Sprint(expOut) != fmt.Sprint(gotOut) {
		w.violate("tx-outputs", fmt.Sprintf("after %s: %s height %d: tx output values %v (+%d anchors), expected %v", after, v.label, c.CommitHeight, gotOut, anchorsSeen, expOut))
	}
	if w.ct.HasAnchors() && anchorsSeen != 2 && len(gotOut) >= 2 {
		w.violate("anchors-missing", fmt.Sprintf("after %s: %s height %d has %d anchor outputs", after, v.label, c.CommitHeight, anchorsSeen))
	}
	if sum+int64(c.CommitFee) > w.P.CapacitySat {
		w.violate("outputs-exceed-capacity", fmt.Sprintf("after %s: %s height %d: outputs %d + fee %d > capacity %d", after, v.label, c.CommitHeight, sum, c.CommitFee, w.P.CapacitySat))
	}
}

// checkMirror: nothing in flight => the two sides' views are mirror images.
func (w *World) checkMirror() {
	w.Stats.MirrorChecks.Add(1)
	for i := 0; i < 2; i++ {
		a, b := w.pt[i].ch.State(), w.pt[1-i].ch.State()
		if tip, err := a.RemoteCommitChainTip(); err == nil && tip != nil {
			w.violate("mirror:pending-at-quiescence", fmt.Sprintf("%s still holds a pending remote commitment at quiescence", w.pt[i].name))
		}
		if commitKeyFlip(&a.RemoteCommitment) != commitKeyNoIdx(&b.LocalCommitment) {
			w.violate("mirror:remote-vs-peer-local", fmt.Sprintf("at quiescence %s.remote = {%s} but %s.local = {%s}", w.pt[i].name, commitKeyFlip(&a.RemoteCommitment), w.pt[1-i].name, commitKeyNoIdx(&b.LocalCommitment)))
		}
		if a.RemoteCommitment.CommitTx != nil && b.LocalCommitment.CommitTx != nil {
			var x, y bytes.Buffer
			_ = a.RemoteCommitment.CommitTx.SerializeNoWitness(&x)
			_ = b.LocalCommitment.CommitTx.SerializeNoWitness(&y)
			if !bytes.Equal(x.Bytes(), y.Bytes()) {
				w.violate("mirror:tx-bytes", fmt.Sprintf("at quiescence %s's copy of the peer commitment differs byte-wise from the peer's own", w.pt[i].name))
			}
		}
		if len(a.LocalCommitment.Htlcs) != 0 || len(a.RemoteCommitment.Htlcs) != 0 {
			w.violate("mirror:htlcs-left", fmt.Sprintf("at quiescence %s still has HTLCs on a commitment", w.pt[i].name))
		}
		if !w.pt[i].ch.IsChannelClean() {
			w.violate("mirror:not-clean", fmt.Sprintf("at quiescence %s.IsChannelClean() is false", w.pt[i].name))
		}
	}
	// Final balances: exactly the settled HTLC amounts moved.
	exp := [2]int64{w.gross[0] * 1000, w.gross[1] * 1000}
	for _, hh := range w.h {
		if hh.sent && hh.removed && hh.Fate == "settle" {
			exp[hh.By] -= int64(hh.Amt)
			exp[1-hh.By] += int64(hh.Amt)
		}
	}
	st := w.pt[0].ch.State()
	opener := 0
	if w.P.OpenerB {
		opener = 1
	}
	var anchorsMsat int64
	if w.ct.HasAnchors() {
		anchorsMsat = 2 * anchorSat * 1000
	}
	exp[opener] -= int64(st.LocalCommitment.CommitFee)*1000 + anchorsMsat
	if int64(st.LocalCommitment.LocalBalance) != exp[0] || int64(st.LocalCommitment.RemoteBalance) != exp[1] {
		w.violate("mirror:final-balances", fmt.Sprintf("final balances A=%d B=%d, expected A=%d B=%d", st.LocalCommitment.LocalBalance, st.LocalCommitment.RemoteBalance, exp[0], exp[1]))
	}
}

// onRevoke is the C06 release monitor, run on every revoke_and_ack the API returns.
func (w *World) onRevoke(i int, rev *lnwire.RevokeAndAck, retransmit bool) {
	w.Stats.RevokesChecked.Add(1)
	p := w.pt[i]
	// Which of our heights does this secret belong to?
	h := int64(-1)
	for cand := int64(0); cand <= p.lastRevoked+3; cand++ {
		s, err := p.producer.AtIndex(uint64(cand))
		if err == nil && bytes.Equal(s[:], rev.Revocation[:]) {
			h = cand
			break
		}
	}
	if h < 0 {
		w.violate("revoke:secret-not-on-chain", fmt.Sprintf("%s released a secret that is not its producer's secret for any height near %d", p.name, p.lastRevoked+1))
		return
	}
	var raw bytes.Buffer
	_ = rev.Encode(&raw, 0)
	switch {
	case h == p.lastRevoked+1:
	case h == p.lastRevoked && retransmit:
		if !w.ct.IsTaproot() && p.lastRevMsg != nil && !bytes.Equal(raw.Bytes(), p.lastRevMsg) {
			w.violate("revoke:retransmission-differs", fmt.Sprintf("%s retransmitted revoke_and_ack for height %d with different bytes", p.name, h))
		}
	default:
		w.violate("revoke:gap-or-repeat", fmt.Sprintf("%s released the secret of height %d after height %d (retransmit=%v)", p.name, h, p.lastRevoked, retransmit))
	}
	// next point must be the point of height h+2
	ns, err := p.producer.AtIndex(uint64(h + 2))
	if err == nil {
		want := input.ComputeCommitmentPoint(ns[:])
		if rev.NextRevocationKey == nil || !rev.NextRevocationKey.IsEqual(want) {
			w.violate("revoke:next-point", fmt.Sprintf("%s revoke_and_ack for height %d does not carry the commitment point of height %d", p.name, h, h+2))
		}
	}
	// Release rule: at this instant the state *on disk* must already hold a newer
	// commitment signed by the peer.
	chans, err := p.db.ChannelStateDB().FetchOpenChannels(p.identity)
	if err != nil || len(chans) != 1 {
		w.violate("revoke:disk-unreadable", fmt.Sprintf("%s: cannot read channel from disk at release time: %v", p.name, err))
	} else if int64(chans[0].LocalCommitment.CommitHeight) <= h {
		w.violate("revoke:released-before-durable", fmt.Sprintf("%s released the secret of height %d while the durable local commitment is still height %d", p.name, h, chans[0].LocalCommitment.CommitHeight))
	}
	if h > p.lastRevoked {
		p.lastRevoked = h
	}
	p.lastRevMsg = raw.Bytes()
	if w.Hooks.OnRevoke != nil {
		w.Hooks.OnRevoke(w, i, rev, retransmit)
	}
}
