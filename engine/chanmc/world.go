// Package chanmc is the two-peer channel world: two real lnwallet.LightningChannel
// state machines on two real bbolt channeldbs, connected by two explorer-owned FIFO
// wires, driven by a per-party script of application intents. It implements
// explore.World; every transition is one call sequence into the real lnd code,
// judged by oracles that only use the explorer's own bookkeeping.
//
// Only exported lnd API is used, so the harness keeps compiling under refactors.
package chanmc

import (
	"bytes"
	"context"
	"crypto/sha256"
	"errors"
	"fmt"
	"net"
	"os"
	"path/filepath"
	"sort"
	"strings"
	"sync"
	"sync/atomic"

	"github.com/btcsuite/btcd/btcec/v2"
	"github.com/btcsuite/btcd/btcutil/v2"
	"github.com/btcsuite/btcd/chainhash/v2"
	"github.com/btcsuite/btcd/wire/v2"
	"github.com/lightningnetwork/lnd/channeldb"
	"github.com/lightningnetwork/lnd/chanstate"
	"github.com/lightningnetwork/lnd/fn/v2"
	"github.com/lightningnetwork/lnd/input"
	"github.com/lightningnetwork/lnd/keychain"
	"github.com/lightningnetwork/lnd/kvdb"
	"github.com/lightningnetwork/lnd/lnwallet"
	"github.com/lightningnetwork/lnd/lnwallet/chainfee"
	"github.com/lightningnetwork/lnd/lnwire"
	"github.com/lightningnetwork/lnd/shachain"
	"github.com/lightningnetwork/lnd/verifmc/crashdb"
)

// Channel types of the C01 quantifier.
var ChanTypes = map[string]chanstate.ChannelType{
	"legacy":    chanstate.SingleFunderBit,
	"tweakless": chanstate.SingleFunderTweaklessBit,
	"anchors":   chanstate.SingleFunderTweaklessBit | chanstate.AnchorOutputsBit,
	"zerofee":   chanstate.SingleFunderTweaklessBit | chanstate.AnchorOutputsBit | chanstate.ZeroHtlcTxFeeBit,
	"lease": chanstate.SingleFunderTweaklessBit | chanstate.AnchorOutputsBit | chanstate.ZeroHtlcTxFeeBit |
		chanstate.LeaseExpirationBit,
	"taproot": chanstate.SingleFunderTweaklessBit | chanstate.AnchorOutputsBit | chanstate.ZeroHtlcTxFeeBit |
		chanstate.SimpleTaprootFeatureBit,
	"taprootfinal": chanstate.SingleFunderTweaklessBit | chanstate.AnchorOutputsBit | chanstate.ZeroHtlcTxFeeBit |
		chanstate.SimpleTaprootFeatureBit | chanstate.TaprootFinalBit,
}

// AllTypes in a fixed order.
var AllTypes = []string{"legacy", "tweakless", "anchors", "zerofee", "lease", "taproot", "taprootfinal"}

// Intent is one application-level HTLC of a script.
type Intent struct {
	By     int    `json:"by"`     // 0 = A offers, 1 = B offers
	Amt    uint64 `json:"amt"`    // msat
	Fate   string `json:"fate"`   // settle | fail | malformed
	Dup    int    `json:"dup"`    // intents with equal non-zero Dup share hash and expiry
	Expiry uint32 `json:"expiry"` // 0 = default
}

// Params describe one world.
type Params struct {
	Type     string   `json:"type"`
	OpenerB  bool     `json:"opener_b"`
	DustA    int64    `json:"dust_a"`
	DustB    int64    `json:"dust_b"`
	FeePerKw int64    `json:"fee_per_kw"`
	Script   []Intent `json:"script"`
	Fees     []int64  `json:"fees"` // update_fee values sent by the opener, in order
	// MaxCuts is the disconnect budget (both sides reload from disk).
	MaxCuts int `json:"max_cuts"`
	// CrashPoints enables crash-inside-a-step actions (C02).
	CrashPoints bool `json:"crash_points"`
	// NoDLP strips the data-loss-protect fields from channel_reestablish.
	NoDLP bool `json:"no_dlp"`
	// CapacitySat is the channel capacity (default 10 BTC); GrossA is A's gross
	// share in satoshi before the opener's fee/anchors (default half; a negative
	// value means exactly 0); ReserveSat
	// is each side's channel reserve (default capacity/100).
	CapacitySat int64 `json:"capacity_sat,omitempty"`
	GrossA      int64 `json:"gross_a,omitempty"`
	ReserveSat  int64 `json:"reserve_sat,omitempty"`
	// ProbeLiveReest adds the terminal action `probe>X` wherever X's wire head is
	// a commitment_signed: X runs ReceiveNewCommitment only and then answers the
	// peer's channel_reestablish on the LIVE object (no reload). lnd's link never
	// does this, but the API allows it, and it is the one instant at which the
	// in-memory commitment chain is ahead of the durable one (C06 release rule).
	ProbeLiveReest bool `json:"probe_live_reest,omitempty"`
	// ProbeMidStep adds the same terminal `probe>X` action and calls
	// Hooks.OnMidStep after X's ReceiveNewCommitment and before its
	// RevokeCurrentCommitment (the link makes the two calls back to back but
	// releases the channel mutex in between, so e.g. a force close can land there).
	ProbeMidStep bool `json:"probe_mid_step,omitempty"`
	// SideWriters adds the terminal action `side>X` in every state: through a
	// second handle of X's channel that was loaded when the world was created (what
	// the chain watcher, the arbitrator and the funding manager hold in lnd), every
	// auxiliary channeldb writer (close/confirmation height, SCID, status flags,
	// shutdown info, data-loss point, broadcast markers) is called, and after each
	// the channel re-read from disk must equal the channel read before, except for
	// the field the writer is documented to set.
	SideWriters bool `json:"side_writers,omitempty"`
	// ReestMonitor judges every channel_reestablish a party produces (at each cut,
	// in the live-object probe, and wherever the harness calls CheckReestHere)
	// field by field against the explorer's own derivation: see reest.go.
	ReestMonitor bool `json:"reest_monitor,omitempty"`
	// SplitRevoke makes the answer to a commitment_signed a step of its own: the
	// delivery runs ReceiveNewCommitment only and the receiver then owes a
	// revoke_and_ack, sent by the action `X.rev`. `X.rev` is listed first (the eager
	// default is lnd's link: revoke at once), but X may first sign, add, resolve or
	// take deliveries - e.g. send its own commitment_signed BEFORE its
	// revoke_and_ack, a legal order inside the one-unacked-commitment window that
	// lnd's link never produces but lnwallet's API and other implementations allow.
	// Only for worlds without cuts (the reconnect model assumes the link's order).
	SplitRevoke bool `json:"split_revoke,omitempty"`
	// ByzRevocation adds the terminal action `byz>X` wherever the head of X's wire
	// is a revoke_and_ack: X is handed a lattice of wrong revocations (byz.go).
	ByzRevocation bool `json:"byz_revocation,omitempty"`
	// CutOnlyInSync restricts second and later cuts to states where
	// resynchronisation is still in progress (quick tier of C02/C03).
	CutOnlyInSync bool `json:"cut_only_in_sync"`
	// Bounds are optional per-party channel-state bounds (index 0 = the bounds in
	// A's ChannelConfig, 1 = B's); a zero field keeps the default of chanCfg
	// (max HTLCs 241, max pending = capacity, min HTLC 0, reserve = ReserveSat).
	// The defaults never bind; these let a harness put either side's
	// max_accepted_htlcs / max_htlc_value_in_flight / htlc_minimum / reserve at a
	// boundary, and make the two sides' bounds differ.
	Bounds [2]Bounds `json:"bounds,omitempty"`
}

// Bounds are the optional per-party overrides of Params.Bounds.
type Bounds struct {
	MaxHtlcs       uint16 `json:"max_htlcs,omitempty"`
	MaxPendingMsat uint64 `json:"max_pending_msat,omitempty"`
	MinHtlcMsat    uint64 `json:"min_htlc_msat,omitempty"`
	ReserveSat     int64  `json:"reserve_sat,omitempty"`
}

func (b Bounds) apply(c *channeldb.ChannelConfig) {
	if b.MaxHtlcs != 0 {
		c.MaxAcceptedHtlcs = b.MaxHtlcs
	}
	if b.MaxPendingMsat != 0 {
		c.MaxPendingAmount = lnwire.MilliSatoshi(b.MaxPendingMsat)
	}
	if b.MinHtlcMsat != 0 {
		c.MinHTLC = lnwire.MilliSatoshi(b.MinHtlcMsat)
	}
	if b.ReserveSat != 0 {
		c.ChanReserve = btcutil.Amount(b.ReserveSat)
	}
}

// Normalize fills in defaults.
func (p Params) Normalize() Params {
	if p.FeePerKw == 0 {
		p.FeePerKw = 6000
	}
	if p.DustA == 0 {
		p.DustA = 200
	}
	if p.DustB == 0 {
		p.DustB = 1300
	}
	if p.CapacitySat == 0 {
		p.CapacitySat = defaultCapacitySat
	}
	if p.GrossA == 0 {
		p.GrossA = p.CapacitySat / 2
	}
	if p.ReserveSat == 0 {
		p.ReserveSat = p.CapacitySat / 100
	}
	return p
}

// Name is a short label.
func (p Params) Name() string {
	p = p.Normalize()
	o := "A"
	if p.OpenerB {
		o = "B"
	}
	var s []string
	for _, i := range p.Script {
		s = append(s, fmt.Sprintf("%c%d%s", 'A'+i.By, i.Amt, i.Fate[:1]))
	}
	name := fmt.Sprintf("%s/open%s/dust%d-%d/%s/fees%v/cuts%d", p.Type, o, p.DustA, p.DustB, strings.Join(s, ","), p.Fees, p.MaxCuts)
	// optional knobs appear in the label only when set (default labels unchanged)
	if p.Bounds != ([2]Bounds{}) {
		name += fmt.Sprintf("/bounds%v", p.Bounds)
	}
	if p.SplitRevoke {
		name += "/split"
	}
	return name
}

const (
	defaultCapacitySat = 10 * 100_000_000
	anchorSat          = 330
	csvA               = 5
	csvB               = 4
	thawHeight         = 500_000
)

// Violation is reported through this callback.
type Reporter func(sig, what string, hist []string, p Params)

type wmsg struct {
	kind string // add settle fail malformed fee sig rev reest
	k    int    // intent index (add/settle/fail/malformed) or fee index
	m    lnwire.Message
	// covered: for sig messages, the update messages it covers (reference
	// model for retransmission).
	id int // unique send id
}

type party struct {
	idx      int
	name     string
	ch       *lnwallet.LightningChannel
	db       *channeldb.DB
	cdb      *crashdb.DB
	signer   *input.MockSigner
	pool     *lnwallet.SigPool
	keys     []*btcec.PrivateKey
	producer shachain.Producer
	identity *btcec.PublicKey
	dust     int64
	opener   bool

	// stale is a second handle of this party's channel, loaded at world start.
	stale *channeldb.OpenChannel

	needSync       bool
	lastWasRevoke  bool
	awaitingRevoke bool
	owesRevoke     bool // SplitRevoke: received a commitment_signed, revoke_and_ack not sent yet
	signedOwing    bool // SplitRevoke: already sent one commitment_signed while owing that revocation
	// lastRevoked is the highest own height revoked so far (-1 none), and the
	// exact message, for the C06 release monitor.
	lastRevoked int64
	lastRevMsg  []byte
	// revsIn counts the peer's revoke_and_acks this party accepted (reference for
	// next_revocation_number in the channel_reestablish monitor).
	revsIn int64
	// expectRetx is the reference model's expectation for what this party must
	// retransmit when it processes the peer's channel_reestablish.
	expectRetx []string
	// unsignedSent are updates sent since this party's last commit_sig.
	unsignedSent []wmsg
	// lastSigCovered are the updates covered by this party's last commit_sig.
	lastSigCovered []wmsg
}

type htlc struct {
	Intent
	sent      bool // AddHTLC done, id valid
	refused   bool // AddHTLC returned a constraint error; intent dropped
	id        uint64
	addSigned bool // covered by a commit_sig of the offerer
	locked    bool // receiver saw it in FwdPkg.Adds (may resolve now)
	resolved  bool // receiver called Settle/Fail
	resSigned bool // resolution covered by a commit_sig of the receiver
	removed   bool // offerer saw the resolution in FwdPkg.SettleFails
	// addRestored / resRestored: the in-memory log entry of the add / of the
	// resolution was rebuilt from disk by a reload (rather than created by the
	// API call). Part of the canonical key: a restore bug makes the two differ.
	addRestored bool
	resRestored bool
	preimage    [32]byte
	hash        [32]byte
	// seen[o] = 1 + first height of chain owner o on which it appeared (0 = never)
	seen [2]uint64
	// gone[o] = 1 + first height of chain owner o on which it was absent again
	gone [2]uint64
}

// World implements explore.World.
type World struct {
	P    Params
	ct   chanstate.ChannelType
	pt   [2]*party
	wire [2][]wmsg // wire[i]: messages in flight TO party i
	h    []*htlc
	// fee updates
	feeSent   int
	feeSigned int
	// feeRestored[k]: the opener's log entry of fee update k was rebuilt from disk.
	feeRestored []bool
	cuts        int
	gross       [2]int64 // gross shares in satoshi (before opener fee/anchors)
	hist        []string
	report      Reporter
	dir         string
	sendSeq     int
	closed      bool
	dead        bool // a terminal probe consumed this world
	// Hooks for other properties riding on the same exploration.
	Hooks Hooks
	// counters
	Stats *Stats
	// write counts per action kind observed in this world
	lastWrites [2]int64
}

// Hooks let C02..C06 observe the world.
type Hooks struct {
	// AfterStep is called after every successful Do.
	AfterStep func(w *World, action string)
	// OnRevoke is called for every revoke_and_ack returned by the API.
	OnRevoke func(w *World, p int, rev *lnwire.RevokeAndAck, retransmit bool)
	// OnMidStep is called by the terminal probe action between party p's
	// ReceiveNewCommitment and RevokeCurrentCommitment (local chain tip is one
	// ahead of the durable tail).
	OnMidStep func(w *World, p int)
	// OnReload is called for each party after it reloaded, with the pre-crash
	// projection taken just before.
	OnReload func(w *World, p int)
}

// Stats are shared counters.
type Stats struct {
	SigsVerified    atomic.Int64
	CommitsChecked  atomic.Int64
	Reloads         atomic.Int64
	Retransmissions atomic.Int64
	ConstraintNoops atomic.Int64
	MirrorChecks    atomic.Int64
	RevokesChecked  atomic.Int64
	CrashMidStep    atomic.Int64
	MaxWrites       atomic.Int64
	SideWrites      atomic.Int64
	SideRefused     atomic.Int64
	// channel_reestablish monitor: messages judged, and how many of them were
	// built with equal / local-ahead / remote-ahead durable heights.
	ReestChecked     atomic.Int64
	ReestInSync      atomic.Int64
	ReestLocalAhead  atomic.Int64
	ReestRemoteAhead atomic.Int64
}

var ctxb = context.Background()

var dirSeq atomic.Int64

func privs(seed byte) []*btcec.PrivateKey {
	var out []*btcec.PrivateKey
	for i := 0; i < 5; i++ {
		var k [32]byte
		for j := range k {
			k[j] = seed + byte(j*7)
		}
		k[0] = seed
		k[1] = byte(i + 1)
		p, _ := btcec.PrivKeyFromBytes(k[:])
		out = append(out, p)
	}
	return out
}

func chanCfg(keys []*btcec.PrivateKey, dust int64, csv uint16, capacitySat, reserve int64) channeldb.ChannelConfig {
	return channeldb.ChannelConfig{
		ChannelStateBounds: channeldb.ChannelStateBounds{
			MaxPendingAmount: lnwire.NewMSatFromSatoshis(btcutil.Amount(capacitySat)),
			ChanReserve:      btcutil.Amount(reserve),
			MinHTLC:          0,
			MaxAcceptedHtlcs: input.MaxHTLCNumber / 2,
		},
		CommitmentParams: channeldb.CommitmentParams{
			DustLimit: btcutil.Amount(dust),
			CsvDelay:  csv,
		},
		MultiSigKey:         keychain.KeyDescriptor{PubKey: keys[0].PubKey()},
		RevocationBasePoint: keychain.KeyDescriptor{PubKey: keys[1].PubKey()},
		PaymentBasePoint:    keychain.KeyDescriptor{PubKey: keys[2].PubKey()},
		DelayBasePoint:      keychain.KeyDescriptor{PubKey: keys[3].PubKey()},
		HtlcBasePoint:       keychain.KeyDescriptor{PubKey: keys[4].PubKey()},
	}
}

// New builds a world in its initial state (funding just completed).
func New(p Params, report Reporter, stats *Stats) (*World, error) {
	ct, ok := ChanTypes[p.Type]
	if !ok {
		return nil, fmt.Errorf("unknown channel type %q", p.Type)
	}
	p = p.Normalize()
	if stats == nil {
		stats = &Stats{}
	}
	w := &World{P: p, ct: ct, report: report, Stats: stats}
	// GrossA < 0 stands for "A starts with exactly 0" (0 itself means default).
	grossA := p.GrossA
	if grossA < 0 {
		grossA = 0
	}
	w.gross = [2]int64{grossA, p.CapacitySat - grossA}
	capacitySat := btcutil.Amount(p.CapacitySat)
	base := os.Getenv("VERIF_SCRATCH")
	if base == "" {
		base = os.TempDir()
	}
	w.dir = filepath.Join(base, fmt.Sprintf("w%d.%d", os.Getpid(), dirSeq.Add(1)))
	_ = os.RemoveAll(w.dir)

	keys := [2][]*btcec.PrivateKey{privs(0x21), privs(0x83)}
	cfgs := [2]channeldb.ChannelConfig{
		chanCfg(keys[0], p.DustA, csvA, p.CapacitySat, p.ReserveSat), chanCfg(keys[1], p.DustB, csvB, p.CapacitySat, p.ReserveSat),
	}
	for i := range cfgs {
		p.Bounds[i].apply(&cfgs[i])
	}
	var (
		producers [2]*shachain.RevocationProducer
		points    [2]*btcec.PublicKey
	)
	for i := 0; i < 2; i++ {
		root, err := chainhash.NewHash(keys[i][0].Serialize())
		if err != nil {
			return nil, err
		}
		producers[i] = shachain.NewRevocationProducer(*root)
		first, err := producers[i].AtIndex(0)
		if err != nil {
			return nil, err
		}
		points[i] = input.ComputeCommitmentPoint(first[:])
	}
	prevOut := &wire.OutPoint{Hash: chainhash.Hash(sha256.Sum256([]byte("verif-funding"))), Index: 1}
	fundingTxIn := wire.NewTxIn(prevOut, nil, nil)

	op, np := 0, 1 // opener, non-opener
	if p.OpenerB {
		op, np = 1, 0
	}
	var lease uint32
	if ct.HasLeaseExpiration() {
		lease = thawHeight
	}
	// CreateCommitmentTxns takes the initiator's view as "local".
	feePerKw := chainfee.SatPerKWeight(p.FeePerKw)
	commitFee := feePerKw.FeeForWeight(lnwallet.CommitWeight(ct))
	var anchors btcutil.Amount
	if ct.HasAnchors() {
		anchors = 2 * anchorSat
	}
	opTx, npTx, err := lnwallet.CreateCommitmentTxns(
		btcutil.Amount(w.gross[op])-commitFee-anchors, btcutil.Amount(w.gross[np]), &cfgs[op], &cfgs[np], points[op], points[np],
		*fundingTxIn, ct, true, lease,
	)
	if err != nil {
		return nil, fmt.Errorf("CreateCommitmentTxns: %w", err)
	}
	commitTx := [2]*wire.MsgTx{}
	commitTx[op], commitTx[np] = opTx, npTx

	bal := [2]lnwire.MilliSatoshi{}
	bal[op] = lnwire.NewMSatFromSatoshis(btcutil.Amount(w.gross[op]) - commitFee - anchors)
	bal[np] = lnwire.NewMSatFromSatoshis(btcutil.Amount(w.gross[np]))

	fakeSig := bytes.Repeat([]byte{0x30}, 70)
	var tapRoot fn.Option[chainhash.Hash]
	if ct.HasTapscriptRoot() {
		tapRoot = fn.Some(chainhash.Hash(sha256.Sum256([]byte("verif-taproot"))))
	}
	scid := lnwire.NewShortChanIDFromInt(0x0001_0000_0200_0003)

	fundingTx := wire.NewMsgTx(2)
	fundingTx.AddTxIn(wire.NewTxIn(&wire.OutPoint{Index: 7}, nil, nil))
	fundingTx.AddTxOut(wire.NewTxOut(int64(capacitySat), []byte{0x00, 0x14, 1, 2, 3, 4, 5, 6, 7, 8, 9, 10, 11, 12, 13, 14, 15, 16, 17, 18, 19, 20}))
	for i := 0; i < 2; i++ {
		o := 1 - i
		pp := &party{idx: i, name: string(rune('A' + i)), keys: keys[i], producer: producers[i],
			identity: keys[i][0].PubKey(), opener: i == op, lastRevoked: -1}
		pp.dust = int64(cfgs[i].DustLimit)
		dbdir := filepath.Join(w.dir, pp.name)
		if err := os.MkdirAll(dbdir, 0o755); err != nil {
			return nil, err
		}
		backend, err := kvdb.GetBoltBackend(&kvdb.BoltBackendConfig{
			DBPath: dbdir, DBFileName: "channel.db", NoFreelistSync: true,
			AutoCompact: false, AutoCompactMinAge: kvdb.DefaultBoltAutoCompactMinAge,
			DBTimeout: kvdb.DefaultDBTimeout,
		})
		if err != nil {
			return nil, err
		}
		pp.cdb = crashdb.New(backend)
		pp.db, err = channeldb.CreateWithBackend(pp.cdb)
		if err != nil {
			return nil, err
		}
		local := channeldb.ChannelCommitment{
			CommitHeight: 0, LocalBalance: bal[i], RemoteBalance: bal[o],
			CommitFee: commitFee, FeePerKw: btcutil.Amount(feePerKw),
			CommitTx: commitTx[i], CommitSig: fakeSig,
		}
		remote := channeldb.ChannelCommitment{
			CommitHeight: 0, LocalBalance: bal[i], RemoteBalance: bal[o],
			CommitFee: commitFee, FeePerKw: btcutil.Amount(feePerKw),
			CommitTx: commitTx[o], CommitSig: fakeSig,
		}
		st := &chanstate.OpenChannel{
			LocalChanCfg: cfgs[i], RemoteChanCfg: cfgs[o],
			IdentityPub:     keys[o][0].PubKey(), // the *peer's* identity keys the channel bucket
			FundingOutpoint: *prevOut, ShortChannelID: scid, ChanType: ct,
			IsInitiator: i == op, Capacity: capacitySat,
			RemoteCurrentRevocation: points[o],
			RevocationProducer:      producers[i],
			RevocationStore:         shachain.NewRevocationStore(),
			LocalCommitment:         local, RemoteCommitment: remote,
			Db:            pp.db.ChannelStateDB(),
			FundingTxn:    fundingTx,
			TapscriptRoot: tapRoot,
			ThawHeight:    lease,
		}
		pp.identity = keys[o][0].PubKey()
		pp.signer = input.NewMockSigner(keys[i], nil)
		pp.pool = lnwallet.NewSigPool(1, pp.signer)
		pp.ch, err = lnwallet.NewLightningChannel(pp.signer, st, pp.pool,
			lnwallet.WithLeafStore(&lnwallet.MockAuxLeafStore{}))
		if err != nil {
			return nil, fmt.Errorf("NewLightningChannel: %w", err)
		}
		if err := pp.pool.Start(); err != nil {
			return nil, err
		}
		w.pt[i] = pp
	}
	obf := lnwallet.DeriveStateHintObfuscator(
		cfgs[op].PaymentBasePoint.PubKey, cfgs[np].PaymentBasePoint.PubKey,
	)
	for i := 0; i < 2; i++ {
		if err := lnwallet.SetStateNumHint(commitTx[i], 0, obf); err != nil {
			return nil, err
		}
	}
	for i := 0; i < 2; i++ {
		addr := &net.TCPAddr{IP: net.ParseIP("127.0.0.1"), Port: 18555 + i}
		if err := w.pt[i].ch.State().SyncPending(addr, 101); err != nil {
			return nil, fmt.Errorf("SyncPending: %w", err)
		}
	}
	if ct.IsTaproot() {
		na, err := w.pt[0].ch.GenMusigNonces()
		if err != nil {
			return nil, err
		}
		nb, err := w.pt[1].ch.GenMusigNonces()
		if err != nil {
			return nil, err
		}
		if err := w.pt[0].ch.InitRemoteMusigNonces(nb); err != nil {
			return nil, err
		}
		if err := w.pt[1].ch.InitRemoteMusigNonces(na); err != nil {
			return nil, err
		}
	}
	for i := 0; i < 2; i++ {
		k, err := w.pt[i].ch.NextRevocationKey()
		if err != nil {
			return nil, err
		}
		if err := w.pt[1-i].ch.InitNextRevocation(k); err != nil {
			return nil, err
		}
	}
	for k, in := range p.Script {
		hh := &htlc{Intent: in}
		tag := fmt.Sprintf("verif-preimage-%d", k)
		if in.Dup != 0 {
			tag = fmt.Sprintf("verif-preimage-dup-%d", in.Dup)
		}
		hh.preimage = sha256.Sum256([]byte(tag))
		hh.hash = sha256.Sum256(hh.preimage[:])
		if hh.Expiry == 0 {
			hh.Expiry = 144 + uint32(10*k)
			if in.Dup != 0 {
				hh.Expiry = 144 + uint32(1000*in.Dup)
			}
		}
		w.h = append(w.h, hh)
	}
	if p.SideWriters {
		for i := 0; i < 2; i++ {
			chans, err := w.pt[i].db.ChannelStateDB().FetchOpenChannels(w.pt[i].identity)
			if err != nil || len(chans) != 1 {
				return nil, fmt.Errorf("stale handle: %d channels, %v", len(chans), err)
			}
			w.pt[i].stale = chans[0]
		}
	}
	w.checkAll("init")
	return w, nil
}

// Close releases DB handles and sig pools.
func (w *World) Close() {
	if w.closed {
		return
	}
	w.closed = true
	for _, p := range w.pt {
		if p == nil {
			continue
		}
		if p.pool != nil {
			_ = p.pool.Stop()
		}
		if p.db != nil {
			_ = p.db.Close()
		}
	}
	_ = os.RemoveAll(w.dir)
}

// Party accessors for harnesses.
func (w *World) Chan(i int) *lnwallet.LightningChannel { return w.pt[i].ch }
func (w *World) Signer(i int) *input.MockSigner        { return w.pt[i].signer }
func (w *World) Keys(i int) []*btcec.PrivateKey        { return w.pt[i].keys }
func (w *World) Producer(i int) shachain.Producer      { return w.pt[i].producer }
func (w *World) ChanType() chanstate.ChannelType       { return w.ct }
func (w *World) Hist() []string                        { return append([]string{}, w.hist...) }
func (w *World) DB(i int) *channeldb.DB                { return w.pt[i].db }
func (w *World) CrashDB(i int) *crashdb.DB             { return w.pt[i].cdb }
func (w *World) Preimage(k int) [32]byte               { return w.h[k].preimage }
func (w *World) NumIntents() int                       { return len(w.h) }
func (w *World) Cuts() int                             { return w.cuts }

// IntentByHash finds the preimage for a payment hash (for C05).
func (w *World) PreimageFor(hash [32]byte) ([32]byte, bool) {
	for _, h := range w.h {
		if h.hash == hash {
			return h.preimage, true
		}
	}
	return [32]byte{}, false
}

// Violate lets a hook report a violation found on this world (history attached).
func (w *World) Violate(sig, what string) { w.violate(sig, what) }

// Intent returns script entry k and its lnd HTLC id (valid once sent).
func (w *World) Intent(k int) (in Intent, id uint64, sent bool) {
	return w.h[k].Intent, w.h[k].id, w.h[k].sent
}

// Dust returns party i's dust limit in satoshi.
func (w *World) Dust(i int) int64 { return w.pt[i].dust }

// Opener returns the index of the channel opener.
func (w *World) Opener() int {
	if w.P.OpenerB {
		return 1
	}
	return 0
}

// LastRevoked is the highest own height whose secret party i has released (-1: none).
func (w *World) LastRevoked(i int) int64 { return w.pt[i].lastRevoked }

func (w *World) violate(sig, what string) {
	if w.report != nil {
		w.report(sig, what, w.Hist(), w.P)
	}
}

func (w *World) send(to int, m wmsg) {
	w.sendSeq++
	m.id = w.sendSeq
	w.wire[to] = append(w.wire[to], m)
}

// isConstraint classifies errors that are legitimate refusals (not disagreements).
func isConstraint(err error) bool {
	if err == nil {
		return false
	}
	for _, c := range []error{
		lnwallet.ErrBelowChanReserve, lnwallet.ErrMaxHTLCNumber, lnwallet.ErrMaxPendingAmount,
		lnwallet.ErrBelowMinHTLC, lnwallet.ErrFeeBufferNotInitiator, lnwallet.ErrInvalidHTLCAmt,
	} {
		if errors.Is(err, c) {
			return true
		}
	}
	s := err.Error()
	return strings.Contains(s, "commitment transaction dips peer below chan reserve") ||
		strings.Contains(s, "exceeds max fee exposure")
}

func sigErr(err error) bool {
	var a *lnwallet.InvalidCommitSigError
	var b *lnwallet.InvalidHtlcSigError
	var c *lnwallet.InvalidPartialCommitSigError
	return errors.As(err, &a) || errors.As(err, &b) || errors.As(err, &c)
}

// Enabled lists enabled actions; index 0 is the eager default.
func (w *World) Enabled() []string {
	var acts []string
	if w.dead {
		return nil
	}
	for i := 0; i < 2; i++ {
		if w.pt[i].owesRevoke && !w.pt[i].needSync {
			acts = append(acts, w.pt[i].name+".rev")
		}
	}
	for i := 0; i < 2; i++ {
		if len(w.wire[i]) > 0 {
			acts = append(acts, "dl>"+w.pt[i].name)
		}
	}
	for i := 0; i < 2; i++ {
		p := w.pt[i]
		if p.needSync {
			continue
		}
		// SplitRevoke bound: at most one commitment_signed between receiving a
		// commitment_signed and revoking (lnd reports OweCommitment again and again
		// in that window; empty commitments would ping-pong without bound).
		if !p.awaitingRevoke && p.ch.OweCommitment() && !(p.owesRevoke && p.signedOwing) {
			acts = append(acts, p.name+".sign")
		}
	}
	for k, h := range w.h {
		r := w.pt[1-h.By]
		if h.sent && h.locked && !h.resolved && !r.needSync {
			acts = append(acts, fmt.Sprintf("%s.%s%d", r.name, h.Fate, k))
		}
	}
	for k, h := range w.h {
		o := w.pt[h.By]
		if !h.sent && !h.refused && !o.needSync {
			// adds of one party are issued in script order
			first := true
			for j := 0; j < k; j++ {
				if w.h[j].By == h.By && !w.h[j].sent && !w.h[j].refused {
					first = false
				}
			}
			if first {
				acts = append(acts, fmt.Sprintf("%s.add%d", o.name, k))
			}
		}
	}
	if w.feeSent < len(w.P.Fees) {
		for i := 0; i < 2; i++ {
			if w.pt[i].opener && !w.pt[i].needSync {
				acts = append(acts, fmt.Sprintf("%s.fee%d", w.pt[i].name, w.feeSent))
			}
		}
	}
	if w.P.ProbeLiveReest || w.P.ProbeMidStep {
		for i := 0; i < 2; i++ {
			if len(w.wire[i]) > 0 && w.wire[i][0].kind == "sig" && !w.pt[i].needSync && !w.pt[1-i].needSync {
				acts = append(acts, "probe>"+w.pt[i].name)
			}
		}
	}
	if w.P.SideWriters {
		for i := 0; i < 2; i++ {
			if !w.pt[i].needSync {
				acts = append(acts, "side>"+w.pt[i].name)
			}
		}
	}
	acts = w.byzActs(acts) // no-op unless Params.ByzRevocation
	if w.P.CrashPoints && w.cuts < w.P.MaxCuts {
		// A step that performs W>=2 durable writes has W-1 interior crash
		// points (k=0 and k=W coincide with a cut before/after the step).
		n := len(acts)
		for _, a := range acts[:n] {
			kind := w.kindOf(a)
			for who := 0; who < 2; who++ {
				wmax := writesTable(w.P.Type, kind, who)
				for k := int64(1); k < wmax; k++ {
					acts = append(acts, fmt.Sprintf("crash%d:%s:%s", k, w.pt[who].name, a))
				}
			}
		}
	}
	if w.cuts < w.P.MaxCuts && len(w.hist) > 0 {
		inSync := w.pt[0].needSync || w.pt[1].needSync
		// A cut directly after a cut is a no-op; skip it.
		if w.hist[len(w.hist)-1] != "cut" && (w.cuts == 0 || !w.P.CutOnlyInSync || inSync) {
			acts = append(acts, "cut")
		}
	}
	return acts
}

// Terminal checks liveness and the mirror property when nothing is enabled.
func (w *World) Terminal() {
	if w.dead {
		return
	}
	for k, h := range w.h {
		if h.refused {
			continue
		}
		if !h.sent || !h.removed {
			w.violate("stuck-htlc", fmt.Sprintf("no action enabled but HTLC %d is not fully resolved (sent=%v locked=%v resolved=%v removed=%v)", k, h.sent, h.locked, h.resolved, h.removed))
			return
		}
	}
	if w.feeSent < len(w.P.Fees) {
		w.violate("stuck-fee", "fee update never became possible")
	}
	for i := 0; i < 2; i++ {
		if w.pt[i].needSync || w.pt[i].awaitingRevoke {
			w.violate("stuck-sync", fmt.Sprintf("party %s still waiting (needSync=%v awaitingRevoke=%v) with empty wires", w.pt[i].name, w.pt[i].needSync, w.pt[i].awaitingRevoke))
			return
		}
	}
	w.checkMirror()
}

// Do performs one action.
func (w *World) Do(a string) error {
	kind := ""
	if a != "cut" && !strings.HasPrefix(a, "crash") && !strings.HasPrefix(a, "probe>") && !strings.HasPrefix(a, "side>") && !strings.HasPrefix(a, "byz>") {
		kind = w.kindOf(a)
	}
	w.hist = append(w.hist, a)
	before := [2]int64{w.pt[0].cdb.Commits(), w.pt[1].cdb.Commits()}
	var err error
	switch {
	case a == "cut":
		err = w.cut()
	case strings.HasPrefix(a, "dl>"):
		err = w.deliver(int(a[3] - 'A'))
	case strings.HasPrefix(a, "probe>"):
		err = w.probeLiveReest(int(a[6] - 'A'))
	case strings.HasPrefix(a, "byz>"):
		err = w.byzProbe(int(a[4] - 'A'))
	case strings.HasPrefix(a, "side>"):
		err = w.probeSideWriters(int(a[5] - 'A'))
	case strings.HasPrefix(a, "crash"):
		// crash<k>:<X>:<inner action>: party X's k-th durable write from now
		// succeeds, every later one fails; then both sides reconnect.
		var k int64
		var who byte
		var inner string
		parts := strings.SplitN(a, ":", 3)
		if len(parts) != 3 {
			return fmt.Errorf("bad crash action %q", a)
		}
		fmt.Sscanf(parts[0], "crash%d", &k)
		who = parts[1][0]
		inner = parts[2]
		err = w.crashStep(int(who-'A'), k, inner)
	default:
		i := int(a[0] - 'A')
		if i < 0 || i > 1 || len(a) < 3 || a[1] != '.' {
			return fmt.Errorf("unknown action %q", a)
		}
		err = w.local(i, a[2:])
	}
	if err != nil {
		return err
	}
	for i := 0; i < 2; i++ {
		d := w.pt[i].cdb.Commits() - before[i]
		w.lastWrites[i] = d
		if d > w.Stats.MaxWrites.Load() {
			w.Stats.MaxWrites.Store(d)
		}
		if kind != "" {
			noteWrites(w.P.Type, kind, i, d)
		}
	}
	w.checkAll(a)
	if w.Hooks.AfterStep != nil {
		w.Hooks.AfterStep(w, a)
	}
	return nil
}

// LastWrites are the durable writes each party performed in the last action.
func (w *World) LastWrites() [2]int64 { return w.lastWrites }

func parseIdx(s, prefix string) int {
	var k int
	fmt.Sscanf(strings.TrimPrefix(s, prefix), "%d", &k)
	return k
}

var onion = func() [lnwire.OnionPacketSize]byte {
	var b [lnwire.OnionPacketSize]byte
	for i := range b {
		b[i] = 5
	}
	return b
}()

func (w *World) local(i int, op string) error {
	p := w.pt[i]
	chanID := lnwire.NewChanIDFromOutPoint(p.ch.ChannelPoint())
	switch {
	case op == "rev":
		if !p.owesRevoke {
			return fmt.Errorf("%s.rev: no revocation owed", p.name)
		}
		rev, _, _, err := p.ch.RevokeCurrentCommitment()
		if err != nil {
			if !errors.Is(err, crashdb.ErrCrashed) {
				w.violate("revoke-failed", fmt.Sprintf("%s.RevokeCurrentCommitment failed: %v", p.name, err))
			}
			return nil
		}
		p.owesRevoke, p.signedOwing = false, false
		p.lastWasRevoke = true
		w.onRevoke(i, rev, false)
		w.send(1-i, wmsg{kind: "rev", m: rev})
	case op == "sign":
		ncs, err := p.ch.SignNextCommitment(ctxb)
		if err != nil {
			if errors.Is(err, crashdb.ErrCrashed) {
				return nil
			}
			w.violate("sign-failed", fmt.Sprintf("%s.SignNextCommitment failed between honest peers: %v", p.name, err))
			return nil
		}
		m := &lnwire.CommitSig{ChanID: chanID, CommitSig: ncs.CommitSig, HtlcSigs: ncs.HtlcSigs, PartialSig: ncs.PartialSig}
		if p.owesRevoke {
			p.signedOwing = true
		}
		p.awaitingRevoke = true
		p.lastWasRevoke = false
		p.lastSigCovered = p.unsignedSent
		p.unsignedSent = nil
		for _, h := range w.h {
			if h.By == i && h.sent {
				h.addSigned = true
			}
			if h.By != i && h.resolved {
				h.resSigned = true
			}
		}
		if p.opener {
			w.feeSigned = w.feeSent
		}
		w.send(1-i, wmsg{kind: "sig", m: m})
	case strings.HasPrefix(op, "add"):
		k := parseIdx(op, "add")
		h := w.h[k]
		m := &lnwire.UpdateAddHTLC{ChanID: chanID, Amount: lnwire.MilliSatoshi(h.Amt), Expiry: h.Expiry, PaymentHash: h.hash, OnionBlob: onion}
		id, err := p.ch.AddHTLC(m, nil)
		if err != nil {
			if isConstraint(err) {
				h.refused = true
				w.Stats.ConstraintNoops.Add(1)
				return nil
			}
			w.violate("add-failed", fmt.Sprintf("%s.AddHTLC(%d msat) failed with a non-constraint error: %v", p.name, h.Amt, err))
			h.refused = true
			return nil
		}
		m.ID = id
		h.id, h.sent = id, true
		h.addRestored = false
		mm := wmsg{kind: "add", k: k, m: m}
		p.unsignedSent = append(p.unsignedSent, mm)
		w.send(1-i, mm)
	case strings.HasPrefix(op, "settle"):
		k := parseIdx(op, "settle")
		h := w.h[k]
		if err := p.ch.SettleHTLC(h.preimage, h.id, nil, nil, nil); err != nil {
			w.violate("settle-failed", fmt.Sprintf("%s.SettleHTLC(%d) of a locked-in HTLC failed: %v", p.name, h.id, err))
			return nil
		}
		h.resolved = true
		h.resRestored = false
		mm := wmsg{kind: "settle", k: k, m: &lnwire.UpdateFulfillHTLC{ChanID: chanID, ID: h.id, PaymentPreimage: h.preimage}}
		p.unsignedSent = append(p.unsignedSent, mm)
		w.send(1-i, mm)
	case strings.HasPrefix(op, "fail"):
		k := parseIdx(op, "fail")
		h := w.h[k]
		if err := p.ch.FailHTLC(h.id, []byte("verif-fail"), nil, nil, nil); err != nil {
			w.violate("fail-failed", fmt.Sprintf("%s.FailHTLC(%d) of a locked-in HTLC failed: %v", p.name, h.id, err))
			return nil
		}
		h.resolved = true
		h.resRestored = false
		mm := wmsg{kind: "fail", k: k, m: &lnwire.UpdateFailHTLC{ChanID: chanID, ID: h.id, Reason: []byte("verif-fail")}}
		p.unsignedSent = append(p.unsignedSent, mm)
		w.send(1-i, mm)
	case strings.HasPrefix(op, "malformed"):
		k := parseIdx(op, "malformed")
		h := w.h[k]
		sha := sha256.Sum256(onion[:])
		if err := p.ch.MalformedFailHTLC(h.id, lnwire.CodeInvalidOnionKey, sha, nil); err != nil {
			w.violate("malformed-failed", fmt.Sprintf("%s.MalformedFailHTLC(%d) failed: %v", p.name, h.id, err))
			return nil
		}
		h.resolved = true
		h.resRestored = false
		mm := wmsg{kind: "malformed", k: k, m: &lnwire.UpdateFailMalformedHTLC{ChanID: chanID, ID: h.id, ShaOnionBlob: sha, FailureCode: lnwire.CodeInvalidOnionKey}}
		p.unsignedSent = append(p.unsignedSent, mm)
		w.send(1-i, mm)
	case strings.HasPrefix(op, "fee"):
		k := parseIdx(op, "fee")
		rate := chainfee.SatPerKWeight(w.P.Fees[k])
		if err := p.ch.UpdateFee(rate); err != nil {
			if isConstraint(err) {
				w.Stats.ConstraintNoops.Add(1)
				w.feeSent++ // intent consumed
				w.feeSigned = w.feeSent
				return nil
			}
			w.violate("fee-failed", fmt.Sprintf("%s.UpdateFee(%d) failed: %v", p.name, rate, err))
			w.feeSent++
			return nil
		}
		w.feeSent++
		for len(w.feeRestored) < w.feeSent {
			w.feeRestored = append(w.feeRestored, false)
		}
		w.feeRestored[w.feeSent-1] = false
		mm := wmsg{kind: "fee", k: k, m: &lnwire.UpdateFee{ChanID: chanID, FeePerKw: uint32(rate)}}
		p.unsignedSent = append(p.unsignedSent, mm)
		w.send(1-i, mm)
	default:
		return fmt.Errorf("unknown local op %q", op)
	}
	return nil
}

func (w *World) recvErr(p *party, what string, err error) {
	if errors.Is(err, crashdb.ErrCrashed) {
		return
	}
	if sigErr(err) {
		w.violate("sig-verify-failed:"+what, fmt.Sprintf("%s rejected an honestly produced signature in %s: %v", p.name, what, err))
		return
	}
	w.violate("receive-failed:"+what, fmt.Sprintf("%s.%s failed on an honest in-order message: %v", p.name, what, err))
}

func (w *World) deliver(i int) error {
	if len(w.wire[i]) == 0 {
		return fmt.Errorf("deliver to %d: wire empty", i)
	}
	m := w.wire[i][0]
	w.wire[i] = w.wire[i][1:]
	p := w.pt[i]
	switch m.kind {
	case "add":
		if _, err := p.ch.ReceiveHTLC(m.m.(*lnwire.UpdateAddHTLC)); err != nil {
			w.recvErr(p, "ReceiveHTLC", err)
		}
	case "settle":
		mm := m.m.(*lnwire.UpdateFulfillHTLC)
		if err := p.ch.ReceiveHTLCSettle(mm.PaymentPreimage, mm.ID); err != nil {
			w.recvErr(p, "ReceiveHTLCSettle", err)
		}
	case "fail":
		mm := m.m.(*lnwire.UpdateFailHTLC)
		if err := p.ch.ReceiveFailHTLC(mm.ID, mm.Reason); err != nil {
			w.recvErr(p, "ReceiveFailHTLC", err)
		}
	case "malformed":
		mm := m.m.(*lnwire.UpdateFailMalformedHTLC)
		if err := p.ch.ReceiveFailHTLC(mm.ID, []byte("converted-malformed")); err != nil {
			w.recvErr(p, "ReceiveFailHTLC(malformed)", err)
		}
	case "fee":
		mm := m.m.(*lnwire.UpdateFee)
		if err := p.ch.ReceiveUpdateFee(chainfee.SatPerKWeight(mm.FeePerKw)); err != nil {
			w.recvErr(p, "ReceiveUpdateFee", err)
		}
	case "sig":
		mm := m.m.(*lnwire.CommitSig)
		err := p.ch.ReceiveNewCommitment(&lnwallet.CommitSigs{CommitSig: mm.CommitSig, HtlcSigs: mm.HtlcSigs, PartialSig: mm.PartialSig})
		if err != nil {
			w.recvErr(p, "ReceiveNewCommitment", err)
			return nil
		}
		w.Stats.SigsVerified.Add(1)
		if w.P.SplitRevoke && w.P.MaxCuts == 0 {
			p.owesRevoke = true
			return nil
		}
		rev, _, _, err := p.ch.RevokeCurrentCommitment()
		if err != nil {
			if !errors.Is(err, crashdb.ErrCrashed) {
				w.violate("revoke-failed", fmt.Sprintf("%s.RevokeCurrentCommitment failed: %v", p.name, err))
			}
			return nil
		}
		p.lastWasRevoke = true
		w.onRevoke(i, rev, false)
		w.send(1-i, wmsg{kind: "rev", m: rev})
	case "rev":
		fwd, _, err := p.ch.ReceiveRevocation(m.m.(*lnwire.RevokeAndAck))
		if err != nil {
			w.recvErr(p, "ReceiveRevocation", err)
			return nil
		}
		p.awaitingRevoke = false
		p.revsIn++
		w.applyFwdPkg(i, fwd)
	case "reest":
		return w.processReest(i, m.m.(*lnwire.ChannelReestablish))
	default:
		return fmt.Errorf("unknown wire message kind %q", m.kind)
	}
	return nil
}

// applyFwdPkg turns the forwarding package into explorer knowledge, the way the
// link does: Adds are the peer's HTLCs that are now locked in, SettleFails the
// resolutions of our own HTLCs that are now irrevocable.
func (w *World) applyFwdPkg(i int, fwd *channeldb.FwdPkg) {
	if fwd == nil {
		return
	}
	for _, u := range fwd.Adds {
		add, ok := u.UpdateMsg.(*lnwire.UpdateAddHTLC)
		if !ok {
			continue
		}
		for _, h := range w.h {
			if h.By != i && h.sent && h.id == add.ID {
				h.locked = true
			}
		}
	}
	for _, u := range fwd.SettleFails {
		var id uint64
		switch mm := u.UpdateMsg.(type) {
		case *lnwire.UpdateFulfillHTLC:
			id = mm.ID
		case *lnwire.UpdateFailHTLC:
			id = mm.ID
		case *lnwire.UpdateFailMalformedHTLC:
			id = mm.ID
		default:
			continue
		}
		for k, h := range w.h {
			if h.By == i && h.sent && h.id == id {
				if h.removed {
					w.violate("htlc-resolved-twice", fmt.Sprintf("HTLC %d reported as removed twice to its offerer", k))
				}
				h.removed = true
			}
		}
	}
}

func htlcKey(c *channeldb.ChannelCommitment) string {
	var s []string
	for _, h := range c.Htlcs {
		s = append(s, fmt.Sprintf("%v:%d:%d:%d", h.Incoming, h.HtlcIndex, h.Amt, h.OutputIndex))
	}
	sort.Strings(s)
	return strings.Join(s, ",")
}

func commitKey(c *channeldb.ChannelCommitment) string {
	return fmt.Sprintf("h%d l%d r%d f%d k%d [%s]", c.CommitHeight, c.LocalBalance, c.RemoteBalance, c.CommitFee, c.FeePerKw, htlcKey(c))
}

// Key is the canonical state. Dropped: signatures, nonces, txids (functions of
// the rest; the "signature verifies" oracle runs on transitions). Kept: every
// commitment either side holds, pending-update counters, the wires by message
// kind, and the explorer's per-HTLC bookkeeping including the heights at which
// each HTLC entered/left each chain (these determine lnd's update-log entries).
func (w *World) Key() string {
	var b strings.Builder
	for i := 0; i < 2; i++ {
		p := w.pt[i]
		st := p.ch.State()
		fmt.Fprintf(&b, "%s{L:%s R:%s ", p.name, commitKey(&st.LocalCommitment), commitKey(&st.RemoteCommitment))
		if tip, err := st.RemoteCommitChainTip(); err == nil && tip != nil {
			fmt.Fprintf(&b, "T:%s ", commitKey(&tip.Commitment))
		}
		// The order of the last sign/revoke decides the retransmission order after
		// a reconnect (tracked by the explorer: lnd's in-memory LastWasRevoke is
		// only refreshed from disk on load).
		fmt.Fprintf(&b, "o%v s%v a%v w%v|", p.ch.OweCommitment(), p.needSync, p.awaitingRevoke, p.lastWasRevoke)
		if p.owesRevoke {
			// the in-memory local chain is one ahead of the durable commitment
			fmt.Fprintf(&b, "q%d|", b2i(p.signedOwing))
		}
		fmt.Fprintf(&b, "u%d}", len(p.unsignedSent))
	}
	for i := 0; i < 2; i++ {
		b.WriteString(" W[")
		for _, m := range w.wire[i] {
			fmt.Fprintf(&b, "%s%d,", m.kind, m.k)
		}
		b.WriteString("]")
	}
	for _, h := range w.h {
		fmt.Fprintf(&b, " %v%v%v%v%v%v%v:%d.%d.%d.%d", b2i(h.sent), b2i(h.refused), b2i(h.addSigned), b2i(h.locked), b2i(h.resolved), b2i(h.resSigned), b2i(h.removed), h.seen[0], h.seen[1], h.gone[0], h.gone[1])
	}
	for _, h := range w.h {
		// provenance only matters while the entry can still influence a
		// commitment that is not yet irrevocable on both sides
		if !h.removed {
			fmt.Fprintf(&b, " p%d%d", b2i(h.addRestored), b2i(h.resRestored))
		}
	}
	fmt.Fprintf(&b, " f%d/%d c%d r%v d%v", w.feeSent, w.feeSigned, w.cuts, w.feeRestored, w.dead)
	return b.String()
}

func b2i(v bool) int {
	if v {
		return 1
	}
	return 0
}

// kindOf classifies an action for the durable-writes table: local operations
// by name, deliveries by the kind of the message at the head of the wire.
func (w *World) kindOf(a string) string {
	if strings.HasPrefix(a, "dl>") {
		i := int(a[3] - 'A')
		if len(w.wire[i]) > 0 {
			return "dl:" + w.wire[i][0].kind
		}
		return "dl:?"
	}
	if len(a) > 2 && a[1] == '.' {
		return strings.TrimRight(a[2:], "0123456789")
	}
	return a
}

var (
	wtMu sync.Mutex
	wt   = map[string]int64{}
	// WritesTableLate counts table growth after exploration started (the
	// crash-point set was then incomplete for states visited earlier).
	WritesTableLate atomic.Int64
	wtFrozen        atomic.Bool
)

func wtKey(typ, kind string, who int) string { return fmt.Sprintf("%s|%s|%d", typ, kind, who) }

func noteWrites(typ, kind string, who int, d int64) {
	wtMu.Lock()
	defer wtMu.Unlock()
	k := wtKey(typ, kind, who)
	if d > wt[k] {
		wt[k] = d
		if wtFrozen.Load() && d >= 2 {
			WritesTableLate.Add(1)
		}
	}
}

func writesTable(typ, kind string, who int) int64 {
	wtMu.Lock()
	defer wtMu.Unlock()
	return wt[wtKey(typ, kind, who)]
}

// WritesTable returns a copy of the durable-writes-per-step table.
func WritesTable() map[string]int64 {
	wtMu.Lock()
	defer wtMu.Unlock()
	o := map[string]int64{}
	for k, v := range wt {
		o[k] = v
	}
	return o
}

// FreezeWritesTable marks the end of the pre-pass.
func FreezeWritesTable() { wtFrozen.Store(true) }
