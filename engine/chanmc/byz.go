// Byzantine-revocation probe (C06, "rejects any secret not consistent with the
// earlier ones" read at the channel level). Params.ByzRevocation adds the
// terminal action `byz>X` wherever the head of X's wire is a revoke_and_ack (live
// or retransmitted). On that fork of the state X's LIVE channel object is handed,
// one after the other, every member of a lattice of revoke_and_acks that are
// algebraically or structurally related to the honest one but carry a secret
// that is NOT the peer's secret of the height being revoked:
//
//	secrets: n-s (negated scalar: point -P, same x), s+1, s-1, 2s, every one of
//	         the 256 single-bit flips, the peer's secret of the previous height
//	         (repeat), of the next height (gap; it derives the *next* announced
//	         point) and of the height after that, all-zero, all-ones;
//	next points: the honest one, its negation, and the point announced before
//	         (RemoteNextRevocation, a repeat) - crossed with every non-bit-flip
//	         secret, the bit flips go with the honest next point.
//
// Oracle (scenario independent; the reference is the peer's own producer): a
// revoke_and_ack whose secret does not derive the commitment point the peer
// announced for that height must be refused: ReceiveRevocation returns an error,
// performs no durable write (crashdb commit counter), leaves
// RemoteCurrentRevocation / RemoteNextRevocation and the remote chain tail of the
// live object untouched; after the whole lattice the channel re-fetched from disk
// has the same projection (revocation store bytes, both revocation points, all
// commitments, heights) as before, and its store reproduces the peer's secrets
// of all heights below the current one. Finally the HONEST revoke_and_ack is
// delivered to the same object and must be accepted, after which the store read
// back from disk reproduces every secret up to and including this height (this
// also shows the lattice ran in a state where a revocation is acceptable, and
// that the probe did not perturb the object).
//
// lnd adds the secret to the in-memory RevocationStore before it compares the
// commitment point, so a refused secret that passes the shachain check (every
// odd shachain index has nothing to be checked against) stays in the in-memory
// store of the live object. That copy is never written by a refusing call, and
// the link drops the object after a refused revocation; the probe restores the
// in-memory store from its pre-call encoding after each refused variant so that
// every variant meets the same object state (counted in Byz.MemStoreDirty).
package chanmc

import (
	"bytes"
	"fmt"
	"sync"
	"sync/atomic"

	"github.com/btcsuite/btcd/btcec/v2"
	"github.com/lightningnetwork/lnd/channeldb"
	"github.com/lightningnetwork/lnd/input"
	"github.com/lightningnetwork/lnd/lnwire"
	"github.com/lightningnetwork/lnd/shachain"
)

// ByzStats are the counters of the probe (package level: Stats is owned by world.go).
type ByzStats struct {
	Probes         atomic.Int64 // byz>X actions executed
	Variants       atomic.Int64 // wrong revoke_and_acks delivered
	Refused        atomic.Int64 // ... refused with no state change
	MemStoreDirty  atomic.Int64 // refused, but the in-memory store had taken the secret
	HonestAccepted atomic.Int64 // honest message accepted after the lattice
	SecretsReread  atomic.Int64 // LookUp(k) == producer.AtIndex(k) comparisons on re-fetched channels
	mu             sync.Mutex
	cells          map[string]int64 // "<type>|h<height>|<live/retx>" -> probes
}

// Byz is the shared counter set of the Byzantine-revocation probe.
var Byz ByzStats

func (b *ByzStats) cell(k string) {
	b.mu.Lock()
	if b.cells == nil {
		b.cells = map[string]int64{}
	}
	b.cells[k]++
	b.mu.Unlock()
}

// Cells returns probes per (channel type, height revoked, odd/even shachain index).
func (b *ByzStats) Cells() map[string]int64 {
	b.mu.Lock()
	defer b.mu.Unlock()
	out := map[string]int64{}
	for k, v := range b.cells {
		out[k] = v
	}
	return out
}

// byzActs appends the terminal probe actions.
func (w *World) byzActs(acts []string) []string {
	if !w.P.ByzRevocation {
		return acts
	}
	for i := 0; i < 2; i++ {
		if len(w.wire[i]) > 0 && w.wire[i][0].kind == "rev" && !w.pt[i].needSync {
			acts = append(acts, "byz>"+w.pt[i].name)
		}
	}
	return acts
}

type byzVariant struct {
	name   string
	secret [32]byte
	next   *btcec.PublicKey
}

func negPoint(pk *btcec.PublicKey) *btcec.PublicKey {
	var j btcec.JacobianPoint
	pk.AsJacobian(&j)
	j.Y.Negate(1).Normalize()
	return btcec.NewPublicKey(&j.X, &j.Y)
}

// byzLattice builds the wrong messages for the revocation of the peer's height h.
func (w *World) byzLattice(i int, h uint64, honest *lnwire.RevokeAndAck) []byzVariant {
	q := w.pt[1-i]
	s := honest.Revocation
	type sec struct {
		name string
		v    [32]byte
	}
	var secs []sec
	var sc, one btcec.ModNScalar
	one.SetInt(1)
	sc.SetBytes(&s)
	neg := sc
	neg.Negate()
	secs = append(secs, sec{"neg", neg.Bytes()})
	p1 := sc
	p1.Add(&one)
	secs = append(secs, sec{"plus1", p1.Bytes()})
	m1 := sc
	mone := one
	mone.Negate()
	m1.Add(&mone)
	secs = append(secs, sec{"minus1", m1.Bytes()})
	dbl := sc
	dbl.Add(&sc)
	secs = append(secs, sec{"double", dbl.Bytes()})
	if h > 0 {
		if v, err := q.producer.AtIndex(h - 1); err == nil {
			secs = append(secs, sec{"prev-height", [32]byte(*v)})
		}
	}
	for d := uint64(1); d <= 2; d++ {
		if v, err := q.producer.AtIndex(h + d); err == nil {
			secs = append(secs, sec{fmt.Sprintf("height+%d", d), [32]byte(*v)})
		}
	}
	secs = append(secs, sec{"zero", [32]byte{}})
	var ff [32]byte
	for k := range ff {
		ff[k] = 0xff
	}
	secs = append(secs, sec{"ones", ff})

	type pt struct {
		name string
		p    *btcec.PublicKey
	}
	pts := []pt{{"", honest.NextRevocationKey}}
	if honest.NextRevocationKey != nil {
		pts = append(pts, pt{"+next-negated", negPoint(honest.NextRevocationKey)})
	}
	if prev := w.pt[i].ch.State().RemoteNextRevocation; prev != nil {
		pts = append(pts, pt{"+next-repeated", prev})
	}
	var out []byzVariant
	for _, np := range pts {
		for _, sv := range secs {
			if sv.v == s {
				continue
			}
			out = append(out, byzVariant{name: sv.name + np.name, secret: sv.v, next: np.p})
		}
	}
	for b := 0; b < 256; b++ {
		v := s
		v[b/8] ^= 1 << (uint(b) % 8)
		out = append(out, byzVariant{name: "bitflip", secret: v, next: honest.NextRevocationKey})
	}
	return out
}

func encStore(st *channeldb.OpenChannel) []byte {
	var b bytes.Buffer
	if st.RevocationStore != nil {
		_ = st.RevocationStore.Encode(&b)
	}
	return b.Bytes()
}

func pkHex(pk *btcec.PublicKey) string {
	if pk == nil {
		return "nil"
	}
	return fmt.Sprintf("%x", pk.SerializeCompressed())
}

// byzSecretsOnDisk compares the store of the channel re-fetched from disk with
// the peer's producer for all heights < n.
func (w *World) byzSecretsOnDisk(i int, n uint64, when string) *channeldb.OpenChannel {
	p, q := w.pt[i], w.pt[1-i]
	chans, err := p.db.ChannelStateDB().FetchOpenChannels(p.identity)
	if err != nil || len(chans) != 1 {
		w.violate("byz-revocation:disk-unreadable", fmt.Sprintf("%s: cannot re-fetch the channel %s: %d channels, err=%v", p.name, when, len(chans), err))
		return nil
	}
	for k := uint64(0); k < n; k++ {
		want, err1 := q.producer.AtIndex(k)
		got, err2 := chans[0].RevocationStore.LookUp(k)
		Byz.SecretsReread.Add(1)
		if err1 != nil || err2 != nil || *got != *want {
			w.violate("byz-revocation:stored-secret-differs", fmt.Sprintf("%s: %s the store re-read from disk yields %v (err=%v) for the peer's height %d, the peer's producer yields %v", p.name, when, got, err2, k, want))
			return nil
		}
	}
	return chans[0]
}

func (w *World) byzProbe(i int) (err error) {
	w.dead = true
	p, q := w.pt[i], w.pt[1-i]
	honest, ok := w.wire[i][0].m.(*lnwire.RevokeAndAck)
	if !ok {
		return fmt.Errorf("byz probe: head of %s's wire is not a revoke_and_ack", p.name)
	}
	h := uint64(p.revsIn)
	if hs, herr := q.producer.AtIndex(h); herr != nil || [32]byte(*hs) != honest.Revocation {
		// the release monitor (onRevoke) judges the sender; the lattice needs the
		// true height
		return nil
	}
	Byz.Probes.Add(1)
	parity := "odd-shachain-index(no lower bucket)"
	if h%2 == 1 {
		parity = "even-shachain-index"
	}
	Byz.cell(fmt.Sprintf("%s|h%d|%s", w.P.Type, h, parity))

	pre := w.byzSecretsOnDisk(i, h, "before the probe")
	if pre == nil {
		return nil
	}
	preProj := projection(pre)
	st := p.ch.State()
	preStore := encStore(st)
	preCur, preNext := st.RemoteCurrentRevocation, st.RemoteNextRevocation
	preRemoteH, preLocalH := st.RemoteCommitment.CommitHeight, st.LocalCommitment.CommitHeight

	for _, v := range w.byzLattice(i, h, honest) {
		bad := *honest
		bad.Revocation = v.secret
		bad.NextRevocationKey = v.next
		// A wrong secret is one that does not derive the announced point; the
		// lattice members are wrong by construction, but make it explicit.
		if input.ComputeCommitmentPoint(bad.Revocation[:]).IsEqual(preCur) {
			continue
		}
		Byz.Variants.Add(1)
		commits := p.cdb.Commits()
		var rerr error
		var panicked any
		func() {
			defer func() { panicked = recover() }()
			_, _, rerr = p.ch.ReceiveRevocation(&bad)
		}()
		st = p.ch.State()
		what := fmt.Sprintf("%s was handed a revoke_and_ack for the peer's height %d whose secret (%s: %x) does not derive the commitment point the peer announced for that height (%s; honest secret %x)", p.name, h, v.name, v.secret, pkHex(preCur), honest.Revocation)
		switch {
		case panicked != nil:
			w.violate("byz-revocation:panic:"+v.name, fmt.Sprintf("%s; ReceiveRevocation panicked: %v (durable writes during the call: %d)", what, panicked, p.cdb.Commits()-commits))
			return nil
		case rerr == nil:
			detail := ""
			if chans, ferr := p.db.ChannelStateDB().FetchOpenChannels(p.identity); ferr == nil && len(chans) == 1 {
				got, _ := chans[0].RevocationStore.LookUp(h)
				detail = fmt.Sprintf("; re-read from disk: remote commit height %d (was %d), store.LookUp(%d)=%v, RemoteCurrentRevocation %s", chans[0].RemoteCommitment.CommitHeight, preRemoteH, h, got, pkHex(chans[0].RemoteCurrentRevocation))
			}
			w.violate("byz-revocation:accepted:"+v.name, what+"; ReceiveRevocation ACCEPTED it"+detail)
			return nil
		case p.cdb.Commits() != commits:
			w.violate("byz-revocation:refused-but-wrote:"+v.name, fmt.Sprintf("%s; it was refused (%v) but %d durable write(s) happened", what, rerr, p.cdb.Commits()-commits))
			return nil
		case st.RemoteCurrentRevocation != preCur || st.RemoteNextRevocation != preNext ||
			st.RemoteCommitment.CommitHeight != preRemoteH || st.LocalCommitment.CommitHeight != preLocalH:
			w.violate("byz-revocation:refused-but-advanced:"+v.name, fmt.Sprintf("%s; it was refused (%v) but the live object moved: current point %s -> %s, next point %s -> %s, remote height %d -> %d", what, rerr, pkHex(preCur), pkHex(st.RemoteCurrentRevocation), pkHex(preNext), pkHex(st.RemoteNextRevocation), preRemoteH, st.RemoteCommitment.CommitHeight))
			return nil
		}
		Byz.Refused.Add(1)
		if !bytes.Equal(encStore(st), preStore) {
			Byz.MemStoreDirty.Add(1)
			rs, derr := shachain.NewRevocationStoreFromBytes(bytes.NewReader(preStore))
			if derr != nil {
				return fmt.Errorf("byz probe: cannot decode the saved store: %v", derr)
			}
			st.RevocationStore = rs
		}
	}
	// Nothing durable may have changed.
	post := w.byzSecretsOnDisk(i, h, "after the refused lattice")
	if post == nil {
		return nil
	}
	if pp := projection(post); pp != preProj {
		w.violate("byz-revocation:refused-but-disk-changed", fmt.Sprintf("%s refused every wrong revoke_and_ack for height %d, but the channel re-read from disk differs:\n pre  %s\n post %s", p.name, h, clip(preProj), clip(pp)))
		return nil
	}
	// The honest message is still acceptable, and what it stores is exact.
	var herr error
	var fwd *channeldb.FwdPkg
	var panicked any
	func() {
		defer func() { panicked = recover() }()
		fwd, _, herr = p.ch.ReceiveRevocation(honest)
	}()
	if panicked != nil || herr != nil {
		w.violate("byz-revocation:honest-refused-after-lattice", fmt.Sprintf("%s refused the honest revoke_and_ack for height %d after having refused the wrong ones: err=%v panic=%v", p.name, h, herr, panicked))
		return nil
	}
	Byz.HonestAccepted.Add(1)
	// same explorer bookkeeping as an ordinary delivery (the checks that follow
	// every action read it)
	w.wire[i] = w.wire[i][1:]
	p.awaitingRevoke = false
	p.revsIn++
	w.applyFwdPkg(i, fwd)
	if fin := w.byzSecretsOnDisk(i, h+1, "after the honest revoke_and_ack"); fin != nil {
		if fin.RemoteCommitment.CommitHeight != preRemoteH+1 {
			w.violate("byz-revocation:honest-not-durable", fmt.Sprintf("%s accepted the honest revoke_and_ack for height %d but the durable remote height is %d (was %d)", p.name, h, fin.RemoteCommitment.CommitHeight, preRemoteH))
		}
	}
	return nil
}
