// Package vsched is a cooperative ("baton passing") thread scheduler for
// model-checking lock-based code (engine E3 of DESIGN.md).
//
// A Sched owns a set of threads (goroutines). At most one goroutine of a Sched
// runs at any time: either the controller (the goroutine that created the Sched and
// calls Spawn/Step) or exactly one thread. A thread gives the baton back to the
// controller
//
//   - at every scheduling point: before it acquires a shimmed lock
//     (verifmc/vsync Mutex/RWMutex, see that package) and before every wrapped
//     database write transaction (TxPoint, installed as crashdb.DB.Before), or a
//     point the harness places itself (Point);
//   - when its body returns (or panics; the panic value is kept).
//
// The controller decides which thread takes the next step (Step(id)). A thread whose
// pending lock acquisition cannot succeed in the current logical lock state is
// not enabled; "threads left, none enabled" is a deadlock and is reported with the
// wait-for relation. Because every hand-off is a channel operation, all accesses of
// all threads are totally ordered by happens-before: the schedule is the only source
// of nondeterminism and a recorded choice sequence replays exactly. (For the same
// reason data races are invisible here; they are the business of the separate
// free-running -race target, in which the shim passes straight through to sync.)
//
// Scheduling points are placed *before acquisitions* only. A release is not a point:
// the code a thread runs between a release and its next acquisition/transaction
// touches only thread-private data (in race-free code), so pre-empting right after
// the release is equivalent to pre-empting right before the next point.
//
// Goroutines that are not threads of a Sched (the controller, explorer workers,
// lnd's own goroutines) pass through the shim untouched. Several Scheds can run
// concurrently in one process (one per explorer worker). The caller -> thread
// association is made in one of two ways:
//
//   - bound objects (preferred, cheap): vsync.Bind(sched, obj) ties every shimmed
//     mutex that is a field of obj to a Sched, and Sched.TxPoint is installed as the
//     database hook; a call on a bound object is attributed to Sched.Running(), the
//     thread holding the baton (nil while the controller runs). This is exact as long
//     as the object is only used by that Sched's controller and threads;
//   - goroutine-id lookup (default for unbound mutexes, Current/TxPoint/Yield): works
//     without any binding but costs a runtime.Stack call per lock operation, which
//     serialises all workers on a runtime-internal lock (measured: 16 workers ran at
//     the speed of one). Harnesses that bind everything call
//     SetGoroutineLookup(false).
//
// Typical use (see harness/c07/conc_test.go): sch := vsched.New();
// db.Before = sch.TxPoint; vsync.Bind(sch, obj); sch.Spawn(name, body)...;
// then loop { en := sch.Enabled(); sch.Step(en[i]) } until sch.AllDone() or
// sch.Deadlocked(); sch.Abort() unwinds unfinished threads.
package vsched

import (
	"fmt"
	"runtime"
	"runtime/debug"
	"sort"
	"strings"
	"sync"
	"sync/atomic"
)

// Resource is something a thread can wait for (a shimmed lock).
type Resource interface {
	// Available reports whether t could acquire the resource right now.
	Available(t *Thread, write bool) bool
	// Holders describes the current holders (for the wait-for graph).
	Holders() []int
	// ResName is a short name for traces.
	ResName() string
}

// Thread is one scheduled goroutine.
type Thread struct {
	s    *Sched
	id   int
	name string
	wake chan struct{}

	// pending scheduling point (valid while parked)
	kind  string
	res   Resource
	write bool

	done     bool
	panicVal any
	held     int // number of shimmed locks currently held
	steps    int
}

// ID is the thread's index in its Sched.
func (t *Thread) ID() int { return t.id }

// Name is the name given to Spawn.
func (t *Thread) Name() string { return t.name }

// Done reports whether the body has returned.
func (t *Thread) Done() bool { return t.done }

// PanicValue is the recovered panic of the body, if any.
func (t *Thread) PanicValue() any { return t.panicVal }

// Pending describes the point the thread is parked at ("Lock mtx", "tx", ...).
func (t *Thread) Pending() string {
	if t.done {
		return "done"
	}
	if t.res != nil {
		return t.kind + " " + t.res.ResName()
	}
	return t.kind
}

// NoteAcquired / NoteReleased are called by the lock shim (held-lock accounting,
// used by the controller to know when observing the shared object is safe).
func (t *Thread) NoteAcquired() { t.held++ }

// NoteReleased is the counterpart of NoteAcquired.
func (t *Thread) NoteReleased() { t.held-- }

// Step is one entry of the schedule trace.
type Step struct {
	Thread int    `json:"t"`
	Point  string `json:"at"` // the point the thread was resumed from
}

// Sched is one scheduler instance.
type Sched struct {
	threads []*Thread
	back    chan struct{}
	last    int
	aborted bool
	trace   []Step
	// running is the thread that currently holds the baton (nil while the
	// controller runs). Objects bound to this Sched (vsync.Bind, Sched.TxPoint) use
	// it to identify the caller without a goroutine-id lookup.
	running atomic.Pointer[Thread]
}

// Running returns the thread holding the baton, or nil while the controller runs.
// It is only meaningful for callers that are known to belong to this Sched's world
// (the controller or one of its threads).
func (s *Sched) Running() *Thread { return s.running.Load() }

// TxPoint is the scheduling point before a database write transaction for a
// database that belongs to this Sched's world (install as crashdb.DB.Before).
func (s *Sched) TxPoint() {
	if t := s.running.Load(); t != nil {
		t.Point("tx")
	}
}

var lookupByGoroutine atomic.Bool

func init() { lookupByGoroutine.Store(true) }

// SetGoroutineLookup switches the goroutine-id based discovery of the calling
// thread (Current) on or off. It is on by default. The lookup costs a
// runtime.Stack call, which serialises on a runtime-internal lock; harnesses that
// bind every shimmed mutex explicitly (vsync.Bind) and use Sched.TxPoint switch it
// off, after which unbound mutexes are plain sync mutexes.
func SetGoroutineLookup(on bool) { lookupByGoroutine.Store(on) }

var (
	registry sync.Map // goroutine id -> *Thread
	nManaged atomic.Int64
)

// New creates an empty scheduler. The calling goroutine is its controller.
func New() *Sched { return &Sched{back: make(chan struct{}), last: -1} }

func goid() uint64 {
	var buf [48]byte
	n := runtime.Stack(buf[:], false)
	const p = len("goroutine ")
	var id uint64
	for i := p; i < n; i++ {
		c := buf[i]
		if c < '0' || c > '9' {
			break
		}
		id = id*10 + uint64(c-'0')
	}
	return id
}

// Current returns the Thread the calling goroutine is, or nil if the caller is not
// managed by any Sched (fast path: no managed goroutine exists at all).
func Current() *Thread {
	if nManaged.Load() == 0 || !lookupByGoroutine.Load() {
		return nil
	}
	if v, ok := registry.Load(goid()); ok {
		return v.(*Thread)
	}
	return nil
}

// Spawn creates a thread running body and runs it up to its first scheduling point
// (the code before the first point is thread-private, so this loses no
// interleaving). It returns the thread.
func (s *Sched) Spawn(name string, body func()) *Thread {
	t := &Thread{s: s, id: len(s.threads), name: name, wake: make(chan struct{}), kind: "start"}
	s.threads = append(s.threads, t)
	nManaged.Add(1)
	go func() {
		var id uint64
		reg := lookupByGoroutine.Load()
		if reg {
			id = goid()
			registry.Store(id, t)
		}
		defer func() {
			if v := recover(); v != nil {
				if _, ok := v.(abortSignal); !ok {
					t.panicVal = fmt.Sprintf("%v\n%s", v, debug.Stack())
				}
			}
			if reg {
				registry.Delete(id)
			}
			nManaged.Add(-1)
			t.done = true
			t.res = nil
			s.back <- struct{}{}
		}()
		<-t.wake
		if s.aborted {
			return
		}
		body()
	}()
	// run to the first real point
	s.running.Store(t)
	t.wake <- struct{}{}
	<-s.back
	s.running.Store(nil)
	return t
}

type abortSignal struct{}

// park hands the baton to the controller and waits to be resumed.
func (t *Thread) park(kind string, res Resource, write bool) {
	if t.s.aborted {
		// already unwinding (a deferred function reached a point): pass through
		return
	}
	t.kind, t.res, t.write = kind, res, write
	t.s.back <- struct{}{}
	<-t.wake
	if t.s.aborted {
		// Unwind the body; deferred unlocks run (the shim ignores the logical
		// state of an aborted scheduler).
		panic(abortSignal{})
	}
	t.res = nil
}

// Point is a plain scheduling point (always enabled).
func (t *Thread) Point(kind string) { t.park(kind, nil, false) }

// Acquire is a scheduling point that is enabled only when res is available; when it
// returns the caller holds the baton and res is available.
func (t *Thread) Acquire(kind string, res Resource, write bool) { t.park(kind, res, write) }

// Aborted reports whether the thread's scheduler is being torn down.
func (t *Thread) Aborted() bool { return t.s.aborted }

// TxPoint is the scheduling point before a database write transaction; install it
// as crashdb.DB.Before. It is a no-op for unmanaged goroutines.
func TxPoint() {
	if t := Current(); t != nil {
		t.Point("tx")
	}
}

// Yield is a harness-placed scheduling point; no-op for unmanaged goroutines.
func Yield(kind string) {
	if t := Current(); t != nil {
		t.Point(kind)
	}
}

func (s *Sched) enabled(t *Thread) bool {
	if t.done {
		return false
	}
	if t.res != nil && !t.res.Available(t, t.write) {
		return false
	}
	return true
}

// Enabled lists the ids of the threads that can take a step, in canonical order:
// the thread that ran last first (continuing it is "no pre-emption"), then ascending.
func (s *Sched) Enabled() []int {
	var out []int
	if s.last >= 0 && s.enabled(s.threads[s.last]) {
		out = append(out, s.last)
	}
	for _, t := range s.threads {
		if t.id != s.last && s.enabled(t) {
			out = append(out, t.id)
		}
	}
	return out
}

// AllDone reports whether every thread has finished.
func (s *Sched) AllDone() bool {
	for _, t := range s.threads {
		if !t.done {
			return false
		}
	}
	return true
}

// Deadlocked reports "threads left, none enabled".
func (s *Sched) Deadlocked() bool { return !s.AllDone() && len(s.Enabled()) == 0 }

// WaitFor renders the wait-for relation of the blocked threads.
func (s *Sched) WaitFor() string {
	var parts []string
	for _, t := range s.threads {
		if t.done || t.res == nil {
			continue
		}
		h := append([]int{}, t.res.Holders()...)
		sort.Ints(h)
		parts = append(parts, fmt.Sprintf("t%d(%s) waits %s %s held by %v", t.id, t.name, t.kind, t.res.ResName(), h))
	}
	return strings.Join(parts, "; ")
}

// Step resumes thread id and returns when it has reached its next scheduling point
// or finished. It panics if the thread is not enabled (a replay that diverged).
func (s *Sched) Step(id int) {
	if id < 0 || id >= len(s.threads) {
		panic(fmt.Sprintf("vsched: no thread %d", id))
	}
	t := s.threads[id]
	if !s.enabled(t) {
		panic(fmt.Sprintf("vsched: thread %d is not enabled (%s)", id, t.Pending()))
	}
	s.trace = append(s.trace, Step{Thread: id, Point: t.Pending()})
	s.last = id
	t.steps++
	s.running.Store(t)
	t.wake <- struct{}{}
	<-s.back
	s.running.Store(nil)
}

// Thread returns thread id.
func (s *Sched) Thread(id int) *Thread { return s.threads[id] }

// NumThreads is the number of spawned threads.
func (s *Sched) NumThreads() int { return len(s.threads) }

// Trace is the schedule so far.
func (s *Sched) Trace() []Step { return append([]Step{}, s.trace...) }

// LocksHeld is the number of shimmed locks held by parked threads (0 means the
// controller may call into the shared object without blocking).
func (s *Sched) LocksHeld() int {
	n := 0
	for _, t := range s.threads {
		if !t.done {
			n += t.held
		}
	}
	return n
}

// Abort unwinds every unfinished thread (each is resumed once and panics out of its
// scheduling point; deferred unlocks run). After Abort the Sched is dead.
func (s *Sched) Abort() {
	s.aborted = true
	for _, t := range s.threads {
		if !t.done {
			s.running.Store(t)
			t.wake <- struct{}{}
			<-s.back
			s.running.Store(nil)
		}
	}
}
