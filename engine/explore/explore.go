// Package explore is the shared search loop of the /verif model checkers:
// explicit-state exploration of a *real* implementation whose states cannot be
// cloned. A state is identified with an action history; successors are obtained by
// replaying the history on a fresh instance (World) and taking one more action.
// Canonical state keys deduplicate. An optional deviation bound (CHESS-style
// iterative context bounding, generalised: a deviation is any action other than the
// first enabled one) restricts the search when the full space is too large.
package explore

import (
	"fmt"
	"runtime"
	"runtime/debug"
	"sync"
	"sync/atomic"
	"time"
)

// World is one live instance of the system under exploration.
type World interface {
	// Enabled lists the actions enabled in the current state in canonical
	// order; element 0 is the default (eager) continuation.
	Enabled() []string
	// Do performs the action. Oracles run inside Do; it returns a non-nil
	// error only for harness-level problems (unknown action while replaying).
	Do(action string) error
	// Key is the canonical state key ("same key => same futures").
	Key() string
	// Terminal is called when no action is enabled.
	Terminal()
	// Close releases resources (DB handles, goroutines).
	Close()
}

// Options control one exploration.
type Options struct {
	// New builds a fresh world in its initial state.
	New func() (World, error)
	// MaxDeviations < 0 means unbounded (full state space).
	MaxDeviations int
	// MaxDepth bounds the history length (0 = 400).
	MaxDepth int
	// Workers is the number of concurrent workers (0 = GOMAXPROCS).
	Workers int
	// Deadline, if non-zero, stops exploration (result is then not exhaustive).
	Deadline time.Time
	// MaxStates caps the number of distinct states (0 = no cap).
	MaxStates int64
	// Stop, if non-nil and returning true, aborts the search (e.g. a violation was found).
	Stop func() bool
	// OnState is called once per newly discovered state with its history.
	OnState func(w World, hist []string)
}

// Result is the coverage of one exploration.
type Result struct {
	States      int64
	Transitions int64
	Replays     int64 // fresh worlds built (each replays a history on the implementation)
	ReplaySteps int64
	Terminals   int64
	MaxDepth    int
	Exhaustive  bool
	CapHit      string
	SampleHist  [][]string
}

type item struct {
	hist []string
	dev  int
}

// Run explores and returns coverage. It never panics on behalf of the system
// under test: a panic inside a world is reported through PanicHandler.
func Run(o Options, onPanic func(hist []string, v any)) Result {
	if o.MaxDepth == 0 {
		o.MaxDepth = 400
	}
	if o.Workers == 0 {
		o.Workers = runtime.GOMAXPROCS(0)
	}
	var (
		mu       sync.Mutex
		cond     = sync.NewCond(&mu)
		queue    []item
		busy     int
		seen     = map[string]int{} // key -> min deviations at which it was expanded
		res      Result
		capped   atomic.Bool
		capWhy   atomic.Value
		maxDepth int64
	)
	res.Exhaustive = true
	queue = append(queue, item{})
	stop := func(why string) {
		if capped.CompareAndSwap(false, true) {
			capWhy.Store(why)
		}
	}
	shouldStop := func() bool {
		if capped.Load() {
			return true
		}
		if !o.Deadline.IsZero() && time.Now().After(o.Deadline) {
			stop("deadline")
			return true
		}
		if o.Stop != nil && o.Stop() {
			stop("stopped")
			return true
		}
		return false
	}

	worker := func() {
		for {
			mu.Lock()
			for len(queue) == 0 && busy > 0 {
				cond.Wait()
			}
			if len(queue) == 0 {
				mu.Unlock()
				cond.Broadcast()
				return
			}
			// LIFO keeps the frontier small (depth-first across workers).
			it := queue[len(queue)-1]
			queue = queue[:len(queue)-1]
			busy++
			mu.Unlock()

			if !shouldStop() {
				func() {
					hist := append([]string{}, it.hist...)
					defer func() {
						if v := recover(); v != nil {
							if onPanic != nil {
								onPanic(hist, fmt.Sprintf("%v\n%s", v, debug.Stack()))
							}
						}
					}()
					w, err := o.New()
					if err != nil {
						panic(fmt.Sprintf("explore: New: %v", err))
					}
					defer w.Close()
					atomic.AddInt64(&res.Replays, 1)
					for i, a := range hist {
						if err := w.Do(a); err != nil {
							panic(fmt.Sprintf("explore: replay diverged at %d (%s): %v", i, a, err))
						}
						atomic.AddInt64(&res.ReplaySteps, 1)
					}
					if len(hist) > 0 {
						atomic.AddInt64(&res.Transitions, 1)
					}
					dev := it.dev
					for {
						key := w.Key()
						mu.Lock()
						prev, ok := seen[key]
						if ok && prev <= dev {
							mu.Unlock()
							return
						}
						seen[key] = dev
						if !ok {
							res.States++
							if len(res.SampleHist) < 3 && len(hist) >= 6 {
								res.SampleHist = append(res.SampleHist, append([]string{}, hist...))
							}
						}
						nstates := res.States
						mu.Unlock()
						if !ok && o.OnState != nil {
							o.OnState(w, hist)
						}
						if o.MaxStates > 0 && nstates >= o.MaxStates {
							stop("max_states")
							return
						}
						if int64(len(hist)) > atomic.LoadInt64(&maxDepth) {
							atomic.StoreInt64(&maxDepth, int64(len(hist)))
						}
						acts := w.Enabled()
						if len(acts) == 0 {
							w.Terminal()
							atomic.AddInt64(&res.Terminals, 1)
							return
						}
						if len(hist) >= o.MaxDepth {
							stop("max_depth")
							return
						}
						if o.MaxDeviations < 0 || dev < o.MaxDeviations {
							nd := dev + 1
							if o.MaxDeviations < 0 {
								nd = 0
							}
							mu.Lock()
							for _, a := range acts[1:] {
								h := make([]string, len(hist)+1)
								copy(h, hist)
								h[len(hist)] = a
								queue = append(queue, item{hist: h, dev: nd})
							}
							mu.Unlock()
							cond.Broadcast()
						}
						if shouldStop() {
							return
						}
						hist = append(hist, acts[0])
						if err := w.Do(acts[0]); err != nil {
							panic(fmt.Sprintf("explore: action %s: %v", acts[0], err))
						}
						atomic.AddInt64(&res.Transitions, 1)
					}
				}()
			}

			mu.Lock()
			busy--
			mu.Unlock()
			cond.Broadcast()
		}
	}
	var wg sync.WaitGroup
	for i := 0; i < o.Workers; i++ {
		wg.Add(1)
		go func() { defer wg.Done(); worker() }()
	}
	wg.Wait()
	res.MaxDepth = int(maxDepth)
	if capped.Load() {
		res.Exhaustive = false
		res.CapHit, _ = capWhy.Load().(string)
	}
	return res
}
