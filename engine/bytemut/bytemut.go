// Package bytemut (engine E6) holds the exhaustive byte-level enumerators shared by
// the codec / transport / gossip checks (C10, C11, C20): every string up to a
// length, and - around a seed encoding - every single-byte replacement, every
// truncation, every one-byte extension, insertion and deletion, every same-offset
// splice of two seeds and every replacement of a byte range.  Nothing here is
// random: each enumerator visits a finite set completely and in a fixed order, and
// every visited input is identified by a small replayable Mut value.
//
// The package imports only the standard library so that it can be overlaid into
// any module (the lnd main module and the tlv sub-module).
package bytemut

import (
	"encoding/hex"
	"fmt"
)

// Mutation kinds.
const (
	KindID     = "id"     // the seed itself
	KindRepl   = "repl"   // byte at Pos replaced by Val
	KindTrunc  = "trunc"  // seed[:Pos]
	KindExt    = "ext"    // seed + byte(Val)
	KindIns    = "ins"    // byte Val inserted before Pos
	KindDel    = "del"    // byte at Pos removed
	KindSet    = "set"    // seed[Pos:Pos+Val] replaced by Data (any length)
	KindSplice = "splice" // seed[:Pos] + other[Pos:]   (other = Data)
	KindRaw    = "raw"    // Data itself (no seed)
)

// Mut is a replayable description of one derived input.
type Mut struct {
	Kind string `json:"kind"`
	Pos  int    `json:"pos,omitempty"`
	Val  int    `json:"val,omitempty"`
	Data string `json:"data,omitempty"` // hex
}

func (m Mut) String() string {
	switch m.Kind {
	case KindID:
		return "seed"
	case KindRepl:
		return fmt.Sprintf("byte[%d]:=0x%02x", m.Pos, m.Val)
	case KindTrunc:
		return fmt.Sprintf("truncate to %d bytes", m.Pos)
	case KindExt:
		return fmt.Sprintf("append 0x%02x", m.Val)
	case KindIns:
		return fmt.Sprintf("insert 0x%02x before %d", m.Val, m.Pos)
	case KindDel:
		return fmt.Sprintf("delete byte %d", m.Pos)
	case KindSet:
		return fmt.Sprintf("replace [%d,%d) by %s", m.Pos, m.Pos+m.Val, m.Data)
	case KindSplice:
		return fmt.Sprintf("seed[:%d] + other[%d:]", m.Pos, m.Pos)
	case KindRaw:
		return "raw " + m.Data
	}
	return m.Kind
}

// Apply returns the derived input as a fresh slice.
func (m Mut) Apply(seed []byte) ([]byte, error) {
	return m.ApplyTo(nil, seed)
}

// ApplyTo is Apply re-using dst's storage.
func (m Mut) ApplyTo(dst, seed []byte) ([]byte, error) {
	dst = dst[:0]
	bad := func() ([]byte, error) {
		return nil, fmt.Errorf("bytemut: %+v does not fit a %d-byte seed", m, len(seed))
	}
	switch m.Kind {
	case KindID:
		return append(dst, seed...), nil
	case KindRepl:
		if m.Pos < 0 || m.Pos >= len(seed) {
			return bad()
		}
		dst = append(dst, seed...)
		dst[m.Pos] = byte(m.Val)
		return dst, nil
	case KindTrunc:
		if m.Pos < 0 || m.Pos > len(seed) {
			return bad()
		}
		return append(dst, seed[:m.Pos]...), nil
	case KindExt:
		return append(append(dst, seed...), byte(m.Val)), nil
	case KindIns:
		if m.Pos < 0 || m.Pos > len(seed) {
			return bad()
		}
		dst = append(dst, seed[:m.Pos]...)
		dst = append(dst, byte(m.Val))
		return append(dst, seed[m.Pos:]...), nil
	case KindDel:
		if m.Pos < 0 || m.Pos >= len(seed) {
			return bad()
		}
		dst = append(dst, seed[:m.Pos]...)
		return append(dst, seed[m.Pos+1:]...), nil
	case KindSet:
		d, err := hex.DecodeString(m.Data)
		if err != nil || m.Pos < 0 || m.Val < 0 || m.Pos+m.Val > len(seed) {
			return bad()
		}
		dst = append(dst, seed[:m.Pos]...)
		dst = append(dst, d...)
		return append(dst, seed[m.Pos+m.Val:]...), nil
	case KindSplice:
		d, err := hex.DecodeString(m.Data)
		if err != nil || m.Pos < 0 || m.Pos > len(seed) {
			return bad()
		}
		dst = append(dst, seed[:m.Pos]...)
		if m.Pos < len(d) {
			dst = append(dst, d[m.Pos:]...)
		}
		return dst, nil
	case KindRaw:
		d, err := hex.DecodeString(m.Data)
		if err != nil {
			return bad()
		}
		return append(dst, d...), nil
	}
	return nil, fmt.Errorf("bytemut: unknown kind %q", m.Kind)
}

// Set builds a KindSet mutation.
func Set(pos, n int, data []byte) Mut {
	return Mut{Kind: KindSet, Pos: pos, Val: n, Data: hex.EncodeToString(data)}
}

// Raw builds a KindRaw mutation.
func Raw(data []byte) Mut { return Mut{Kind: KindRaw, Data: hex.EncodeToString(data)} }

// Visit is called with the mutation and the derived input. The slice is only
// valid during the call (its storage is re-used).
type Visit func(m Mut, b []byte)

// Replacements visits seed with the byte at each listed position (all positions
// when positions == nil) replaced by each of the 255 other values. The inputs are
// pairwise distinct and differ from the seed. Visits with ordinal in [lo,hi) only
// (ordinal = index(position)*255 + k); hi <= 0 means no upper limit.
func Replacements(seed []byte, positions []int, lo, hi int, f Visit) {
	buf := append([]byte(nil), seed...)
	n := len(seed)
	if positions != nil {
		n = len(positions)
	}
	ord := 0
	for i := 0; i < n; i++ {
		if hi > 0 && ord >= hi {
			return
		}
		if ord+255 <= lo {
			ord += 255
			continue
		}
		p := i
		if positions != nil {
			p = positions[i]
		}
		if p < 0 || p >= len(seed) {
			ord += 255
			continue
		}
		orig := seed[p]
		for v := 0; v < 256; v++ {
			if byte(v) == orig {
				continue
			}
			if ord >= lo && (hi <= 0 || ord < hi) {
				buf[p] = byte(v)
				f(Mut{Kind: KindRepl, Pos: p, Val: v}, buf)
			}
			ord++
		}
		buf[p] = orig
	}
}

// NumReplacements is the number of inputs Replacements visits over the full range.
func NumReplacements(seedLen int, positions []int) int {
	if positions != nil {
		return 255 * len(positions)
	}
	return 255 * seedLen
}

// Truncations visits seed[:l] for each listed length (every l in [0,len) when
// lens == nil).
func Truncations(seed []byte, lens []int, f Visit) {
	if lens == nil {
		for l := 0; l < len(seed); l++ {
			f(Mut{Kind: KindTrunc, Pos: l}, seed[:l])
		}
		return
	}
	for _, l := range lens {
		if l >= 0 && l < len(seed) {
			f(Mut{Kind: KindTrunc, Pos: l}, seed[:l])
		}
	}
}

// Extensions visits seed followed by each of the 256 byte values.
func Extensions(seed []byte, f Visit) {
	buf := append(append([]byte(nil), seed...), 0)
	for v := 0; v < 256; v++ {
		buf[len(seed)] = byte(v)
		f(Mut{Kind: KindExt, Val: v}, buf)
	}
}

// Insertions visits seed with each value of vals inserted before each listed
// position (all positions 0..len when positions == nil).
func Insertions(seed []byte, positions []int, vals []byte, f Visit) {
	buf := make([]byte, 0, len(seed)+1)
	do := func(p int) {
		if p < 0 || p > len(seed) {
			return
		}
		for _, v := range vals {
			buf = append(buf[:0], seed[:p]...)
			buf = append(buf, v)
			buf = append(buf, seed[p:]...)
			f(Mut{Kind: KindIns, Pos: p, Val: int(v)}, buf)
		}
	}
	if positions == nil {
		for p := 0; p <= len(seed); p++ {
			do(p)
		}
		return
	}
	for _, p := range positions {
		do(p)
	}
}

// Deletions visits seed with the byte at each listed position removed (all
// positions when positions == nil).
func Deletions(seed []byte, positions []int, f Visit) {
	buf := make([]byte, 0, len(seed))
	do := func(p int) {
		if p < 0 || p >= len(seed) {
			return
		}
		buf = append(buf[:0], seed[:p]...)
		buf = append(buf, seed[p+1:]...)
		f(Mut{Kind: KindDel, Pos: p}, buf)
	}
	if positions == nil {
		for p := 0; p < len(seed); p++ {
			do(p)
		}
		return
	}
	for _, p := range positions {
		do(p)
	}
}

// Splices visits a[:i] + b[i:] for every 0 < i < min(len(a),len(b)).
func Splices(a, b []byte, f Visit) {
	n := len(a)
	if len(b) < n {
		n = len(b)
	}
	hb := hex.EncodeToString(b)
	buf := make([]byte, 0, len(b)+len(a))
	for i := 1; i < n; i++ {
		buf = append(buf[:0], a[:i]...)
		buf = append(buf, b[i:]...)
		f(Mut{Kind: KindSplice, Pos: i, Data: hb}, buf)
	}
}

// AllStrings visits every byte string of length exactly n whose first byte is in
// [firstLo, firstHi] (ignored for n == 0), in lexicographic order. The Mut is not
// materialised (it would dominate the cost); use Raw(b) when one is needed.
func AllStrings(n int, firstLo, firstHi int, f func(b []byte)) {
	if n == 0 {
		f(nil)
		return
	}
	buf := make([]byte, n)
	for first := firstLo; first <= firstHi && first < 256; first++ {
		buf[0] = byte(first)
		for i := 1; i < n; i++ {
			buf[i] = 0
		}
		for {
			f(buf)
			i := n - 1
			for i >= 1 {
				buf[i]++
				if buf[i] != 0 {
					break
				}
				i--
			}
			if i < 1 {
				break
			}
		}
	}
}

// BigSize returns the minimal BigSize (BOLT 1) encoding of v.
func BigSize(v uint64) []byte { return BigSizeForm(v, 0) }

// BigSizeForm encodes v in the form of the given total size (1, 3, 5 or 9 bytes;
// 0 = minimal). It returns nil if v does not fit the form. Forms larger than the
// minimal one are the non-canonical encodings of v.
func BigSizeForm(v uint64, size int) []byte {
	min := 1
	switch {
	case v > 0xffffffff:
		min = 9
	case v > 0xffff:
		min = 5
	case v >= 0xfd:
		min = 3
	}
	if size == 0 {
		size = min
	}
	if size < min {
		return nil
	}
	switch size {
	case 1:
		return []byte{byte(v)}
	case 3:
		return []byte{0xfd, byte(v >> 8), byte(v)}
	case 5:
		return []byte{0xfe, byte(v >> 24), byte(v >> 16), byte(v >> 8), byte(v)}
	case 9:
		return []byte{0xff, byte(v >> 56), byte(v >> 48), byte(v >> 40), byte(v >> 32), byte(v >> 24), byte(v >> 16), byte(v >> 8), byte(v)}
	}
	return nil
}

// ReadBigSize is an independent reference reader: it returns the value, the
// number of bytes consumed and whether the encoding is minimal. n == 0 means b is
// too short for the form announced by its first byte.
func ReadBigSize(b []byte) (v uint64, n int, minimal bool) {
	if len(b) == 0 {
		return 0, 0, false
	}
	switch b[0] {
	case 0xfd:
		if len(b) < 3 {
			return 0, 0, false
		}
		v = uint64(b[1])<<8 | uint64(b[2])
		return v, 3, v >= 0xfd
	case 0xfe:
		if len(b) < 5 {
			return 0, 0, false
		}
		v = uint64(b[1])<<24 | uint64(b[2])<<16 | uint64(b[3])<<8 | uint64(b[4])
		return v, 5, v > 0xffff
	case 0xff:
		if len(b) < 9 {
			return 0, 0, false
		}
		for i := 1; i < 9; i++ {
			v = v<<8 | uint64(b[i])
		}
		return v, 9, v > 0xffffffff
	}
	return uint64(b[0]), 1, true
}

// TLVRecord is one record located by ParseTLV.
type TLVRecord struct {
	Type            uint64
	Len             uint64
	TypeOff, LenOff int // offsets of the two BigSize prefixes
	ValOff          int // offset of the value
}

// ParseTLV is an independent reference parser for a BOLT-1 TLV stream occupying
// the whole of b. ok is true iff b is canonical: every type and length minimally
// encoded, types strictly increasing, every value completely present, nothing
// left over. maxLen > 0 additionally bounds each record length (the p2p rule).
func ParseTLV(b []byte, maxLen uint64) (recs []TLVRecord, ok bool) {
	off := 0
	var prev uint64
	for off < len(b) {
		t, n, min := ReadBigSize(b[off:])
		if n == 0 || !min {
			return recs, false
		}
		if len(recs) > 0 && t <= prev {
			return recs, false
		}
		l, n2, min2 := ReadBigSize(b[off+n:])
		if n2 == 0 || !min2 {
			return recs, false
		}
		if maxLen > 0 && l > maxLen {
			return recs, false
		}
		vo := off + n + n2
		if l > uint64(len(b)-vo) {
			return recs, false
		}
		recs = append(recs, TLVRecord{Type: t, Len: l, TypeOff: off, LenOff: off + n, ValOff: vo})
		prev = t
		off = vo + int(l)
	}
	return recs, true
}
