// Package evid is the reporting half of every /verif harness: it records
// violations (with a replay artefact), honours the committed known-findings file,
// and writes the evidence JSON in the EVIDENCE.schema.json format.
//
// It is overlaid into the lnd module as github.com/lightningnetwork/lnd/verifmc/evid.
package evid

import (
	"crypto/sha256"
	"encoding/hex"
	"encoding/json"
	"fmt"
	"os"
	"path/filepath"
	"regexp"
	"sort"
	"strconv"
	"sync"
	"time"
)

// Finding is one entry of /verif/known_findings.json.
type Finding struct {
	Property string `json:"property"`
	// Status is "known" (suppresses the matching violation, prints KNOWN-FINDING)
	// or "fixed" (suppresses nothing; documentation only).
	Status string `json:"status"`
	// Match is a regular expression matched against the violation signature.
	Match  string `json:"match"`
	What   string `json:"what"`
	Commit string `json:"commit,omitempty"`
}

// Run collects the outcome of one check run.
type Run struct {
	ID    string
	Level string
	tier  string
	seed  int
	start time.Time

	mu          sync.Mutex
	violations  int
	seenSig     map[string]bool
	knownHit    map[int]bool
	known       []Finding
	knownRe     []*regexp.Regexp
	Assumptions []string
	maxReport   int
}

// Start creates the run from the environment set by bin/check.
func Start(id, level string) *Run {
	r := &Run{
		ID: id, Level: level, start: time.Now(),
		tier:      os.Getenv("VERIF_TIER"),
		seenSig:   map[string]bool{},
		knownHit:  map[int]bool{},
		maxReport: 5,
	}
	if r.tier != "thorough" {
		r.tier = "quick"
	}
	if s, err := strconv.Atoi(os.Getenv("VERIF_SEED")); err == nil {
		r.seed = s
	}
	kf := filepath.Join(Root(), "known_findings.json")
	if b, err := os.ReadFile(kf); err == nil {
		var all []Finding
		if err := json.Unmarshal(b, &all); err == nil {
			for _, f := range all {
				if f.Property == id && f.Status == "known" {
					re, err := regexp.Compile(f.Match)
					if err != nil {
						continue
					}
					r.known = append(r.known, f)
					r.knownRe = append(r.knownRe, re)
				}
			}
		}
	}
	return r
}

// Root is the /verif directory.
func Root() string {
	if d := os.Getenv("VERIF_ROOT"); d != "" {
		return d
	}
	return "/verif"
}

// Tier is "quick" or "thorough".
func (r *Run) Tier() string { return r.tier }

// Thorough reports whether the thorough tier was requested.
func (r *Run) Thorough() bool { return r.tier == "thorough" }

// Seed is VERIF_SEED (recorded only; no check makes random choices).
func (r *Run) Seed() int { return r.seed }

// Elapsed since Start.
func (r *Run) Elapsed() time.Duration { return time.Since(r.start) }

// Violations so far (unlisted ones only).
func (r *Run) Violations() int {
	r.mu.Lock()
	defer r.mu.Unlock()
	return r.violations
}

// Violation records a property violation. sig is a stable signature of the
// failing case class (used for de-duplication and for matching known findings);
// what is a human-readable description; replay is any JSON-serialisable value
// from which the failing execution can be re-run.
// It returns true if the violation is new and unlisted.
func (r *Run) Violation(sig, what string, replay any) bool {
	r.mu.Lock()
	defer r.mu.Unlock()
	for i, re := range r.knownRe {
		if re.MatchString(sig) {
			if !r.knownHit[i] {
				r.knownHit[i] = true
				fmt.Printf("KNOWN-FINDING: property=%s %s\n", r.ID, r.known[i].What)
			}
			return false
		}
	}
	if r.seenSig[sig] {
		return false
	}
	r.seenSig[sig] = true
	r.violations++
	if r.violations > r.maxReport {
		return true
	}
	h := sha256.Sum256([]byte(sig))
	dir := filepath.Join(Root(), "replays", r.ID)
	_ = os.MkdirAll(dir, 0o755)
	path := filepath.Join(dir, hex.EncodeToString(h[:6])+".json")
	b, _ := json.MarshalIndent(map[string]any{
		"property": r.ID, "signature": sig, "what": what, "replay": replay,
	}, "", " ")
	_ = os.WriteFile(path, b, 0o644)
	fmt.Printf("VIOLATION property=%s replay=%s\n", r.ID, path)
	fmt.Printf("  signature: %s\n  what: %s\n", sig, what)
	return true
}

// Finish writes the evidence file and returns the process exit code
// (0 = held on everything explored, 1 = violation).
func (r *Run) Finish(cov map[string]any) int {
	r.mu.Lock()
	defer r.mu.Unlock()
	if _, ok := cov["exhaustive"]; !ok {
		cov["exhaustive"] = true
	}
	ev := map[string]any{
		"property_id": r.ID,
		"tier":        r.tier,
		"seed":        r.seed,
		"level":       r.Level,
		"coverage":    cov,
		"assumptions": r.Assumptions,
		"wall_s":      time.Since(r.start).Seconds(),
		"violations":  r.violations,
	}
	if r.Assumptions == nil {
		ev["assumptions"] = []string{}
	}
	var kn []string
	for i := range r.known {
		if r.knownHit[i] {
			kn = append(kn, r.known[i].What)
		}
	}
	sort.Strings(kn)
	if kn != nil {
		cov["known_findings_reproduced"] = kn
	}
	dir := os.Getenv("VERIF_EVIDENCE_DIR")
	if dir == "" {
		dir = filepath.Join(Root(), "evidence")
	}
	_ = os.MkdirAll(dir, 0o755)
	b, _ := json.MarshalIndent(ev, "", " ")
	if err := os.WriteFile(filepath.Join(dir, r.ID+".json"), b, 0o644); err != nil {
		fmt.Printf("evidence write failed: %v\n", err)
	}
	fmt.Printf("RESULT property=%s tier=%s violations=%d wall=%.1fs\n",
		r.ID, r.tier, r.violations, time.Since(r.start).Seconds())
	if r.violations > 0 {
		return 1
	}
	return 0
}

// Samples keeps the first n distinct sample values offered to it.
type Samples struct {
	mu   sync.Mutex
	n    int
	list []any
}

// NewSamples returns a collector keeping at most n samples.
func NewSamples(n int) *Samples { return &Samples{n: n} }

// Add offers a sample.
func (s *Samples) Add(v any) {
	s.mu.Lock()
	defer s.mu.Unlock()
	if len(s.list) < s.n {
		s.list = append(s.list, v)
	}
}

// List returns the collected samples (never empty: a placeholder is
// returned if nothing was offered, which the schema would then flag).
func (s *Samples) List() []any {
	s.mu.Lock()
	defer s.mu.Unlock()
	return append([]any{}, s.list...)
}

// Counter is a concurrency-safe set of strings used for distinct-outcome
// accounting.
type Counter struct {
	mu sync.Mutex
	m  map[string]int
}

// NewCounter returns an empty counter.
func NewCounter() *Counter { return &Counter{m: map[string]int{}} }

// Add counts one occurrence of k.
func (c *Counter) Add(k string) {
	c.mu.Lock()
	c.m[k]++
	c.mu.Unlock()
}

// Distinct is the number of distinct keys.
func (c *Counter) Distinct() int {
	c.mu.Lock()
	defer c.mu.Unlock()
	return len(c.m)
}

// Map returns a copy.
func (c *Counter) Map() map[string]int {
	c.mu.Lock()
	defer c.mu.Unlock()
	o := make(map[string]int, len(c.m))
	for k, v := range c.m {
		o[k] = v
	}
	return o
}
