// Package seqmc is the "operation sequences against a reference model" search loop
// (engine E2 of DESIGN.md): level-synchronous breadth-first exploration of every
// operation sequence over a finite alphabet up to a depth bound, on a *real*
// implementation whose states cannot be cloned, with canonical-state de-duplication.
//
// It differs from explore.Run in one respect that matters for API-level stores whose
// alphabets are large and whose operations are mostly refused or read-only: after an
// operation that leaves the canonical key unchanged (a self-loop) the *same* live
// instance is used for the next operation of the alphabet, so a state with |A|
// operations costs 1 + (#state-changing operations) fresh instances instead of |A|.
// That an operation left the state unchanged is *observed* (the key is recomputed
// from the implementation after every operation), never assumed.
//
// Guarantees:
//   - every state whose shortest history has length <= MaxDepth is discovered, and
//     every operation of the alphabet is executed on the implementation in every
//     discovered state of depth < MaxDepth (so every operation sequence of length
//     <= MaxDepth is covered modulo the "same key => same futures" argument that the
//     system supplies for its Key);
//   - BFS order: the history recorded for a state is a shortest one, so the first
//     counterexample of a clause is a shortest one;
//   - determinism gate: whenever a recorded history is replayed on a fresh instance
//     the key reached must equal the recorded key, otherwise the run is flagged
//     (Result.ReplayMismatches) and reported as not exhaustive by the caller.
package seqmc

import (
	"fmt"
	"runtime"
	"runtime/debug"
	"sort"
	"strings"
	"sync"
	"sync/atomic"
	"time"
)

// Sys is one live instance of the system under exploration.
type Sys interface {
	// Do performs the operation; oracles run inside. A non-nil error is a
	// harness-level problem (unknown op), never a verdict.
	Do(op string) error
	// Key is the canonical state key ("same key => same futures").
	Key() string
	// Close releases resources.
	Close()
}

// Replayer is optionally implemented by a Sys that can re-establish an already
// explored history faster than by Do-ing every step (e.g. without re-running the
// oracles on the prefix). The key reached is still compared with the recorded one.
type Replayer interface {
	Replay(hist []string) error
}

// Options control one exploration.
type Options struct {
	// New builds a fresh instance in its initial state. worker identifies the
	// calling worker (0..Workers-1) so that the harness can keep per-worker pools.
	New func(worker int) (Sys, error)
	// Alphabet is the ordered operation alphabet (simplest first).
	Alphabet []string
	// MaxDepth is the maximum history length.
	MaxDepth int
	// Workers is the number of concurrent workers (0 = GOMAXPROCS).
	Workers int
	// Deadline, if non-zero, stops exploration (result then not exhaustive).
	Deadline time.Time
	// MaxStates caps the number of distinct states (0 = none).
	MaxStates int64
	// Stop aborts the search when it returns true.
	Stop func() bool
	// NoFastReplay forces step-by-step Do even if the system implements Replayer.
	NoFastReplay bool
	// Expandable, if set, can veto the expansion of a state (e.g. a state in
	// which a violation was already reported).
	Expandable func(key string) bool
	// OnState is called exactly once per distinct state, on a live instance that
	// is in that state, with a shortest history.
	OnState func(s Sys, hist []string)
}

// Result is the measured coverage.
type Result struct {
	States           int64
	Transitions      int64 // operations executed from a discovered state (incl. self-loops)
	SelfLoops        int64 // of which the key did not change
	Replays          int64 // fresh instances built
	ReplaySteps      int64 // operations executed while re-establishing a state
	Unexpanded       int64 // states at the depth bound or vetoed
	PerDepth         []int64
	MaxDepth         int
	Exhaustive       bool
	CapHit           string
	ReplayMismatches int64
	SampleHist       [][]string
}

type node struct {
	hist []string
	key  string
}

// Run explores and returns coverage.
func Run(o Options, onPanic func(hist []string, v any)) Result {
	if o.Workers <= 0 {
		o.Workers = runtime.GOMAXPROCS(0)
	}
	var (
		res     Result
		mu      sync.Mutex
		seen    = map[string]struct{}{}
		capped  atomic.Bool
		capWhy  atomic.Value
		samples [][]string
	)
	res.Exhaustive = true
	stop := func(why string) {
		if capped.CompareAndSwap(false, true) {
			capWhy.Store(why)
		}
	}
	shouldStop := func() bool {
		if capped.Load() {
			return true
		}
		if !o.Deadline.IsZero() && time.Now().After(o.Deadline) {
			stop("deadline")
			return true
		}
		if o.Stop != nil && o.Stop() {
			stop("stopped")
			return true
		}
		return false
	}
	guard := func(hist []string, f func()) (ok bool) {
		defer func() {
			if v := recover(); v != nil {
				ok = false
				if onPanic != nil {
					onPanic(append([]string{}, hist...), fmt.Sprintf("%v\n%s", v, debug.Stack()))
				}
			}
		}()
		f()
		return true
	}
	// fresh builds an instance and replays hist; returns nil on failure.
	fresh := func(worker int, hist []string, wantKey string) Sys {
		var s Sys
		ok := guard(hist, func() {
			var err error
			s, err = o.New(worker)
			if err != nil {
				panic(fmt.Sprintf("seqmc: New: %v", err))
			}
			atomic.AddInt64(&res.Replays, 1)
			if rp, ok := s.(Replayer); ok && len(hist) > 0 && !o.NoFastReplay {
				if err := rp.Replay(hist); err != nil {
					panic(fmt.Sprintf("seqmc: replay of %v failed: %v", hist, err))
				}
				atomic.AddInt64(&res.ReplaySteps, int64(len(hist)))
				return
			}
			for i, a := range hist {
				if err := s.Do(a); err != nil {
					panic(fmt.Sprintf("seqmc: replay diverged at %d (%s): %v", i, a, err))
				}
				atomic.AddInt64(&res.ReplaySteps, 1)
			}
		})
		if !ok {
			if s != nil {
				guard(hist, s.Close)
			}
			return nil
		}
		if wantKey != "" {
			if k := s.Key(); k != wantKey {
				atomic.AddInt64(&res.ReplayMismatches, 1)
				stop("nondeterminism_detected")
				guard(hist, s.Close)
				return nil
			}
		}
		return s
	}

	// initial state
	var frontier []node
	{
		s := fresh(0, nil, "")
		if s == nil {
			res.Exhaustive = false
			res.CapHit = "initial state could not be built"
			return res
		}
		k := s.Key()
		seen[k] = struct{}{}
		res.States = 1
		res.PerDepth = append(res.PerDepth, 1)
		if o.OnState != nil {
			guard(nil, func() { o.OnState(s, nil) })
		}
		guard(nil, s.Close)
		frontier = []node{{key: k}}
	}

	for depth := 0; len(frontier) > 0; depth++ {
		if depth >= o.MaxDepth {
			res.Unexpanded += int64(len(frontier))
			break
		}
		var (
			next   []node
			nextMu sync.Mutex
			idx    int64 = -1
			wg     sync.WaitGroup
		)
		for wk := 0; wk < o.Workers; wk++ {
			wg.Add(1)
			go func(wk int) {
				defer wg.Done()
				for {
					i := int(atomic.AddInt64(&idx, 1))
					if i >= len(frontier) || shouldStop() {
						return
					}
					nd := frontier[i]
					if o.Expandable != nil && !o.Expandable(nd.key) {
						atomic.AddInt64(&res.Unexpanded, 1)
						continue
					}
					var s Sys
					for _, op := range o.Alphabet {
						if shouldStop() {
							break
						}
						if s == nil {
							if s = fresh(wk, nd.hist, nd.key); s == nil {
								if capped.Load() {
									break
								}
								continue // panic already reported; try the next op on a new instance
							}
						}
						h := append(append(make([]string, 0, len(nd.hist)+1), nd.hist...), op)
						var k string
						ok := guard(h, func() {
							if err := s.Do(op); err != nil {
								panic(fmt.Sprintf("seqmc: op %s: %v", op, err))
							}
							k = s.Key()
						})
						atomic.AddInt64(&res.Transitions, 1)
						if !ok {
							guard(h, s.Close)
							s = nil
							continue
						}
						if k == nd.key {
							atomic.AddInt64(&res.SelfLoops, 1)
							continue
						}
						mu.Lock()
						_, dup := seen[k]
						if !dup {
							seen[k] = struct{}{}
							res.States++
							if len(samples) < 4 && len(h) >= 3 {
								samples = append(samples, h)
							}
						}
						nstates := res.States
						mu.Unlock()
						if !dup {
							if o.OnState != nil {
								guard(h, func() { o.OnState(s, h) })
							}
							nextMu.Lock()
							next = append(next, node{hist: h, key: k})
							nextMu.Unlock()
							if o.MaxStates > 0 && nstates >= o.MaxStates {
								stop("max_states")
							}
						}
						guard(h, s.Close)
						s = nil
					}
					if s != nil {
						guard(nd.hist, s.Close)
					}
				}
			}(wk)
		}
		wg.Wait()
		if capped.Load() {
			break
		}
		sort.Slice(next, func(i, j int) bool {
			return strings.Join(next[i].hist, "\x00") < strings.Join(next[j].hist, "\x00")
		})
		res.PerDepth = append(res.PerDepth, int64(len(next)))
		if len(next) > 0 {
			res.MaxDepth = depth + 1
		}
		frontier = next
	}
	res.SampleHist = samples
	if capped.Load() {
		res.Exhaustive = false
		res.CapHit, _ = capWhy.Load().(string)
	}
	return res
}
