# Sourced by every command: offline Go env for building /repo (needs go1.25.13).
TC=/root/go/pkg/mod/golang.org/toolchain@v0.0.1-go1.25.13.linux-amd64/bin
if [ -x "$TC/go" ]; then export PATH="$TC:$PATH"; fi
export GOTOOLCHAIN=local GOFLAGS=-mod=mod GOPROXY=off GOSUMDB=off
