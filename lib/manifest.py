#!/usr/bin/env python3
"""Regenerates /verif/MANIFEST.json from the table below and validates it."""
import json, os, sys
V = os.path.dirname(os.path.dirname(os.path.abspath(__file__)))
ALL = ["C%02d" % i for i in range(1, 21)]

CHECKS = {
 "C01": dict(cat="model_checking", engine="chanmc",
   technique="explicit-state model checking of the real two-peer LightningChannel system: all interleavings of sends/in-order deliveries, canonical-state dedup, successor = replay on a fresh instance",
   text="Every reachable state of bounded two-peer scripts (<=3 HTLCs, sequences of up to three fee updates incl. reverts to a rate in use, dust-straddling amounts, duplicates, 7 channel types, both openers) is visited on the real lnwallet state machines; each transition is judged by signature-verifies, msat conservation, exact-balance, fee/dust/tx-output and mirror oracles computed from the explorer's own HTLC table. Further families: every type x opener x offerer with one HTLC first (breadth), per-party channel bounds (max_accepted_htlcs / max pending / htlc_minimum) at their boundaries and differing per side, a non-opener starting at exactly 0 with balances at the dust limits, and sign-before-revoke orders (the answer to a commitment_signed is a step of its own, so a party may sign, add or resolve between ReceiveNewCommitment and RevokeCurrentCommitment).",
   note="Bounded scripts and amount alphabet; canonical key drops signatures/nonces/txids (argued in engine/chanmc/world.go); kvdb atomicity.", ref="§4 C01"),
 "C02": dict(cat="fault_enumeration", engine="chanmc+crashdb",
   technique="exhaustive crash-point enumeration: a crash (both sides reload from disk) after every state-machine call of every explored schedule, incl. a second crash; durable-writes-per-step measured by a kvdb wrapper",
   text="Crash points are enumerated completely at kvdb-transaction granularity over the explored schedule space; each reload is checked for success, equality with the pre-crash disk-mirrored projection, safety against released revocations, and continued operation to a mirrored terminal state.",
   note="kvdb write transactions are atomic (backend contract, stated by the property); bounded scripts.", ref="§4 C02"),
 "C03": dict(cat="model_checking", engine="chanmc",
   technique="explicit-state model checking with a disconnect action at every state (<=2 cuts, with/without data-loss-protect fields) against a reference model of undelivered messages",
   text="Every cut point of every explored interleaving is taken (each direction having delivered exactly the consumed prefix), both sides reload and run the real ChanSyncMsg/ProcessChanSyncMsg; the retransmission list is compared with a reference model, every retransmitted message must be accepted and the run must end mirrored with every HTLC resolved exactly once.",
   note="Link-level channel_ready/mailbox handling is covered by C08; bounded scripts; FIFO wires.", ref="§4 C03"),
 "C06": dict(cat="exploration", engine="grid+chanmc",
   technique="exhaustive enumeration of all store prefixes k<=2^12 (2^16 thorough) x all single-bit corruptions against a full-list reference; release rule monitored on every revoke_and_ack of an exhaustively explored two-peer schedule space with reconnects",
   text="Every prefix length up to the bound, every single-bit corruption for small k and every serialisation point is enumerated on the real RevocationStore/Producer and compared with an independent BOLT-3 reference; the release rule (secret of exactly the next height, next point, newer commitment already durable) is checked on every revocation the API returns in every explored state. In every state with a revoke_and_ack at the head of a wire the receiver is also handed a lattice of ~280 algebraically related wrong revocations (n-s, s+-1, 2s, every single-bit flip, neighbouring heights, all-zero/ones x honest/negated/repeated next point) on all 7 channel types: each must be refused with no durable write, after which the honest one must still be accepted.",
   note="SHA-256 trusted; indices above the tier bound covered by bit patterns only (the property concedes this).", ref="§4 C06"),
}

CHECKS.update({
 "C09": dict(cat="exploration", engine="grid (in-harness)+evid",
   technique="exhaustive boundary-lattice and small-domain enumeration of the real link policy check against a math/big reference of the property statement (differential, scenario-independent)",
   text="Every comparison of the forwarding decision (fee incl. inbound fee/discount, no-loss, min/max HTLC, bandwidth, expiry too soon/too far, CLTV delta and range) is driven at threshold-1/threshold/threshold+1 for every point of a policy/config lattice plus exhaustive 6-bit sub-domains (3e7 quick / 3.5e8 thorough calls of the real CheckHtlcForward/CheckHtlcTransit on real channel links) and compared with the statement evaluated in unbounded integers; a rejection must name a violated rule.",
   note="Exact-arithmetic equality is claimed on the realistic domain (height <= 2^31, deltas <= 2^16, amounts <= 10 BTC, rates <= 100%); cases beyond it are enumerated and their disagreements listed in the evidence; bandwidth from four channel states; inbound-fee plumbing in the switch is C08.", ref="§4 C09"),
 "C11": dict(cat="exploration", engine="bytemut (in-harness)+evid",
   technique="explicit enumeration on the real brontide Machine/Conn/Dial/Listener with scenario-independent oracles (a frame or act is accepted only if byte-identical to the genuine next one; delivered equals sent; exact flush accounting; pairwise-distinct ciphertexts), 3x determinism gate, JSON case replay",
   text="Exhaustive bounded enumeration of handshake key triples, every single-byte corruption/truncation/splice/replay/reflection of acts and transport frames, every accept-k-then-timeout write pattern around rotation boundaries, and long bidirectional message streams across 3-6 key rotations on the real implementation.",
   note="Fixed key material; byte-level neighbourhoods rather than all strings; only the first read of tampered data is judged; nonce uniqueness observed black-box via ciphertext distinctness of identical plaintexts.", ref="§4 C11"),
})

CHECKS.update({
 "C04": dict(cat="exploration", engine="chanmc+explore (in-package contractcourt)",
   technique="explicit-state exploration of the real LightningChannel pair; the harness plays the cheater by snapshotting each party's broadcastable txs, and the victim's NewBreachRetribution -> newRetributionInfo -> RetributionStore round trip -> createJusticeTx output is executed input by input in txscript.Engine against the real revoked and second-level outputs",
   text="Bounded exhaustive enumeration (deviation-bounded and full interleavings, a reload at every point) of real two-peer histories on all 7 channel types; every revoked height is judged from persisted state: state hint, recorded indexes/amounts, ErrRevLogDataMissing exactly when specified, and script-interpreter validity of every justice input incl. second-level conversions. One retributionInfo object is additionally driven through every sequence of <=2 (thorough 3) spend events (second-level conversions, own justice variants confirming, single-input reports) with the justice transactions re-created after each event and every input executed against a UTXO model of the cheater's transactions.",
   note="One listed finding (lease channel, victim is opener: to_remote CLTV vs nLockTime 0). Justice fee/weight not judged; chain watcher breach dispatch driven through a real chainWatcher with stale handles (close-summary content of non-breach closes is C05/C12); <=3 HTLCs, one fee update, 2 reconnects.", ref="§4 C04"),
 "C05": dict(cat="exploration", engine="chanmc+explore",
   technique="explicit-state exploration of the real LightningChannel pair (chanmc); per distinct state the node's ForceClose / NewUnilateralCloseSummary resolutions are turned into the resolvers' sweep inputs and executed in the btcd script interpreter against true prevouts, with one-block-early negative controls and a claimable-value equation from the explorer's HTLC table",
   text="Every distinct reachable state of the bounded two-peer scripts (all 7 channel types, both roles, mid-dance pending commitments, reloads) x {own, peer-current, peer-pending} close is judged by the script interpreter on every commitment, second-level and sweep input.",
   note="Witness-type choice transcribes contractcourt's resolver switches (resolver goroutines not executed); identical close scenarios within a space are validated once (exact input fingerprint); own close checked from local height 1 (fixture's height-0 signature is fake).", ref="§4 C05"),
 "C07": dict(cat="model_checking", engine="seqmc+vsched/vsync+explore+crashdb",
   technique="explicit-state BFS over op alphabets on the real circuit map (seqmc), crashdb crash/failure injection after every durable write, cooperative scheduler vsched with a sync-import shim (vsync) exploring every schedule of 2-3 threads, plus a free-running -race pass over the same bodies",
   text="Every operation sequence (to a fixpoint for the small universe, depth-bounded for the larger one), every crash point between durable writes, write-failure injection, and every schedule of 2-3 threads on one circuit are executed on the real circuitMap and judged by a reference model written from the statement (at-most-once, restart equivalence, purge rules, linearizability of close/fail/delete/lookups).",
   note="Contract assumptions (contiguous outgoing HTLC ids; Commit||Delete and Open||Delete of the same key never concurrent; no delete of a circuit whose outgoing HTLC is uncommitted) are listed in evidence.assumptions; data races are covered by the thorough-only -race target.", ref="§4 C07"),
 "C17": dict(cat="exploration", engine="chanmc+grid (in-harness)",
   technique="lattice enumeration on the real close code with a reference model written from the property statement (exact outputs, conservation, byte-identical transactions on both sides), independent ECDSA verification and the btcd script interpreter as oracle; two real ChanClosers and the rbf_coop state machines driven synchronously",
   text="Balance x fee x dust x role x type lattice on CoopCloseBalance/CreateCooperativeCloseTx and on real channels (all 7 types, both openers, legacy + RBF options, p2wkh/p2wsh/p2tr pairs); all ideal-fee pairs in [100,700]^2 (thorough; quick = step 7 + near-diagonal) between two real ChanClosers; rbf_coop state machines driven through ProcessEvent over fee ladders. OP_RETURN delivery scripts (pure lattice and real channels) and the BIP69 tie fee (both outputs equal) are in the lattices.",
   note="protofsm goroutine executor, link flushing and chain notifications replaced by a synchronous driver; Environment.BlockHeight = 0 as in production; OP_RETURN/aux close outputs outside the alphabet; fixed key material.", ref="§4 C17"),
 "C18": dict(cat="exploration", engine="grid (in-harness)+synctest",
   technique="grid/lattice enumeration with a scenario-independent oracle computed from the transaction bytes and the recorded BumpRequests, full sweeper->aggregator->publisher scenarios run inside testing/synctest bubbles for deterministic quiescence, 3x replay gate before any report",
   text="Fee-function traces (all (start,end) <= 32/64 x conf <= 10/13 x every block subset x Increment interleavings + structural rates to 2^40/2^50 and conf targets to 2016) and full sweeper pipeline scenarios (threshold +-1 lattices x every block subset x mempool/publish answer masks) are enumerated exhaustively on the real code.",
   note="Exported API only; goroutine interleavings inside one block handler are the runtime's; three genuine findings were repaired in /repo (fix: commits 1eaf562, f399f77, 1c24e77).", ref="§4 C18"),
})

CHECKS.update({
 "C19": dict(cat="exploration", engine="grid (in-harness, 16 worker subprocesses)",
   technique="exhaustive bounded enumeration of pathfinding queries on the real findPath+newRoute, each returned route judged by an independent math/big validator and per hop by the real htlcswitch CheckHtlcForward",
   text="All <=4/5-channel multigraphs on 4 nodes x a policy palette, fee lattices on chain/parallel/self-payment shapes, hints, blinded tails and onion-size sweeps are enumerated; restriction and +-1 boundary probes are derived mechanically from every returned route, and every route is validated against the statement in unbounded integers. A foreign-source space (source != own node x disabled first hops of the source x bandwidth hints) and the real ChannelRouter.FindRoute entry with its own bandwidth manager (link offline / ineligible / full / bandwidth +-1 on every own hop) are included.",
   note="Soundness only (optimality not judged); mission control replaced by a constant probability; local-channel usability judged by the bandwidth hint as lnd documents; one genuine finding repaired in /repo (fix: bb5e6cd, blinded path htlc_maximum).", ref="§4 C19"),
})

CHECKS.update({
 "C14": dict(cat="model_checking", engine="explore+synctest",
   technique="level-synchronous BFS (through the explore engine) over all chain, client, rescan and restart operation sequences of a 7-block, 1-tx, 2-spender universe on the real TxNotifier and HeightHintCache, each world in a synctest bubble, judged after every call by a reference chain, per-client views and the read-back hint cache",
   text="Every operation sequence up to depth 6-8 (thorough 7-13, two notifier restarts) incl. reorgs within the safety limit, registrations with any true hint, cancellations, rescan completions racing with blocks (hint-read window and ConnectTip/NotifyHeight split as explicit interleavings) is executed on the real notifier; canonical-state dedup; a blocked send with the lock held is detected by bubble quiescence. Further spaces call ProcessRelevantSpendTx (announced spends, details above the tip), keep clients from reading between events (an unread notification is judged by peek at every state and a reorg notice must be waiting), and repeat every rescan with the real MatchesTx functions.",
   note="Reorgs while the notifier is down are excluded (lnd's documented limitation); stale-scan candidates are recorded, not reported; two genuine findings repaired in /repo (fix: 8ff4b07, 8d4968e); thorough adds a free-running -race pass.", ref="§4 C14"),
})

CHECKS.update({
 "C16": dict(cat="model_checking", engine="seqmc+crashdb",
   technique="explicit-state BFS with canonical read-interface keys (engine seqmc) on the real KVStore and SQLStore in lock-step, reference-ledger admission clauses, the transcribed 16-row status table, KV==SQL differential, transaction-granular linearizability via crashdb/TransactionExecutor scheduling hooks, and a free-running (-race) linearizability pass",
   text="Every payment-store operation sequence (2 hashes, attempt ids 1-4, 3 amounts, 8 MPP/blinded record kinds, all deletes, store re-open) to depth 5 (quick) / 6-7 (thorough) is executed on both real backends; every multi-transaction operation is interleaved with every other operation at its transaction boundary and must be explained by a sequential order. A status-class family starts every delete / query / init / fail letter from a representative state of every row of the status truth table (incl. failure reason + settled or in-flight attempt in both orders) crossed with partner-payment classes.",
   note="Six KV/SQL divergences on contract-edge histories (duplicate or foreign attempt ids, unknown payments) are listed as known findings; SQL means sqlite; goroutine schedules inside one transaction are not enumerated (every operation but KV InitPayment is one transaction; that boundary is enumerated); concurrent RegisterAttempt on one hash is a documented caller obligation.", ref="§4 C16"),
})

CHECKS.update({
 "C10": dict(cat="exploration", engine="bytemut+evid (lnwire in /repo, tlv inside /repo/tlv)",
   technique="exhaustive byte-level enumeration on the real codecs: all bodies <=2/3 bytes plus every single-byte replacement, truncation, extension, insertion, deletion and BigSize-prefix edit of a deterministic seed corpus (lnwire, crash-isolated GOMAXPROCS=1 workers with exact allocation accounting); all <=3-record TLV streams over structural types x every BigSize form x every order, declared-length lattice to 2^64-1, all primitive decoders and varint forms (tlv), differential against an independent BOLT-1 reference parser and a decode/encode fixpoint oracle",
   text="Every registered message type and failure code and every tlv entry point is driven through bounded exhaustive input neighbourhoods; acceptance must imply a canonical fixpoint, generated values must round-trip losslessly, TLV acceptance must equal canonicity, and no input may panic or allocate beyond the measured bound. Every variable-length element of every message (found by reflection: byte slices, strings, lists, feature vectors, address lists over tcp4/tcp6/tor v2/v3/DNS/opaque) is additionally set to its extreme legal lengths (0..3, 251..258, 65531..65536, the encoder limit -2..+1) and must round-trip value -> bytes -> value.",
   note="Four genuine findings on the unchanged tree are listed as known findings (tlv non-p2p lengths >= 2^63, DBigSize ignoring the record length, ExtraData rebuilt without unknown records in 14 message types, QueryShortChanIDs zero-length id list at maximum size); 'all byte strings' is covered through the stated neighbourhoods only; lnwire compiles against the cached tlv@v1.4.0 (identical source), only the tlv half sees /repo/tlv edits; allocation constants are measured maxima x2.", ref="§4 C10"),
})

CHECKS.update({
 "C12": dict(cat="exploration", engine="grid (in-package contractcourt)",
   technique="exhaustive enumeration of HTLC-set cells x configs x trigger/confirmation scenarios on the real, un-started ChannelArbitrator driven synchronously through advanceState with harness-owned dependencies; a spec function written from the statement judges force-close heights, resolvers, upstream fails and final outcomes; membership patterns cross-checked against chanmc reachable states",
   text="All cells of direction x per-commitment dust x preimage knowledge x membership pattern x expiry class x forwarded/own for 1-3 (thorough 4) HTLCs, all broadcast-delta settings, grace period, both feeds, every go-to-chain step and confirmed commitment are executed on the real state machine (0.78 M executions quick, 11 M thorough). The confirmed-commitment pipeline also runs through the real started chain watcher (closeObserver/processDetectedSpend): confirmation depth {1,3} x confirming commitment x rival spend {none, other commitment, same tx, RBF coop close} x {replaced, re-orged} x detecting call site, and cooperative closes with both sequence values must be classified as cooperative.",
   note="Three known findings K1-K3 (dust fail-back before the remote commitment confirms; dust / dangling-dust never failed back after our own broadcast; Go-map-order dependent dangling classification); restart and persistence are C13; breach/coop confirmations judged for panic freedom only.", ref="§4 C12"),
 "C13": dict(cat="fault_enumeration", engine="crashdb+synctest (in-package contractcourt)",
   technique="exhaustive stop-after-every-commit (singles, pairs, triples) of the real started ChannelArbitrator and resolvers on newBoltArbitratorLog over a crashdb-wrapped bbolt file inside a testing/synctest bubble in re-exec'd worker processes, with a harness-owned chain, notifier, sweeper and channel.db model and restart-like-ChainArbitrator logic; differential against the uninterrupted run",
   text="For 154 (thorough 450) generated close scenarios (local, remote, remote-pending, breach, coop x HTLC subsets) every stop point k in [1,W], every pair and (small scenarios) every triple of stops is executed; terminal state, per-HTLC upstream outcome, reports, confirmed txs and resolution ordering must equal the uninterrupted run.",
   note="Found three restart defects, repaired in /repo (fix: b17f90a, 3fea99b, 17b4d33); stop instants are transaction commits; goroutine interleavings inside one stimulus are the runtime's; anchor-type channels only; anchors not compared.", ref="§4 C13"),
})

CHECKS.update({
 "C15": dict(cat="model_checking", engine="seqmc+vsched/vsync",
   technique="exhaustive breadth-first enumeration of invoice event sequences on the real InvoiceRegistry over the KV and the SQL (sqlite) store in lock-step, plus all preemption-bounded interleavings of two links and the set-timeout transaction under a cooperative scheduler (sync-import shim), each step judged by a reference oracle written from the property statement",
   text="HTLCs over an amount x declared-total x address x expiry lattice, exact replays, cancel, hold-settle with right/wrong preimage, set timeout and height events are enumerated to depth 4 (thorough 4-6) per invoice kind (regular, hold, zero-amount, AMP, keysend, blinded-path, spontaneous AMP); every settle order is checked against the settlement conjunction, states must be monotone, AmtPaid exact, replays verdict-stable, KV == SQL. The invoice expiry watcher runs as a second actor (time expiry, block expiry of accepted hold invoices, re-population after restart, non-forced cancel path).",
   note="No synctest bubble: a virtual clock implementation drives the registry deterministically; invoice expiry watcher and HTLC interceptor outside the universe; sqlite only; two genuine findings repaired in /repo (fix: 0e60830, a97d82f).", ref="§4 C15"),
})

CHECKS.update({
 "C20": dict(cat="model_checking", engine="seqmc+synctest (in-package discovery)",
   technique="explicit-state BFS over gossip message alphabets (seqmc) against a reference acceptance model written from the property statement and BOLT 7, plus exhaustive single-byte and single-field corruption enumeration, on the real started AuthenticatedGossiper + graph.Builder + KV/SQL graph store inside testing/synctest bubbles (virtual time)",
   text="All message sequences up to depth 5 (quick) / 6 (thorough) over valid messages, corrupted twins, future-block channels and bursts, with canonical-state de-duplication, and every byte x {0x01,0x80,0xff} plus 111 single-field semantic corruptions in five graph contexts are delivered through ProcessRemoteAnnouncement; the graph may change only as the model predicts and every broadcast must be byte-equal to an accepted message. Every update, announcement and node-announcement corruption is also delivered to channels sitting in the zombie index, for every stored-key cell (both keys, one key, policy missing), both pruning modes and both stores.",
   note="Gossip v1 only; fixed key material; zombie marking after a failed funding check is not counted as a graph change; the completeness half (valid message applied unless a documented defence drops it) is stronger than the property and reported under its own signature; store batch interval 0 instead of 500 ms (a mutex held across the virtual timer wait freezes a bubble).", ref="§4 C20"),
})

CHECKS.update({
 "C08": dict(cat="exploration", engine="explore+synctest (in-package htlcswitch, -tags dev)",
   technique="stateless explicit-state exploration (shared explore engine) of the unmodified three-hop htlcswitch network inside testing/synctest bubbles in worker subprocesses: every peer message is captured into explorer-owned FIFO wires and re-injected, so message order, timer ticks, hold-invoice resolution, slow wires, link cuts and forwarder restarts are explicit enumerable events; bound through a go -overlay in-package test, no source hooks",
   text="Exhaustive, deviation-bounded enumeration of event schedules of the real switches, links, mailboxes, circuit maps, forwarding packages, channels and registries in virtual time; every quiescent point is judged by preimage-provenance and fail-only-when-removed oracles and every terminal quiescence by conservation to the msat, mirrored channel ends, no dangling HTLC or circuit and exactly one result per payment.",
   note="Quick = 47 spaces (<=1 deviation of any kind, plus slow-wire x restart product on a two-payment batch), thorough = 327 spaces (<=2 deviations with <=2 faults); determinism gated (4 x 20 replays, per-step key self-check, 3x replay before any report; a replay divergence is never a violation); one lnd-internal mailbox add/response race is pinned to its add-first order and handler-internal goroutine interleavings are not enumerated (the property's own quantifier leaves them to the runtime).", ref="§4 C08"),
})

NOT_YET = "harness not built yet in this round (planned, see DESIGN.md §4)"

def main():
    checks = []
    for pid in ALL:
        if pid not in CHECKS: continue
        c = CHECKS[pid]
        checks.append({
          "property_id": pid,
          "quick_cmd": "bin/check %s --tier quick" % pid,
          "thorough_cmd": "bin/check %s --tier thorough" % pid,
          "evidence_file": "/verif/evidence/%s.json" % pid,
          "replay_cmd_template": "bin/check %s --replay {path}" % pid,
          "engine": c["engine"],
          "level_claimed": {"category": c["cat"], "text": c["text"], "design_ref": c["ref"]},
          "level_note": c["note"],
          "technique": c["technique"],
        })
    na = [{"property_id": p, "reason": NA.get(p, NOT_YET)} for p in ALL if p not in CHECKS]
    m = {
      "version": 1,
      "setup_cmd": "bin/setup",
      "hooks": {"guard": "verif", "enable": "none needed: harnesses are bound with `go test -c -overlay` generated by bin/check from /repo's working tree; no hook commits in /repo",
                "baseline_off_cmd": json.load(open("/root/.vp/BASELINE.json"))["cmd"] if os.path.exists("/root/.vp/BASELINE.json") else "",
                "source_commits": [], "add_only": True},
      "engines": ENGINES,
      "checks": checks,
      "not_applicable": na,
      "notes": "All checks explore the real lnd code (no separate model); see DESIGN.md.",
    }
    json.dump(m, open(os.path.join(V, "MANIFEST.json"), "w"), indent=1)
    try:
        import jsonschema
        jsonschema.validate(m, json.load(open("/root/.vp/MANIFEST.schema.json")))
        print("MANIFEST.json valid; %d checks, %d not_applicable" % (len(checks), len(na)))
    except ImportError:
        print("jsonschema not available; written unvalidated")

NA = {}
ENGINES = [
 {"name": "evid", "path": "engine/evid", "serves_properties": ALL, "kind_free_text": "evidence/violation/known-findings reporting"},
 {"name": "explore", "path": "engine/explore", "serves_properties": ["C01","C02","C03","C04","C05","C06"], "kind_free_text": "explicit-state search over a non-clonable implementation: history replay on fresh instances, canonical-key dedup, optional deviation bound, 16 workers"},
 {"name": "chanmc", "path": "engine/chanmc", "serves_properties": ["C01","C02","C03","C04","C05","C06","C17"], "kind_free_text": "two real LightningChannels on two bbolt DBs + FIFO wires + script of intents; oracles and reconnect reference model"},
 {"name": "seqmc", "path": "engine/seqmc", "serves_properties": ["C07","C16"], "kind_free_text": "level-synchronous BFS over operation alphabets on a real instance with reference-model oracle hooks"},
 {"name": "vsched", "path": "engine/vsched", "serves_properties": ["C07"], "kind_free_text": "cooperative baton-passing scheduler: one thread runs at a time, scheduling points at lock operations and DB transactions, deadlock detection"},
 {"name": "vsync", "path": "engine/vsync", "serves_properties": ["C07"], "kind_free_text": "drop-in sync.Mutex/RWMutex shim calling into vsched (bound by rewriting one import line of the file under test at check time)"},
 {"name": "bytemut", "path": "engine/bytemut", "serves_properties": ["C10"], "kind_free_text": "exhaustive byte-level enumerators (all short strings, single-byte replacements, truncations, insertions, splices, BigSize forms)"},
 {"name": "crashdb", "path": "engine/crashdb", "serves_properties": ["C02","C07","C13","C16"], "kind_free_text": "kvdb.Backend wrapper: counts committed write transactions, crash-after-k, failure injection"},
]
if __name__ == "__main__":
    main()
