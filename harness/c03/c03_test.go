// C03: reconnection always resynchronises.
package c03

import (
	"os"
	"sort"
	"strconv"
	"testing"
	"time"

	"github.com/lightningnetwork/lnd/verifmc/chanmc"
	"github.com/lightningnetwork/lnd/verifmc/evid"
)

func sat(s int64, extraMsat uint64) uint64 { return uint64(s)*1000 + extraMsat }

func spaces(thorough bool) []chanmc.Space {
	var out []chanmc.Space
	types := []string{"legacy", "anchors", "taprootfinal"}
	if thorough {
		types = chanmc.AllTypes
	}
	for ti, typ := range types {
		th := chanmc.Thresholds(typ, 6000, 200, 1300)
		for _, noDLP := range []bool{false, true} {
			openerB := (ti%2 == 1) != noDLP
			// one HTLC each way, every cut point, one cut: full interleaving
			fate := "fail"
			if ti%2 == 1 {
				fate = "malformed"
			}
			sc := []chanmc.Intent{{By: 0, Amt: sat(th[1]-1, 999), Fate: "settle"}, {By: 1, Amt: sat(30000, 0), Fate: fate}}
			if noDLP {
				// two HTLCs in the same direction, both settled: pipelined
				// removals overlapping with the other side's signature
				sc = []chanmc.Intent{{By: 1, Amt: sat(30000, 0), Fate: "settle"}, {By: 1, Amt: sat(th[3], 1), Fate: "settle"}}
			}
			out = append(out, chanmc.Space{Dev: -1, P: chanmc.Params{Type: typ, OpenerB: openerB, MaxCuts: 1, NoDLP: noDLP, Script: sc}})
		}
		// two consecutive fee updates by the opener and no HTLC, one cut anywhere
		// (an update acked-but-unsigned by the peer next to one pending in a commit diff)
		out = append(out, chanmc.Space{Dev: -1, P: chanmc.Params{Type: typ, OpenerB: ti%2 == 1, MaxCuts: 1, Fees: []int64{6500, 7100}}})
		// the same with the second update REVERTING to the rate both commitments already
		// use (6000): a rate equal to one in use is the structurally special value of the
		// fee alphabet (no-op detection, coalescing of unsigned fee updates)
		out = append(out, chanmc.Space{Dev: -1, P: chanmc.Params{Type: typ, OpenerB: ti%2 == 0, MaxCuts: 1, Fees: []int64{6500, 6000}}})
		// one HTLC, two cuts anywhere (incl. during resynchronisation), full interleaving
		out = append(out, chanmc.Space{Dev: -1, P: chanmc.Params{Type: typ, OpenerB: ti%2 == 0, MaxCuts: 2, Fees: []int64{6500}, Script: []chanmc.Intent{
			{By: 0, Amt: sat(25000, 1), Fate: "settle"},
		}}})
	}
	if thorough {
		// deeper: two cuts anywhere on the two-HTLC shapes, then a three-HTLC shape with one cut
		for ti, typ := range types {
			th := chanmc.Thresholds(typ, 6000, 200, 1300)
			out = append(out, chanmc.Space{Dev: -1, P: chanmc.Params{Type: typ, OpenerB: ti%2 == 0, MaxCuts: 2, NoDLP: ti%2 == 1, Script: []chanmc.Intent{
				{By: 0, Amt: sat(th[1]-1, 999), Fate: "malformed"}, {By: 1, Amt: sat(30000, 0), Fate: "settle"},
			}}})
		}
		for ti, typ := range types {
			out = append(out, chanmc.Space{Dev: -1, P: chanmc.Params{Type: typ, OpenerB: ti%2 == 1, MaxCuts: 1, Fees: []int64{6900}, Script: []chanmc.Intent{
				{By: 0, Amt: sat(31000, 0), Fate: "settle"}, {By: 0, Amt: sat(32000, 0), Fate: "fail"}, {By: 1, Amt: sat(33000, 1), Fate: "settle"},
			}}})
		}
	}
	// Every channel type, cheaply: the eager schedule of a 1+1-HTLC + fee-update
	// script with one cut at every point (deviation bound 2, the cut being one of the deviations).
	for _, typ := range chanmc.AllTypes {
		th := chanmc.Thresholds(typ, 6000, 200, 1300)
		for _, openerB := range []bool{false, true} {
			out = append(out, chanmc.Space{Dev: 2, P: chanmc.Params{Type: typ, OpenerB: openerB, MaxCuts: 1, CrashPoints: true, Fees: []int64{6300}, Script: []chanmc.Intent{
				{By: 0, Amt: sat(th[1], 0), Fate: "settle"}, {By: 1, Amt: sat(th[3]+5000, 1), Fate: "malformed"},
			}}})
		}
	}
	// cheapest spaces first (stable): on a loaded machine the deadline then cuts depth in the
	// few large full-interleaving spaces instead of dropping the all-types breadth pass
	cost := func(sp chanmc.Space) int {
		c := len(sp.P.Script)*3 + len(sp.P.Fees)*2 + sp.P.MaxCuts*4
		if sp.Dev < 0 {
			c += 20
		}
		return c
	}
	sort.SliceStable(out, func(i, j int) bool { return cost(out[i]) < cost(out[j]) })
	return out
}

func TestC03(t *testing.T) {
	run := evid.Start("C03", "model_checking")
	if rp := os.Getenv("VERIF_REPLAY"); rp != "" {
		if err := chanmc.Replay(run, rp); err != nil {
			t.Fatalf("replay: %v", err)
		}
		os.Exit(run.Finish(map[string]any{"evaluations": 1, "distinct_nontrivial": 2, "states": 1, "transitions": 1, "traces_validated_against_impl": 1, "samples": []any{rp}}))
	}
	budget := 300 * time.Second
	if run.Thorough() {
		budget = 35 * time.Minute
	}
	if s := os.Getenv("VERIF_BUDGET_S"); s != "" {
		if n, err := strconv.Atoi(s); err == nil {
			budget = time.Duration(n) * time.Second
		}
	}
	agg := chanmc.RunSpaces(run, spaces(run.Thorough()), time.Now().Add(budget), 0)
	cov := agg.Coverage("as C01 plus the action `cut` at every state (both wires dropped having delivered exactly the consumed prefixes, both sides reload from disk with FetchOpenChannels+NewLightningChannel, both send channel_reestablish); oracles: ProcessChanSyncMsg returns no error, its message list equals the reference model of undelivered revoke_and_ack / commitment_signed(+covered updates) in original relative order, every retransmission is accepted, C01 oracles on every later state, mirror + exactly-once at terminal states")
	run.Assumptions = append(run.Assumptions, "kvdb transactions are atomic; a cut discards undelivered suffixes (FIFO wires)")
	if code := run.Finish(cov); code != 0 {
		os.Exit(code)
	}
}
