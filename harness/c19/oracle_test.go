// C19 harness, part 2: the independent route validator (the oracle).
//
// It is written from the property statement only, evaluates every numeric rule
// in math/big, and never looks at how findPath reached the route: it receives the
// query (graph, amount, restrictions) and the returned route.Route and decides
// whether each hop would accept the HTLC it is handed.
//
// Per-hop forwarding rule (the C09 rule, restated): a node that receives `in`
// with expiry `inT` and is asked to forward `out` with expiry `outT` over a
// channel with policy (base, rate, delta) when the HTLC arrived over a channel on
// which the node charges the inbound fee (ib, ir):
//
//	outFee = base + floor(out*rate/1e6)
//	inFee  = ib + trunc(ir*(out+outFee)/1e6)          (trunc = toward zero)
//	accept <=> in >= out  AND  in-out >= outFee+inFee  AND  inT-outT >= delta
//	           AND min <= out <= max
//
// which floors the node's total fee at zero. The same hop is additionally handed
// to the real htlcswitch link (CheckHtlcForward) by the caller-supplied xcheck.
package routing

import (
	"bytes"
	"fmt"
	"math/big"
	"sort"
	"strings"

	"github.com/btcsuite/btcd/btcec/v2"
	sphinx "github.com/lightningnetwork/lightning-onion"
	"github.com/lightningnetwork/lnd/routing/route"
)

type c19Viol struct {
	Clause string // stable clause name (start of the signature)
	Hop    int    // hop index or -1
	What   string
}

// c19Verdict is the oracle's judgement of one returned route.
type c19Verdict struct {
	viols []c19Viol
	feats map[string]bool
	hops  int
	// clear-text part of the route: HTLC amount and expiry on hop i, nodes.
	amts    []uint64
	exps    []uint32
	from    []int
	to      []int
	chanIDs []uint64
	fee     uint64
	relCltv int64 // TotalTimeLock - height - final delta
	payload int
}

func (v *c19Verdict) add(clause string, hop int, format string, a ...any) {
	v.viols = append(v.viols, c19Viol{clause, hop, fmt.Sprintf(format, a...)})
}

func (v *c19Verdict) featKey() string {
	l := make([]string, 0, len(v.feats))
	for k := range v.feats {
		l = append(l, k)
	}
	sort.Strings(l)
	return strings.Join(l, ",")
}

func c19b(x uint64) *big.Int { return new(big.Int).SetUint64(x) }

var c19Million = big.NewInt(1_000_000)

// c19OutFee = base + floor(amt*rate/1e6).
func c19OutFee(p *c19Pol, amt *big.Int) *big.Int {
	f := new(big.Int).Mul(amt, c19b(p.Rate))
	f.Quo(f, c19Million)
	return f.Add(f, c19b(p.Base))
}

// c19InFee = ib + trunc(ir*amt/1e6).
func c19InFee(ib, ir int32, amt *big.Int) *big.Int {
	f := new(big.Int).Mul(amt, big.NewInt(int64(ir)))
	f.Quo(f, c19Million) // big.Int.Quo truncates toward zero, like Go's int64 division
	return f.Add(f, big.NewInt(int64(ib)))
}

// c19Edge is what the oracle knows about one directed use of a channel.
type c19Edge struct {
	pol      *c19Pol // policy of the sending side (nil: none announced)
	capSat   int64
	inB, inR int32 // inbound fee charged by the receiving node on this channel
	hint     bool
	parallel int // number of channels/hints connecting from->to with a policy
}

func (c *c19Case) edge(from, to int, id uint64, hints []c19Hint) (e c19Edge, found bool) {
	for i := range c.Chans {
		ch := &c.Chans[i]
		fwd, rev, ok := ch.pol(from, to)
		if !ok {
			continue
		}
		if fwd != nil {
			e.parallel++
		}
		if ch.ID != id || found {
			continue
		}
		found = true
		e.pol, e.capSat = fwd, ch.Cap
		if rev != nil && rev.HasIn {
			e.inB, e.inR = rev.InBase, rev.InRate
		}
	}
	for i := range hints {
		h := &hints[i]
		if h.From != from || h.To != to {
			continue
		}
		e.parallel++
		if h.ID != id || found {
			continue
		}
		found = true
		p := h.Pol
		e.pol, e.hint = &p, true
	}
	return e, found
}

// c19Xcheck hands one forwarding decision to the real link. It returns "" when
// the link accepts and the wire failure name otherwise.
type c19Xcheck func(pol *c19Pol, inB, inR int32, in, out uint64, inT, outT, height uint32) string

// c19Validate judges the route returned for query c. A payment to a set of
// several blinded paths is payable iff the route is payable over ONE path of the
// set (its introduction node, its pseudonyms and cipher texts, its aggregate
// terms): the route is judged against every path; the verdict is the first clean
// one, else that of the closest match (only which path's complaints are shown
// depends on that choice, not whether the route is rejected).
func c19Validate(c *c19Case, rt *route.Route, xcheck c19Xcheck, fullOnion bool) *c19Verdict {
	if len(c.BlindMore) == 0 {
		return c19ValidateOne(c, rt, xcheck, fullOnion)
	}
	// closest match: a path whose shape (introduction node, pseudonyms, cipher
	// texts) the route has, then the fewest violated clauses
	score := func(v *c19Verdict) int {
		n := len(v.viols)
		for _, p := range v.viols {
			switch p.Clause {
			case "blinded-shape", "blinded-payload", "wrong-destination", "unknown-node":
				n += 1000
			}
		}
		return n
	}
	var best *c19Verdict
	for i, b := range c.blindPaths() {
		d := *c
		d.Blind, d.BlindMore = b, nil
		v := c19ValidateOne(&d, rt, xcheck, fullOnion)
		v.feats["blinded-set"] = true
		v.feats[fmt.Sprintf("blinded-set-path%d", i)] = true
		if len(v.viols) == 0 {
			return v
		}
		for j := range v.viols {
			v.viols[j].What = fmt.Sprintf("[judged against path %d of the blinded set, the closest match] %s", i, v.viols[j].What)
		}
		if best == nil || score(v) < score(best) {
			best = v
		}
	}
	return best
}

func c19ValidateOne(c *c19Case, rt *route.Route, xcheck c19Xcheck, fullOnion bool) *c19Verdict {
	v := &c19Verdict{feats: map[string]bool{}, hops: len(rt.Hops)}
	n := len(rt.Hops)
	if n == 0 {
		v.add("empty-route", -1, "route has no hops")
		return v
	}
	if rt.SourcePubKey != c19Keys[c.Source] {
		v.add("wrong-source", -1, "route source %x is not the requested source", rt.SourcePubKey[:4])
	}
	amt := c19b(c.Amt)
	height := c.Height

	// ---- shape: where does the clear-text part end, who is the recipient
	finalDelta := uint32(c.FinalDelta)
	clearN := n // hops [0,clearN) are judged hop by hop
	var blind *c19Blind
	if c.Blind != nil {
		blind = c.Blind
		v.feats["blinded"] = true
		if blind.Hops == 1 {
			finalDelta = uint32(blind.Delta)
		} else {
			finalDelta = 0
			clearN = n - (blind.Hops - 1)
			if clearN < 1 {
				v.add("blinded-shape", -1, "route with %d hops cannot hold a %d-hop blinded tail behind its introduction node", n, blind.Hops)
				return v
			}
		}
	}
	wantLast := c.Target
	if blind != nil {
		wantLast = blind.Intro
	}
	// node sequence
	prev := c.Source
	for i, h := range rt.Hops {
		idx, ok := c19KeyIdx[h.PubKeyBytes]
		if !ok {
			v.add("unknown-node", i, "hop %d leads to an unknown node %x", i, h.PubKeyBytes[:4])
			return v
		}
		if i < clearN {
			v.from = append(v.from, prev)
			v.to = append(v.to, idx)
			v.chanIDs = append(v.chanIDs, h.ChannelID)
		}
		prev = idx
	}
	if v.to[clearN-1] != wantLast {
		v.add("wrong-destination", clearN-1, "clear-text part ends at node %d, expected node %d", v.to[clearN-1], wantLast)
	}
	if c.Source == c.Target && blind == nil {
		v.feats["selfpay"] = true
	}

	// ---- HTLC amount / expiry carried on every clear hop
	for i := 0; i < clearN; i++ {
		if i == 0 {
			v.amts = append(v.amts, uint64(rt.TotalAmount))
			v.exps = append(v.exps, rt.TotalTimeLock)
		} else {
			v.amts = append(v.amts, uint64(rt.Hops[i-1].AmtToForward))
			v.exps = append(v.exps, rt.Hops[i-1].OutgoingTimeLock)
		}
	}

	// ---- recipient payload and totals
	last := rt.Hops[n-1]
	if uint64(last.AmtToForward) != c.Amt {
		v.add("receiver-amount", n-1, "final hop is told %d msat, the payment amount is %d", last.AmtToForward, c.Amt)
	}
	if blind == nil || blind.Hops == 1 {
		if v.amts[clearN-1] != uint64(last.AmtToForward) {
			v.add("final-amount-inconsistent", n-1, "HTLC on the last channel carries %d msat but the final payload says %d", v.amts[clearN-1], last.AmtToForward)
		}
		if v.exps[clearN-1] != last.OutgoingTimeLock {
			v.add("final-expiry-inconsistent", n-1, "HTLC on the last channel expires at %d but the final payload says %d", v.exps[clearN-1], last.OutgoingTimeLock)
		}
		if uint64(last.OutgoingTimeLock) < uint64(height)+uint64(finalDelta) {
			v.add("final-expiry-too-low", n-1, "final expiry %d is below height %d + final delta %d", last.OutgoingTimeLock, height, finalDelta)
		}
	}
	total := c19b(uint64(rt.TotalAmount))
	if total.Cmp(amt) < 0 {
		v.add("total-below-amount", -1, "TotalAmount %d is below the payment amount %d", rt.TotalAmount, c.Amt)
	} else {
		fee := new(big.Int).Sub(total, amt)
		v.fee = fee.Uint64()
		if fee.Cmp(c19b(c.FeeLimit)) > 0 {
			v.add("fee-limit-exceeded", -1, "total fee %s msat exceeds the fee limit %d", fee, c.FeeLimit)
		} else if c.FeeLimit != c19NoFeeLimit {
			v.feats["feelimit"] = true
			if fee.Cmp(c19b(c.FeeLimit)) == 0 {
				v.feats["feelimit-tight"] = true
			}
		}
		// Route's own accessors must agree with the per-hop values.
		sum := new(big.Int)
		for i := range rt.Hops {
			sum.Add(sum, c19b(uint64(rt.HopFee(i))))
		}
		if sum.Cmp(fee) != 0 || c19b(uint64(rt.TotalFees())).Cmp(fee) != 0 || uint64(rt.ReceiverAmt()) != uint64(last.AmtToForward) {
			v.add("totals-inconsistent", -1, "sum of HopFee=%s TotalFees()=%d TotalAmount-amount=%s ReceiverAmt()=%d", sum, rt.TotalFees(), fee, rt.ReceiverAmt())
		}
	}
	// A payment session pads the final delta; its limit (LightningPayment.CltvLimit)
	// bounds the whole relative time lock, which is height + final delta + pad +
	// the case's relative limit (see c19RunSession).
	limit := new(big.Int).Add(c19b(uint64(height)), c19b(uint64(finalDelta)+uint64(c.finalPad())))
	v.relCltv = int64(rt.TotalTimeLock) - limit.Int64()
	limit.Add(limit, c19b(uint64(c.CltvLimit)))
	if c19b(uint64(rt.TotalTimeLock)).Cmp(limit) > 0 {
		v.add("cltv-limit-exceeded", -1, "TotalTimeLock %d exceeds height %d + final delta %d (+ session pad %d) + cltv limit %d", rt.TotalTimeLock, height, finalDelta, c.finalPad(), c.CltvLimit)
	} else if c.CltvLimit != c19NoCltvLimit {
		v.feats["cltvlimit"] = true
		if c19b(uint64(rt.TotalTimeLock)).Cmp(limit) == 0 {
			v.feats["cltvlimit-tight"] = true
		}
	}

	// ---- every clear hop: existence, direction, amount range, restrictions
	edges := make([]c19Edge, clearN)
	okEdge := make([]bool, clearN)
	outSet := map[uint64]bool{}
	for _, id := range c.OutChans {
		outSet[id] = true
	}
	hintTopo := c.hintEdges()
	for i := 0; i < clearN; i++ {
		from, to, id := v.from[i], v.to[i], v.chanIDs[i]
		e, found := c.edge(from, to, id, hintTopo)
		edges[i] = e
		local := from == c.Self
		switch {
		case !found:
			v.add("no-such-channel", i, "hop %d uses channel %d which does not connect node %d to node %d", i, id, from, to)
			continue
		case e.pol == nil:
			v.add("no-policy", i, "hop %d uses channel %d in direction %d->%d for which no policy exists", i, id, from, to)
			continue
		case e.pol.Dis && !local:
			v.add("disabled-direction", i, "hop %d uses channel %d in direction %d->%d which is disabled", i, id, from, to)
		case e.pol.Dis:
			v.feats["local-disabled-flag-overridden"] = true
		}
		okEdge[i] = true
		if e.parallel > 1 {
			v.feats["parallel"] = true
		}
		if e.hint {
			v.feats["hint"] = true
		}
		a := c19b(v.amts[i])
		if c := a.Cmp(c19b(e.pol.Min)); c < 0 {
			v.add("below-min-htlc", i, "hop %d carries %s msat over channel %d whose min_htlc is %d", i, a, id, e.pol.Min)
		} else if c == 0 && e.pol.Min > 0 {
			v.feats["min-tight"] = true
		}
		if e.pol.HasMax {
			if c := a.Cmp(c19b(e.pol.Max)); c > 0 {
				v.add("above-max-htlc", i, "hop %d carries %s msat over channel %d whose max_htlc is %d", i, a, id, e.pol.Max)
			} else if c == 0 {
				v.feats["max-tight"] = true
			}
		}
		if e.capSat > 0 {
			capMsat := new(big.Int).Mul(big.NewInt(e.capSat), big.NewInt(1000))
			if c := a.Cmp(capMsat); c > 0 {
				v.add("above-capacity", i, "hop %d carries %s msat over channel %d of capacity %d sat", i, a, id, e.capSat)
			} else if c == 0 {
				v.feats["cap-tight"] = true
			}
		}
		if local {
			if bw, ok := c.BW[id]; ok {
				if c := a.Cmp(c19b(bw)); c > 0 {
					v.add("above-local-bandwidth", i, "hop %d sends %s msat over local channel %d whose available bandwidth is %d", i, a, id, bw)
				} else if c == 0 {
					v.feats["bw-tight"] = true
				}
			}
			if len(c.OutChans) > 0 {
				v.feats["outchan"] = true
				if !outSet[id] {
					v.add("outgoing-chan-restriction", i, "hop %d leaves the local node over channel %d, allowed are %v", i, id, c.OutChans)
				}
			}
		}
		for _, ign := range c.IgnNodes {
			v.feats["ignnode"] = true
			if ign == from {
				v.add("ignored-node-used", i, "hop %d is sent by ignored node %d", i, from)
			}
		}
		for _, p := range c.IgnPairs {
			v.feats["ignpair"] = true
			if p[0] == from && p[1] == to {
				v.add("ignored-pair-used", i, "hop %d uses ignored pair %d->%d", i, from, to)
			}
		}
	}
	if c.LastHop != nil {
		v.feats["lasthop"] = true
		if v.from[clearN-1] != *c.LastHop {
			v.add("last-hop-restriction", clearN-1, "penultimate node is %d, required %d", v.from[clearN-1], *c.LastHop)
		}
	}

	// ---- every forwarding node of the clear part
	for i := 0; i+1 < clearN; i++ {
		if !okEdge[i] || !okEdge[i+1] {
			continue
		}
		pol := edges[i+1].pol
		inB, inR := edges[i].inB, edges[i].inR
		in, out := c19b(v.amts[i]), c19b(v.amts[i+1])
		outFee := c19OutFee(pol, out)
		inFee := c19InFee(inB, inR, new(big.Int).Add(out, outFee))
		need := new(big.Int).Add(outFee, inFee)
		if inFee.Sign() < 0 {
			v.feats["inbound-discount"] = true
		} else if inFee.Sign() > 0 {
			v.feats["inbound-surcharge"] = true
		}
		if need.Sign() < 0 {
			v.feats["node-fee-floored"] = true
			need.SetInt64(0)
		}
		left := new(big.Int).Sub(in, out)
		switch c := left.Cmp(need); {
		case left.Sign() < 0:
			v.add("forward-loses-money", i, "node %d receives %s msat on hop %d and is asked to forward %s", v.to[i], in, i, out)
		case c < 0:
			v.add("fee-insufficient", i, "node %d is left %s msat (in %s, out %s) but its policy on channel %d demands %s (outbound %s, inbound %s)",
				v.to[i], left, in, out, v.chanIDs[i+1], need, outFee, inFee)
		case c == 0 && need.Sign() > 0:
			v.feats["fee-exact"] = true
		case c > 0:
			v.feats["fee-overpaid"] = true
		}
		gap := int64(v.exps[i]) - int64(v.exps[i+1])
		deltaOK := gap >= int64(pol.Delta)
		if !deltaOK {
			v.add("expiry-gap-too-small", i, "node %d gets expiry %d and must forward with %d: gap %d below its time-lock delta %d on channel %d",
				v.to[i], v.exps[i], v.exps[i+1], gap, pol.Delta, v.chanIDs[i+1])
		} else if gap > int64(pol.Delta) {
			v.feats["delta-padded"] = true
		}
		if xcheck != nil {
			code := xcheck(pol, inB, inR, v.amts[i], v.amts[i+1], v.exps[i], v.exps[i+1], height)
			v.feats["xchecked"] = true
			if code != "" {
				v.add("link-rejects:"+code, i, "the real link of node %d (CheckHtlcForward, policy of channel %d, inbound fee %d/%d) rejects in=%d out=%d inT=%d outT=%d with %s",
					v.to[i], v.chanIDs[i+1], inB, inR, v.amts[i], v.amts[i+1], v.exps[i], v.exps[i+1], code)
			}
		}
	}

	// ---- blinded tail, judged against the aggregate terms the recipient stated
	if blind != nil && blind.Hops > 1 && okEdge[clearN-1] {
		k := clearN - 1
		agg := &c19Pol{Base: uint64(blind.Base), Rate: uint64(blind.Rate)}
		outFee := c19OutFee(agg, amt)
		inFee := c19InFee(edges[k].inB, edges[k].inR, new(big.Int).Add(amt, outFee))
		need := new(big.Int).Add(outFee, inFee)
		if need.Sign() < 0 {
			need.SetInt64(0)
		}
		left := new(big.Int).Sub(c19b(v.amts[k]), amt)
		if left.Cmp(need) < 0 {
			v.add("blinded-fee-insufficient", k, "introduction node %d receives %d msat for a %d msat payment: %s left, blinded path demands %s (aggregate %s, inbound %s)",
				v.to[k], v.amts[k], c.Amt, left, need, outFee, inFee)
		} else if left.Cmp(need) == 0 && need.Sign() > 0 {
			v.feats["fee-exact"] = true
		}
		if gap := int64(v.exps[k]) - int64(height); gap < int64(blind.Delta) {
			v.add("blinded-expiry-gap-too-small", k, "introduction node gets expiry %d at height %d: %d blocks, blinded path needs %d", v.exps[k], height, gap, blind.Delta)
		}
		if c.Amt < blind.Min {
			v.add("blinded-below-min-htlc", k, "payment of %d msat into a blinded path whose htlc_minimum is %d", c.Amt, blind.Min)
		} else if c.Amt == blind.Min && blind.Min > 0 {
			v.feats["min-tight"] = true
		}
		// A zero htlc_maximum means "none stated", the convention lnd uses
		// for every max_htlc value (e.g. the link's own amount validation).
		if blind.Max > 0 && c.Amt > blind.Max {
			v.add("blinded-above-max-htlc", k, "payment of %d msat into a blinded path whose htlc_maximum is %d", c.Amt, blind.Max)
		} else if c.Amt == blind.Max {
			v.feats["max-tight"] = true
		} else if blind.Max == 0 {
			v.feats["blinded-max-unstated"] = true
		}
		// shape of the blinded hops
		for j := k; j < n; j++ {
			h := rt.Hops[j]
			want := c19Cipher(blind.CipherLen, blind.salt()+j-k)
			if !bytes.Equal(h.EncryptedData, want) {
				v.add("blinded-payload", j, "hop %d does not carry blinded hop %d's encrypted data", j, j-k)
			}
			if (j == k) != (h.BlindingPoint != nil) {
				v.add("blinded-payload", j, "blinding point present=%v on hop %d (introduction node is hop %d)", h.BlindingPoint != nil, j, k)
			}
			if j < n-1 && (h.AmtToForward != 0 || h.OutgoingTimeLock != 0) {
				v.add("blinded-payload", j, "non-final blinded hop %d has clear-text amount/expiry %d/%d", j, h.AmtToForward, h.OutgoingTimeLock)
			}
			if j > k {
				want := blind.keyBase() + (j - k) - 1
				if got := c19KeyIdx[h.PubKeyBytes]; got != want {
					v.add("blinded-shape", j, "hop %d goes to node %d, expected blinded node %d", j, got, want)
				}
			}
		}
		if uint64(last.TotalAmtMsat) != c.Amt {
			v.add("blinded-payload", n-1, "final blinded hop total_amount_msat=%d, payment is %d", last.TotalAmtMsat, c.Amt)
		}
		if uint64(last.OutgoingTimeLock) < uint64(height) {
			v.add("final-expiry-too-low", n-1, "final blinded hop expiry %d below height %d", last.OutgoingTimeLock, height)
		}
	}

	// ---- the onion: real payload bytes must fit the 1300-byte routing info
	sp, err := rt.ToSphinxPath()
	if err != nil {
		v.add("onion-unbuildable", -1, "ToSphinxPath: %v", err)
	} else {
		v.payload = sp.TotalPayloadSize()
		if v.payload > sphinx.MaxRoutingPayloadSize {
			v.add("onion-payload-too-large", -1, "hop payloads total %d bytes, the onion holds %d", v.payload, sphinx.MaxRoutingPayloadSize)
		} else if v.payload >= sphinx.MaxRoutingPayloadSize-2 {
			v.feats["payload-tight"] = true
		}
		if fullOnion {
			sk, _ := btcec.PrivKeyFromBytes(bytes.Repeat([]byte{7}, 32))
			if _, err := sphinx.NewOnionPacket(sp, sk, nil, sphinx.DeterministicPacketFiller); err != nil {
				v.add("onion-unbuildable", -1, "NewOnionPacket: %v", err)
			}
			v.feats["onion-built"] = true
		}
	}
	return v
}

// ---------------------------------------------------------------------------
// brute force over all simple paths: cheapest fee / shortest time lock that the
// forwarding rule allows. Only used to choose *tight* fee and CLTV limits (and as
// a sanity check of the oracle itself); never to judge a route.

type c19Best struct {
	found    bool
	minFee   uint64
	minCltv  int64
	numPaths int
}

func c19BruteForce(c *c19Case) c19Best {
	var best c19Best
	if c.Blind != nil {
		return best
	}
	type step struct {
		e  c19Edge
		id uint64
		to int
	}
	adj := map[int][]step{}
	hintTopo := c.hintEdges()
	for i := range c.Chans {
		ch := &c.Chans[i]
		for _, d := range [][2]int{{ch.U, ch.V}, {ch.V, ch.U}} {
			e, _ := c.edge(d[0], d[1], ch.ID, hintTopo)
			if e.pol != nil {
				adj[d[0]] = append(adj[d[0]], step{e, ch.ID, d[1]})
			}
		}
	}
	for i := range hintTopo {
		h := &hintTopo[i]
		e, _ := c.edge(h.From, h.To, h.ID, hintTopo)
		adj[h.From] = append(adj[h.From], step{e, h.ID, h.To})
	}
	var path []step
	visited := map[int]bool{}
	maxLen := 4
	if len(c.RouteHints) > 0 {
		maxLen = 6 // chained hints: up to 3 private hops behind up to 3 public ones
	}
	eval := func() {
		// backward pass with the minimal amounts
		n := len(path)
		amts := make([]*big.Int, n)
		amts[n-1] = c19b(c.Amt)
		for i := n - 2; i >= 0; i-- {
			out := amts[i+1]
			of := c19OutFee(path[i+1].e.pol, out)
			inf := c19InFee(path[i].e.inB, path[i].e.inR, new(big.Int).Add(out, of))
			need := of.Add(of, inf)
			if need.Sign() < 0 {
				need.SetInt64(0)
			}
			amts[i] = new(big.Int).Add(out, need)
		}
		var cltv int64
		from := c.Source
		for i, s := range path {
			p := s.e.pol
			local := from == c.Self
			if p.Dis && !local {
				return
			}
			a := amts[i]
			if a.Cmp(c19b(p.Min)) < 0 || (p.HasMax && a.Cmp(c19b(p.Max)) > 0) {
				return
			}
			if s.e.capSat > 0 && a.Cmp(new(big.Int).Mul(big.NewInt(s.e.capSat), big.NewInt(1000))) > 0 {
				return
			}
			if local {
				if bw, ok := c.BW[s.id]; ok && a.Cmp(c19b(bw)) > 0 {
					return
				}
			}
			if i > 0 {
				cltv += int64(p.Delta)
			}
			from = s.to
		}
		fee := new(big.Int).Sub(amts[0], c19b(c.Amt)).Uint64()
		best.numPaths++
		if !best.found || fee < best.minFee {
			best.minFee = fee
		}
		if !best.found || cltv < best.minCltv {
			best.minCltv = cltv
		}
		best.found = true
	}
	var dfs func(node int)
	dfs = func(node int) {
		if len(path) > 0 && node == c.Target {
			eval()
			return
		}
		if len(path) >= maxLen {
			return
		}
		for _, s := range adj[node] {
			if visited[s.to] && !(s.to == c.Target && c.Target == c.Source) {
				continue
			}
			visited[s.to] = true
			path = append(path, s)
			dfs(s.to)
			path = path[:len(path)-1]
			if s.to != c.Source {
				visited[s.to] = false
			}
		}
	}
	visited[c.Source] = true
	dfs(c.Source)
	return best
}
