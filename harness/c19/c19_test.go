// C19: every route the pathfinder returns is payable under all stated constraints.
//
// Technique: exhaustive bounded enumeration of pathfinding queries on the real
// findPath + newRoute (no sampling), every returned route judged by the
// independent big-integer validator of oracle_test.go and, hop by hop, by the real
// htlcswitch link (CheckHtlcForward on an unstarted ChannelLink over a real
// lnwallet channel, the seam of C09).
//
// Enumerated spaces (each a full cross product; sizes per tier in c19Tier):
//
//	P  onion size: line graphs of 1..28 hops and a 4-node graph with alternative
//	   routes of 1/2/3 hops; final-hop metadata length swept across the 1300-byte
//	   boundary (every length from 9 below to 2 above the exact fit)
//	C  chain lattice: 2-hop (C2), 3-hop (C3), parallel outgoing channels (CP),
//	   parallel incoming channels with different inbound fees (CQ) and self-payment
//	   (CS) shapes with the full fee lattice base x rate x delta x inbound fee on
//	   every forwarding node
//	H  route hints (private last-hop channels, HH) and blinded tails with 1..3
//	   blinded hops (HB); invoice route hints - single, chained 2- and 3-hop, sets
//	   of several, parallel to public channels - converted by lnd's own
//	   RouteHintsToEdges (HR; HRq = its cheap quick pre-pass) and blinded payment
//	   path sets of two paths (HS); see NOTES.md
//
// Entry points: every query runs through NewRouteRequest + findPath + newRoute (what
// ChannelRouter.FindRoute does); base cases with self == source additionally run
// through a real payment session (newPaymentSession + RequestRoute, probe "entry");
// space HR runs its whole family through both.
//
//	T  topology: every multigraph with <= K channels on the nodes {S,A,B,T}
//	   (parallel channels included) x a channel-profile palette per channel x
//	   amounts x target in {T, S (self-payment)}; thorough also with the local node
//	   different from the payment source (Tx) and with hop probability 0.6 (suffix p)
//
// Every enumerated (graph, amount) is a *base case*. Its family of derived queries
// is generated mechanically from the base case and the route lnd returned for it:
//
//	restrictions: fee limit in {0, F-1, F, Fmin-1, Fmin}, CLTV limit in {C-1, C,
//	   Cmin-1, Cmin}, both tight, last-hop = every node, outgoing channel = every
//	   local channel / all but the used one, every intermediate node ignored, every
//	   used pair ignored  (F, C: fee / time lock of the returned route; Fmin, Cmin:
//	   the oracle's own brute force over all simple paths)
//	boundaries: for every hop j of the returned route carrying a_j msat:
//	   min_htlc in {a_j, a_j+1}, max_htlc in {a_j-1, a_j}, capacity in
//	   {ceil(a_j/1000)-1, ceil(a_j/1000)} sat, direction disabled, and on local
//	   hops the bandwidth hint in {0, a_j-1, a_j}
//
// so that every comparison of the statement is evaluated at threshold-1 /
// threshold / threshold+1 relative to amounts that really occur on a route.
// Soundness only: a missing or suboptimal route is never reported.
//
// Execution: the test binary re-executes itself (VERIF_SELF) as 16 worker
// processes; worker i walks the whole enumeration and handles base cases with
// index = i (mod 16) (VERIF_SEED rotates the assignment only). The parent merges
// the workers' statistics, files violations through evid (known-findings list,
// replay artefact = the failing c19Case) and writes the evidence. A violation is
// filed only after it showed again on 3 re-runs of the same query (route choice
// among ties depends on map iteration order inside findPath; an alarm that does not
// reproduce is listed under unreproduced_alarms and makes the run non-exhaustive).
// `--replay` runs the recorded query 5 times, printing query, route and verdict.
package routing

import (
	"bytes"
	"encoding/json"
	"fmt"
	"os"
	"os/exec"
	"path/filepath"
	"runtime"
	"runtime/debug"
	"runtime/pprof"
	"sort"
	"strconv"
	"strings"
	"testing"
	"time"

	"github.com/lightningnetwork/lnd/channeldb"
	"github.com/lightningnetwork/lnd/graph/db/models"
	"github.com/lightningnetwork/lnd/htlcswitch"
	"github.com/lightningnetwork/lnd/lnwallet"
	"github.com/lightningnetwork/lnd/lnwire"
	"github.com/lightningnetwork/lnd/routing/route"
	"github.com/lightningnetwork/lnd/verifmc/evid"
)

const (
	nS = 0
	nA = 1
	nB = 2
	nT = 3
)

// ---------------------------------------------------------------------------
// statistics

type c19Found struct {
	Sig  string   `json:"sig"`
	What string   `json:"what"`
	Case *c19Case `json:"case"`
}

type c19Stats struct {
	Queries      int                          `json:"queries"`
	BaseCases    int                          `json:"base_cases"`
	Routes       int                          `json:"routes"`
	Xchecks      int                          `json:"xchecks"`
	BySpace      map[string]int               `json:"by_space"`
	BaseBySpace  map[string]int               `json:"base_by_space"`
	Results      map[string]int               `json:"results"`
	HopsHist     map[string]int               `json:"hops"`
	Classes      map[string]int               `json:"classes"` // space|probe|hops|features of validated routes
	Feats        map[string]int               `json:"feats"`
	Probes       map[string]int               `json:"probes"`       // probe -> queries
	ProbeEffect  map[string]int               `json:"probe_effect"` // probe:same-route / other-route / no-path
	Brute        map[string]int               `json:"brute"`
	ByCfg        map[string]int               `json:"by_cfg"`
	Unreproduced []json.RawMessage            `json:"unreproduced"`
	Samples      map[string][]json.RawMessage `json:"samples"`
	Found        []c19Found                   `json:"found"`
	Stopped      bool                         `json:"stopped"`
	Generated    int                          `json:"generated"`
	WallS        float64                      `json:"wall_s"`
}

func newC19Stats() *c19Stats {
	return &c19Stats{BySpace: map[string]int{}, BaseBySpace: map[string]int{}, Results: map[string]int{},
		HopsHist: map[string]int{}, Classes: map[string]int{}, Feats: map[string]int{}, Probes: map[string]int{},
		ProbeEffect: map[string]int{}, Brute: map[string]int{}, ByCfg: map[string]int{}, Samples: map[string][]json.RawMessage{}}
}

func addMap(dst, src map[string]int) {
	for k, v := range src {
		dst[k] += v
	}
}

func (s *c19Stats) merge(o *c19Stats) {
	s.Queries += o.Queries
	s.BaseCases += o.BaseCases
	s.Routes += o.Routes
	s.Xchecks += o.Xchecks
	addMap(s.BySpace, o.BySpace)
	addMap(s.BaseBySpace, o.BaseBySpace)
	addMap(s.Results, o.Results)
	addMap(s.HopsHist, o.HopsHist)
	addMap(s.Classes, o.Classes)
	addMap(s.Feats, o.Feats)
	addMap(s.Probes, o.Probes)
	addMap(s.ProbeEffect, o.ProbeEffect)
	addMap(s.Brute, o.Brute)
	addMap(s.ByCfg, o.ByCfg)
	s.Unreproduced = append(s.Unreproduced, o.Unreproduced...)
	for k, l := range o.Samples {
		if len(s.Samples[k]) < 2 {
			s.Samples[k] = append(s.Samples[k], l...)
		}
	}
	s.Found = append(s.Found, o.Found...)
	s.Stopped = s.Stopped || o.Stopped
}

// ---------------------------------------------------------------------------
// worker: owns one real link for the per-hop cross-check

type c19Worker struct {
	run     *evid.Run
	link    htlcswitch.ChannelLink
	lastPol models.ForwardingPolicy
	havePol bool
	st      *c19Stats
	verbose bool
}

func newC19Link(t *testing.T) htlcswitch.ChannelLink {
	a, _, err := lnwallet.CreateTestChannels(t, channeldb.SingleFunderTweaklessBit)
	if err != nil {
		t.Fatalf("CreateTestChannels: %v", err)
	}
	upd := &lnwire.ChannelUpdate1{}
	cfg := htlcswitch.ChannelLinkConfig{
		// Expiry-too-soon / too-far are not pathfinding constraints of the
		// property; they are configured out of the way.
		OutgoingCltvRejectDelta: 0,
		MaxOutgoingCltvExpiry:   1 << 20,
		FailAliasUpdate:         func(lnwire.ShortChannelID, bool) *lnwire.ChannelUpdate1 { return upd },
		FetchLastChannelUpdate: func(lnwire.ShortChannelID) (*lnwire.ChannelUpdate1, error) {
			return upd, nil
		},
		DisallowQuiescence: true,
	}
	return htlcswitch.NewChannelLink(cfg, a)
}

// xcheck evaluates one forwarding decision on the real link.
func (w *c19Worker) xcheck(pol *c19Pol, inB, inR int32, in, out uint64, inT, outT, height uint32) (code string) {
	defer func() {
		if r := recover(); r != nil {
			code = "PANIC " + fmt.Sprint(r)
		}
	}()
	fp := models.ForwardingPolicy{
		MinHTLCOut: lnwire.MilliSatoshi(pol.Min), BaseFee: lnwire.MilliSatoshi(pol.Base),
		FeeRate: lnwire.MilliSatoshi(pol.Rate), TimeLockDelta: uint32(pol.Delta),
	}
	if pol.HasMax {
		fp.MaxHTLC = lnwire.MilliSatoshi(pol.Max)
	}
	if !w.havePol || w.lastPol != fp {
		w.link.UpdateForwardingPolicy(fp)
		w.lastPol, w.havePol = fp, true
	}
	w.st.Xchecks++
	var hash [32]byte
	le := w.link.CheckHtlcForward(hash, lnwire.MilliSatoshi(in), lnwire.MilliSatoshi(out), inT, outT,
		models.InboundFee{Base: inB, Rate: inR}, height, lnwire.ShortChannelID{BlockHeight: 1}, nil)
	if le == nil {
		return ""
	}
	if msg := le.WireMessage(); msg != nil {
		return msg.Code().String()
	}
	return "nil-wire-message"
}

type routeSummary struct {
	TotalAmount   uint64   `json:"total_amount"`
	TotalTimeLock uint32   `json:"total_time_lock"`
	Hops          []string `json:"hops"`
}

func summarize(rt *route.Route) routeSummary {
	s := routeSummary{TotalAmount: uint64(rt.TotalAmount), TotalTimeLock: rt.TotalTimeLock}
	for _, h := range rt.Hops {
		s.Hops = append(s.Hops, fmt.Sprintf("chan %d -> node %d: forward %d msat, outgoing expiry %d",
			h.ChannelID, c19KeyIdx[h.PubKeyBytes], h.AmtToForward, h.OutgoingTimeLock))
	}
	return s
}

func routeKey(rt *route.Route) string {
	if rt == nil {
		return "-"
	}
	var b strings.Builder
	fmt.Fprintf(&b, "%d/%d", rt.TotalAmount, rt.TotalTimeLock)
	for _, h := range rt.Hops {
		fmt.Fprintf(&b, "|%d>%x:%d:%d", h.ChannelID, h.PubKeyBytes[1:3], h.AmtToForward, h.OutgoingTimeLock)
	}
	return b.String()
}

func coarseProbe(p string) string {
	if i := strings.IndexByte(p, ':'); i >= 0 {
		return p[:i]
	}
	if p == "" {
		return "base"
	}
	return p
}

// eval runs one query on the real code and judges the outcome.
func (w *c19Worker) eval(c *c19Case) (c19Result, *c19Verdict) {
	st := w.st
	res := c19Run(c)
	probe := coarseProbe(c.Probe)
	st.Queries++
	st.BySpace[c.Space]++
	st.Probes[probe]++
	st.Results[res.Kind]++
	st.ByCfg[c.cfgName()]++
	if w.verbose {
		fmt.Printf("INFO query %s\n", mustJSON(c))
		fmt.Printf("INFO real code: %s %s\n", res.Kind, res.Err)
	}
	var problems []c19Viol
	var v *c19Verdict
	switch res.Kind {
	case "panic":
		problems = []c19Viol{{"panic", -1, "pathfinding panicked: " + res.Err}}
	case "route":
		st.Routes++
		// The full onion (EC operations per hop) is built in the onion-size
		// space and for blinded base cases; elsewhere the real payload bytes
		// are packed and counted.
		v = c19Validate(c, res.Route, w.xcheck, c.Space[0] == 'P' || (c.Blind != nil && c.Probe == ""))
		problems = v.viols
		st.HopsHist[strconv.Itoa(v.hops)]++
		for f := range v.feats {
			st.Feats[f]++
		}
		key := c.Space + "|" + probe + "|" + c.cfgName() + "|n=" + strconv.Itoa(v.hops) + "|" + v.featKey()
		st.Classes[key]++
		if st.Classes[key] == 1 && len(st.Samples[c.Space]) < 2 && v.hops >= 2 {
			st.Samples[c.Space] = append(st.Samples[c.Space], json.RawMessage(mustJSON(map[string]any{"query": c, "route": summarize(res.Route),
				"oracle_features": v.featKey(), "total_fee": v.fee, "payload_bytes": v.payload})))
		}
		if w.verbose {
			fmt.Printf("INFO route: %s\n", mustJSON(summarize(res.Route)))
			fmt.Printf("INFO oracle: fee=%d relative_timelock=%d payload=%dB features=[%s]\n", v.fee, v.relCltv, v.payload, v.featKey())
			for _, p := range v.viols {
				fmt.Printf("INFO oracle: VIOLATED %s (hop %d): %s\n", p.Clause, p.Hop, p.What)
			}
			if len(v.viols) == 0 {
				fmt.Printf("INFO verdict: every hop accepts, all limits and restrictions hold\n")
			}
		}
	}
	if len(problems) > 0 && !w.verbose {
		w.report(c, res, problems)
	}
	return res, v
}

// report applies the determinism gate and files the violation. Route choice
// among equally good candidates depends on Go map iteration order inside findPath,
// so the query is re-run: the violation is filed if it shows again on at least 3 of
// up to 24 further runs; otherwise it is recorded as unreproduced (never silently
// dropped: the run is then not exhaustive).
func (w *c19Worker) report(c *c19Case, res c19Result, problems []c19Viol) {
	first := problems[0]
	// At most 4 signatures per violated clause are kept (and re-run) per worker;
	// further instances of the same clause are only counted.
	w.st.Results["violation-instance:"+first.Clause]++
	perClause := 0
	for _, f := range w.st.Found {
		if strings.HasPrefix(f.Sig, first.Clause+":") {
			perClause++
		}
	}
	if perClause >= 4 {
		return
	}
	again, runs := 0, 0
	for runs < 24 && again < 3 {
		runs++
		r2 := c19Run(c)
		switch {
		case first.Clause == "panic":
			if r2.Kind == "panic" {
				again++
			}
		case r2.Kind == "route":
			v2 := c19Validate(c, r2.Route, w.xcheck, false)
			for _, p := range v2.viols {
				if p.Clause == first.Clause {
					again++
					break
				}
			}
		}
	}
	hops := 0
	var rs any
	if res.Route != nil {
		hops = len(res.Route.Hops)
		rs = summarize(res.Route)
	}
	var all []string
	for _, p := range problems {
		all = append(all, p.Clause+": "+p.What)
	}
	if again < 3 {
		if len(w.st.Unreproduced) < 5 {
			w.st.Unreproduced = append(w.st.Unreproduced, json.RawMessage(mustJSON(map[string]any{"query": c, "route": rs, "violations": all, "reproduced": again, "of": runs})))
		}
		w.st.Results["unreproduced-alarm"]++
		return
	}
	sig := fmt.Sprintf("%s:%s:%s:n=%d:i=%d", first.Clause, c.Space, coarseProbe(c.Probe), hops, first.Hop)
	if cn := c.cfgName(); cn != "default" {
		sig += ":cfg=" + cn
	}
	if len(c.RouteHints) > 0 {
		sig += ":" + c.hintShape()
	}
	for _, f := range w.st.Found {
		if f.Sig == sig {
			return
		}
	}
	if len(w.st.Found) < 60 {
		w.st.Found = append(w.st.Found, c19Found{Sig: sig, Case: c, What: fmt.Sprintf("%s; reproduced %d/%d re-runs; route=%s; all violated clauses: %s",
			first.What, again, runs, mustJSON(rs), strings.Join(all, " || "))})
	}
}

// hintShape: number of hop hints of every route hint of the case, e.g. "hints=2+1".
func (c *c19Case) hintShape() string {
	var l []string
	for _, rh := range c.RouteHints {
		l = append(l, strconv.Itoa(len(rh)))
	}
	return "hints=" + strings.Join(l, "+")
}

func mustJSON(v any) string {
	b, _ := json.Marshal(v)
	return string(b)
}

// ---------------------------------------------------------------------------
// the family of derived queries of one base case

func (c *c19Case) fillDefaults() {
	if c.Height == 0 {
		c.Height = 100
	}
	if c.FinalDelta == 0 {
		c.FinalDelta = 9
	}
	if c.FeeLimit == 0 {
		c.FeeLimit = c19NoFeeLimit
	}
	if c.CltvLimit == 0 {
		c.CltvLimit = c19NoCltvLimit
	}
	if c.Prob == 0 {
		c.Prob = 1
	}
	if c.BW == nil {
		c.BW = map[uint64]uint64{}
	}
	// Like lnd's bandwidth manager: a hint for every channel of the local node.
	for _, ch := range c.Chans {
		if ch.U != c.Self && ch.V != c.Self {
			continue
		}
		if _, ok := c.BW[ch.ID]; ok {
			continue
		}
		bw := uint64(10_000_000_000)
		if ch.Cap > 0 {
			bw = uint64(ch.Cap) * 1000
		}
		c.BW[ch.ID] = bw
	}
}

func (c *c19Case) chanByID(id uint64) *c19Chan {
	for i := range c.Chans {
		if c.Chans[i].ID == id {
			return &c.Chans[i]
		}
	}
	return nil
}

func (w *c19Worker) family(base *c19Case, full bool) {
	if base.Space[0] == 'P' {
		w.sweepFamily(base)
		return
	}
	st := w.st
	st.BaseCases++
	st.BaseBySpace[base.Space]++
	r0, v0 := w.eval(base)
	bf := c19BruteForce(base)
	if base.Blind == nil {
		switch {
		case r0.Route != nil && len(v0.viols) == 0 && !bf.found:
			st.Brute["lnd-route-but-bruteforce-none"]++
		case r0.Route != nil && len(v0.viols) == 0 && v0.fee < bf.minFee:
			st.Brute["lnd-cheaper-than-bruteforce"]++
		case r0.Route != nil && v0.fee == bf.minFee:
			st.Brute["lnd-fee-equals-bruteforce-minimum"]++
		case r0.Route != nil:
			st.Brute["lnd-fee-above-bruteforce-minimum"]++
		case bf.found:
			st.Brute["bruteforce-route-but-lnd-none"]++
		default:
			st.Brute["both-none"]++
		}
	}
	// The path-finding configuration is a dimension of every base case: the
	// base query is repeated with MinProbability 0, with attempt cost 0 and with
	// both (route choice changes; every returned route is judged).
	for _, cf := range [][2]bool{{true, false}, {false, true}, {true, true}} {
		d := base.clone()
		d.MinProb0, d.AttemptCost0 = cf[0], cf[1]
		d.Probe = "cfg"
		w.eval(d)
	}
	// The entry point is a dimension of every base case it is defined for: the
	// same query through a real payment session (newPaymentSession + RequestRoute).
	if base.Entry == "" && base.Self == base.Source && len(base.Hints) == 0 && len(base.RouteHints) == 0 {
		d := base.clone()
		d.Entry = "session"
		d.Probe = "entry"
		w.eval(d)
	}
	// ... and through the real ChannelRouter.FindRoute (its own bandwidth manager over
	// the router's SelfNode; the only entry of lnd where self != source occurs).
	routerEntry := base.Entry == "" && !base.PayAddr && base.MetaLen == 0
	if routerEntry {
		d := base.clone()
		d.Entry = "router"
		d.Probe = "entry"
		w.eval(d)
	}
	if r0.Route == nil || v0 == nil || !full {
		return
	}
	k0 := routeKey(r0.Route)
	derive := func(probe string, mod func(d *c19Case)) {
		d := base.clone()
		d.Probe = probe
		mod(d)
		r, _ := w.eval(d)
		cp := coarseProbe(probe)
		switch {
		case r.Route == nil:
			st.ProbeEffect[cp+":"+r.Kind]++
		case routeKey(r.Route) == k0:
			st.ProbeEffect[cp+":same-route"]++
		default:
			st.ProbeEffect[cp+":other-route"]++
		}
	}

	if routerEntry {
		w.linkProbes(base, v0, derive)
	}

	// -- restrictions
	fees := map[uint64]bool{0: true, v0.fee: true}
	if v0.fee > 0 {
		fees[v0.fee-1] = true
	}
	if bf.found {
		fees[bf.minFee] = true
		if bf.minFee > 0 {
			fees[bf.minFee-1] = true
		}
	}
	for _, f := range sortedU64(fees) {
		f := f
		derive("feelimit:"+strconv.FormatUint(f, 10), func(d *c19Case) { d.FeeLimit = f })
	}
	cl := map[uint64]bool{}
	if v0.relCltv >= 0 {
		cl[uint64(v0.relCltv)] = true
		if v0.relCltv > 0 {
			cl[uint64(v0.relCltv-1)] = true
		}
	}
	if bf.found {
		cl[uint64(bf.minCltv)] = true
		if bf.minCltv > 0 {
			cl[uint64(bf.minCltv-1)] = true
		}
	}
	for _, x := range sortedU64(cl) {
		x := uint32(x)
		derive("cltvlimit:"+strconv.Itoa(int(x)), func(d *c19Case) { d.CltvLimit = x })
	}
	if v0.relCltv >= 0 {
		derive("bothlimits", func(d *c19Case) { d.FeeLimit = v0.fee; d.CltvLimit = uint32(v0.relCltv) })
	}
	if base.Blind == nil {
		for n := 0; n < base.Nodes; n++ {
			if n == base.Target && base.Source != base.Target {
				continue
			}
			n := n
			derive("lasthop:"+strconv.Itoa(n), func(d *c19Case) { d.LastHop = &n })
		}
	}
	var local []uint64
	for _, ch := range base.Chans {
		if ch.U == base.Self || ch.V == base.Self {
			local = append(local, ch.ID)
		}
	}
	for _, id := range local {
		id := id
		derive("outchan:"+strconv.FormatUint(id, 10), func(d *c19Case) { d.OutChans = []uint64{id} })
	}
	if len(local) > 2 {
		derive("outchan:all-but-used", func(d *c19Case) {
			for _, id := range local {
				if id != v0.chanIDs[0] {
					d.OutChans = append(d.OutChans, id)
				}
			}
		})
	}
	// Ignored nodes / pairs reach findPath only as probability 0, so they are
	// probed with MinProbability at its default and at 0.
	for _, mp0 := range []bool{false, true} {
		mp0 := mp0
		sfx := ""
		if mp0 {
			sfx = "-mp0"
		}
		for i := 0; i+1 < len(v0.to); i++ {
			n := v0.to[i]
			derive("ignnode"+sfx+":"+strconv.Itoa(n), func(d *c19Case) { d.IgnNodes = []int{n}; d.MinProb0 = mp0 })
		}
		for i := range v0.from {
			p := [2]int{v0.from[i], v0.to[i]}
			derive(fmt.Sprintf("ignpair%s:%d>%d", sfx, p[0], p[1]), func(d *c19Case) { d.IgnPairs = [][2]int{p}; d.MinProb0 = mp0 })
		}
	}

	// -- "the restricted element lies on the only remaining path": the graph is
	// cut down to the channels (and hints) of the returned route, so that no
	// alternative exists (other than, for a self-payment, the same cycle in the
	// other direction), and every restriction that excludes that route is applied.
	used := map[uint64]bool{}
	for _, id := range v0.chanIDs {
		used[id] = true
	}
	onlyPath := func(d *c19Case) {
		var chans []c19Chan
		for _, ch := range d.Chans {
			if used[ch.ID] {
				chans = append(chans, ch)
			} else {
				delete(d.BW, ch.ID)
			}
		}
		d.Chans = chans
		var hints []c19Hint
		for _, h := range d.Hints {
			if used[h.ID] {
				hints = append(hints, h)
			}
		}
		d.Hints = hints
		// an invoice route hint stays (whole) if the route used one of its channels
		var rhs [][]c19HopHint
		for _, rh := range d.RouteHints {
			for _, hh := range rh {
				if used[hh.ID] {
					rhs = append(rhs, rh)
					break
				}
			}
		}
		d.RouteHints = rhs
	}
	for _, cf := range [][2]bool{{false, false}, {true, false}, {true, true}} {
		cf := cf
		sfx := map[[2]bool]string{{false, false}: "", {true, false}: "-mp0", {true, true}: "-mp0ac0"}[cf]
		set := func(d *c19Case) { onlyPath(d); d.MinProb0, d.AttemptCost0 = cf[0], cf[1] }
		if sfx == "" {
			// control: the cut-down graph alone must still give a valid route
			derive("only", set)
		}
		for i := 0; i+1 < len(v0.to); i++ {
			n := v0.to[i]
			derive("only-ignnode"+sfx+":"+strconv.Itoa(n), func(d *c19Case) { set(d); d.IgnNodes = []int{n} })
		}
		for i := range v0.from {
			p := [2]int{v0.from[i], v0.to[i]}
			derive(fmt.Sprintf("only-ignpair%s:%d>%d", sfx, p[0], p[1]), func(d *c19Case) { set(d); d.IgnPairs = [][2]int{p} })
		}
		if cf[1] {
			continue
		}
		if base.Blind == nil {
			// a last hop that is not the route's penultimate node
			pen := v0.from[len(v0.from)-1]
			for n := 0; n < base.Nodes; n++ {
				if n != pen && (n != base.Target || base.Source == base.Target) {
					n := n
					derive("only-lasthop"+sfx+":"+strconv.Itoa(n), func(d *c19Case) { set(d); d.LastHop = &n })
					break
				}
			}
		}
		// an outgoing channel set that does not contain the route's local channel
		other := uint64(999)
		for _, id := range local {
			if !used[id] {
				other = id
				break
			}
		}
		derive("only-outchan"+sfx+":"+strconv.FormatUint(other, 10), func(d *c19Case) { set(d); d.OutChans = []uint64{other} })
	}

	// -- boundaries around the amounts of the returned route (the quick tier
	// leaves them out in the route-hint space: hop hints carry no amount range and
	// the public hops in front of them are the same few channels as in space HH)
	if len(base.RouteHints) > 0 && !w.run.Thorough() {
		return
	}
	for j := range v0.amts {
		j := j
		a := v0.amts[j]
		from, to, id := v0.from[j], v0.to[j], v0.chanIDs[j]
		if base.chanByID(id) == nil {
			// ready-made hint: only a minimum exists (an invoice hop hint has
			// no amount range at all)
			readyMade := false
			for _, h := range base.Hints {
				readyMade = readyMade || h.ID == id
			}
			for _, m := range []uint64{a, a + 1} {
				if !readyMade {
					break
				}
				m := m
				derive(fmt.Sprintf("min:hint%d:%d", j, m), func(d *c19Case) {
					for i := range d.Hints {
						if d.Hints[i].ID == id {
							d.Hints[i].Pol.Min = m
						}
					}
				})
			}
			continue
		}
		polOf := func(d *c19Case) *c19Pol {
			fwd, _, _ := d.chanByID(id).pol(from, to)
			return fwd
		}
		for _, m := range []uint64{a, a + 1} {
			m := m
			derive(fmt.Sprintf("min:hop%d:%d", j, m), func(d *c19Case) { polOf(d).Min = m })
		}
		for _, m := range []uint64{a - 1, a} {
			m := m
			derive(fmt.Sprintf("max:hop%d:%d", j, m), func(d *c19Case) { p := polOf(d); p.HasMax, p.Max = true, m })
		}
		ceil := int64((a + 999) / 1000)
		for _, cp := range []int64{ceil - 1, ceil} {
			cp := cp
			derive(fmt.Sprintf("cap:hop%d:%d", j, cp), func(d *c19Case) { d.chanByID(id).Cap = cp })
		}
		derive(fmt.Sprintf("disable:hop%d", j), func(d *c19Case) { polOf(d).Dis = true })
		if from == base.Self {
			for _, bw := range []uint64{0, a - 1, a} {
				bw := bw
				derive(fmt.Sprintf("bw:hop%d:%d", j, bw), func(d *c19Case) { d.BW[id] = bw })
			}
		}
	}
}

// linkProbes: the state of the switch link of every own channel the returned route
// leaves the own node over, as seen by the router's real bandwidth manager (entry
// "router"): link gone / not eligible / no HTLC slot (oracle hint 0 although the link
// reports an ample Bandwidth()), and Bandwidth() at a-1 / a.
func (w *c19Worker) linkProbes(base *c19Case, v0 *c19Verdict, derive func(string, func(*c19Case))) {
	for j := range v0.amts {
		if v0.from[j] != base.Self || base.chanByID(v0.chanIDs[j]) == nil {
			continue
		}
		a, id := v0.amts[j], v0.chanIDs[j]
		for _, st := range []string{"offline", "ineligible", "full"} {
			st := st
			derive(fmt.Sprintf("link:hop%d:%s", j, st), func(d *c19Case) {
				d.Entry, d.Links, d.BW[id] = "router", map[uint64]string{id: st}, 0
			})
		}
		for _, bw := range []uint64{a - 1, a} {
			bw := bw
			derive(fmt.Sprintf("link:hop%d:bw%d", j, bw), func(d *c19Case) { d.Entry, d.BW[id] = "router", bw })
		}
		// the same link states as the payment session's bandwidth manager sees them
		if base.Self == base.Source && len(base.Hints) == 0 {
			for _, st := range []string{"offline", "ineligible", "full"} {
				st := st
				derive(fmt.Sprintf("link:hop%d:%s:session", j, st), func(d *c19Case) {
					d.Entry, d.Links, d.BW[id] = "session", map[uint64]string{id: st}, 0
				})
			}
		}
	}
}

func sortedU64(m map[uint64]bool) []uint64 {
	l := make([]uint64, 0, len(m))
	for k := range m {
		l = append(l, k)
	}
	sort.Slice(l, func(i, j int) bool { return l[i] < l[j] })
	return l
}

// ---------------------------------------------------------------------------
// channel-profile palette of space T (values relative to the payment amount)

func pp(base, rate uint64, delta uint16) *c19Pol {
	return &c19Pol{Base: base, Rate: rate, Delta: delta}
}

func (p *c19Pol) withIn(b, r int32) *c19Pol {
	q := *p
	q.HasIn, q.InBase, q.InRate = true, b, r
	return &q
}
func (p *c19Pol) withMin(m uint64) *c19Pol { q := *p; q.Min = m; return &q }
func (p *c19Pol) withMax(m uint64) *c19Pol { q := *p; q.HasMax, q.Max = true, m; return &q }
func (p *c19Pol) disabled() *c19Pol        { q := *p; q.Dis = true; return &q }
func (p *c19Pol) cp() *c19Pol              { q := *p; return &q }

var c19ProfileNames = []string{"free", "std", "negin", "round", "tight", "oneway", "posin", "asym", "upoff"}

// profile returns capacity and the two policies (U->V, V->U; U is the lower node).
func c19Profile(idx int, amt uint64) (capSat int64, uv, vu *c19Pol) {
	const big = int64(10_000_000)
	switch c19ProfileNames[idx] {
	case "free":
		p := pp(0, 0, 1)
		return big, p.cp(), p.cp()
	case "std":
		p := pp(1000, 1000, 40).withMin(1).withMax(uint64(big) * 1000)
		return big, p.cp(), p.cp()
	case "negin": // inbound discount larger than the outbound fee: node fee floors at zero
		p := pp(1000, 0, 40).withIn(-2000, -500)
		return big, p.cp(), p.cp()
	case "round": // 50 % proportional fee, 1 msat base, small inbound discount, capacity unknown
		p := pp(1, 500_000, 1).withMin(amt).withMax(4*amt).withIn(-1, -5000)
		return 0, p.cp(), p.cp()
	case "tight": // carries exactly the payment amount and nothing else
		p := pp(0, 0, 40).withMin(amt).withMax(amt)
		return int64((amt + 999) / 1000), p.cp(), p.cp()
	case "oneway": // usable upwards only, and only once a fee has been added downstream
		p := pp(1000, 1000, 40).withMin(amt + 1)
		return big, p.cp(), p.disabled()
	case "upoff": // the lower node (the payment source in every channel of S) has disabled its direction
		p := pp(1000, 1000, 40)
		return big, p.disabled(), p.cp()
	case "posin": // inbound surcharge, long delta
		p := pp(0, 1, 144).withIn(100, 1000)
		return big, p.cp(), p.cp()
	default: // "asym"
		return int64((amt*3/2+999)/1000) + 1, pp(0, 500_000, 40).withIn(100, 0), pp(1000, 0, 1).withIn(0, -5000)
	}
}

// palette of space X: free, std, upoff, oneway, negin
var c19XPalette = []int{0, 1, 8, 5, 2}

var c19Pairs = [][2]int{{nS, nA}, {nS, nB}, {nS, nT}, {nA, nB}, {nA, nT}, {nB, nT}}

// genTopo enumerates every multiset of k node pairs and, per channel, every
// profile of the palette (profiles of parallel channels in non-decreasing order:
// parallel channels are interchangeable up to their ids).
func genTopo(k int, palette []int, amts []uint64, noSelf bool, emit func(*c19Case)) {
	pairs := make([]int, k)
	profs := make([]int, k)
	var assign func(i int)
	assign = func(i int) {
		if i == k {
			for _, amt := range amts {
				degS, degT := 0, 0
				c := &c19Case{Space: fmt.Sprintf("T%d", k), Nodes: 4, Self: nS, Source: nS, Amt: amt}
				for j := 0; j < k; j++ {
					pr := c19Pairs[pairs[j]]
					capSat, uv, vu := c19Profile(profs[j], amt)
					c.Chans = append(c.Chans, c19Chan{ID: uint64(101 + j), U: pr[0], V: pr[1], Cap: capSat, UV: uv, VU: vu})
					if pr[0] == nS {
						degS++
					}
					if pr[1] == nT {
						degT++
					}
				}
				if degS == 0 {
					continue
				}
				if degT > 0 {
					d := c.clone()
					d.Target = nT
					emit(d)
				}
				if !noSelf {
					d := c.clone()
					d.Target = nS
					emit(d)
				}
			}
			return
		}
		for _, p := range palette {
			if i > 0 && pairs[i] == pairs[i-1] && p < profs[i-1] {
				continue
			}
			profs[i] = p
			assign(i + 1)
		}
	}
	var choose func(i, lo int)
	choose = func(i, lo int) {
		if i == k {
			assign(0)
			return
		}
		for p := lo; p < len(c19Pairs); p++ {
			pairs[i] = p
			choose(i+1, p)
		}
	}
	choose(0, 0)
}

// ---------------------------------------------------------------------------
// space X: the payment source is NOT the router's own node (ChannelRouter.FindRoute /
// QueryRoutes with source_pub_key): every multigraph with k channels on {S,A,B,T}
// over a palette that has both one-way profiles (the lower / the upper node disabled
// its direction: S is the lower node of each of its channels, so "upoff" is a disabled
// first hop of the source, and on a channel of the own node it is a local channel whose
// disabled flag the bandwidth hint overrides), source S, target T, x own node in
// {A, B, T, a node without channels} x bandwidth hints for the SOURCE's channels
// {absent (what lnd's bandwidth manager has for foreign channels), present and zero}.
// Own channels always have their hint (fillDefaults). Oracle unchanged: a hop must use
// an enabled direction unless it leaves the own node; bandwidth hints bind own channels only.
func genForeign(k int, palette []int, amt uint64, lite bool, emit func(*c19Case)) {
	genTopo(k, palette, []uint64{amt}, true, func(c *c19Case) {
		for _, self := range []int{nA, nB, nT, 4} {
			for _, srcHints := range []bool{false, true} {
				d := c.clone()
				d.Space = fmt.Sprintf("X%d", k)
				if lite {
					d.Space += "q"
				}
				d.Nodes, d.Self, d.lite = 5, self, lite
				if srcHints {
					d.BW = map[uint64]uint64{}
					for _, ch := range d.Chans {
						if ch.U == d.Source || ch.V == d.Source {
							d.BW[ch.ID] = 0
						}
					}
				}
				emit(d)
			}
		}
	})
}

// ---------------------------------------------------------------------------
// space C: full fee lattice on fixed shapes

type inb struct {
	has  bool
	b, r int32
}

type latticeCfg struct {
	base, rate []uint64
	delta      []uint16
	in         []inb
}

func (l latticeCfg) fwdPols() []*c19Pol {
	var out []*c19Pol
	for _, b := range l.base {
		for _, r := range l.rate {
			for _, d := range l.delta {
				out = append(out, pp(b, r, d))
			}
		}
	}
	return out
}

// csPols: the self-payment lattice is enumerated for the amounts of the 3-hop
// lattice only (quick tier: one amount).
func csPols(pols []*c19Pol, amt uint64, amts []uint64) []*c19Pol {
	for _, a := range amts {
		if a == amt {
			return pols
		}
	}
	return nil
}

func applyIn(p *c19Pol, i inb) *c19Pol {
	q := p.cp()
	q.HasIn, q.InBase, q.InRate = i.has, i.b, i.r
	return q
}

func genChain(l latticeCfg, amts, c3Amts []uint64, emit func(*c19Case)) {
	const cap = int64(10_000_000)
	pols := l.fwdPols()
	idle := pp(7, 7, 7) // policy of a direction the payment never uses as outgoing
	mk := func(space string, amt uint64, target int, chans ...c19Chan) {
		emit(&c19Case{Space: space, Nodes: 4, Self: nS, Source: nS, Target: target, Amt: amt, Chans: chans})
	}
	for _, amt := range amts {
		// C2: S -101- A -102- T; A's outgoing policy on 102, A's inbound fee on 101,
		// T's inbound fee on 102 (must be ignored: exit hop).
		for _, pa := range pols {
			for _, ia := range l.in {
				for _, it := range []inb{{}, {true, 100, 100_000}} {
					mk("C2", amt, nT,
						c19Chan{ID: 101, U: nS, V: nA, Cap: cap, UV: idle.cp(), VU: applyIn(idle, ia)},
						c19Chan{ID: 102, U: nA, V: nT, Cap: cap, UV: pa.cp(), VU: applyIn(idle, it)})
				}
			}
		}
		// CP: S -101- A =102,103= T: two parallel channels with independent
		// policies; A's inbound fee on 101.
		for _, p2 := range pols {
			for _, p3 := range pols {
				for _, ia := range l.in {
					mk("CP", amt, nT,
						c19Chan{ID: 101, U: nS, V: nA, Cap: cap, UV: idle.cp(), VU: applyIn(idle, ia)},
						c19Chan{ID: 102, U: nA, V: nT, Cap: cap, UV: p2.cp(), VU: idle.cp()},
						c19Chan{ID: 103, U: nA, V: nT, Cap: cap, UV: p3.cp(), VU: idle.cp()})
				}
			}
		}
		// CQ: S =101,102= A -103- T: parallel *incoming* channels at the
		// forwarding node with different inbound fees (and two local channels).
		for _, pa := range pols {
			for _, i1 := range l.in {
				for _, i2 := range l.in {
					mk("CQ", amt, nT,
						c19Chan{ID: 101, U: nS, V: nA, Cap: cap, UV: idle.cp(), VU: applyIn(idle, i1)},
						c19Chan{ID: 102, U: nS, V: nA, Cap: cap / 2, UV: idle.cp(), VU: applyIn(idle, i2)},
						c19Chan{ID: 103, U: nA, V: nT, Cap: cap, UV: pa.cp(), VU: idle.cp()})
				}
			}
		}
		// CS: self-payment S -101- A -102- S and the triangle S-A-B-S.
		for _, pa := range csPols(pols, amt, c3Amts) {
			for _, ia := range l.in {
				mk("CS", amt, nS,
					c19Chan{ID: 101, U: nS, V: nA, Cap: cap, UV: idle.cp(), VU: applyIn(pa, ia)},
					c19Chan{ID: 102, U: nS, V: nA, Cap: cap, UV: applyIn(idle, inb{true, 50, 50_000}), VU: applyIn(pa, ia)})
				for _, pb := range pols {
					mk("CS", amt, nS,
						c19Chan{ID: 101, U: nS, V: nA, Cap: cap, UV: idle.cp(), VU: applyIn(idle, ia)},
						c19Chan{ID: 102, U: nA, V: nB, Cap: cap, UV: pa.cp(), VU: applyIn(pa, ia)},
						c19Chan{ID: 103, U: nS, V: nB, Cap: cap, UV: idle.cp(), VU: pb.cp()})
				}
			}
		}
	}
	for _, amt := range c3Amts {
		// C3: S -101- A -102- B -103- T
		for _, pa := range pols {
			for _, pb := range pols {
				for _, ia := range l.in {
					for _, ib := range l.in {
						mk("C3", amt, nT,
							c19Chan{ID: 101, U: nS, V: nA, Cap: cap, UV: idle.cp(), VU: applyIn(idle, ia)},
							c19Chan{ID: 102, U: nA, V: nB, Cap: cap, UV: pa.cp(), VU: applyIn(idle, ib)},
							c19Chan{ID: 103, U: nB, V: nT, Cap: cap, UV: pb.cp(), VU: idle.cp()})
					}
				}
			}
		}
	}
}

// ---------------------------------------------------------------------------
// space H: route hints and blinded tails

func genHints(thorough bool, amts []uint64, emit func(*c19Case)) {
	const cap = int64(10_000_000)
	std := pp(1000, 1000, 40).withMin(1)
	free := pp(0, 0, 1)
	graph := func(publicT bool) []c19Chan {
		chans := []c19Chan{
			{ID: 101, U: nS, V: nA, Cap: cap, UV: std.cp(), VU: std.withIn(-500, -1000)},
			{ID: 102, U: nS, V: nB, Cap: cap, UV: free.cp(), VU: free.cp()},
			{ID: 103, U: nA, V: nB, Cap: cap, UV: std.cp(), VU: std.cp()},
		}
		if publicT {
			chans = append(chans, c19Chan{ID: 104, U: nB, V: nT, Cap: cap, UV: pp(5000, 0, 144), VU: std.cp()})
		}
		return chans
	}
	hintDeltas := []uint16{40}
	if thorough {
		hintDeltas = []uint16{1, 40}
	}
	for _, amt := range amts {
		var hp []c19Pol
		for _, b := range []uint64{0, 1000} {
			for _, r := range []uint64{0, 500_000} {
				for _, d := range hintDeltas {
					for _, m := range []uint64{0, amt, amt + 1} {
						hp = append(hp, c19Pol{Base: b, Rate: r, Delta: d, Min: m})
					}
				}
			}
		}
		for _, pub := range []bool{false, true} {
			for _, p := range hp {
				for _, from := range []int{nA, nB} {
					emit(&c19Case{Space: "HH", Nodes: 4, Self: nS, Source: nS, Target: nT, Amt: amt, Chans: graph(pub),
						Hints: []c19Hint{{ID: uint64(200 + from), From: from, To: nT, Pol: p}}})
				}
				for _, q := range hp {
					emit(&c19Case{Space: "HH", Nodes: 4, Self: nS, Source: nS, Target: nT, Amt: amt, Chans: graph(pub),
						Hints: []c19Hint{{ID: 201, From: nA, To: nT, Pol: p}, {ID: 202, From: nB, To: nT, Pol: q}}})
				}
			}
		}
		// blinded tails
		deltas := []uint16{40, 144}
		ciphers := []int{20}
		if thorough {
			deltas = []uint16{1, 40, 144}
			ciphers = []int{0, 20, 120}
		}
		for _, intro := range []int{nA, nB, nT} {
			for hops := 1; hops <= 3; hops++ {
				for _, b := range []uint32{0, 1000} {
					for _, r := range []uint32{0, 500_000} {
						for _, d := range deltas {
							for _, mn := range []uint64{0, amt, amt + 1} {
								for _, mx := range []uint64{amt - 1, amt, 10 * amt} {
									if mx < mn {
										continue // rejected by BlindedPayment.Validate
									}
									for _, cl := range ciphers {
										emit(&c19Case{Space: "HB", Nodes: 4, Self: nS, Source: nS, Target: intro, Amt: amt,
											Chans: graph(true), Blind: &c19Blind{Intro: intro, Hops: hops, Base: b, Rate: r,
												Delta: d, Min: mn, Max: mx, CipherLen: cl}})
									}
								}
							}
						}
					}
				}
			}
		}
	}
}

// ---------------------------------------------------------------------------
// space HS: blinded payment path SETS of two paths (the offer / invoice lists
// several blinded paths; lnd merges them into one edge map behind a common
// pseudo-target). Every ordered pair (intro1, hops1) x (intro2, hops2) with intro
// in {A, B, T} and 1..3 hops; the first path has fixed middle-of-the-road terms,
// the second is cheaper or dearer and either usable, unusable because its
// htlc_minimum is above the amount, or unusable because its htlc_maximum is below
// it; both orders of the two paths; different cipher-text lengths. The route must
// be payable over one path of the set (c19Validate). Quick tier: base query +
// path-finding configurations + both entry points; thorough: the full family.

func genBlindedSets(thorough bool, amts []uint64, emit func(*c19Case)) {
	const cap = int64(10_000_000)
	std := pp(1000, 1000, 40).withMin(1)
	free := pp(0, 0, 1)
	graph := func() []c19Chan {
		return []c19Chan{
			{ID: 101, U: nS, V: nA, Cap: cap, UV: std.cp(), VU: std.withIn(-500, -1000)},
			{ID: 102, U: nS, V: nB, Cap: cap, UV: free.cp(), VU: free.cp()},
			{ID: 103, U: nA, V: nB, Cap: cap, UV: std.cp(), VU: std.cp()},
			{ID: 104, U: nB, V: nT, Cap: cap, UV: pp(5000, 0, 144), VU: std.cp()},
		}
	}
	if !thorough {
		amts = amts[len(amts)-1:]
	}
	for _, amt := range amts {
		type terms struct {
			b, r     uint32
			d        uint16
			min, max uint64
		}
		var second []terms
		for _, t := range []terms{{b: 0, r: 0, d: 1}, {b: 1000, r: 500_000, d: 144}} {
			for _, mm := range [][2]uint64{{0, 10 * amt}, {amt + 1, 10 * amt}, {0, amt - 1}} {
				t.min, t.max = mm[0], mm[1]
				second = append(second, t)
			}
		}
		for _, i1 := range []int{nA, nB, nT} {
			for h1 := 1; h1 <= 3; h1++ {
				for _, i2 := range []int{nA, nB, nT} {
					for h2 := 1; h2 <= 3; h2++ {
						for _, t := range second {
							p1 := c19Blind{Intro: i1, Hops: h1, Base: 1000, Rate: 1000, Delta: 40, Max: 10 * amt, CipherLen: 20}
							p2 := c19Blind{Intro: i2, Hops: h2, Base: t.b, Rate: t.r, Delta: t.d, Min: t.min, Max: t.max, CipherLen: 120,
								KeyBase: c19BlindBase + 4}
							for _, swap := range []bool{false, true} {
								a, b := p1, p2
								if swap {
									a, b = p2, p1
								}
								emit(&c19Case{Space: "HS", Nodes: 4, Self: nS, Source: nS, Target: a.Intro, Amt: amt,
									Chans: graph(), Blind: &a, BlindMore: []c19Blind{b}, lite: !thorough})
							}
						}
					}
				}
			}
		}
	}
}

// ---------------------------------------------------------------------------
// space HR: invoice route hints, converted by lnd's own RouteHintsToEdges
//
// Nodes: S (local, payer), A, B (public), T (payee), H1, H2 (private nodes that
// exist in no graph). Public graph: S-A, S-B, A-B and optionally B-T. A route hint
// is a chain of 1..3 hop hints given by the nodes the hinted channels leave from;
// it always ends at T. The chain alphabet holds every start in {A, B} with private
// interior nodes, chains whose interior is a public node (the hinted channel then
// runs parallel to a public channel or between public nodes), and a chain that
// starts at the payer itself. Every hint *set* of 1 chain and every ORDERED pair of
// chains (including a chain paired with itself = parallel private channels, and
// pairs that share an interior node so that one private node owns two hinted
// channels) is enumerated (quick tier: pairs for the larger amount only); thorough
// adds the empty route hint and unordered triples. Channel ids are distinct over the whole set and distinct from public
// ids. Policies: single chains take the full cross product of the hop palette;
// larger sets take three assignments: uniform, strictly ascending and strictly
// descending along the set (all hops pairwise different, so that a hop judged with
// another hop's parameters or endpoint shows whichever direction is cheaper).

const (
	nH1 = 4
	nH2 = 5
)

var c19Chains = [][]int{
	{nA}, {nB},
	{nA, nH1}, {nB, nH1}, {nA, nB}, {nS, nH1},
	{nA, nH1, nH2}, {nB, nH1, nH2}, {nA, nB, nH1}, {nA, nH1, nB},
}

type hopPol struct {
	b, r uint32
	d    uint16
}

var c19HopPalette = []hopPol{{0, 0, 1}, {1000, 1000, 40}, {1, 500_000, 144}}

// distinctHopPol: the n-th of a family of pairwise different hop policies.
func distinctHopPol(n int) hopPol {
	return hopPol{b: uint32(1000 * (n + 1)), r: uint32(100_000 * (n % 4)), d: uint16(10*n + 3)}
}

func genRouteHints(thorough, prePass bool, amts []uint64, emit func(*c19Case)) {
	const cap = int64(10_000_000)
	std := pp(1000, 1000, 40).withMin(1)
	free := pp(0, 0, 1)
	graph := func(publicT bool) []c19Chan {
		chans := []c19Chan{
			{ID: 101, U: nS, V: nA, Cap: cap, UV: std.cp(), VU: std.withIn(-500, -1000)},
			{ID: 102, U: nS, V: nB, Cap: cap, UV: free.cp(), VU: free.cp()},
			{ID: 103, U: nA, V: nB, Cap: cap, UV: std.cp(), VU: std.cp()},
		}
		if publicT {
			chans = append(chans, c19Chan{ID: 104, U: nB, V: nT, Cap: cap, UV: pp(5000, 0, 144), VU: std.cp()})
		}
		return chans
	}
	chains := c19Chains
	if thorough {
		chains = append(append([][]int{}, c19Chains...), []int{}) // the empty route hint
	}
	// build materialises a hint set; pol(n) is the policy of the n-th hop hint.
	build := func(set [][]int, pol func(n int) hopPol) [][]c19HopHint {
		var out [][]c19HopHint
		n := 0
		for _, ch := range set {
			rh := []c19HopHint{}
			for _, node := range ch {
				p := pol(n)
				rh = append(rh, c19HopHint{Node: node, ID: uint64(201 + n), Base: p.b, Rate: p.r, Delta: p.d})
				n++
			}
			out = append(out, rh)
		}
		return out
	}
	hops := func(set [][]int) (n int) {
		for _, ch := range set {
			n += len(ch)
		}
		return n
	}
	put := func(amt uint64, set [][]int, pol func(n int) hopPol) {
		for _, pub := range []bool{false, true} {
			for _, entry := range []string{"", "session"} {
				space := "HR"
				if prePass {
					space = "HRq"
				}
				emit(&c19Case{Space: space, Nodes: 6, Self: nS, Source: nS, Target: nT, Amt: amt, Chans: graph(pub),
					RouteHints: build(set, pol), Entry: entry, lite: prePass})
			}
		}
	}
	assignments := func(set [][]int) []func(int) hopPol {
		total := hops(set)
		return []func(int) hopPol{
			func(int) hopPol { return c19HopPalette[1] },
			distinctHopPol,
			func(n int) hopPol { return distinctHopPol(total - 1 - n) },
		}
	}
	for ai, amt := range amts {
		// one chain: full palette cross product
		for _, ch := range chains {
			k := len(ch)
			if k == 0 {
				continue
			}
			idx := make([]int, k)
			for {
				sel := append([]int(nil), idx...)
				put(amt, [][]int{ch}, func(n int) hopPol { return c19HopPalette[sel[n]] })
				i := 0
				for ; i < k; i++ {
					if idx[i]++; idx[i] < len(c19HopPalette) {
						break
					}
					idx[i] = 0
				}
				if i == k {
					break
				}
			}
		}
		// ordered pairs (quick tier: for the last amount only)
		if !thorough && ai != len(amts)-1 {
			continue
		}
		for _, c1 := range chains {
			for _, c2 := range chains {
				set := [][]int{c1, c2}
				if hops(set) == 0 {
					continue
				}
				as := assignments(set)
				if !thorough {
					as = as[1:] // uniform policies: single chains and thorough only
				}
				for _, pol := range as {
					put(amt, set, pol)
				}
			}
		}
		if !thorough || ai != len(amts)-1 {
			continue
		}
		// unordered triples (for the last amount)
		for i := range chains {
			for j := i; j < len(chains); j++ {
				for l := j; l < len(chains); l++ {
					set := [][]int{chains[i], chains[j], chains[l]}
					if hops(set) == 0 {
						continue
					}
					for _, pol := range assignments(set)[1:] {
						put(amt, set, pol)
					}
				}
			}
		}
	}
}

// ---------------------------------------------------------------------------
// space P: onion size

func genPayload(thorough bool, emit func(*c19Case)) {
	const cap = int64(10_000_000)
	free := pp(0, 0, 1)
	amts := []uint64{1, 1_000_000}
	heights := []uint32{100}
	if thorough {
		amts = []uint64{1, 1000, 1_000_000, 4_000_000_000}
		heights = []uint32{100, 800_000}
	}
	for _, amt := range amts {
		for _, h := range heights {
			for _, payAddr := range []bool{false, true} {
				// line graphs n0 - n1 - ... - nk
				for k := 1; k <= 28; k++ {
					c := &c19Case{Space: "PL", Nodes: k + 1, Self: 0, Source: 0, Target: k, Amt: amt, Height: h, PayAddr: payAddr}
					for i := 0; i < k; i++ {
						c.Chans = append(c.Chans, c19Chan{ID: uint64(101 + i), U: i, V: i + 1, Cap: cap, UV: free.cp(), VU: free.cp()})
					}
					emit(c)
				}
				// alternatives of 1, 2 and 3 hops; the longer the cheaper. Growing
				// metadata must push pathfinding to the shorter alternative.
				for _, direct := range []bool{false, true} {
					c := &c19Case{Space: "PA", Nodes: 4, Self: nS, Source: nS, Target: nT, Amt: amt, Height: h, PayAddr: payAddr, Chans: []c19Chan{
						{ID: 101, U: nS, V: nA, Cap: cap, UV: free.cp(), VU: free.cp()},
						{ID: 102, U: nA, V: nT, Cap: cap, UV: pp(5000, 0, 40), VU: free.cp()},
						{ID: 103, U: nA, V: nB, Cap: cap, UV: free.cp(), VU: free.cp()},
						{ID: 104, U: nB, V: nT, Cap: cap, UV: free.cp(), VU: free.cp()},
					}}
					if direct {
						// a direct channel that only carries more than the payment amount
						c.Chans = append(c.Chans, c19Chan{ID: 105, U: nS, V: nT, Cap: cap, UV: free.withMin(amt + 1), VU: free.cp()})
					}
					emit(c)
					for _, ign := range [][]int{{nB}, {nA}} {
						d := c.clone()
						d.IgnNodes = ign
						emit(d)
					}
				}
			}
		}
	}
}

// sweepFamily: the onion-size family of a base case. The base query (no
// metadata) tells how many payload bytes the route lnd picks leaves free; the
// final-hop metadata length is then swept over every value from 9 bytes below to 2
// bytes above the length that fills the 1300-byte routing info exactly (the
// metadata TLV header and the payload length prefix change size inside that
// window), so pathfinding is queried just below, at and just above the limit.
func (w *c19Worker) sweepFamily(base *c19Case) {
	w.st.BaseCases++
	w.st.BaseBySpace[base.Space]++
	_, v := w.eval(base)
	lo, hi := 1, 0
	if v != nil {
		left := 1300 - v.payload
		lo, hi = left-9, left+2
	}
	if lo < 1 {
		lo = 1
	}
	for l := lo; l <= hi; l++ {
		d := base.clone()
		d.Probe = "metadata:" + strconv.Itoa(l)
		d.MetaLen = l
		w.eval(d)
		// the same boundary through a real payment session
		e := d.clone()
		e.Entry = "session"
		w.eval(e)
	}
	// the same boundary with a destination custom record as the variable-size field
	// (its TLV type takes 5 bytes where the metadata type takes 1), through all three
	// entries (FindRoute attaches no payment address)
	for l := lo - 5; l <= hi; l++ {
		if l < 1 {
			continue
		}
		for _, entry := range []string{"", "session", "router"} {
			if entry == "router" && base.PayAddr {
				continue
			}
			d := base.clone()
			d.Probe = "customrecord:" + strconv.Itoa(l)
			d.CustomLen, d.Entry = l, entry
			w.eval(d)
		}
	}
}

// ---------------------------------------------------------------------------
// tiers

type topoCfg struct {
	k        int
	palette  []int
	amts     []uint64 // nil: all amounts of the tier
	allProbs bool     // also with the non-unit hop probabilities of the tier
	noSelf   bool     // target T only (no self-payment variant)
}

type tierCfg struct {
	amts      []uint64
	topo      []topoCfg
	c3Amts    []uint64
	lattice   latticeCfg
	probs     []float64
	deadline  time.Duration
	selfOther bool // also run space T with self != source
}

func c19Tier(thorough bool) tierCfg {
	t := tierCfg{
		amts: []uint64{1000, 1_000_000},
		topo: []topoCfg{
			{k: 1, palette: []int{0, 1, 2, 3, 4, 5, 6, 7}},
			{k: 2, palette: []int{0, 1, 2, 3, 4, 5, 6, 7}},
			{k: 3, palette: []int{0, 1, 2, 3, 4}},
			{k: 4, palette: []int{0, 1, 2}, amts: []uint64{1_000_000}, noSelf: true},
		},
		c3Amts: []uint64{1_000_000},
		lattice: latticeCfg{
			base: []uint64{0, 1, 1000}, rate: []uint64{0, 1000, 500_000}, delta: []uint16{1, 40},
			in: []inb{{}, {true, 0, -500}, {true, -1000, -5000}, {true, 100, 100}},
		},
		probs:    []float64{1},
		deadline: 140 * time.Second,
	}
	if thorough {
		t.amts = []uint64{1, 1000, 1_000_000}
		t.topo = []topoCfg{
			{k: 1, palette: []int{0, 1, 2, 3, 4, 5, 6, 7}, allProbs: true},
			{k: 2, palette: []int{0, 1, 2, 3, 4, 5, 6, 7}, allProbs: true},
			{k: 3, palette: []int{0, 1, 2, 3, 4, 5, 6, 7}},
			{k: 4, palette: []int{0, 1, 2, 3}},
			{k: 5, palette: []int{0, 1, 2}, amts: []uint64{1_000_000}, noSelf: true},
		}
		t.c3Amts = t.amts
		t.lattice.in = []inb{{}, {true, 0, -500}, {true, -1000, -5000}, {true, 100, 100}, {true, -1, 0}, {true, 0, 1_000_000}}
		t.probs = []float64{1, 0.6}
		t.deadline = 25 * time.Minute
		t.selfOther = true
	}
	return t
}

// ---------------------------------------------------------------------------
// entry point

func TestC19(t *testing.T) {
	run := evid.Start("C19", "exploration")
	if rp := os.Getenv("VERIF_REPLAY"); rp != "" {
		c19Replay(t, run, rp)
		return
	}
	cfg := c19Tier(run.Thorough())
	if sh := os.Getenv("VERIF_C19_SHARD"); sh != "" {
		c19Shard(t, run, cfg, sh)
		return
	}
	c19Parent(t, run, cfg)
}

// generate enumerates every base case of the tier, in a fixed order.
func c19Generate(cfg tierCfg, thorough bool, emit0 func(*c19Case)) {
	emitP := func(c *c19Case, allProbs bool) {
		for _, p := range cfg.probs {
			d := c
			if p != 1 {
				if !allProbs {
					continue
				}
				d = c.clone()
				d.Prob = p
				d.Space += "p"
			}
			d.fillDefaults()
			emit0(d)
		}
	}
	emit := func(c *c19Case) { emitP(c, c.Space[0] != 'P') }
	// cheap, boundary-dense spaces first: if the internal deadline stops the
	// run early, what was skipped is the tail of the largest topology space.
	genPayload(thorough, emit)
	if !thorough {
		// Quick tier: the hint-conversion spaces first in their cheap form (base
		// query + configurations + entry points; space HRq = the HR base cases
		// without their derived families), so that a loaded machine that reaches
		// the internal deadline inside the big lattice below has still queried
		// every hint set once. The full HR families follow at their place.
		genRouteHints(thorough, true, cfg.amts, emit)
		genBlindedSets(thorough, cfg.amts, emit)
		// foreign source (see genForeign): one and two channels with their full
		// families here; three channels (base query, configurations, entries) follow
		// behind the hint spaces
		xAmt := cfg.amts[len(cfg.amts)-1]
		genForeign(1, c19XPalette, xAmt, false, func(c *c19Case) { emitP(c, false) })
		genForeign(2, c19XPalette, xAmt, false, func(c *c19Case) { emitP(c, false) })
	}
	genChain(cfg.lattice, cfg.amts, cfg.c3Amts, emit)
	genHints(thorough, cfg.amts, emit)
	genRouteHints(thorough, false, cfg.amts, emit)
	if thorough {
		genBlindedSets(thorough, cfg.amts, emit)
	} else {
		genForeign(3, c19XPalette[:4], cfg.amts[len(cfg.amts)-1], true, func(c *c19Case) { emitP(c, false) })
	}
	for _, tp := range cfg.topo {
		amts := tp.amts
		if amts == nil {
			amts = cfg.amts
		}
		allProbs := tp.allProbs
		genTopo(tp.k, tp.palette, amts, tp.noSelf, func(c *c19Case) { emitP(c, allProbs) })
	}
	if thorough {
		for _, amt := range cfg.amts {
			for k := 1; k <= 3; k++ {
				if k == 3 && amt != cfg.amts[len(cfg.amts)-1] {
					continue // three channels: largest amount only
				}
				genForeign(k, c19XPalette, amt, false, func(c *c19Case) { emitP(c, k < 3) })
			}
		}
	}
	if cfg.selfOther {
		// the local node is A, the payment is sourced at S (QueryRoutes with a
		// foreign source): A's channels are judged by bandwidth hints mid-route.
		genTopo(3, []int{0, 1, 2, 3}, cfg.amts[len(cfg.amts)-1:], false, func(c *c19Case) {
			c.Self = nA
			c.Space += "x"
			emitP(c, false)
		})
	}
}

// c19Shard is one worker process: it walks the whole enumeration and handles
// the base cases whose index is congruent to its shard number. (Separate processes,
// not goroutines: findPath pre-allocates two 10000-entry maps per call and 16
// goroutines doing that in one address space run no faster than one.)
func c19Shard(t *testing.T, run *evid.Run, cfg tierCfg, sh string) {
	var idx, n int
	if _, err := fmt.Sscanf(sh, "%d/%d", &idx, &n); err != nil || n < 1 {
		t.Fatalf("bad shard spec %q", sh)
	}
	if pf := os.Getenv("VERIF_C19_CPUPROFILE"); pf != "" && idx == 0 {
		if f, err := os.Create(pf); err == nil {
			_ = pprof.StartCPUProfile(f)
		}
	}
	debug.SetGCPercent(400)
	deadlineUnix, _ := strconv.ParseInt(os.Getenv("VERIF_C19_DEADLINE_UNIX"), 10, 64)
	deadline := time.Unix(deadlineUnix, 0)
	start := time.Now()
	w := &c19Worker{run: run, link: newC19Link(t), st: newC19Stats()}
	i := 0
	only := os.Getenv("VERIF_C19_SPACES") // debugging aid: comma-separated space names; the run is then not exhaustive
	c19Generate(cfg, run.Thorough(), func(c *c19Case) {
		if only != "" && !strings.Contains(","+only+",", ","+c.Space+",") {
			return
		}
		i++
		w.st.Generated++
		if (i+run.Seed())%n != idx || w.st.Stopped {
			return
		}
		w.family(c, !c.lite)
		if time.Now().After(deadline) {
			w.st.Stopped = true
		}
	})
	w.st.WallS = time.Since(start).Seconds()
	pprof.StopCPUProfile()
	b, _ := json.Marshal(w.st)
	if err := os.WriteFile(os.Getenv("VERIF_C19_OUT"), b, 0o644); err != nil {
		t.Fatalf("shard output: %v", err)
	}
	os.Exit(0)
}

func c19Parent(t *testing.T, run *evid.Run, cfg tierCfg) {
	workers := runtime.NumCPU()
	if workers > 16 {
		workers = 16
	}
	if v, err := strconv.Atoi(os.Getenv("VERIF_WORKERS")); err == nil && v > 0 {
		workers = v
	}
	if v, err := strconv.Atoi(os.Getenv("VERIF_C19_DEADLINE_S")); err == nil && v > 0 {
		cfg.deadline = time.Duration(v) * time.Second
	}
	self := os.Getenv("VERIF_SELF")
	if self == "" {
		self = os.Args[0]
	}
	scratch := os.Getenv("VERIF_SCRATCH")
	if scratch == "" {
		scratch = t.TempDir()
	}
	deadline := time.Now().Add(cfg.deadline)
	fmt.Printf("INFO C19 tier=%s worker processes=%d deadline=%s\n", run.Tier(), workers, cfg.deadline)
	type child struct {
		cmd *exec.Cmd
		out string
		log *bytes.Buffer
	}
	var kids []*child
	for i := 0; i < workers; i++ {
		k := &child{out: filepath.Join(scratch, fmt.Sprintf("c19_shard_%d.json", i)), log: &bytes.Buffer{}}
		k.cmd = exec.Command(self, "-test.run", "^TestC19$", "-test.count=1", "-test.timeout", "12h")
		k.cmd.Env = append(os.Environ(), fmt.Sprintf("VERIF_C19_SHARD=%d/%d", i, workers), "VERIF_C19_OUT="+k.out,
			fmt.Sprintf("VERIF_C19_DEADLINE_UNIX=%d", deadline.Unix()), "GOMAXPROCS=2")
		k.cmd.Stdout, k.cmd.Stderr = k.log, k.log
		if err := k.cmd.Start(); err != nil {
			t.Fatalf("cannot start worker process: %v", err)
		}
		kids = append(kids, k)
	}
	total := newC19Stats()
	var walls []float64
	for i, k := range kids {
		err := k.cmd.Wait()
		b, rerr := os.ReadFile(k.out)
		st := newC19Stats()
		if err != nil || rerr != nil || json.Unmarshal(b, st) != nil {
			tail := k.log.String()
			if len(tail) > 4000 {
				tail = tail[len(tail)-4000:]
			}
			t.Fatalf("worker process %d died (%v / %v); its output ends:\n%s", i, err, rerr, tail)
		}
		total.merge(st)
		total.Generated = st.Generated
		walls = append(walls, st.WallS)
	}
	// file the violations (de-duplicated by signature across workers; the
	// committed known-findings list is applied by evid)
	sort.Slice(total.Found, func(i, j int) bool { return total.Found[i].Sig < total.Found[j].Sig })
	for _, f := range total.Found {
		run.Violation(f.Sig, f.What, f.Case)
	}
	exhaustive := true
	var capsHit []string
	if total.Stopped {
		exhaustive = false
		capsHit = append(capsHit, fmt.Sprintf("internal deadline %s reached: enumeration stopped early", cfg.deadline))
	}
	if f := os.Getenv("VERIF_C19_SPACES"); f != "" {
		exhaustive = false
		capsHit = append(capsHit, "debugging filter VERIF_C19_SPACES="+f+": other spaces skipped")
	}
	if len(total.Unreproduced) > 0 {
		exhaustive = false
		capsHit = append(capsHit, "an oracle alarm did not reproduce on re-runs (route choice among ties is map-order dependent); see unreproduced_alarms")
		if len(total.Unreproduced) > 5 {
			total.Unreproduced = total.Unreproduced[:5]
		}
	}

	nontrivial := 0
	for k := range total.Classes {
		// non-trivial: a route with at least one forwarding node, or one on which a
		// limit was active, or a boundary met with equality
		if !strings.Contains(k, "|n=1|") || strings.Contains(k, "tight") || strings.Contains(k, "limit") {
			nontrivial++
		}
	}
	var samples []any
	var spaces []string
	for s := range total.Samples {
		spaces = append(spaces, s)
	}
	sort.Strings(spaces)
	for _, s := range spaces {
		if len(total.Samples[s]) > 0 {
			samples = append(samples, total.Samples[s][0])
		}
	}
	if len(samples) > 12 {
		samples = samples[:12]
	}
	run.Assumptions = append(run.Assumptions,
		"observed at findPath+newRoute called exactly as ChannelRouter.FindRoute does (request built by NewRouteRequest; final-hop parameters as paymentSession.RequestRoute), over an in-memory Graph that mirrors what graph_cache hands to pathfinding; mission control is replaced by a constant hop probability with probability 0 for ignored nodes/pairs (the routerrpc wiring)",
		"nodes {S,A,B,T} (line graphs up to 29 nodes only in the onion-size space); policy values from the stated lattice/palette; amounts "+fmt.Sprint(cfg.amts)+" msat; fixed keys",
		"every local channel has a bandwidth hint (as lnd's bandwidth manager provides); on local channels the hint, not the graph's disabled flag, decides usability (lnd's documented rule), so 'enabled direction' is demanded of non-local hops only",
		"the per-hop channel is the one named in the route (hop.ChannelID); non-strict forwarding by the peer is outside the property",
		"blinded tails are judged against the aggregate fee / CLTV / htlc range stated by the recipient; the real-link cross-check covers clear-text forwarding nodes only; link config OutgoingCltvRejectDelta=0, MaxOutgoingCltvExpiry=2^20 (expiry-too-soon/far are not pathfinding constraints of the statement)",
		"soundness only: optimality / completeness of pathfinding is not judged (reported as brute_force_comparison)",
		"invoice route hints (space HR) are judged against the BOLT 11 reading: the hop hints of one route hint are chained in forward order, the last leads to the payee; a hinted hop has the stated fee and delta and no amount range; hinted channel ids are distinct from each other and from public channel ids (a hint that re-states a public channel with other terms is not enumerated); nodes H1, H2 exist only in hints",
		"session entry: LightningPayment built as for an invoice payment (MaxParts 1, no MPP features, so RequestRoute never splits); its CltvLimit bounds TotalTimeLock - height; mission control replaced by the same constant probability source",
		"a payment to a set of blinded paths (space HS) is payable iff the route is payable over one path of the set",
	)
	cov := map[string]any{
		"evaluations":                   total.Queries,
		"base_cases":                    total.BaseCases,
		"routes_validated":              total.Routes,
		"link_crosschecks":              total.Xchecks,
		"distinct_nontrivial":           nontrivial,
		"distinct_outcome_classes":      len(total.Classes),
		"rule":                          "distinct (space, probe kind, hop count, oracle feature set) classes of returned-and-validated routes that have a forwarding node (>= 2 hops) or an active limit or a boundary met with equality; features = which clauses were exercised (fee exact/overpaid/floored, inbound discount/surcharge, min/max/capacity/bandwidth tight, delta padded by the unifier, parallel channels, limits active/tight, restrictions, hint, blinded, self-payment, payload tight)",
		"samples":                       samples,
		"exhaustive":                    exhaustive,
		"queries_by_space":              total.BySpace,
		"base_cases_by_space":           total.BaseBySpace,
		"result_kinds":                  total.Results,
		"route_hops_histogram":          total.HopsHist,
		"oracle_feature_counts":         total.Feats,
		"queries_by_probe":              total.Probes,
		"probe_effects":                 total.ProbeEffect,
		"brute_force_comparison":        total.Brute,
		"queries_by_pathfinding_config": total.ByCfg,
		"generated_base_cases":          total.Generated,
		"worker_processes":              workers,
		"worker_wall_s":                 walls,
	}
	if len(capsHit) > 0 {
		cov["caps_hit"] = capsHit
	}
	if len(total.Unreproduced) > 0 {
		cov["unreproduced_alarms"] = total.Unreproduced
	}
	fmt.Printf("INFO C19 queries=%d base=%d/%d routes=%d xchecks=%d classes=%d nontrivial=%d exhaustive=%v\n",
		total.Queries, total.BaseCases, total.Generated, total.Routes, total.Xchecks, len(total.Classes), nontrivial, exhaustive)
	os.Exit(run.Finish(cov))
}

// c19Replay re-runs one recorded query (explorer-free) and prints every step.
func c19Replay(t *testing.T, run *evid.Run, path string) {
	b, err := os.ReadFile(path)
	if err != nil {
		t.Fatalf("replay: %v", err)
	}
	var art struct {
		Signature string  `json:"signature"`
		Replay    c19Case `json:"replay"`
	}
	if err := json.Unmarshal(b, &art); err != nil {
		t.Fatalf("replay: %v", err)
	}
	c := &art.Replay
	if c.BW == nil {
		c.BW = map[uint64]uint64{}
	}
	fmt.Printf("INFO replaying %s (signature %s)\n", path, art.Signature)
	w := &c19Worker{run: run, link: newC19Link(t), st: newC19Stats(), verbose: true}
	failing := 0
	for i := 0; i < 5; i++ {
		fmt.Printf("INFO --- run %d/5\n", i+1)
		res, v := w.eval(c)
		var problems []c19Viol
		if res.Kind == "panic" {
			problems = []c19Viol{{"panic", -1, res.Err}}
		} else if v != nil {
			problems = v.viols
		}
		if len(problems) > 0 {
			failing++
			if failing == 1 {
				hops := 0
				if res.Route != nil {
					hops = len(res.Route.Hops)
				}
				sig := fmt.Sprintf("%s:%s:%s:n=%d:i=%d", problems[0].Clause, c.Space, coarseProbe(c.Probe), hops, problems[0].Hop)
				run.Violation(sig, problems[0].What, c)
			}
		}
	}
	fmt.Printf("INFO replay: %d of 5 runs violate the property\n", failing)
	os.Exit(run.Finish(map[string]any{"evaluations": 5, "distinct_nontrivial": 2, "rule": "replay", "samples": []any{c}, "exhaustive": true}))
}
