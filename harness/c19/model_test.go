// C19 harness, part 1: the case model (also the replay artefact), the in-memory
// channel graph handed to the real findPath, and the runner that mirrors
// ChannelRouter.FindRoute / paymentSession.RequestRoute (findPath + newRoute).
//
// Unexported identifiers of package routing used by the harness (all in this file):
//
//	findPath, newRoute, graphParams{graph,additionalEdges,bandwidthHints},
//	finalHopParams{amt,totalAmt,cltvDelta,records,paymentAddr,metadata},
//	the bandwidthHints interface (availableChanBandwidth, isCustomHTLCPayment),
//	(the "session" entry goes through the exported SessionSource.NewPaymentSession +
//	PaymentSession.RequestRoute),
//	ChannelRouter{cfg} (the "router" entry: a router value with just the Config
//	fields FindRoute reads).
//
// Everything else goes through exported API (NewRouteRequest, RestrictParams,
// RouteHintsToEdges, NewBlindedPaymentPathSet, AdditionalEdge, LightningPayment,
// route.Route, sphinx, htlcswitch).
package routing

import (
	"context"
	"errors"
	"fmt"
	"math"
	"sort"

	"github.com/btcsuite/btcd/btcec/v2"
	"github.com/btcsuite/btcd/btcutil/v2"
	"github.com/btcsuite/btcd/chainhash/v2"
	sphinx "github.com/lightningnetwork/lightning-onion"
	"github.com/lightningnetwork/lnd/fn/v2"
	graphdb "github.com/lightningnetwork/lnd/graph/db"
	"github.com/lightningnetwork/lnd/graph/db/models"
	"github.com/lightningnetwork/lnd/htlcswitch"
	"github.com/lightningnetwork/lnd/lntypes"
	"github.com/lightningnetwork/lnd/lnwallet"
	"github.com/lightningnetwork/lnd/lnwire"
	paymentsdb "github.com/lightningnetwork/lnd/payments/db"
	"github.com/lightningnetwork/lnd/record"
	"github.com/lightningnetwork/lnd/routing/route"
	"github.com/lightningnetwork/lnd/tlv"
	"github.com/lightningnetwork/lnd/zpay32"
)

// c19Pol is the policy one endpoint announced for its outgoing direction of a
// channel, including the inbound fee it charges for HTLCs *arriving* over that
// same channel.
type c19Pol struct {
	Base   uint64 `json:"base"`
	Rate   uint64 `json:"rate_ppm"`
	Delta  uint16 `json:"delta"`
	Min    uint64 `json:"min"`
	Max    uint64 `json:"max,omitempty"`
	HasMax bool   `json:"has_max,omitempty"`
	Dis    bool   `json:"disabled,omitempty"`
	InBase int32  `json:"in_base,omitempty"`
	InRate int32  `json:"in_rate_ppm,omitempty"`
	HasIn  bool   `json:"has_in,omitempty"`
}

// c19Chan is one channel between nodes U and V (indices into the node list).
// UV is U's policy (direction U->V), VU is V's. nil = no policy known.
type c19Chan struct {
	ID  uint64  `json:"id"`
	U   int     `json:"u"`
	V   int     `json:"v"`
	Cap int64   `json:"cap_sat"`
	UV  *c19Pol `json:"uv,omitempty"`
	VU  *c19Pol `json:"vu,omitempty"`
}

// c19Hint is a private channel From->To handed to pathfinding as a route hint.
type c19Hint struct {
	ID   uint64 `json:"id"`
	From int    `json:"from"`
	To   int    `json:"to"`
	Pol  c19Pol `json:"pol"`
}

// c19HopHint is one BOLT-11 hop hint as it appears in an invoice's `r` field
// (zpay32.HopHint): a private channel ID leaving Node, with the parameters Node
// charges for forwarding over it. Where the channel leads is NOT stated in the
// hint: per BOLT 11 the hop hints of one route hint are chained in forward order
// and the last one leads to the payee (c19Case.hintEdges is that rule).
type c19HopHint struct {
	Node  int    `json:"node"`
	ID    uint64 `json:"chan_id"`
	Base  uint32 `json:"base"`
	Rate  uint32 `json:"rate_ppm"`
	Delta uint16 `json:"delta"`
}

// c19Blind is a blinded tail: Hops counts the blinded hops including the
// introduction node (1 = the introduction node is the recipient).
type c19Blind struct {
	Intro     int    `json:"intro"`
	Hops      int    `json:"hops"`
	Base      uint32 `json:"base"`
	Rate      uint32 `json:"rate_ppm"`
	Delta     uint16 `json:"cltv_delta"`
	Min       uint64 `json:"htlc_min"`
	Max       uint64 `json:"htlc_max"`
	CipherLen int    `json:"cipher_len"`
	// KeyBase: node index of this path's first pseudonymous hop (0 = c19BlindBase).
	// Paths of one set use disjoint pseudonyms and cipher texts.
	KeyBase int `json:"key_base,omitempty"`
}

func (b *c19Blind) keyBase() int {
	if b.KeyBase == 0 {
		return c19BlindBase
	}
	return b.KeyBase
}

// salt makes the cipher texts of different paths of a set different.
func (b *c19Blind) salt() int { return 16 * (b.keyBase() - c19BlindBase) }

// c19Case is one fully specified pathfinding query. It is self-contained: the
// replay artefact of a violation is exactly this value.
type c19Case struct {
	Space string    `json:"space"`
	Probe string    `json:"probe,omitempty"` // how this query was derived from its base case
	Nodes int       `json:"nodes"`           // node i has the key derived from byte i+1
	Chans []c19Chan `json:"chans"`
	Hints []c19Hint `json:"hints,omitempty"`
	// RouteHints are invoice route hints; they are converted to additional edges
	// by lnd's own RouteHintsToEdges (c.Hints are handed to findPath ready-made).
	RouteHints [][]c19HopHint `json:"route_hints,omitempty"`
	// Entry selects the code path that is queried: "" = findPath + newRoute with
	// a request built by NewRouteRequest (ChannelRouter.FindRoute), "session" = a
	// real paymentSession (newPaymentSession + RequestRoute).
	Entry string    `json:"entry,omitempty"`
	Blind *c19Blind `json:"blinded,omitempty"`
	// BlindMore: further paths of the blinded payment path set (Blind is the first).
	BlindMore []c19Blind `json:"blinded_more,omitempty"`
	Self      int        `json:"self"`
	Source    int        `json:"source"`
	Target    int        `json:"target"`

	Amt        uint64 `json:"amt_msat"`
	Height     uint32 `json:"height"`
	FinalDelta uint16 `json:"final_cltv_delta"`

	FeeLimit  uint64            `json:"fee_limit_msat"`
	CltvLimit uint32            `json:"cltv_limit"`
	OutChans  []uint64          `json:"outgoing_chan_ids,omitempty"`
	LastHop   *int              `json:"last_hop,omitempty"`
	IgnNodes  []int             `json:"ignored_nodes,omitempty"`
	IgnPairs  [][2]int          `json:"ignored_pairs,omitempty"`
	BW        map[uint64]uint64 `json:"bandwidth_hints_msat"` // every channel of Self has an entry (as lnd's bandwidth manager)
	MetaLen   int               `json:"metadata_len,omitempty"`
	// CustomLen > 0: the payment carries one custom record for the destination
	// (type c19CustomType, CustomLen zero bytes): routerrpc's dest_custom_records.
	CustomLen int     `json:"dest_custom_record_len,omitempty"`
	PayAddr   bool    `json:"payment_addr,omitempty"`
	Prob      float64 `json:"hop_probability"`

	// Path-finding configuration (PathFindingConfig): false = lnd's defaults
	// (MinProbability 0.01, AttemptCost 100 sat, AttemptCostPPM 1000), true = the
	// struct's zero value for that part (routerrpc.minrtprob=0 / attemptcost=0).
	MinProb0     bool `json:"min_probability_zero,omitempty"`
	AttemptCost0 bool `json:"attempt_cost_zero,omitempty"`

	// Links (entry "router" only): state of the switch link of an own channel, by
	// channel id: "" = online with Bandwidth() = the case's bandwidth hint,
	// "offline" (no link in the switch), "ineligible" (EligibleToForward false),
	// "full" (MayAddOutgoingHtlc fails). For the three unusable states the link would
	// still report an ample Bandwidth(); the oracle's hint (BW) for them is 0.
	Links map[uint64]string `json:"links,omitempty"`

	// lite (generator -> worker only): this base case gets the base query, the
	// path-finding configurations and the entry points, not the derived family.
	lite bool
}

const (
	c19NoFeeLimit  = uint64(lnwire.MaxMilliSatoshi)
	c19NoCltvLimit = uint32(math.MaxUint32)
	c19CustomType  = uint64(record.CustomTypeStart + 1)
	// node index of the first blinded (pseudonymous) hop; never a graph node.
	c19BlindBase = 200
)

func (c *c19Case) clone() *c19Case {
	d := *c
	d.Chans = make([]c19Chan, len(c.Chans))
	for i, ch := range c.Chans {
		d.Chans[i] = ch
		if ch.UV != nil {
			p := *ch.UV
			d.Chans[i].UV = &p
		}
		if ch.VU != nil {
			p := *ch.VU
			d.Chans[i].VU = &p
		}
	}
	d.Hints = append([]c19Hint(nil), c.Hints...)
	if c.RouteHints != nil {
		d.RouteHints = make([][]c19HopHint, len(c.RouteHints))
		for i, rh := range c.RouteHints {
			d.RouteHints[i] = append([]c19HopHint{}, rh...)
		}
	}
	if c.Blind != nil {
		b := *c.Blind
		d.Blind = &b
	}
	d.BlindMore = append([]c19Blind(nil), c.BlindMore...)
	d.OutChans = append([]uint64(nil), c.OutChans...)
	if c.LastHop != nil {
		l := *c.LastHop
		d.LastHop = &l
	}
	d.IgnNodes = append([]int(nil), c.IgnNodes...)
	d.IgnPairs = append([][2]int(nil), c.IgnPairs...)
	if c.Links != nil {
		d.Links = make(map[uint64]string, len(c.Links))
		for k, v := range c.Links {
			d.Links[k] = v
		}
	}
	d.BW = make(map[uint64]uint64, len(c.BW))
	for k, v := range c.BW {
		d.BW[k] = v
	}
	return &d
}

// hintEdges is the hint topology the oracle judges against: the ready-made
// hints of the case plus, for every invoice route hint, the chain BOLT 11 defines
// (hop hint i is a channel from its node to the node of hop hint i+1, the last
// one to the payee; a hop hint states fee and delta only, so no minimum and no
// maximum applies). Written from the BOLT text, not from RouteHintsToEdges.
func (c *c19Case) hintEdges() []c19Hint {
	out := append([]c19Hint(nil), c.Hints...)
	for _, rh := range c.RouteHints {
		for i, hh := range rh {
			to := c.Target
			if i+1 < len(rh) {
				to = rh[i+1].Node
			}
			out = append(out, c19Hint{ID: hh.ID, From: hh.Node, To: to,
				Pol: c19Pol{Base: uint64(hh.Base), Rate: uint64(hh.Rate), Delta: hh.Delta}})
		}
	}
	return out
}

// c19SessionPad is the number of blocks a payment session adds to the final
// CLTV delta on top of what the recipient asked for (lnd's BlockPadding at the
// time of writing). The harness only uses it to translate the case's relative
// CLTV limit into LightningPayment.CltvLimit and back; the oracle's bound is
// "TotalTimeLock <= height + LightningPayment.CltvLimit" whatever lnd pads.
const c19SessionPad = 3

func (c *c19Case) finalPad() uint32 {
	if c.Entry == "session" {
		return c19SessionPad
	}
	return 0
}

// pol returns the policy of direction from->to of channel ch (nil if none) and
// the policy of the opposite direction.
func (ch *c19Chan) pol(from, to int) (fwd, rev *c19Pol, ok bool) {
	switch {
	case ch.U == from && ch.V == to:
		return ch.UV, ch.VU, true
	case ch.V == from && ch.U == to:
		return ch.VU, ch.UV, true
	}
	return nil, nil, false
}

// ---------------------------------------------------------------------------
// keys

var (
	c19Keys    = map[int]route.Vertex{}
	c19PubKeys = map[int]*btcec.PublicKey{}
	c19KeyIdx  = map[route.Vertex]int{}
	c19NUMS    = route.NewVertex(&BlindedPathNUMSKey)
)

func init() {
	for i := 0; i < 64; i++ {
		c19MakeKey(i, byte(i+1))
	}
	for i := 0; i < 8; i++ {
		c19MakeKey(c19BlindBase+i, byte(201+i))
	}
}

func c19MakeKey(idx int, seed byte) {
	_, pub := btcec.PrivKeyFromBytes([]byte{0x19, seed})
	v := route.NewVertex(pub)
	c19Keys[idx] = v
	c19PubKeys[idx] = pub
	c19KeyIdx[v] = idx
}

// ---------------------------------------------------------------------------
// the graph seen by findPath

// c19Graph implements routing.Graph over a c19Case. It mirrors what lnd's
// graph cache (graph/db/graph_cache.go) hands to pathfinding:
//   - for node N and channel c to peer O: InPolicy = O's policy (direction O->N),
//     OutPolicySet = N announced a policy, InboundFee = the inbound fee in N's own
//     policy, Capacity = channel capacity;
//   - a channel whose two policies are both disabled carries no policies at all;
//   - every call returns fresh copies (findPath writes ToNodeFeatures into them);
//   - unknown nodes have no channels and an empty feature vector.
//
// Channels are returned in ascending id order (deterministic).
type c19Graph struct {
	byNode map[route.Vertex][]graphdb.DirectedChannel
}

func c19CachedPol(id uint64, p *c19Pol, isNode1 bool) *models.CachedEdgePolicy {
	cp := &models.CachedEdgePolicy{
		ChannelID:                 id,
		HasMaxHTLC:                p.HasMax,
		IsNode1:                   isNode1,
		IsDisabled:                p.Dis,
		TimeLockDelta:             p.Delta,
		MinHTLC:                   lnwire.MilliSatoshi(p.Min),
		MaxHTLC:                   lnwire.MilliSatoshi(p.Max),
		FeeBaseMSat:               lnwire.MilliSatoshi(p.Base),
		FeeProportionalMillionths: lnwire.MilliSatoshi(p.Rate),
	}
	if p.HasIn {
		cp.InboundFee = fn.Some(lnwire.Fee{BaseFee: p.InBase, FeeRate: p.InRate})
	}
	return cp
}

func newC19Graph(c *c19Case) *c19Graph {
	g := &c19Graph{byNode: map[route.Vertex][]graphdb.DirectedChannel{}}
	chans := append([]c19Chan(nil), c.Chans...)
	sort.Slice(chans, func(i, j int) bool { return chans[i].ID < chans[j].ID })
	for _, ch := range chans {
		ku, kv := c19Keys[ch.U], c19Keys[ch.V]
		uIsNode1 := string(ku[:]) < string(kv[:])
		uv, vu := ch.UV, ch.VU
		if uv != nil && vu != nil && uv.Dis && vu.Dis {
			uv, vu = nil, nil
		}
		side := func(me, other route.Vertex, meIsNode1 bool, own, in *c19Pol) {
			dc := graphdb.DirectedChannel{
				ChannelID: ch.ID, IsNode1: meIsNode1, OtherNode: other,
				Capacity: btcutil.Amount(ch.Cap), OutPolicySet: own != nil,
			}
			if own != nil && own.HasIn {
				dc.InboundFee = lnwire.Fee{BaseFee: own.InBase, FeeRate: own.InRate}
			}
			if in != nil {
				dc.InPolicy = c19CachedPol(ch.ID, in, !meIsNode1)
			}
			g.byNode[me] = append(g.byNode[me], dc)
		}
		side(ku, kv, uIsNode1, uv, vu)
		side(kv, ku, !uIsNode1, vu, uv)
	}
	return g
}

func (g *c19Graph) ForEachNodeDirectedChannel(_ context.Context, node route.Vertex,
	cb func(channel *graphdb.DirectedChannel) error, _ func()) error {

	feats := lnwire.EmptyFeatureVector()
	for i := range g.byNode[node] {
		dc := g.byNode[node][i]
		if dc.InPolicy != nil {
			p := *dc.InPolicy
			p.ToNodePubKey = func() route.Vertex { return node }
			p.ToNodeFeatures = feats
			dc.InPolicy = &p
		}
		if err := cb(&dc); err != nil {
			return err
		}
	}
	return nil
}

func (g *c19Graph) FetchNodeFeatures(context.Context, route.Vertex) (*lnwire.FeatureVector, error) {
	return lnwire.EmptyFeatureVector(), nil
}

// c19BW implements the (unexported) bandwidthHints interface.
type c19BW struct{ m map[uint64]uint64 }

func (b *c19BW) availableChanBandwidth(id uint64, _ lnwire.MilliSatoshi) (lnwire.MilliSatoshi, bool) {
	v, ok := b.m[id]
	return lnwire.MilliSatoshi(v), ok
}
func (b *c19BW) isCustomHTLCPayment() bool { return false }

// c19HintEdge implements the exported AdditionalEdge interface for a private
// route-hint channel (same payload size as any clear-text hop).
type c19HintEdge struct{ p *models.CachedEdgePolicy }

func (h *c19HintEdge) EdgePolicy() *models.CachedEdgePolicy { return h.p }
func (h *c19HintEdge) BlindedPayment() *BlindedPayment      { return nil }
func (h *c19HintEdge) IntermediatePayloadSize(a lnwire.MilliSatoshi, e uint32, id uint64) uint64 {
	return (&PrivateEdge{}).IntermediatePayloadSize(a, e, id)
}

var (
	c19PayAddrFeatures = lnwire.NewFeatureVector(lnwire.NewRawFeatureVector(
		lnwire.TLVOnionPayloadRequired, lnwire.PaymentAddrOptional), lnwire.Features)
	c19PFCfg = &PathFindingConfig{
		AttemptCost: DefaultAttemptCost, AttemptCostPPM: DefaultAttemptCostPPM,
		MinProbability: DefaultMinRouteProbability,
	}
)

func (c *c19Case) pfCfg() *PathFindingConfig {
	cfg := *c19PFCfg
	if c.MinProb0 {
		cfg.MinProbability = 0
	}
	if c.AttemptCost0 {
		cfg.AttemptCost, cfg.AttemptCostPPM = 0, 0
	}
	return &cfg
}

func (c *c19Case) cfgName() string {
	name := "default"
	switch {
	case c.MinProb0 && c.AttemptCost0:
		name = "minprob0+attemptcost0"
	case c.MinProb0:
		name = "minprob0"
	case c.AttemptCost0:
		name = "attemptcost0"
	}
	if c.Entry != "" {
		if name == "default" {
			return c.Entry
		}
		return c.Entry + "+" + name
	}
	return name
}

func c19Cipher(n, salt int) []byte {
	b := make([]byte, n)
	for i := range b {
		b[i] = byte(salt + i)
	}
	return b
}

// blindPaths lists every path of the case's blinded payment path set.
func (c *c19Case) blindPaths() []*c19Blind {
	if c.Blind == nil {
		return nil
	}
	out := []*c19Blind{c.Blind}
	for i := range c.BlindMore {
		out = append(out, &c.BlindMore[i])
	}
	return out
}

// blindedSet builds the BlindedPaymentPathSet of the case.
func (c *c19Case) blindedSet() (*BlindedPaymentPathSet, error) {
	var paths []*BlindedPayment
	for _, b := range c.blindPaths() {
		bp := &BlindedPayment{
			BlindedPath: &sphinx.BlindedPath{
				IntroductionPoint: c19PubKeys[b.Intro],
				BlindingPoint:     c19PubKeys[b.keyBase()+3],
			},
			BaseFee: b.Base, ProportionalFeeRate: b.Rate, CltvExpiryDelta: b.Delta,
			HtlcMinimum: b.Min, HtlcMaximum: b.Max,
		}
		for i := 0; i < b.Hops; i++ {
			pk := c19PubKeys[b.Intro]
			if i > 0 {
				pk = c19PubKeys[b.keyBase()+i-1]
			}
			bp.BlindedPath.BlindedHops = append(bp.BlindedPath.BlindedHops, &sphinx.BlindedHopInfo{
				BlindedNodePub: pk, CipherText: c19Cipher(b.CipherLen, b.salt()+i),
			})
		}
		if err := bp.Validate(); err != nil {
			return nil, err
		}
		paths = append(paths, bp)
	}
	return NewBlindedPaymentPathSet(paths)
}

// c19Result is what one query produced.
type c19Result struct {
	Kind  string // route | no-path | insufficient-balance | request-error | findpath-error | newroute-error | panic
	Err   string
	Route *route.Route
	Prob  float64
}

// c19Run executes the query against the real pathfinder, exactly the way
// ChannelRouter.FindRoute does (request construction by NewRouteRequest, then
// findPath, then newRoute), with the final-hop parameters of
// paymentSession.RequestRoute (payment address, metadata).
func c19Run(c *c19Case) (res c19Result) {
	defer func() {
		if r := recover(); r != nil {
			res = c19Result{Kind: "panic", Err: fmt.Sprint(r)}
		}
	}()
	ignN := map[route.Vertex]struct{}{}
	for _, n := range c.IgnNodes {
		ignN[c19Keys[n]] = struct{}{}
	}
	ignP := map[DirectedNodePair]struct{}{}
	for _, p := range c.IgnPairs {
		ignP[DirectedNodePair{From: c19Keys[p[0]], To: c19Keys[p[1]]}] = struct{}{}
	}
	prob := c.Prob
	restr := &RestrictParams{
		// Same shape as lnrpc/routerrpc's probability source: ignored nodes
		// and pairs get probability zero, everything else a constant.
		ProbabilitySource: func(from, to route.Vertex, _ lnwire.MilliSatoshi, _ btcutil.Amount) float64 {
			if _, ok := ignN[from]; ok {
				return 0
			}
			if _, ok := ignP[DirectedNodePair{From: from, To: to}]; ok {
				return 0
			}
			return prob
		},
		FeeLimit:           lnwire.MilliSatoshi(c.FeeLimit),
		OutgoingChannelIDs: c.OutChans,
		CltvLimit:          c.CltvLimit,
	}
	if c.LastHop != nil {
		v := c19Keys[*c.LastHop]
		restr.LastHop = &v
	}
	var payAddr fn.Option[[32]byte]
	if c.PayAddr {
		payAddr = fn.Some([32]byte{1, 9})
		restr.PaymentAddr = payAddr
		restr.DestFeatures = c19PayAddrFeatures
	}
	var meta []byte
	if c.MetaLen > 0 {
		meta = make([]byte, c.MetaLen)
		restr.Metadata = meta
	}
	var custom record.CustomSet
	if c.CustomLen > 0 {
		custom = record.CustomSet{c19CustomType: make([]byte, c.CustomLen)}
		restr.DestCustomRecords = custom
	}
	var (
		hints   RouteHints
		zhints  [][]zpay32.HopHint
		target  *route.Vertex
		bset    *BlindedPaymentPathSet
		finalCl = c.FinalDelta
	)
	if c.Blind != nil {
		var err error
		if bset, err = c.blindedSet(); err != nil {
			return c19Result{Kind: "request-error", Err: err.Error()}
		}
		restr.BlindedPaymentPathSet = bset
		restr.DestFeatures = bset.Features()
		finalCl = 0
	} else {
		t := c19Keys[c.Target]
		target = &t
		for _, rh := range c.RouteHints {
			zh := []zpay32.HopHint{}
			for _, hh := range rh {
				zh = append(zh, zpay32.HopHint{NodeID: c19PubKeys[hh.Node], ChannelID: hh.ID,
					FeeBaseMSat: hh.Base, FeeProportionalMillionths: hh.Rate, CLTVExpiryDelta: hh.Delta})
			}
			zhints = append(zhints, zh)
		}
	}
	if c.Entry == "session" {
		return c19RunSession(c, restr, zhints, bset, payAddr, meta, custom)
	}
	if c.Blind == nil {
		if len(zhints) > 0 {
			// the conversion lnrpc/routerrpc (QueryRoutes) and newPaymentSession use
			edges, err := RouteHintsToEdges(zhints, c19Keys[c.Target])
			if err != nil {
				return c19Result{Kind: "request-error", Err: err.Error()}
			}
			hints = edges
		}
		for _, h := range c.Hints {
			if hints == nil {
				hints = RouteHints{}
			}
			to := c19Keys[h.To]
			p := c19CachedPol(h.ID, &h.Pol, true)
			p.ToNodePubKey = func() route.Vertex { return to }
			p.ToNodeFeatures = lnwire.EmptyFeatureVector()
			hints[c19Keys[h.From]] = append(hints[c19Keys[h.From]], &c19HintEdge{p: p})
		}
	}
	req, err := NewRouteRequest(c19Keys[c.Source], target, lnwire.MilliSatoshi(c.Amt), 0,
		restr, custom, hints, bset, finalCl)
	if err != nil {
		return c19Result{Kind: "request-error", Err: err.Error()}
	}
	if c.Entry == "router" {
		return c19RunRouter(c, req)
	}
	finalHtlcExpiry := int32(c.Height) + int32(req.FinalExpiry)
	path, p, err := findPath(
		&graphParams{additionalEdges: req.RouteHints, bandwidthHints: &c19BW{m: c.BW}, graph: newC19Graph(c)},
		req.Restrictions, c.pfCfg(), c19Keys[c.Self], req.Source, req.Target, req.Amount,
		req.TimePreference, finalHtlcExpiry,
	)
	switch {
	case err == errNoPathFound:
		return c19Result{Kind: "no-path"}
	case err == errInsufficientBalance:
		return c19Result{Kind: "insufficient-balance"}
	case err != nil:
		return c19Result{Kind: "findpath-error", Err: err.Error()}
	}
	rt, err := newRoute(req.Source, path, c.Height, finalHopParams{
		amt: req.Amount, totalAmt: req.Amount, cltvDelta: req.FinalExpiry,
		records: req.CustomRecords, paymentAddr: payAddr, metadata: meta,
	}, req.BlindedPathSet)
	if err != nil {
		return c19Result{Kind: "newroute-error", Err: err.Error()}
	}
	return c19Result{Kind: "route", Route: rt, Prob: p}
}

// c19Lnk is the switch link of an own channel as the bandwidth manager sees it.
type c19Lnk struct {
	htlcswitch.ChannelLink
	bw     lnwire.MilliSatoshi
	inelig bool
	mayAdd error
}

func (l *c19Lnk) Bandwidth() lnwire.MilliSatoshi               { return l.bw }
func (l *c19Lnk) EligibleToForward() bool                      { return !l.inelig }
func (l *c19Lnk) MayAddOutgoingHtlc(lnwire.MilliSatoshi) error { return l.mayAdd }
func (l *c19Lnk) AuxBandwidth(lnwire.MilliSatoshi, lnwire.ShortChannelID, fn.Option[tlv.Blob],
	htlcswitch.AuxTrafficShaper) fn.Result[htlcswitch.OptionalBandwidth] {
	return fn.Ok(htlcswitch.OptionalBandwidth{})
}

// c19Chain: only the best height is ever asked for.
type c19Chain struct {
	lnwallet.BlockChainIO
	height int32
}

func (c *c19Chain) GetBestBlock() (*chainhash.Hash, int32, error) {
	return &chainhash.Hash{}, c.height, nil
}

// linkQuery is the switch's link lookup (Config.GetLink / SessionSource.GetLink) for
// the case: every channel with a bandwidth hint has a link whose Bandwidth() is the
// hint, modified by the case's link states; any other channel has no link.
func (c *c19Case) linkQuery() func(lnwire.ShortChannelID) (htlcswitch.ChannelLink, error) {
	const ample = lnwire.MilliSatoshi(1 << 50)
	return func(cid lnwire.ShortChannelID) (htlcswitch.ChannelLink, error) {
		id := cid.ToUint64()
		switch c.Links[id] {
		case "offline":
			return nil, htlcswitch.ErrChannelLinkNotFound
		case "ineligible":
			return &c19Lnk{bw: ample, inelig: true}, nil
		case "full":
			return &c19Lnk{bw: ample, mayAdd: errors.New("no htlc slot left")}, nil
		}
		bw, ok := c.BW[id]
		if !ok {
			return nil, htlcswitch.ErrChannelLinkNotFound
		}
		return &c19Lnk{bw: lnwire.MilliSatoshi(bw)}, nil
	}
}

// c19RunRouter asks the real ChannelRouter.FindRoute (entry "router"): the router's
// own bandwidth manager (newBandwidthManager over the router's SelfNode, fed by a link
// lookup that reflects the case's bandwidth hints and link states), its own call of
// findPath (self = SelfNode, source = the request's source) and newRoute. FindRoute
// attaches neither a payment address nor metadata, so such cases are not defined here.
func c19RunRouter(c *c19Case, req *RouteRequest) c19Result {
	if c.PayAddr || c.MetaLen > 0 {
		return c19Result{Kind: "request-error", Err: "router entry has no payment address / metadata"}
	}
	r := &ChannelRouter{cfg: &Config{
		SelfNode:          c19Keys[c.Self],
		RoutingGraph:      newC19Graph(c),
		Chain:             &c19Chain{height: int32(c.Height)},
		GetLink:           c.linkQuery(),
		PathFindingConfig: *c.pfCfg(),
	}}
	rt, p, err := r.FindRoute(req)
	switch {
	case err == errNoPathFound:
		return c19Result{Kind: "no-path"}
	case err == errInsufficientBalance:
		return c19Result{Kind: "insufficient-balance"}
	case err != nil:
		return c19Result{Kind: "router-error", Err: err.Error()}
	}
	return c19Result{Kind: "route", Route: rt, Prob: p}
}

// c19MC is the MissionControlQuerier of the session entry: the same probability
// source as the direct entry, nothing else is ever called by RequestRoute.
type c19MC struct {
	prob func(from, to route.Vertex, amt lnwire.MilliSatoshi, capacity btcutil.Amount) float64
}

func (m *c19MC) ReportPaymentFail(uint64, *route.Route, *int, lnwire.FailureMessage) (*paymentsdb.FailureReason, error) {
	return nil, nil
}
func (m *c19MC) ReportPaymentSuccess(uint64, *route.Route) error { return nil }
func (m *c19MC) GetProbability(from, to route.Vertex, amt lnwire.MilliSatoshi, capacity btcutil.Amount) float64 {
	return m.prob(from, to, amt, capacity)
}

// c19Sess is the GraphSessionFactory of the session entry.
type c19Sess struct{ c *c19Case }

func (s *c19Sess) GraphSession(_ context.Context, cb func(graph graphdb.NodeTraverser) error, _ func()) error {
	return cb(newC19Graph(s.c))
}

// c19RunSession asks a real payment session for the route: SessionSource.NewPaymentSession
// (newPaymentSession turns the invoice route hints / the blinded path set into additional
// edges; the session's bandwidth hints come from a real bandwidth manager fed by the
// case's links) followed by RequestRoute for the full amount. The LightningPayment is
// filled in the way lnrpc/routerrpc does for an invoice payment: the recipient's
// final CLTV delta as stated, CltvLimit = maximum relative time lock of the whole
// route. Only defined for payments sourced at the local node.
func c19RunSession(c *c19Case, restr *RestrictParams, zhints [][]zpay32.HopHint, bset *BlindedPaymentPathSet,
	payAddr fn.Option[[32]byte], meta []byte, custom record.CustomSet) c19Result {

	if c.Self != c.Source || len(c.Hints) > 0 {
		return c19Result{Kind: "request-error", Err: "session entry needs self == source and invoice-style hints"}
	}
	pay := &LightningPayment{
		Target: c19Keys[c.Target], Amount: lnwire.MilliSatoshi(c.Amt), FeeLimit: lnwire.MilliSatoshi(c.FeeLimit),
		FinalCLTVDelta: c.FinalDelta, RouteHints: zhints, BlindedPathSet: bset,
		OutgoingChannelIDs: c.OutChans, LastHop: restr.LastHop, DestFeatures: restr.DestFeatures,
		PaymentAddr: payAddr, Metadata: meta, DestCustomRecords: custom, MaxParts: 1,
	}
	if bset != nil {
		pay.Target = route.NewVertex(bset.TargetPubKey())
		pay.FinalCLTVDelta = bset.FinalCLTVDelta()
	}
	// the case's CLTV limit excludes the final delta; LightningPayment's covers
	// the whole route
	if lim := uint64(c.CltvLimit) + uint64(pay.FinalCLTVDelta) + c19SessionPad; lim < math.MaxUint32 {
		pay.CltvLimit = uint32(lim)
	} else {
		pay.CltvLimit = math.MaxUint32
	}
	if err := pay.SetPaymentHash(lntypes.Hash{0x19}); err != nil {
		return c19Result{Kind: "request-error", Err: err.Error()}
	}
	// the session comes from the real SessionSource (the router's payment session
	// source): it wires the session's bandwidth hints to a real bandwidth manager over
	// its SourceNode and the switch's link lookup
	src := &SessionSource{
		GraphSessionFactory: &c19Sess{c: c},
		SourceNode:          &models.Node{PubKeyBytes: c19Keys[c.Self]},
		GetLink:             c.linkQuery(),
		MissionControl:      &c19MC{prob: restr.ProbabilitySource},
		PathFindingConfig:   *c.pfCfg(),
	}
	ps, err := src.NewPaymentSession(pay, fn.None[tlv.Blob](), fn.None[htlcswitch.AuxTrafficShaper]())
	if err != nil {
		return c19Result{Kind: "request-error", Err: err.Error()}
	}
	rt, err := ps.RequestRoute(pay.Amount, pay.FeeLimit, 0, c.Height, nil)
	switch {
	case err == errNoPathFound:
		return c19Result{Kind: "no-path"}
	case err == errInsufficientBalance:
		return c19Result{Kind: "insufficient-balance"}
	case err != nil:
		return c19Result{Kind: "session-error", Err: err.Error()}
	}
	return c19Result{Kind: "route", Route: rt, Prob: 1}
}
