// Reference side of the C14 harness: the tiny transaction universe, the reference
// chain (the oracle's notion of "the currently active chain"), the fresh historical
// scans, and a name-free structural digest of the live TxNotifier used in the
// canonical state key.
package c14

import (
	"crypto/sha256"
	"encoding/binary"
	"encoding/hex"
	"fmt"
	"reflect"
	"sort"
	"strings"
	"sync"

	"github.com/btcsuite/btcd/address/v2"
	"github.com/btcsuite/btcd/btcutil/v2"
	"github.com/btcsuite/btcd/chainhash/v2"
	"github.com/btcsuite/btcd/wire/v2"
	"github.com/lightningnetwork/lnd/chainntnfs"
)

const (
	// baseHeight is the last block that is never disconnected (H0).
	baseHeight = 100
	// maxHeight bounds the chain universe (H0+6).
	maxHeight = baseHeight + 6
	// oldHint is a client height hint below every block of the universe.
	oldHint = baseHeight - 5
)

// universe holds the fixed transactions.
type universe struct {
	T, S1, S2  *wire.MsgTx
	pkT, pkO   []byte
	O          wire.OutPoint
	hT, h1, h2 chainhash.Hash

	// obj lists the watched objects: obj[0] = (T, O with spenders S1,S2) is the
	// universe of the single-object spaces; obj[1] = (U, O' with spender R1) is an
	// unrelated second watched transaction / outpoint (own scripts, own keys) that
	// only the "pair" spaces put into blocks.
	obj [2]object
}

// object is one watched transaction plus one watched outpoint.
type object struct {
	txName   string // name of the watched tx in block contents
	tx       *wire.MsgTx
	hT       chainhash.Hash
	pkT      []byte
	O        wire.OutPoint
	pkO      []byte
	spenders []string // names of the (mutually conflicting) spenders of O
}

var uni = func() *universe {
	u := &universe{}
	// P_T: a P2WSH script paid to by the watched transaction T.
	u.pkT = append([]byte{0x00, 0x20}, bytesOf(0x7a, 32)...)
	// O is paid to a P2WPKH script of a fixed 33-byte key; a 2-item witness
	// ending in that key makes ComputePkScript re-derive exactly pkO.
	key := append([]byte{0x02}, bytesOf(0x3c, 32)...)
	u.pkO = append([]byte{0x00, 0x14}, address.Hash160(key)...)
	u.O = wire.OutPoint{Hash: chainhash.Hash{0x22, 0x22}, Index: 1}

	u.T = wire.NewMsgTx(2)
	u.T.AddTxIn(&wire.TxIn{PreviousOutPoint: wire.OutPoint{Hash: chainhash.Hash{0x11}, Index: 0},
		Witness: wire.TxWitness{bytesOf(0x30, 71), key}})
	u.T.AddTxOut(wire.NewTxOut(50_000, u.pkT))

	mkSpender := func(tag byte) *wire.MsgTx {
		s := wire.NewMsgTx(2)
		s.AddTxIn(&wire.TxIn{PreviousOutPoint: u.O, Witness: wire.TxWitness{bytesOf(0x30, 71), key}})
		s.AddTxOut(wire.NewTxOut(40_000, append([]byte{0x00, 0x14}, bytesOf(tag, 20)...)))
		return s
	}
	u.S1, u.S2 = mkSpender(0xa1), mkSpender(0xa2)
	u.hT, u.h1, u.h2 = u.T.TxHash(), u.S1.TxHash(), u.S2.TxHash()
	u.obj[0] = object{txName: "T", tx: u.T, hT: u.hT, pkT: u.pkT, O: u.O, pkO: u.pkO, spenders: []string{"S1", "S2"}}

	// Second object: nothing of it (txid, scripts, keys, outpoints) coincides with the first.
	key2 := append([]byte{0x03}, bytesOf(0x4d, 32)...)
	key3 := append([]byte{0x02}, bytesOf(0x5e, 32)...)
	o2 := object{txName: "U", spenders: []string{"R1"}}
	o2.pkT = append([]byte{0x00, 0x20}, bytesOf(0x7b, 32)...)
	o2.pkO = append([]byte{0x00, 0x14}, address.Hash160(key2)...)
	o2.O = wire.OutPoint{Hash: chainhash.Hash{0x33, 0x33}, Index: 2}
	o2.tx = wire.NewMsgTx(2)
	o2.tx.AddTxIn(&wire.TxIn{PreviousOutPoint: wire.OutPoint{Hash: chainhash.Hash{0x12}, Index: 0},
		Witness: wire.TxWitness{bytesOf(0x30, 71), key3}})
	o2.tx.AddTxOut(wire.NewTxOut(60_000, o2.pkT))
	o2.hT = o2.tx.TxHash()
	u.obj[1] = o2
	r1 := wire.NewMsgTx(2)
	r1.AddTxIn(&wire.TxIn{PreviousOutPoint: o2.O, Witness: wire.TxWitness{bytesOf(0x30, 71), key2}})
	r1.AddTxOut(wire.NewTxOut(30_000, append([]byte{0x00, 0x14}, bytesOf(0xb1, 20)...)))
	extraTxs["U"], extraTxs["R1"] = o2.tx, r1
	return u
}()

// extraTxs are the transactions of the second object, by name.
var extraTxs = map[string]*wire.MsgTx{}

func bytesOf(b byte, n int) []byte {
	o := make([]byte, n)
	for i := range o {
		o[i] = b
	}
	return o
}

// contents of a block, by name.
var contentTxs = map[string][]string{
	"e": {}, "T": {"T"}, "S1": {"S1"}, "S2": {"S2"}, "TS1": {"T", "S1"},
	// pair spaces: the second object's tx / spender alone and next to the first object's
	"U": {"U"}, "TU": {"T", "U"}, "R1": {"R1"}, "S1R1": {"S1", "R1"},
}

func txByName(n string) *wire.MsgTx {
	switch n {
	case "T":
		return uni.T
	case "S1":
		return uni.S1
	case "S2":
		return uni.S2
	}
	if tx, ok := extraTxs[n]; ok {
		return tx
	}
	panic("unknown tx " + n)
}

// refBlock is one block of the reference chain.
type refBlock struct {
	height  uint32
	content string
	block   *btcutil.Block
	hash    chainhash.Hash
}

// refChain is the reference active chain: blocks baseHeight+1 .. tip.
type refChain struct {
	blocks  []*refBlock // index i = height baseHeight+1+i
	maxSeen uint32      // highest tip ever reached (reorg-limit accounting)
}

var baseHash = chainhash.Hash{0xba, 0x5e}

func (c *refChain) tip() uint32 { return baseHeight + uint32(len(c.blocks)) }

func (c *refChain) at(h uint32) *refBlock {
	if h <= baseHeight || h > c.tip() {
		return nil
	}
	return c.blocks[h-baseHeight-1]
}

func (c *refChain) tipHash() chainhash.Hash {
	if len(c.blocks) == 0 {
		return baseHash
	}
	return c.blocks[len(c.blocks)-1].hash
}

// mkBlock builds the block that extends the chain with the given content. The
// block (hence its hash) is a deterministic function of (previous hash, height,
// content): equal chains have equal hashes whatever history produced them.
//
// Blocks are immutable and shared between worlds through blockCache; all lazily cached
// hashes inside btcutil.Block/Tx are forced before a block is published.
var blockCache sync.Map

func (c *refChain) mkBlock(content string) *refBlock {
	ck := c.tipHash().String() + "/" + content
	if b, ok := blockCache.Load(ck); ok {
		return b.(*refBlock)
	}
	b := c.mkBlockUncached(content)
	_ = b.block.Hash()
	for _, tx := range b.block.Transactions() {
		_ = tx.Hash()
		_ = tx.WitnessHash()
		_ = tx.HasWitness()
	}
	act, _ := blockCache.LoadOrStore(ck, b)
	return act.(*refBlock)
}

func (c *refChain) mkBlockUncached(content string) *refBlock {
	h := c.tip() + 1
	cb := wire.NewMsgTx(1)
	var hb [4]byte
	binary.LittleEndian.PutUint32(hb[:], h)
	cb.AddTxIn(&wire.TxIn{PreviousOutPoint: wire.OutPoint{Index: 0xffffffff}, SignatureScript: append([]byte{0x04}, hb[:]...)})
	cb.AddTxOut(wire.NewTxOut(1, []byte{0x51}))
	mb := wire.NewMsgBlock(&wire.BlockHeader{Version: 1, PrevBlock: c.tipHash(), Bits: 0x207fffff})
	_ = mb.AddTransaction(cb)
	mr := sha256.New()
	cbh := cb.TxHash()
	mr.Write(cbh[:])
	for _, n := range contentTxs[content] {
		tx := txByName(n)
		_ = mb.AddTransaction(tx)
		th := tx.TxHash()
		mr.Write(th[:])
	}
	copy(mb.Header.MerkleRoot[:], mr.Sum(nil))
	return &refBlock{height: h, content: content, block: btcutil.NewBlock(mb), hash: mb.BlockHash()}
}

func (c *refChain) connect(b *refBlock) {
	c.blocks = append(c.blocks, b)
	if b.height > c.maxSeen {
		c.maxSeen = b.height
	}
}

func (c *refChain) disconnect() *refBlock {
	b := c.blocks[len(c.blocks)-1]
	c.blocks = c.blocks[:len(c.blocks)-1]
	return b
}

// find returns the lowest block of the active chain in [lo,hi] containing tx name.
func (c *refChain) find(name string, lo, hi uint32) (*refBlock, int) {
	for _, b := range c.blocks {
		if b.height < lo || b.height > hi {
			continue
		}
		for i, n := range contentTxs[b.content] {
			if n == name {
				return b, i + 1 // +1: coinbase is index 0
			}
		}
	}
	return nil, 0
}

// confOf: where is the watched tx of object obj confirmed on the active chain.
func (c *refChain) confOf(obj int, lo, hi uint32) (*refBlock, int) {
	return c.find(uni.obj[obj].txName, lo, hi)
}

// spendOf: where (and by which spender) is the outpoint of object obj spent on the
// active chain (the lowest block; spenders of one outpoint conflict, so at most one of
// them is on a chain).
func (c *refChain) spendOf(obj int, lo, hi uint32) (*refBlock, string) {
	var (
		best *refBlock
		who  string
	)
	for _, name := range uni.obj[obj].spenders {
		if b, _ := c.find(name, lo, hi); b != nil && (best == nil || b.height < best.height) {
			best, who = b, name
		}
	}
	return best, who
}

// objOfTx maps a transaction name of a block content to (object, is the watched tx).
func objOfTx(name string) (obj int, isConf bool) {
	for i, o := range uni.obj {
		if o.txName == name {
			return i, true
		}
		for _, s := range o.spenders {
			if s == name {
				return i, false
			}
		}
	}
	panic("unknown tx " + name)
}

func (c *refChain) String() string {
	var sb strings.Builder
	for _, b := range c.blocks {
		fmt.Fprintf(&sb, "%d:%s ", b.height, b.content)
	}
	return fmt.Sprintf("[%smax=%d]", sb.String(), c.maxSeen)
}

// scanConf is the fresh historical confirmation scan over [lo,hi] of the active chain.
func (c *refChain) scanConf(lo, hi uint32) *chainntnfs.TxConfirmation { return c.scanConfObj(0, lo, hi) }

func (c *refChain) scanConfObj(obj int, lo, hi uint32) *chainntnfs.TxConfirmation {
	b, idx := c.confOf(obj, lo, hi)
	if b == nil {
		return nil
	}
	h := b.hash
	return &chainntnfs.TxConfirmation{BlockHash: &h, BlockHeight: b.height, TxIndex: uint32(idx), Tx: uni.obj[obj].tx, Block: b.block.MsgBlock()}
}

// scanSpend is the fresh historical spend scan over [lo,hi] of the active chain.
func (c *refChain) scanSpend(lo, hi uint32) *chainntnfs.SpendDetail { return c.scanSpendObj(0, lo, hi) }

func (c *refChain) scanSpendObj(obj int, lo, hi uint32) *chainntnfs.SpendDetail {
	b, who := c.spendOf(obj, lo, hi)
	if b == nil {
		return nil
	}
	tx := txByName(who)
	th := tx.TxHash()
	op := uni.obj[obj].O
	return &chainntnfs.SpendDetail{SpentOutPoint: &op, SpenderTxHash: &th, SpendingTx: tx, SpenderInputIndex: 0, SpendingHeight: int32(b.height)}
}

// ---------------------------------------------------------------------------------
// Structural digest of a live object, without naming any unexported identifier.
//
// The digest walks the value with reflection (reading, never setting): structs by
// field index, maps as sorted multisets of entry digests, pointers by pointee
// content, channels by their current length. Three things are dropped:
//   - every uint64 (in TxNotifier these are only client ids and id counters: used
//     as map identity, never compared, never sent to a client);
//   - funcs (the Cancel closures) and sync.Mutex values;
//   - pointer identity (two notifiers with equal content digest equal).
//
// Everything else that the notifier stores (heights, reorg depth, per-request rescan
// status and cached details, per-client dispatched flags and counters, the three
// by-height indexes) is part of the digest, so two worlds with equal digests hold
// notifiers that are field-for-field equal up to client ids.
var mutexType = reflect.TypeOf(sync.Mutex{})

func digest(v any) string {
	s := walk(reflect.ValueOf(v), 0)
	h := sha256.Sum256([]byte(s))
	return hex.EncodeToString(h[:12])
}

func short(s string) string {
	if len(s) <= 48 {
		return s
	}
	h := sha256.Sum256([]byte(s))
	return "#" + hex.EncodeToString(h[:10])
}

func walk(v reflect.Value, depth int) string {
	if depth > 30 {
		return "<deep>"
	}
	if !v.IsValid() {
		return "nil"
	}
	switch v.Kind() {
	case reflect.Bool:
		if v.Bool() {
			return "t"
		}
		return "f"
	case reflect.Uint64:
		return "_"
	case reflect.Int, reflect.Int8, reflect.Int16, reflect.Int32, reflect.Int64:
		return fmt.Sprintf("%d", v.Int())
	case reflect.Uint, reflect.Uint8, reflect.Uint16, reflect.Uint32, reflect.Uintptr:
		return fmt.Sprintf("%d", v.Uint())
	case reflect.String:
		return fmt.Sprintf("%q", v.String())
	case reflect.Ptr, reflect.Interface:
		if v.IsNil() {
			return "nil"
		}
		if v.Type() == hintCacheType {
			return "hintcache" // the harness' own wrapper (leads back into the world)
		}
		return "&" + short(walk(v.Elem(), depth+1))
	case reflect.Struct:
		if v.Type() == mutexType {
			return "mu"
		}
		parts := make([]string, 0, v.NumField())
		for i := 0; i < v.NumField(); i++ {
			parts = append(parts, walk(v.Field(i), depth+1))
		}
		return "{" + strings.Join(parts, ",") + "}"
	case reflect.Map:
		if v.IsNil() {
			return "map[]"
		}
		ents := make([]string, 0, v.Len())
		it := v.MapRange()
		for it.Next() {
			ents = append(ents, short(walk(it.Key(), depth+1))+"=>"+short(walk(it.Value(), depth+1)))
		}
		sort.Strings(ents)
		return "map[" + strings.Join(ents, ";") + "]"
	case reflect.Slice, reflect.Array:
		if v.Kind() == reflect.Slice && v.IsNil() {
			return "[]"
		}
		if v.Type().Elem().Kind() == reflect.Uint8 {
			b := make([]byte, v.Len())
			for i := range b {
				b[i] = byte(v.Index(i).Uint())
			}
			return "x" + hex.EncodeToString(b)
		}
		parts := make([]string, 0, v.Len())
		for i := 0; i < v.Len(); i++ {
			parts = append(parts, short(walk(v.Index(i), depth+1)))
		}
		return "[" + strings.Join(parts, ",") + "]"
	case reflect.Chan:
		if v.IsNil() {
			return "chan(nil)"
		}
		return fmt.Sprintf("chan(%d)", v.Len())
	case reflect.Func:
		return "fn"
	default:
		return "?" + v.Kind().String()
	}
}
