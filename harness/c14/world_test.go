// The C14 world: one real chainntnfs.TxNotifier + the real channeldb.HeightHintCache on
// bbolt, driven by an explorer-chosen sequence of chain / client operations, living in
// its own testing/synctest bubble (so that "a notifier call is blocked on a channel send
// with the lock held" is detected by quiescence, not by a wall-clock timeout).
package c14

import (
	"crypto/sha256"
	"encoding/hex"
	"fmt"
	"os"
	"reflect"
	"runtime/debug"
	"sort"
	"strconv"
	"strings"
	"sync/atomic"
	"testing"
	"testing/synctest"

	"github.com/btcsuite/btcd/btcutil/v2"
	"github.com/btcsuite/btcd/chainhash/v2"
	"github.com/btcsuite/btcd/wire/v2"
	"github.com/lightningnetwork/lnd/chainntnfs"
	"github.com/lightningnetwork/lnd/channeldb"
	"github.com/lightningnetwork/lnd/kvdb"
	"github.com/lightningnetwork/lnd/verifmc/crashdb"
)

// ClientSpec fixes what a client slot of a space registers for.
type ClientSpec struct {
	// Kind: "txid" (T by txid+script), "script" (T by script only),
	// "op" (spend of O by outpoint+script), "sscript" (spend of O's script).
	Kind string `json:"kind"`
	// N is the number of confirmations (conf clients only).
	N uint32 `json:"n,omitempty"`
	// Obj selects the watched object: 0 = (T, O), the only one of the single-object
	// spaces; 1 = the unrelated second transaction U / outpoint O' of the pair spaces.
	Obj int `json:"obj,omitempty"`
}

func (c ClientSpec) isConf() bool { return c.Kind == "txid" || c.Kind == "script" }

// Params is one exploration space.
type Params struct {
	Name     string       `json:"name"`
	Clients  []ClientSpec `json:"clients"`
	Contents []string     `json:"contents"` // block contents alphabet
	Hints    []string     `json:"hints"`    // old | tip | tip1
	Limit    uint32       `json:"limit"`    // reorg safety limit
	Depth    int          `json:"depth"`
	Restarts int          `json:"restarts"` // stop/start budget
	Window   bool         `json:"window"`   // chain op inside the hint-read window of Register*
	Split    bool         `json:"split"`    // client ops between ConnectTip and NotifyHeight
	Stale    bool         `json:"stale"`    // rescan results computed at dispatch time (candidate label only)
	// Relevant: the backend's "relevant transaction" feed (TxNotifier.ProcessRelevantSpendTx) is part of
	// the alphabet: prs:<S> re-reports a spender that is on the active chain, pra:<X> announces the
	// spenders of the NEXT block before ConnectTip (details above the notifier's height).
	Relevant bool `json:"relevant,omitempty"`
	// Lazy: clients do NOT read their channels after every notifier call; they read only at rd:<i>.
	Lazy bool `json:"lazy,omitempty"`
}

// Stats are outcome-class counters shared by all worlds of a run.
type Stats struct {
	Confirmed, NegativeConf, Updates, ConfDone atomic.Int64
	Spend, SpendReorg, SpendDone               atomic.Int64
	RescanFound, RescanNone, RescanNoop        atomic.Int64
	// added axes: relevant-tx feed, lazy readers, matcher differential
	RelevantKnown, RelevantAhead, RelevantDelivered atomic.Int64
	LazyReads, LazyUnreadConfirmed, LazyUnreadNeg   atomic.Int64
	MatcherScans, MatcherTxsTested, MatcherMatches  atomic.Int64
	HistoricalDispatches, ImmediateRegs             atomic.Int64
	WindowOps, WindowChangedRead                    atomic.Int64
	IIChecked, IIAntecedent                         atomic.Int64
	IVChecked, IVBound                              atomic.Int64
	Cancels, Stops, OfflineConnects                 atomic.Int64
	NotifierCalls, HintCommits                      atomic.Int64
	StaleCandidates                                 atomic.Int64
	ProbeStates, ProbeSkipped, ProbeSuffixes        atomic.Int64
	// pair spaces (per-cell visibility of the coincidences the family exists for):
	// operations that ended with two live registrations of DIFFERENT objects whose events
	// sit in the same block / whose confirmations are both queued for the same height
	PairSameEventHeight, PairSameMaturityPending atomic.Int64
}

type reportFn func(sig, what string, hist []string, p Params)

type dispatch struct {
	start, end uint32
	snapConf   *chainntnfs.TxConfirmation // result as of dispatch time (stale variant)
	snapSpend  *chainntnfs.SpendDetail
}

type reqState struct {
	id      string
	disp    *dispatch
	regLife bool // registered at least once in the current notifier lifetime
}

type client struct {
	spec    ClientSpec
	reg     bool // holds a live registration
	conf    *chainntnfs.ConfirmationEvent
	spend   *chainntnfs.SpendEvent
	held    uint32 // height of the unretracted Confirmed/Spend held, 0 = none
	heldWho string
	needNeg bool
	done    bool
	// lazy readers only: a block containing the client's event was disconnected since its last read
	removedSince bool
}

func (c *client) reqID() string { return c.spec.reqID() }

// reqID names the notifier-side request a client slot belongs to: "ct"/"cs"/"so"/"ss"
// for object 0, with a trailing "2" for object 1.
func (c ClientSpec) reqID() string {
	id := "ss"
	switch c.Kind {
	case "txid":
		id = "ct"
	case "script":
		id = "cs"
	case "op":
		id = "so"
	}
	if c.Obj == 1 {
		id += "2"
	}
	return id
}

// reqOf decodes a request id: confirmation or spend request, keyed by txid/outpoint or
// by script only, and its object.
func reqOf(id string) (isConf, keyed bool, obj int) {
	if strings.HasSuffix(id, "2") {
		obj = 1
	}
	return id[0] == 'c', id[1] == 't' || id[1] == 'o', obj
}

func confReq(keyed bool, obj int) chainntnfs.ConfRequest {
	var txid *chainhash.Hash
	if keyed {
		txid = &uni.obj[obj].hT
	}
	r, _ := chainntnfs.NewConfRequest(txid, uni.obj[obj].pkT)
	return r
}

func spendReq(keyed bool, obj int) chainntnfs.SpendRequest {
	var op *wire.OutPoint
	if keyed {
		op = &uni.obj[obj].O
	}
	r, _ := chainntnfs.NewSpendRequest(op, uni.obj[obj].pkO)
	return r
}

type world struct {
	p      Params
	t      *testing.T
	cmds   chan func()
	fin    chan struct{}
	report reportFn
	st     *Stats

	pdb   *pooledDB
	db    *crashdb.DB
	cache *channeldb.HeightHintCache
	hc    *hintCache
	n     *chainntnfs.TxNotifier
	up    bool

	chain         refChain
	clients       []*client
	reqs          map[string]*reqState
	restarts      int
	notifyPending uint32
	pendingWindow string
	announced     string // Relevant: block content announced through pra:, to be connected next
	hist          []string
	dead          bool
	obs           []string
	nontrivial    bool
	verbose       bool
	pending       []func()
	features      []string
	memo          map[string][2]uint32
	memoEpoch     int
}

// hintCache is the explorer's handle on the one place where TxNotifier reads shared
// state outside its lock: Register* query the cache before locking. The wrapper
// returns the value read, after letting one explorer-chosen chain operation run.
type hintCache struct {
	inner   *channeldb.HeightHintCache
	window  func()
	st      *Stats
	commits int
}

func (h *hintCache) CommitSpendHint(height uint32, r ...chainntnfs.SpendRequest) error {
	if len(r) > 0 {
		h.st.HintCommits.Add(1)
		h.commits++
	}
	return h.inner.CommitSpendHint(height, r...)
}
func (h *hintCache) QuerySpendHint(r chainntnfs.SpendRequest) (uint32, error) {
	v, err := h.inner.QuerySpendHint(r)
	h.window()
	return v, err
}
func (h *hintCache) PurgeSpendHint(r ...chainntnfs.SpendRequest) error {
	h.commits++
	return h.inner.PurgeSpendHint(r...)
}
func (h *hintCache) CommitConfirmHint(height uint32, r ...chainntnfs.ConfRequest) error {
	if len(r) > 0 {
		h.st.HintCommits.Add(1)
		h.commits++
	}
	return h.inner.CommitConfirmHint(height, r...)
}
func (h *hintCache) QueryConfirmHint(r chainntnfs.ConfRequest) (uint32, error) {
	v, err := h.inner.QueryConfirmHint(r)
	h.window()
	return v, err
}
func (h *hintCache) PurgeConfirmHint(r ...chainntnfs.ConfRequest) error {
	h.commits++
	return h.inner.PurgeConfirmHint(r...)
}

var hintCacheType = reflect.TypeOf(&hintCache{})

// newWorld builds a fresh world in its initial state: chain = base + one empty block,
// notifier up at that tip, nothing registered, empty hint cache.
func newWorld(t *testing.T, p Params, rep reportFn, st *Stats) (*world, error) {
	if st == nil {
		st = &Stats{}
	}
	w := &world{p: p, t: t, cmds: make(chan func()), fin: make(chan struct{}), report: rep, st: st,
		reqs: map[string]*reqState{}}
	go func() {
		defer close(w.fin)
		synctest.Test(t, func(*testing.T) {
			for f := range w.cmds {
				f()
			}
		})
	}()
	var err error
	w.in(func() { err = w.init() })
	if err != nil {
		w.Close()
		return nil, err
	}
	return w, nil
}

// in runs f on the bubble's root goroutine; a panic is re-raised on the caller.
func (w *world) in(f func()) {
	done := make(chan any, 1)
	w.cmds <- func() {
		defer func() {
			if r := recover(); r != nil {
				done <- fmt.Sprintf("%v\n%s", r, debug.Stack())
				return
			}
			done <- nil
		}()
		f()
	}
	if v := <-done; v != nil {
		panic(v)
	}
}

// pooledDB is a real bbolt-backed HeightHintCache that is handed from world to world.
// Creating a bbolt file per world dominated the cost of an execution; instead a world
// that wrote hints purges all four request keys of the universe (the only keys a
// notifier of this universe can write) through the cache's own Purge* API on release,
// and the next world verifies that the cache is empty before it starts.
type pooledDB struct {
	dir   string
	db    *crashdb.DB
	cache *channeldb.HeightHintCache
}

var (
	dbPool   = make(chan *pooledDB, 256)
	dbOpened atomic.Int64
)

func getDB() (*pooledDB, error) {
	select {
	case p := <-dbPool:
		return p, nil
	default:
	}
	dir, err := os.MkdirTemp("", "c14w")
	if err != nil {
		return nil, err
	}
	backend, err := kvdb.GetBoltBackend(&kvdb.BoltBackendConfig{
		DBPath: dir, DBFileName: "hints.db", NoFreelistSync: true,
		AutoCompact: false, AutoCompactMinAge: kvdb.DefaultBoltAutoCompactMinAge,
		DBTimeout: kvdb.DefaultDBTimeout,
	})
	if err != nil {
		return nil, err
	}
	// crashdb is used only because it is not a BatchDB: kvdb.Batch then degrades to
	// Update (bbolt's batch timer is wall-clock).
	p := &pooledDB{dir: dir, db: crashdb.New(backend)}
	p.cache, err = channeldb.NewHeightHintCache(channeldb.CacheConfig{}, p.db)
	if err != nil {
		return nil, err
	}
	dbOpened.Add(1)
	return p, nil
}

func allRequests() (cr []chainntnfs.ConfRequest, sr []chainntnfs.SpendRequest) {
	for obj := range uni.obj {
		cr = append(cr, confReq(true, obj), confReq(false, obj))
		sr = append(sr, spendReq(true, obj), spendReq(false, obj))
	}
	return cr, sr
}

func putDB(p *pooledDB, dirty bool) {
	if dirty {
		cr, sr := allRequests()
		if p.cache.PurgeConfirmHint(cr...) != nil || p.cache.PurgeSpendHint(sr...) != nil {
			_ = p.db.Close()
			_ = os.RemoveAll(p.dir)
			return
		}
	}
	select {
	case dbPool <- p:
	default:
		_ = p.db.Close()
		_ = os.RemoveAll(p.dir)
	}
}

func (w *world) init() error {
	var err error
	w.pdb, err = getDB()
	if err != nil {
		return err
	}
	w.db, w.cache = w.pdb.db, w.pdb.cache
	cr, sr := allRequests()
	for _, r := range cr {
		if _, err := w.cache.QueryConfirmHint(r); err != chainntnfs.ErrConfirmHintNotFound {
			return fmt.Errorf("pooled hint cache not empty: %v", err)
		}
	}
	for _, r := range sr {
		if _, err := w.cache.QuerySpendHint(r); err != chainntnfs.ErrSpendHintNotFound {
			return fmt.Errorf("pooled hint cache not empty: %v", err)
		}
	}
	w.hc = &hintCache{inner: w.cache, window: w.window, st: w.st}
	for _, cs := range w.p.Clients {
		c := &client{spec: cs}
		w.clients = append(w.clients, c)
		if _, ok := w.reqs[c.reqID()]; !ok {
			w.reqs[c.reqID()] = &reqState{id: c.reqID()}
		}
	}
	w.chain.maxSeen = baseHeight
	w.chain.connect(w.chain.mkBlock("e"))
	w.startNotifier()
	return nil
}

func (w *world) startNotifier() {
	w.n = chainntnfs.NewTxNotifier(w.chain.tip(), w.p.Limit, w.hc, w.hc)
	w.up = true
	for _, r := range w.reqs {
		r.disp, r.regLife = nil, false
	}
}

// Close tears everything down and leaves the bubble.
func (w *world) Close() {
	if w.cmds == nil {
		return
	}
	func() {
		defer func() { _ = recover() }()
		w.in(func() {
			if w.up && w.n != nil {
				w.n.TearDown()
				w.up = false
			}
			if w.pdb != nil {
				putDB(w.pdb, w.hc == nil || w.hc.commits > 0)
				w.pdb = nil
			}
		})
	}()
	close(w.cmds)
	<-w.fin
	w.cmds = nil
}

func (w *world) logf(format string, a ...any) {
	s := fmt.Sprintf(format, a...)
	w.obs = append(w.obs, s)
	if w.verbose {
		fmt.Printf("INFO      %s\n", s)
	}
}

// feature marks a notable event of the history; features become part of every later
// violation signature of this world so that a known finding can be matched on its
// cause class instead of on its symptom.
func (w *world) feature(f string) {
	for _, x := range w.features {
		if x == f {
			return
		}
	}
	w.features = append(w.features, f)
	sort.Strings(w.features)
}

func (w *world) violate(sig, what string) {
	if len(w.features) > 0 {
		sig += "+" + strings.Join(w.features, "+")
	}
	w.logf("!! %s: %s", sig, what)
	w.dead = true
	if w.report != nil {
		// delivered by Do once we are outside the bubble (the reporter replays
		// the history on fresh worlds, i.e. starts new bubbles)
		hist := append([]string{}, w.hist...)
		w.pending = append(w.pending, func() { w.report(sig, what, hist, w.p) })
	}
}

// call runs one TxNotifier method on its own goroutine and waits for the bubble to
// become quiescent. If the method has not returned by then it is durably blocked on a
// channel operation (with the notifier's lock held): a violation. Panics are caught.
func (w *world) call(what string, f func() error) (err error, ok bool) {
	var (
		done bool
		pv   any
	)
	w.st.NotifierCalls.Add(1)
	go func() {
		defer func() {
			if r := recover(); r != nil {
				pv = fmt.Sprintf("%v\n%s", r, debug.Stack())
			}
			done = true
		}()
		err = f()
	}()
	synctest.Wait()
	if !done {
		w.violate("blocked:"+what+":"+w.lastKind(), "TxNotifier."+what+" is blocked on a channel send/receive with its lock held (a client is not told, and every later chain event stalls)")
		w.n.TearDown()
		synctest.Wait()
		w.up = false
		return nil, false
	}
	if pv != nil {
		first := strings.SplitN(fmt.Sprint(pv), "\n", 2)[0]
		w.violate("panic:"+what+":"+w.lastKind(), fmt.Sprintf("TxNotifier.%s panicked: %s", what, first))
		if w.verbose {
			// the stack is shown on replay only: it contains goroutine ids and
			// addresses, which are not observations
			for _, ln := range strings.Split(fmt.Sprint(pv), "\n") {
				fmt.Printf("INFO      | %s\n", ln)
			}
		}
		return nil, false
	}
	return err, true
}

func (w *world) lastKind() string {
	if len(w.hist) == 0 {
		return "init"
	}
	return strings.SplitN(w.hist[len(w.hist)-1], ":", 2)[0]
}

// ---------------------------------------------------------------------------------
// actions

func (w *world) contentOK(x string) bool {
	if w.chain.tip() >= maxHeight {
		return false
	}
	for _, n := range contentTxs[x] {
		// a transaction is on a chain at most once; conflicting spenders exclude each other
		obj, isConf := objOfTx(n)
		if isConf {
			if b, _ := w.chain.confOf(obj, 0, maxHeight); b != nil {
				return false
			}
		} else if b, _ := w.chain.spendOf(obj, 0, maxHeight); b != nil {
			return false
		}
	}
	return true
}

// cacheEntry reads a persisted hint back from the real store. Reads are memoised per
// "commit epoch": the memo is dropped whenever the notifier commits or purges a hint.
func (w *world) cacheEntry(id string) (uint32, bool) {
	if w.memoEpoch != w.hc.commits || w.memo == nil {
		w.memo, w.memoEpoch = map[string][2]uint32{}, w.hc.commits
	}
	if m, ok := w.memo[id]; ok {
		return m[0], m[1] == 1
	}
	v, ok := w.cacheEntryRaw(id)
	var f uint32
	if ok {
		f = 1
	}
	w.memo[id] = [2]uint32{v, f}
	return v, ok
}

func (w *world) cacheEntryRaw(id string) (uint32, bool) {
	var (
		v   uint32
		err error
	)
	if isConf, keyed, obj := reqOf(id); isConf {
		v, err = w.cache.QueryConfirmHint(confReq(keyed, obj))
	} else {
		v, err = w.cache.QuerySpendHint(spendReq(keyed, obj))
	}
	return v, err == nil
}

func (w *world) reqIDs() []string {
	ids := make([]string, 0, len(w.reqs))
	for id := range w.reqs {
		ids = append(ids, id)
	}
	sort.Strings(ids)
	return ids
}

func (w *world) disOK() bool {
	if !w.up || w.chain.tip() <= baseHeight {
		return false
	}
	// blocks buried by Limit or more below the highest tip ever seen are final
	if int64(w.chain.tip()) <= int64(w.chain.maxSeen)-int64(w.p.Limit) {
		return false
	}
	// after a restart no block is disconnected before every request that has a
	// persisted hint is registered again (the notifier cannot lower the hint of a
	// request it does not know; same limitation as a reorg while it is down)
	for _, id := range w.reqIDs() {
		if _, ok := w.cacheEntry(id); ok && !w.reqs[id].regLife {
			return false
		}
	}
	return true
}

func (w *world) hintValue(h string) uint32 {
	switch h {
	case "old":
		return oldHint
	case "tip":
		return w.chain.tip()
	}
	return w.chain.tip() + 1
}

// hintOK: a client hint is a promise that the event is not on the active chain below it.
func (w *world) hintOK(c *client, h string) bool {
	v := w.hintValue(h)
	if v <= baseHeight {
		return true
	}
	if c.spec.isConf() {
		b, _ := w.chain.confOf(c.spec.Obj, 0, v-1)
		return b == nil
	}
	b, _ := w.chain.spendOf(c.spec.Obj, 0, v-1)
	return b == nil
}

func (w *world) chainOps() []string {
	var out []string
	if w.announced != "" {
		// the announced block is the next chain event (truthful backend)
		return []string{"con:" + w.announced}
	}
	for _, x := range w.p.Contents {
		if w.contentOK(x) {
			out = append(out, "con:"+x)
		}
	}
	if w.disOK() {
		out = append(out, "dis")
	}
	return out
}

// Enabled lists the enabled actions, simplest first.
func (w *world) Enabled() []string {
	var out []string
	w.in(func() { out = w.enabled() })
	return out
}

func (w *world) enabled() []string {
	if w.dead {
		return nil
	}
	var out []string
	if !w.up {
		for _, x := range w.p.Contents {
			if w.contentOK(x) {
				out = append(out, "con:"+x)
			}
		}
		return append(out, "start")
	}
	if w.notifyPending != 0 {
		out = append(out, "nfy")
	} else {
		out = append(out, w.chainOps()...)
	}
	for i, c := range w.clients {
		if c.reg {
			continue
		}
		for _, h := range w.p.Hints {
			if w.hintOK(c, h) {
				out = append(out, fmt.Sprintf("reg:%d:%s", i, h))
			}
		}
	}
	for _, id := range w.reqIDs() {
		if w.reqs[id].disp != nil {
			out = append(out, "rsc:"+id)
			if w.p.Stale {
				out = append(out, "rss:"+id)
			}
		}
	}
	for i, c := range w.clients {
		if c.reg {
			out = append(out, fmt.Sprintf("can:%d", i))
		}
	}
	if w.p.Lazy {
		for i, c := range w.clients {
			if c.reg && w.unread(c) > 0 {
				out = append(out, fmt.Sprintf("rd:%d", i))
			}
		}
	}
	if w.p.Relevant && w.notifyPending == 0 && w.announced == "" {
		for _, o := range uni.obj {
			for _, s := range o.spenders {
				if b, _ := w.chain.find(s, 0, maxHeight); b != nil {
					out = append(out, "prs:"+s)
				}
			}
		}
		for _, x := range w.p.Contents {
			if len(contentTxs[x]) > 0 && w.contentOK(x) {
				out = append(out, "pra:"+x)
			}
		}
	}
	if w.notifyPending == 0 && w.announced == "" {
		if w.restarts < w.p.Restarts {
			out = append(out, "stop")
		}
		if w.p.Split {
			for _, x := range w.p.Contents {
				if w.contentOK(x) {
					out = append(out, "ctp:"+x)
				}
			}
		}
		if w.p.Window {
			ops := w.chainOps()
			for i, c := range w.clients {
				if c.reg {
					continue
				}
				for _, h := range w.p.Hints {
					if !w.hintOK(c, h) {
						continue
					}
					for _, op := range ops {
						out = append(out, fmt.Sprintf("rgw:%d:%s:%s", i, h, op))
					}
				}
			}
		}
	}
	return out
}

// Do performs one action (oracles run inside).
func (w *world) Do(a string) error {
	var (
		err     error
		pending []func()
	)
	w.in(func() {
		err = w.do(a)
		pending, w.pending = w.pending, nil
	})
	for _, f := range pending {
		f()
	}
	return err
}

func (w *world) do(a string) error {
	if w.dead {
		return fmt.Errorf("world is dead")
	}
	ok := false
	for _, e := range w.enabled() {
		if e == a {
			ok = true
			break
		}
	}
	if !ok {
		return fmt.Errorf("action %q not enabled in %s", a, w.describe())
	}
	w.hist = append(w.hist, a)
	w.nontrivial = false
	f := strings.Split(a, ":")
	switch f[0] {
	case "con":
		w.connect(f[1], true)
	case "ctp":
		w.connect(f[1], false)
	case "nfy":
		w.notify()
	case "dis":
		w.disconnect()
	case "reg":
		i, _ := strconv.Atoi(f[1])
		w.register(i, f[2], "")
	case "rgw":
		i, _ := strconv.Atoi(f[1])
		w.register(i, f[2], strings.Join(f[3:], ":"))
	case "rsc":
		w.rescanDone(f[1], false)
	case "rss":
		w.rescanDone(f[1], true)
	case "can":
		i, _ := strconv.Atoi(f[1])
		w.cancel(i)
	case "rd":
		i, _ := strconv.Atoi(f[1])
		w.lazyRead(i)
	case "prs":
		w.relevant(f[1], false)
	case "pra":
		w.relevant(f[1], true)
	case "stop":
		w.stop()
	case "start":
		w.startNotifier()
		w.logf("notifier started at %d", w.chain.tip())
	default:
		return fmt.Errorf("unknown action %q", a)
	}
	if !w.dead {
		w.endOfOp()
	}
	return nil
}

func (w *world) connect(content string, withNotify bool) {
	w.announced = ""
	b := w.chain.mkBlock(content)
	w.chain.connect(b)
	if !w.up {
		w.st.OfflineConnects.Add(1)
		w.logf("offline connect %d:%s", b.height, content)
		return
	}
	err, ok := w.call("ConnectTip", func() error { return w.n.ConnectTip(b.block, b.height) })
	if !ok {
		return
	}
	if err != nil {
		w.violate("error:ConnectTip", fmt.Sprintf("ConnectTip(%d) on the in-order next block failed: %v", b.height, err))
		return
	}
	w.drain("con", nil)
	if w.dead {
		return
	}
	w.notifyPending = b.height
	if withNotify {
		w.notify()
	}
}

func (w *world) notify() {
	h := w.notifyPending
	err, ok := w.call("NotifyHeight", func() error { return w.n.NotifyHeight(h) })
	if !ok {
		return
	}
	if err != nil {
		w.violate("error:NotifyHeight", fmt.Sprintf("NotifyHeight(%d) failed: %v", h, err))
		return
	}
	w.notifyPending = 0
	w.drain("nfy", nil)
}

// tagPendingBelowHint marks the history feature "a block was disconnected below the
// persisted hint of a request whose historical rescan is still outstanding".
func (w *world) tagPendingBelowHint() {
	for _, id := range w.reqIDs() {
		if w.reqs[id].disp == nil {
			continue
		}
		if v, ok := w.cacheEntry(id); ok && v > w.chain.tip()+1 {
			w.feature("hint-above-tip-while-rescan-pending/" + id)
		}
	}
}

func (w *world) disconnect() {
	b := w.chain.disconnect()
	defer w.tagPendingBelowHint()
	for _, c := range w.clients {
		if c.reg && c.held == b.height {
			c.needNeg = true
		}
	}
	err, ok := w.call("DisconnectTip", func() error { return w.n.DisconnectTip(b.height) })
	if !ok {
		return
	}
	if err != nil {
		w.violate("error:DisconnectTip", fmt.Sprintf("DisconnectTip(%d) of the current tip failed: %v", b.height, err))
		return
	}
	w.drain("dis", b)
	if w.dead {
		return
	}
	for i, c := range w.clients {
		if c.reg && c.needNeg && !w.p.Lazy {
			kind := "NegativeConf"
			if !c.spec.isConf() {
				kind = "Reorg"
			}
			w.violate(fmt.Sprintf("iii-no-reorg-notice/%s/n%d%s", c.spec.Kind, c.spec.N, objTag(c.spec.Obj)),
				fmt.Sprintf("client %d holds a notification for block %d which was just disconnected, and was sent no %s", i, b.height, kind))
			return
		}
	}
}

// window is called by the hint-cache wrapper between the cache read and the locked
// part of Register*: it runs the pending explorer-chosen chain op, if any.
func (w *world) window() {
	op := w.pendingWindow
	if op == "" {
		return
	}
	w.pendingWindow = ""
	w.st.WindowOps.Add(1)
	before := w.cacheDump()
	f := strings.Split(op, ":")
	// the chain feed runs these directly (we are on the registering goroutine,
	// which does not hold the notifier's lock here)
	switch f[0] {
	case "con":
		b := w.chain.mkBlock(f[1])
		w.chain.connect(b)
		if err := w.n.ConnectTip(b.block, b.height); err != nil {
			w.violate("error:ConnectTip", fmt.Sprintf("ConnectTip(%d) failed: %v", b.height, err))
			return
		}
		w.drain("con", nil)
		if err := w.n.NotifyHeight(b.height); err != nil {
			w.violate("error:NotifyHeight", fmt.Sprintf("NotifyHeight(%d) failed: %v", b.height, err))
			return
		}
		w.drain("nfy", nil)
	case "dis":
		b := w.chain.disconnect()
		defer w.tagPendingBelowHint()
		for _, c := range w.clients {
			if c.reg && c.held == b.height {
				c.needNeg = true
			}
		}
		if err := w.n.DisconnectTip(b.height); err != nil {
			w.violate("error:DisconnectTip", fmt.Sprintf("DisconnectTip(%d) failed: %v", b.height, err))
			return
		}
		w.drain("dis", b)
		for i, c := range w.clients {
			if !w.dead && c.reg && c.needNeg {
				w.violate(fmt.Sprintf("iii-no-reorg-notice/%s/n%d%s", c.spec.Kind, c.spec.N, objTag(c.spec.Obj)),
					fmt.Sprintf("client %d holds a notification for block %d which was just disconnected, and was sent no reorg notice", i, b.height))
			}
		}
	}
	if w.cacheDump() != before {
		w.st.WindowChangedRead.Add(1)
	}
}

func (w *world) register(i int, hint, windowOp string) {
	c := w.clients[i]
	hv := w.hintValue(hint)
	rq := w.reqs[c.reqID()]
	w.pendingWindow = windowOp
	*c = client{spec: c.spec}
	var (
		cdisp *chainntnfs.HistoricalConfDispatch
		sdisp *chainntnfs.HistoricalSpendDispatch
	)
	err, ok := w.call("Register", func() error {
		if c.spec.isConf() {
			o := &uni.obj[c.spec.Obj]
			var txid *chainhash.Hash
			if c.spec.Kind == "txid" {
				txid = &o.hT
			}
			r, err := w.n.RegisterConf(txid, o.pkT, c.spec.N, hv)
			if err != nil {
				return err
			}
			c.conf, cdisp = r.Event, r.HistoricalDispatch
			return nil
		}
		o := &uni.obj[c.spec.Obj]
		var op = &o.O
		if c.spec.Kind == "sscript" {
			op = nil
		}
		r, err := w.n.RegisterSpend(op, o.pkO, hv)
		if err != nil {
			return err
		}
		c.spend, sdisp = r.Event, r.HistoricalDispatch
		return nil
	})
	w.pendingWindow = ""
	if !ok || w.dead {
		return
	}
	if err != nil {
		w.violate("error:Register", fmt.Sprintf("registration of client %d (%+v, hint %d) failed: %v", i, c.spec, hv, err))
		return
	}
	c.reg = true
	rq.regLife = true
	switch {
	case cdisp != nil:
		rq.disp = &dispatch{start: cdisp.StartHeight, end: cdisp.EndHeight,
			snapConf: w.chain.scanConfObj(c.spec.Obj, cdisp.StartHeight, cdisp.EndHeight)}
		w.st.HistoricalDispatches.Add(1)
		w.logf("client %d registered (hint %d): historical dispatch [%d,%d]", i, hv, cdisp.StartHeight, cdisp.EndHeight)
	case sdisp != nil:
		rq.disp = &dispatch{start: sdisp.StartHeight, end: sdisp.EndHeight,
			snapSpend: w.chain.scanSpendObj(c.spec.Obj, sdisp.StartHeight, sdisp.EndHeight)}
		w.st.HistoricalDispatches.Add(1)
		w.logf("client %d registered (hint %d): historical dispatch [%d,%d]", i, hv, sdisp.StartHeight, sdisp.EndHeight)
	default:
		w.st.ImmediateRegs.Add(1)
		w.logf("client %d registered (hint %d): no historical dispatch", i, hv)
	}
	w.drain("reg", nil)
}

func (w *world) rescanDone(id string, stale bool) {
	rq := w.reqs[id]
	d := rq.disp
	rq.disp = nil
	orphan := true
	for _, c := range w.clients {
		if c.reg && c.reqID() == id {
			orphan = false
		}
	}
	hi := d.end
	if t := w.chain.tip(); t < hi {
		hi = t
	}
	var err error
	var ok bool
	isConf, keyed, obj := reqOf(id)
	switch {
	case isConf:
		det := w.chain.scanConfObj(obj, d.start, hi)
		r := confReq(keyed, obj)
		if w.matcherConf(id, r, d.start, hi, det); w.dead {
			return
		}
		if stale {
			det = d.snapConf
		}
		if det != nil && orphan {
			w.feature("rescan-found-while-no-client/" + id)
		}
		if det != nil {
			w.st.RescanFound.Add(1)
			w.logf("rescan %s [%d,%d] found at %d", id, d.start, hi, det.BlockHeight)
		} else {
			w.st.RescanNone.Add(1)
			w.logf("rescan %s [%d,%d] found nothing", id, d.start, hi)
		}
		err, ok = w.call("UpdateConfDetails", func() error { return w.n.UpdateConfDetails(r, det) })
	default:
		det := w.chain.scanSpendObj(obj, d.start, hi)
		r := spendReq(keyed, obj)
		if w.matcherSpend(id, r, d.start, hi, det); w.dead {
			return
		}
		if stale {
			det = d.snapSpend
		}
		if det != nil && orphan {
			w.feature("rescan-found-while-no-client/" + id)
		}
		if det != nil {
			w.st.RescanFound.Add(1)
			w.logf("rescan %s [%d,%d] found at %d", id, d.start, hi, det.SpendingHeight)
		} else {
			w.st.RescanNone.Add(1)
			w.logf("rescan %s [%d,%d] found nothing", id, d.start, hi)
		}
		err, ok = w.call("UpdateSpendDetails", func() error { return w.n.UpdateSpendDetails(r, det) })
	}
	if !ok {
		return
	}
	if err != nil {
		// Not a verdict: a late result for a request that was pruned meanwhile is
		// refused with "not found" and the backend only logs it. If a refusal leaves
		// a client uninformed, clause (ii) reports that.
		w.st.RescanNoop.Add(1)
		w.logf("rescan result of %s refused: %v", id, err)
	}
	w.drain("rsc", nil)
}

func (w *world) cancel(i int) {
	c := w.clients[i]
	_, ok := w.call("Cancel", func() error {
		if c.conf != nil {
			c.conf.Cancel()
		} else {
			c.spend.Cancel()
		}
		return nil
	})
	if !ok {
		return
	}
	w.st.Cancels.Add(1)
	*c = client{spec: c.spec}
	w.logf("client %d cancelled", i)
}

func (w *world) stop() {
	w.n.TearDown()
	w.up = false
	w.restarts++
	w.st.Stops.Add(1)
	for _, c := range w.clients {
		*c = client{spec: c.spec}
	}
	for _, r := range w.reqs {
		r.disp, r.regLife = nil, false
	}
	w.logf("notifier stopped at %d", w.chain.tip())
}

// ---------------------------------------------------------------------------------
// terminal suffix probes
//
// Clause (iv) speaks about what a rescan *after a restart* can miss, so the futures that
// matter for a persisted hint are "the notifier goes down here and the event lands in the
// next block". Reaching them through the ordinary alphabet costs one unit of the restart
// budget and two levels of depth on top of whatever built the state (the defect repaired
// by 8d4968e needs a first restart to obtain a persisted hint with a pending rescan and a
// second one to confirm the tx below that hint). Probe therefore extends EVERY newly
// discovered state in which the notifier is up, no NotifyHeight is outstanding (= where
// "stop" is an action of the alphabet) and at least one hint is persisted by the suffixes
//
//	stop ; con:X      for every non-empty block content X of the space that is connectable
//
// executed on the real notifier / hint cache through the same do() as any explored
// action, judged by the same endOfOp clauses (nothing is predicted: the suffix is run).
// The restart *budget* is a bound of the search, not an assumption of the property (a
// node can go down at any time), so a probe may stop the notifier even when the budget of
// the space is used up; the replay artefact of a violation found this way carries the
// raised budget so that its history replays through the ordinary alphabet.
// The probes are terminal: the world is closed afterwards and the probed suffix states
// are not added to the frontier. States without a persisted hint are skipped (stop and
// offline connects never write the cache, so clause (iv) has no antecedent there).

// Probe runs the suffix probes on the current state and returns how many were executed.
func (w *world) Probe() int {
	var (
		n       int
		pending []func()
	)
	w.in(func() {
		n = w.probe()
		pending, w.pending = w.pending, nil
	})
	for _, f := range pending {
		f()
	}
	return n
}

func (w *world) probe() int {
	if w.dead || !w.up || w.notifyPending != 0 || w.announced != "" {
		return 0
	}
	has := false
	for _, id := range w.reqIDs() {
		if _, ok := w.cacheEntry(id); ok {
			has = true
		}
	}
	if !has {
		w.st.ProbeSkipped.Add(1)
		return 0
	}
	w.st.ProbeStates.Add(1)
	if w.restarts >= w.p.Restarts {
		w.p.Restarts = w.restarts + 1
	}
	if err := w.do("stop"); err != nil || w.dead {
		return 0
	}
	n := 0
	for _, x := range w.p.Contents {
		if len(contentTxs[x]) == 0 || !w.contentOK(x) {
			continue
		}
		nb, maxSeen, nh := len(w.chain.blocks), w.chain.maxSeen, len(w.hist)
		n++
		w.st.ProbeSuffixes.Add(1)
		if err := w.do("con:" + x); err != nil || w.dead {
			return n
		}
		// back to the stopped state (harness-side reference chain only: the notifier
		// is down and the hint cache was not touched)
		w.chain.blocks, w.chain.maxSeen, w.hist = w.chain.blocks[:nb], maxSeen, w.hist[:nh]
	}
	return n
}

// ---------------------------------------------------------------------------------
// observation + oracle

// drain empties every client channel (the clients are prompt readers) and judges what
// was received against the reference chain. ctx is the notifier call that just
// returned; removed is the block a DisconnectTip removed.
func (w *world) drain(ctx string, removed *refBlock) {
	if w.p.Lazy {
		w.lazyAfter(ctx, removed)
		return
	}
	for i, c := range w.clients {
		if w.dead {
			return
		}
		switch {
		case c.conf != nil:
			w.drainConf(i, c, ctx, removed)
		case c.spend != nil:
			w.drainSpend(i, c, ctx, removed)
		}
	}
}

func blockHas(b *refBlock, name string) bool {
	if b == nil {
		return false
	}
	for _, n := range contentTxs[b.content] {
		if n == name {
			return true
		}
	}
	return false
}

func (w *world) drainConf(i int, c *client, ctx string, removed *refBlock) {
	var (
		negs  []int32
		confs []*chainntnfs.TxConfirmation
	)
	ev := c.conf
	for more := true; more; {
		select {
		case v, ok := <-ev.NegativeConf:
			if !ok {
				w.violate("closed-channel/conf", fmt.Sprintf("client %d: NegativeConf closed while registered", i))
				return
			}
			negs = append(negs, v)
		case v, ok := <-ev.Confirmed:
			if !ok {
				w.violate("closed-channel/conf", fmt.Sprintf("client %d: Confirmed closed while registered", i))
				return
			}
			confs = append(confs, v)
		case _, ok := <-ev.Updates:
			if !ok {
				w.violate("closed-channel/conf", fmt.Sprintf("client %d: Updates closed while registered", i))
				return
			}
			w.st.Updates.Add(1)
		case <-ev.Done:
			c.done = true
			w.st.ConfDone.Add(1)
			w.logf("client %d <- Done", i)
		default:
			more = false
		}
	}
	o := &uni.obj[c.spec.Obj]
	tag := fmt.Sprintf("%s/n%d", c.spec.Kind, c.spec.N)
	if c.spec.Obj != 0 {
		tag += "/obj2"
	}
	for _, v := range negs {
		w.nontrivial = true
		w.st.NegativeConf.Add(1)
		w.logf("client %d <- NegativeConf(%d)", i, v)
		if (ctx != "rd" && (ctx != "dis" || !blockHas(removed, o.txName))) || (ctx == "rd" && !c.removedSince) {
			w.violate("spurious-NegativeConf/"+tag+"/"+ctx,
				fmt.Sprintf("client %d received NegativeConf during %q although no block containing the watched tx was disconnected (chain %s)", i, ctx, w.chain.String()))
			return
		}
		c.held, c.needNeg = 0, false
	}
	for _, d := range confs {
		w.nontrivial = true
		w.st.Confirmed.Add(1)
		bh := "<nil>"
		if d.BlockHash != nil {
			bh = d.BlockHash.String()[:8]
		}
		w.logf("client %d <- Confirmed(height %d, block %s, txindex %d)", i, d.BlockHeight, bh, d.TxIndex)
		// (a lazy reader's unread reorg notice is taken back by the notifier when the tx is
		// included again, so for it "the held block was disconnected since the last read" stands
		// in for the notice)
		if c.held != 0 && !(ctx == "rd" && c.removedSince) {
			w.violate("iii-renewed-Confirmed-without-reorg-notice/"+tag+"/"+ctx,
				fmt.Sprintf("client %d received Confirmed(height %d) while still holding an unretracted Confirmed(height %d)", i, d.BlockHeight, c.held))
			return
		}
		b, idx := w.chain.confOf(c.spec.Obj, 0, maxHeight)
		switch {
		case b == nil:
			w.violate("i-Confirmed-but-not-on-chain/"+tag+"/"+ctx,
				fmt.Sprintf("client %d was told the tx confirmed at %d, but it is not on the active chain %s", i, d.BlockHeight, w.chain.String()))
			return
		case ctx != "rd" && w.chain.tip()-b.height+1 < c.spec.N:
			// (a lazy reader may read a Confirmed that was sent at N confirmations after the
			// tip dropped again without touching the tx's block: lnd does not retract then,
			// for prompt readers neither)
			w.violate("i-Confirmed-too-early/"+tag+"/"+ctx,
				fmt.Sprintf("client %d (numConfs %d) was told confirmed with only %d confirmations on the active chain %s", i, c.spec.N, w.chain.tip()-b.height+1, w.chain.String()))
			return
		case d.BlockHeight != b.height || d.BlockHash == nil || *d.BlockHash != b.hash ||
			d.Tx == nil || d.Tx.TxHash() != o.hT || d.TxIndex != uint32(idx):
			w.violate("i-Confirmed-wrong-details/"+tag+"/"+ctx,
				fmt.Sprintf("client %d got details height=%d hash=%s txindex=%d; active chain has the tx at height %d hash=%s txindex=%d", i, d.BlockHeight, bh, d.TxIndex, b.height, b.hash.String()[:8], idx))
			return
		}
		c.held = d.BlockHeight
	}
	if ctx == "rd" && len(negs)+len(confs) > 0 {
		c.removedSince = false
	}
}

func (w *world) drainSpend(i int, c *client, ctx string, removed *refBlock) {
	var (
		reorgs int
		spends []*chainntnfs.SpendDetail
	)
	ev := c.spend
	for more := true; more; {
		select {
		case _, ok := <-ev.Reorg:
			if !ok {
				w.violate("closed-channel/spend", fmt.Sprintf("client %d: Reorg closed while registered", i))
				return
			}
			reorgs++
		case v, ok := <-ev.Spend:
			if !ok {
				w.violate("closed-channel/spend", fmt.Sprintf("client %d: Spend closed while registered", i))
				return
			}
			spends = append(spends, v)
		case _, ok := <-ev.Done:
			if !ok {
				w.violate("closed-channel/spend", fmt.Sprintf("client %d: Done closed while registered", i))
				return
			}
			c.done = true
			w.st.SpendDone.Add(1)
			w.logf("client %d <- Done", i)
		default:
			more = false
		}
	}
	tag := c.spec.Kind
	if c.spec.Obj != 0 {
		tag += "/obj2"
	}
	for k := 0; k < reorgs; k++ {
		w.nontrivial = true
		w.st.SpendReorg.Add(1)
		w.logf("client %d <- Reorg", i)
		if (ctx != "rd" && (ctx != "dis" || c.held == 0 || removed == nil || removed.height != c.held || !blockHas(removed, c.heldWho))) ||
			(ctx == "rd" && !c.removedSince) {
			w.violate("spurious-Reorg/"+tag+"/"+ctx,
				fmt.Sprintf("client %d received Reorg during %q although the block of the spend it holds (%d) was not disconnected (chain %s)", i, ctx, c.held, w.chain.String()))
			return
		}
		c.held, c.heldWho, c.needNeg = 0, "", false
	}
	for _, d := range spends {
		w.nontrivial = true
		w.st.Spend.Add(1)
		sh := "<nil>"
		if d.SpenderTxHash != nil {
			sh = d.SpenderTxHash.String()[:8]
		}
		w.logf("client %d <- Spend(height %d, spender %s)", i, d.SpendingHeight, sh)
		if c.held != 0 && !(ctx == "rd" && c.removedSince) {
			w.violate("iii-renewed-Spend-without-reorg-notice/"+tag+"/"+ctx,
				fmt.Sprintf("client %d received Spend(height %d) while still holding an unretracted Spend(height %d)", i, d.SpendingHeight, c.held))
			return
		}
		b, who := w.chain.spendOf(c.spec.Obj, 0, maxHeight)
		switch {
		case b == nil:
			w.violate("i-Spend-but-unspent/"+tag+"/"+ctx,
				fmt.Sprintf("client %d was told the outpoint was spent at %d, but it is unspent on the active chain %s", i, d.SpendingHeight, w.chain.String()))
			return
		case uint32(d.SpendingHeight) != b.height || d.SpenderTxHash == nil || *d.SpenderTxHash != txByName(who).TxHash() ||
			d.SpentOutPoint == nil || *d.SpentOutPoint != uni.obj[c.spec.Obj].O || d.SpenderInputIndex != 0 || d.SpendingTx == nil || d.SpendingTx.TxHash() != *d.SpenderTxHash:
			w.violate("i-Spend-wrong-details/"+tag+"/"+ctx,
				fmt.Sprintf("client %d got spend details height=%d spender=%s; active chain has %s at height %d", i, d.SpendingHeight, sh, who, b.height))
			return
		}
		c.held, c.heldWho = b.height, who
	}
	if ctx == "rd" && reorgs+len(spends) > 0 {
		c.removedSince = false
	}
}

// pairStats counts, for the evidence only, the height coincidences between registered
// clients of different objects in the state just reached.
func (w *world) pairStats() {
	evh := func(c *client) uint32 {
		var b *refBlock
		if c.spec.isConf() {
			b, _ = w.chain.confOf(c.spec.Obj, 0, maxHeight)
		} else {
			b, _ = w.chain.spendOf(c.spec.Obj, 0, maxHeight)
		}
		if b == nil {
			return 0
		}
		return b.height
	}
	for i, a := range w.clients {
		for _, b := range w.clients[i+1:] {
			if a.spec.Obj == b.spec.Obj || !a.reg || !b.reg {
				continue
			}
			ha, hb := evh(a), evh(b)
			if ha == 0 || hb == 0 {
				continue
			}
			if ha == hb {
				w.st.PairSameEventHeight.Add(1)
			}
			if a.spec.isConf() && b.spec.isConf() {
				if ma, mb := ha+a.spec.N-1, hb+b.spec.N-1; ma == mb && ma > w.chain.tip() {
					w.st.PairSameMaturityPending.Add(1)
				}
			}
		}
	}
}

// endOfOp runs the state clauses (ii) and (iv) once an operation is complete.
func (w *world) endOfOp() {
	if w.up && len(w.reqs) > 1 {
		w.pairStats()
	}
	if w.up && w.notifyPending == 0 {
		for i, c := range w.clients {
			if !c.reg {
				continue
			}
			w.st.IIChecked.Add(1)
			if w.reqs[c.reqID()].disp != nil {
				continue // registration not complete: rescan outstanding
			}
			if c.spec.isConf() {
				b, _ := w.chain.confOf(c.spec.Obj, 0, maxHeight)
				if b == nil || w.chain.tip()-b.height+1 < c.spec.N {
					continue
				}
				w.st.IIAntecedent.Add(1)
				w.nontrivial = true
				if !w.holds(c) {
					w.violate(fmt.Sprintf("ii-not-told-Confirmed/%s/n%d%s/%s", c.spec.Kind, c.spec.N, objTag(c.spec.Obj), w.lastKind()),
						fmt.Sprintf("the tx has %d >= %d confirmations on the active chain %s, client %d's registration is complete, but it holds no Confirmed", w.chain.tip()-b.height+1, c.spec.N, w.chain.String(), i))
					return
				}
			} else {
				b, _ := w.chain.spendOf(c.spec.Obj, 0, maxHeight)
				if b == nil {
					continue
				}
				w.st.IIAntecedent.Add(1)
				w.nontrivial = true
				if !w.holds(c) {
					w.violate(fmt.Sprintf("ii-not-told-Spend/%s%s/%s", c.spec.Kind, objTag(c.spec.Obj), w.lastKind()),
						fmt.Sprintf("the outpoint is spent at %d on the active chain %s, client %d's registration is complete, but it holds no Spend", b.height, w.chain.String(), i))
					return
				}
			}
		}
	}
	// (iv) a persisted hint never exceeds the height at which the event actually is on
	// the active chain (checked whether the notifier is up or down)
	for _, id := range w.reqIDs() {
		v, ok := w.cacheEntry(id)
		if !ok {
			continue
		}
		w.st.IVChecked.Add(1)
		var b *refBlock
		if isConf, _, obj := reqOf(id); isConf {
			b, _ = w.chain.confOf(obj, 0, maxHeight)
		} else {
			b, _ = w.chain.spendOf(obj, 0, maxHeight)
		}
		if b == nil {
			continue
		}
		w.st.IVBound.Add(1)
		w.nontrivial = true
		if v > b.height {
			what := "confirmed"
			if id[0] == 's' {
				what = "spent"
			}
			w.violate(fmt.Sprintf("iv-hint-above-truth/%s/%s", id, w.lastKind()),
				fmt.Sprintf("persisted height hint of request %s is %d but the event is %s at height %d on the active chain %s: a rescan from the hint misses it", id, v, what, b.height, w.chain.String()))
			return
		}
	}
}

func objTag(obj int) string {
	if obj == 0 {
		return ""
	}
	return "/obj2"
}

// ---------------------------------------------------------------------------------
// canonical key

func (w *world) cacheDump() string {
	var sb strings.Builder
	for _, id := range w.reqIDs() {
		if v, ok := w.cacheEntry(id); ok {
			fmt.Fprintf(&sb, "%s=%d ", id, v)
		} else {
			fmt.Fprintf(&sb, "%s=- ", id)
		}
	}
	return sb.String()
}

func (w *world) describe() string {
	var sb strings.Builder
	fmt.Fprintf(&sb, "chain%s up=%v nfy=%d rst=%d cache{%s}", w.chain.String(), w.up, w.notifyPending, w.restarts, w.cacheDump())
	for i, c := range w.clients {
		fmt.Fprintf(&sb, " c%d{%s%s/%d reg=%v held=%d%s neg=%v done=%v}", i, c.spec.Kind, objTag(c.spec.Obj), c.spec.N, c.reg, c.held, c.heldWho, c.needNeg, c.done)
		if w.p.Lazy && c.reg {
			fmt.Fprintf(&sb, "{rs=%v unread=%s}", c.removedSince, w.peek(c))
		}
	}
	if w.announced != "" {
		fmt.Fprintf(&sb, " announced=%s", w.announced)
	}
	for _, id := range w.reqIDs() {
		r := w.reqs[id]
		if r.disp != nil {
			fmt.Fprintf(&sb, " %s{disp[%d,%d] life=%v", id, r.disp.start, r.disp.end, r.regLife)
			if w.p.Stale {
				switch {
				case r.disp.snapConf != nil:
					fmt.Fprintf(&sb, " snap@%d/%s", r.disp.snapConf.BlockHeight, r.disp.snapConf.BlockHash.String()[:8])
				case r.disp.snapSpend != nil:
					fmt.Fprintf(&sb, " snap@%d/%s", r.disp.snapSpend.SpendingHeight, r.disp.snapSpend.SpenderTxHash.String()[:8])
				}
			}
			sb.WriteString("}")
		} else {
			fmt.Fprintf(&sb, " %s{life=%v}", id, r.regLife)
		}
	}
	if w.dead {
		sb.WriteString(" DEAD")
	}
	return sb.String()
}

// Key is the canonical state key.
//
// Same key => same futures: the key contains (a) the whole reference chain (contents of
// every block; hashes are a function of contents) and the highest tip ever seen, which
// determine which chain ops are enabled and every oracle verdict about the chain;
// (b) the complete persisted hint cache for every request of the space, read back from
// the real bbolt store; (c) every harness-side client fact the oracle uses (registered,
// held notification and its height, owed reorg notice, Done seen), the outstanding
// historical dispatches with their ranges, the per-lifetime registration flags, the
// restart budget and the ConnectTip/NotifyHeight split marker; (d) a structural digest
// of the live TxNotifier itself (see digest): every field it stores except client ids,
// closures and the mutex. Client channels are empty at every key point (drained), and
// client slots are in a fixed order. Nothing else influences what the notifier or the
// oracle will do next.
func (w *world) Key() string {
	var k string
	w.in(func() {
		s := w.describe()
		if w.up {
			s += " n=" + digest(w.n)
		}
		h := sha256.Sum256([]byte(s))
		k = hex.EncodeToString(h[:16])
	})
	return k
}

func (w *world) Describe() string {
	var s string
	w.in(func() { s = w.describe() })
	return s
}

// ---------------------------------------------------------------------------------
// lazy readers (Params.Lazy)
//
// A lazy client reads its channels only at rd:<i>. TxNotifier keeps every send non-blocking
// for such a client by taking back what it has not read (DisconnectTip drains an unread
// Confirmed/Spend and one Update, re-inclusion drains an unread NegativeConf/Reorg). The
// clauses are the same, evaluated on what the client HOLDS OR WOULD READ NOW:
//   - no notifier call may block (the quiescence watchdog of call());
//   - an unread Confirmed/Spend sitting in the channel is on the active chain with that
//     chain's details (clause i at every state, by a non-destructive peek: the bubble is
//     quiescent, the harness is the only reader, a value taken from a buffered channel and
//     put back leaves the channel as it was);
//   - clause (ii): N confirmations and complete registration => the client holds an
//     unretracted notification or one is waiting in its channel;
//   - clause (iii): the block of a notification the client has READ is disconnected => a
//     reorg notice is waiting in its channel; a notice read at rd is legitimate iff a block
//     containing the client's event was disconnected since its previous read.

func (w *world) unread(c *client) int {
	switch {
	case c.conf != nil:
		return len(c.conf.Confirmed) + len(c.conf.NegativeConf) + len(c.conf.Updates) + len(c.conf.Done)
	case c.spend != nil:
		return len(c.spend.Spend) + len(c.spend.Reorg) + len(c.spend.Done)
	}
	return 0
}

// peekConf / peekSpend: the unread Confirmed / Spend of a client, channel left unchanged.
func peekConf(c *client) *chainntnfs.TxConfirmation {
	if c.conf == nil {
		return nil
	}
	select {
	case v, ok := <-c.conf.Confirmed:
		if ok {
			c.conf.Confirmed <- v
		}
		return v
	default:
		return nil
	}
}

func peekSpend(c *client) *chainntnfs.SpendDetail {
	if c.spend == nil {
		return nil
	}
	select {
	case v, ok := <-c.spend.Spend:
		if ok {
			c.spend.Spend <- v
		}
		return v
	default:
		return nil
	}
}

// peek renders the unread content the oracle will judge later (part of the key).
func (w *world) peek(c *client) string {
	if d := peekConf(c); d != nil {
		bh := "<nil>"
		if d.BlockHash != nil {
			bh = d.BlockHash.String()[:8]
		}
		return fmt.Sprintf("C@%d/%s/%d", d.BlockHeight, bh, d.TxIndex)
	}
	if d := peekSpend(c); d != nil {
		sh := "<nil>"
		if d.SpenderTxHash != nil {
			sh = d.SpenderTxHash.String()[:8]
		}
		return fmt.Sprintf("S@%d/%s", d.SpendingHeight, sh)
	}
	return "-"
}

// holds: the client holds an unretracted notification (or, lazy reader, one is waiting).
func (w *world) holds(c *client) bool {
	if !w.p.Lazy {
		return c.held != 0
	}
	if c.held != 0 && !c.removedSince {
		return true
	}
	if c.conf != nil {
		return len(c.conf.Confirmed) == 1
	}
	return c.spend != nil && len(c.spend.Spend) == 1
}

// lazyAfter replaces drain for lazy readers: nothing is read.
func (w *world) lazyAfter(ctx string, removed *refBlock) {
	for i, c := range w.clients {
		if w.dead {
			return
		}
		if !c.reg {
			continue
		}
		o := &uni.obj[c.spec.Obj]
		tag := fmt.Sprintf("%s/n%d%s", c.spec.Kind, c.spec.N, objTag(c.spec.Obj))
		if removed != nil {
			hit := false
			if c.spec.isConf() {
				hit = blockHas(removed, o.txName)
			} else {
				for _, sp := range o.spenders {
					hit = hit || blockHas(removed, sp)
				}
			}
			if hit {
				c.removedSince = true
			}
		}
		switch {
		case c.conf != nil:
			if c.needNeg {
				if len(c.conf.NegativeConf) == 0 {
					w.violate("iii-no-reorg-notice/"+tag+"/lazy", fmt.Sprintf("client %d has read a Confirmed for block %d which was just disconnected, and no NegativeConf is waiting for it", i, c.held))
					return
				}
				// the retraction is issued: what the client has read no longer counts as held
				// (whether it reads the notice or the notifier takes it back at re-inclusion)
				c.needNeg, c.held = false, 0
			}
			if len(c.conf.NegativeConf) > 0 {
				w.st.LazyUnreadNeg.Add(1)
			}
			d := peekConf(c)
			if d == nil {
				continue
			}
			w.st.LazyUnreadConfirmed.Add(1)
			w.nontrivial = true
			b, idx := w.chain.confOf(c.spec.Obj, 0, maxHeight)
			switch {
			case b == nil:
				w.violate("i-unread-Confirmed-not-on-chain/"+tag+"/"+ctx,
					fmt.Sprintf("an unread Confirmed(height %d) is waiting for client %d but the tx is not on the active chain %s", d.BlockHeight, i, w.chain.String()))
				return
			case d.BlockHeight != b.height || d.BlockHash == nil || *d.BlockHash != b.hash || d.Tx == nil || d.Tx.TxHash() != o.hT || d.TxIndex != uint32(idx):
				w.violate("i-unread-Confirmed-wrong-details/"+tag+"/"+ctx,
					fmt.Sprintf("an unread Confirmed(height %d) is waiting for client %d; the active chain has the tx at height %d (%s)", d.BlockHeight, i, b.height, w.chain.String()))
				return
			}
		case c.spend != nil:
			if c.needNeg {
				if len(c.spend.Reorg) == 0 {
					w.violate("iii-no-reorg-notice/"+tag+"/lazy", fmt.Sprintf("client %d has read a Spend for block %d which was just disconnected, and no Reorg is waiting for it", i, c.held))
					return
				}
				c.needNeg, c.held, c.heldWho = false, 0, ""
			}
			if len(c.spend.Reorg) > 0 {
				w.st.LazyUnreadNeg.Add(1)
			}
			d := peekSpend(c)
			if d == nil {
				continue
			}
			w.st.LazyUnreadConfirmed.Add(1)
			w.nontrivial = true
			b, who := w.chain.spendOf(c.spec.Obj, 0, maxHeight)
			switch {
			case b == nil:
				w.violate("i-unread-Spend-but-unspent/"+tag+"/"+ctx,
					fmt.Sprintf("an unread Spend(height %d) is waiting for client %d but the outpoint is unspent on the active chain %s", d.SpendingHeight, i, w.chain.String()))
				return
			case uint32(d.SpendingHeight) != b.height || d.SpenderTxHash == nil || *d.SpenderTxHash != txByName(who).TxHash():
				w.violate("i-unread-Spend-wrong-details/"+tag+"/"+ctx,
					fmt.Sprintf("an unread Spend(height %d) is waiting for client %d; the active chain has %s at height %d", d.SpendingHeight, i, who, b.height))
				return
			}
		}
	}
}

// lazyRead: client i reads everything that is waiting for it.
func (w *world) lazyRead(i int) {
	c := w.clients[i]
	w.st.LazyReads.Add(1)
	switch {
	case c.conf != nil:
		w.drainConf(i, c, "rd", nil)
	case c.spend != nil:
		w.drainSpend(i, c, "rd", nil)
	}
}

// ---------------------------------------------------------------------------------
// relevant-transaction feed (Params.Relevant): TxNotifier.ProcessRelevantSpendTx
//
// btcd/bitcoind/neutrino hand every "relevant" transaction of a block to the notifier on a
// path that is not ordered with the block notifications: the transaction can arrive after
// its block was connected (prs, a re-report of what is on the active chain) or before
// (pra: the block at tip+1 is announced, then connected as the next chain event; client
// operations may fall in between). The backend is truthful: what it reports is (about to
// be) on the active chain at that height.

func (w *world) relevant(arg string, ahead bool) {
	names := []string{arg}
	height := w.chain.tip() + 1
	if ahead {
		names = contentTxs[arg]
		w.st.RelevantAhead.Add(1)
	} else {
		b, _ := w.chain.find(arg, 0, maxHeight)
		height = b.height
		w.st.RelevantKnown.Add(1)
	}
	for _, nm := range names {
		if _, isConf := objOfTx(nm); isConf {
			continue
		}
		tx := btcutil.NewTx(txByName(nm))
		err, ok := w.call("ProcessRelevantSpendTx", func() error { return w.n.ProcessRelevantSpendTx(tx, height) })
		if !ok {
			return
		}
		if err != nil {
			w.violate("error:ProcessRelevantSpendTx", fmt.Sprintf("ProcessRelevantSpendTx(%s, %d) failed: %v", nm, height, err))
			return
		}
		w.logf("relevant tx %s reported for height %d (tip %d)", nm, height, w.chain.tip())
		ctx := "prs"
		if ahead {
			ctx = "pra"
		}
		before := w.st.Spend.Load()
		w.drain(ctx, nil)
		if w.st.Spend.Load() != before {
			w.st.RelevantDelivered.Add(1)
		}
		if w.dead {
			return
		}
	}
	if ahead {
		w.announced = arg
	}
}

// ---------------------------------------------------------------------------------
// matcher differential: the historical scans of the real backends walk the blocks of the
// dispatched range and decide per transaction with ConfRequest.MatchesTx /
// SpendRequest.MatchesTx. The harness' scans are computed by name on the reference chain;
// every one of them is repeated the backends' way with the real matcher and must agree.

func (w *world) matcherConf(id string, r chainntnfs.ConfRequest, lo, hi uint32, ref *chainntnfs.TxConfirmation) {
	w.st.MatcherScans.Add(1)
	var (
		fh uint32
		fi int
	)
scan:
	for _, b := range w.chain.blocks {
		if b.height < lo || b.height > hi {
			continue
		}
		for i, tx := range b.block.Transactions() {
			w.st.MatcherTxsTested.Add(1)
			if r.MatchesTx(tx.MsgTx()) {
				fh, fi = b.height, i
				w.st.MatcherMatches.Add(1)
				break scan
			}
		}
	}
	switch {
	case ref == nil && fh == 0:
	case ref != nil && fh == ref.BlockHeight && uint32(fi) == ref.TxIndex:
	default:
		w.violate("rescan-matcher-disagrees/"+id, fmt.Sprintf("ConfRequest.MatchesTx over [%d,%d] of %s selects height %d index %d; the reference scan says %v", lo, hi, w.chain.String(), fh, fi, ref))
	}
}

func (w *world) matcherSpend(id string, r chainntnfs.SpendRequest, lo, hi uint32, ref *chainntnfs.SpendDetail) {
	w.st.MatcherScans.Add(1)
	var (
		fh   uint32
		ftx  *wire.MsgTx
		fin  uint32
		ferr error
	)
scan:
	for _, b := range w.chain.blocks {
		if b.height < lo || b.height > hi {
			continue
		}
		for _, tx := range b.block.Transactions() {
			w.st.MatcherTxsTested.Add(1)
			ok, idx, err := r.MatchesTx(tx.MsgTx())
			if err != nil {
				ferr = err
				break scan
			}
			if ok {
				fh, ftx, fin = b.height, tx.MsgTx(), idx
				w.st.MatcherMatches.Add(1)
				break scan
			}
		}
	}
	switch {
	case ferr != nil:
		w.violate("rescan-matcher-error/"+id, fmt.Sprintf("SpendRequest.MatchesTx failed on a block of the active chain %s: %v", w.chain.String(), ferr))
	case ref == nil && fh == 0:
	case ref != nil && fh == uint32(ref.SpendingHeight) && ftx.TxHash() == *ref.SpenderTxHash && fin == ref.SpenderInputIndex:
	default:
		w.violate("rescan-matcher-disagrees/"+id, fmt.Sprintf("SpendRequest.MatchesTx over [%d,%d] of %s selects height %d input %d; the reference scan says %v", lo, hi, w.chain.String(), fh, fin, ref))
	}
}
