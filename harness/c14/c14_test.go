// C14: confirmation and spend notifications follow the active chain through any reorg.
//
// Level-synchronous breadth-first exploration of every operation sequence (block
// connect with any content / disconnect within the reorg limit / client registration
// with any valid hint / cancellation / historical-rescan completion / notifier
// stop+start on the same persisted hint cache / a chain op inside the hint-read window
// of Register* / a client op between ConnectTip and NotifyHeight; plus, from every
// state with a persisted hint, the terminal suffix "notifier goes down, the event lands
// in the next block", see world.Probe) on the real
// chainntnfs.TxNotifier and the real channeldb.HeightHintCache, judged after every
// notifier call by a reference chain and a per-client view (see world_test.go).
//
// The search uses the shared explore engine one BFS level at a time: the root of a level
// offers one "@i" action per frontier state (replay of its shortest history on a fresh
// world), followed by exactly one real action; explore supplies the worker pool, the
// replay loop and the per-level de-duplication, this file the cross-level seen set.
package c14

import (
	"encoding/json"
	"fmt"
	"os"
	"runtime/debug"
	"runtime/pprof"
	"sort"
	"strconv"
	"strings"
	"sync"
	"sync/atomic"
	"testing"
	"time"

	"github.com/lightningnetwork/lnd/verifmc/evid"
	"github.com/lightningnetwork/lnd/verifmc/explore"
)

var theT *testing.T

type node struct {
	hist []string
}

// levelWorld adapts one BFS level to explore.World.
type levelWorld struct {
	sp       *spaceRun
	frontier []node
	w        *world
	stage    int
	idx      int
	act      string // the level's single real action
	key      string // stage-2 key, computed once (the state is final until the probes run)
}

func (l *levelWorld) Enabled() []string {
	switch l.stage {
	case 0:
		out := make([]string, len(l.frontier))
		for i := range out {
			out[i] = "@" + strconv.Itoa(i)
		}
		return out
	case 1:
		return l.w.Enabled()
	}
	return nil
}

func (l *levelWorld) Do(a string) error {
	switch l.stage {
	case 0:
		i, err := strconv.Atoi(strings.TrimPrefix(a, "@"))
		if err != nil || i < 0 || i >= len(l.frontier) {
			return fmt.Errorf("bad frontier index %q", a)
		}
		w, err := newWorld(theT, l.sp.p, l.sp.report, l.sp.st)
		if err != nil {
			return err
		}
		l.w, l.idx, l.stage = w, i, 1
		for k, op := range l.frontier[i].hist {
			if err := w.Do(op); err != nil {
				return fmt.Errorf("replay of frontier state diverged at %d (%s): %w", k, op, err)
			}
		}
		atomic.AddInt64(&l.sp.replays, 1)
		atomic.AddInt64(&l.sp.replaySteps, int64(len(l.frontier[i].hist)))
		return nil
	case 1:
		l.stage, l.act = 2, a
		atomic.AddInt64(&l.sp.transitions, 1)
		return l.w.Do(a)
	}
	return fmt.Errorf("no action after the level's single step")
}

func (l *levelWorld) Key() string {
	switch l.stage {
	case 0:
		return "root"
	case 1:
		return "F" + strconv.Itoa(l.idx)
	}
	if l.key != "" {
		return l.key
	}
	k := "S" + l.w.Key()
	l.key = k
	// Every execution of a level passes here exactly once with its final state. Which of
	// several executions arriving at one key comes first is scheduling-dependent; the
	// representative history of a new state (smallest (frontier index, action) among all
	// arrivals of its discovery level) and "some arrival was non-trivial" are not, which
	// makes the next frontier, hence every count of the run, reproducible.
	var nt bool
	l.w.in(func() { nt = l.w.nontrivial && !l.w.dead })
	sp := l.sp
	sp.mu.Lock()
	a, ok := sp.lvl[k]
	if !ok {
		if _, old := sp.seen[k]; !old {
			a = &arrival{idx: l.idx, act: l.act}
			sp.lvl[k] = a
		}
	} else if l.idx < a.idx || (l.idx == a.idx && l.act < a.act) {
		a.idx, a.act = l.idx, l.act
	}
	if a != nil && nt {
		a.nt = true
	}
	sp.mu.Unlock()
	return k
}

func (l *levelWorld) Terminal() {}

func (l *levelWorld) Close() {
	if l.w != nil {
		l.w.Close()
	}
}

// arrival summarises the executions of one level that ended in one (new) state.
type arrival struct {
	idx int // smallest (frontier index, action) that reached it
	act string
	nt  bool // some arrival was non-trivial
}

// spaceRun is the exploration of one space.
type spaceRun struct {
	p      Params
	st     *Stats
	report reportFn

	mu          sync.Mutex
	seen        map[string]struct{}
	lvl         map[string]*arrival // per key first discovered in the current level: its arrivals
	nontrivial  int64
	transitions int64
	replays     int64
	replaySteps int64
	probes      int64
	perDepth    []int64
	samples     [][]string
}

type spaceResult struct {
	States, Transitions, Replays, ReplaySteps, Nontrivial int64
	Probes                                                int64
	PerDepth                                              []int64
	DepthDone                                             int
	Exhaustive                                            bool
	Cap                                                   string
	Samples                                               [][]string
	Wall                                                  float64
}

func runSpace(p Params, st *Stats, report reportFn, deadline time.Time, stop func() bool) spaceResult {
	t0 := time.Now()
	sp := &spaceRun{p: p, st: st, report: report, seen: map[string]struct{}{}, lvl: map[string]*arrival{}}
	res := spaceResult{Exhaustive: true}
	// initial state
	w0, err := newWorld(theT, p, report, st)
	if err != nil {
		return spaceResult{Cap: "initial world: " + err.Error()}
	}
	sp.seen[w0.Key()] = struct{}{}
	w0.Close()
	sp.replays++
	frontier := []node{{}}
	sp.perDepth = []int64{1}
	for depth := 0; depth < p.Depth && len(frontier) > 0; depth++ {
		var (
			next    []node
			newKeys []string // keys first discovered in this level (guarded by sp.mu)
		)
		fr := frontier
		r := explore.Run(explore.Options{
			New:           func() (explore.World, error) { return &levelWorld{sp: sp, frontier: fr}, nil },
			MaxDeviations: -1,
			Deadline:      deadline,
			Stop:          stop,
			OnState: func(ew explore.World, hist []string) {
				l := ew.(*levelWorld)
				if l.stage != 2 {
					return
				}
				var dead bool
				l.w.in(func() { dead = l.w.dead })
				if dead {
					return
				}
				k := l.Key()
				sp.mu.Lock()
				_, dup := sp.seen[k]
				if !dup {
					sp.seen[k] = struct{}{}
					newKeys = append(newKeys, k)
				}
				sp.mu.Unlock()
				if dup {
					return
				}
				// terminal suffix probes "stop ; con:X" of this new state (world_test.go);
				// the level world has no further action, so the world is closed next
				if n := l.w.Probe(); n > 0 {
					atomic.AddInt64(&sp.probes, int64(n))
				}
			},
		}, func(hist []string, v any) {
			h := hist
			if len(hist) > 0 && strings.HasPrefix(hist[0], "@") {
				if i, err := strconv.Atoi(hist[0][1:]); err == nil && i < len(fr) {
					h = append(append([]string{}, fr[i].hist...), hist[1:]...)
				}
			}
			first := strings.SplitN(fmt.Sprint(v), "\n", 2)[0]
			report("harness-panic", fmt.Sprintf("panic outside a notifier call: %s", first), h, p)
		})
		for _, k := range newKeys {
			a := sp.lvl[k]
			if a.nt {
				sp.nontrivial++
			}
			next = append(next, node{hist: append(append(make([]string, 0, len(fr[a.idx].hist)+1), fr[a.idx].hist...), a.act)})
		}
		sp.lvl = map[string]*arrival{}
		if !r.Exhaustive {
			res.Exhaustive = false
			res.Cap = fmt.Sprintf("%s at depth %d of %s", r.CapHit, depth+1, p.Name)
			break
		}
		sort.Slice(next, func(i, j int) bool {
			return strings.Join(next[i].hist, " ") < strings.Join(next[j].hist, " ")
		})
		sp.perDepth = append(sp.perDepth, int64(len(next)))
		res.DepthDone = depth + 1
		if len(sp.samples) < 2 && len(next) > 0 && depth+1 >= 5 {
			sp.samples = append(sp.samples, next[len(next)/2].hist)
		}
		frontier = next
	}
	res.States = int64(len(sp.seen))
	res.Transitions = sp.transitions
	res.Replays = sp.replays
	res.ReplaySteps = sp.replaySteps
	res.Nontrivial = sp.nontrivial
	res.Probes = sp.probes
	res.PerDepth = sp.perDepth
	res.Samples = sp.samples
	res.Wall = time.Since(t0).Seconds()
	return res
}

// ---------------------------------------------------------------------------------

func conf(kind string, n uint32) ClientSpec { return ClientSpec{Kind: kind, N: n} }

var (
	confOnly  = []string{"e", "T"}
	spendOnly = []string{"e", "S1", "S2"}
	mixed     = []string{"e", "T", "S1", "S2", "TS1"}
	allHints  = []string{"old", "tip", "tip1"}
)

func spaces(thorough bool) []Params {
	d := func(q, t int) int {
		if thorough {
			return t
		}
		return q
	}
	var out []Params
	add := func(p Params) {
		if s := os.Getenv("VERIF_C14_DEPTH"); s != "" {
			if n, err := strconv.Atoi(s); err == nil {
				p.Depth = n
			}
		}
		out = append(out, p)
	}
	// AXIS families added by the axis audit (AXES.md): the backend's relevant-transaction feed
	// (ProcessRelevantSpendTx, incl. details above the notifier's height) and lazy readers
	// (clients that do not read between events: the notifier's take-back selects). The quick
	// variants are small (~41 k states together) and run FIRST (cheapest-first: a deadline on a
	// loaded machine must cut depth, not these branches); the thorough variants follow the pair family.
	if !thorough {
		for _, q := range axisSpaces(thorough) {
			add(q)
		}
	}
	// two clients of the same txid request, different depths
	add(Params{Name: "conf-txid-n1+n2", Clients: []ClientSpec{conf("txid", 1), conf("txid", 2)}, Contents: confOnly, Hints: allHints, Limit: 4, Depth: d(8, 11), Restarts: 1})
	// txid + script-only requests for the same transaction (two notification sets)
	add(Params{Name: "conf-txid-n2+script-n1", Clients: []ClientSpec{conf("txid", 2), conf("script", 1)}, Contents: confOnly, Hints: allHints, Limit: 4, Depth: d(7, 9), Restarts: 1})
	// deep confirmation, short reorg limit (Done / pruning reachable early)
	add(Params{Name: "conf-script-n3-limit3", Clients: []ClientSpec{conf("script", 3)}, Contents: confOnly, Hints: allHints, Limit: 3, Depth: d(8, 13), Restarts: 1})
	if thorough {
		add(Params{Name: "conf-txid-n3+script-n2-limit3", Clients: []ClientSpec{conf("txid", 3), conf("script", 2)}, Contents: confOnly, Hints: allHints, Limit: 3, Depth: 8, Restarts: 2})
		add(Params{Name: "spend-op+sscript-restarts2", Clients: []ClientSpec{{Kind: "op"}, {Kind: "sscript"}}, Contents: spendOnly, Hints: allHints, Limit: 3, Depth: 8, Restarts: 2})
		add(Params{Name: "conf-txid-n1-restarts2", Clients: []ClientSpec{conf("txid", 1)}, Contents: confOnly, Hints: allHints, Limit: 4, Depth: 12, Restarts: 2})
		// stale-scan variant: candidate label only, never a VIOLATION (DESIGN §4/§7)
		add(Params{Name: "stale-conf-txid-n1", Clients: []ClientSpec{conf("txid", 1)}, Contents: confOnly, Hints: []string{"old"}, Limit: 4, Depth: 9, Stale: true})
		add(Params{Name: "stale-spend-op", Clients: []ClientSpec{{Kind: "op"}}, Contents: spendOnly, Hints: []string{"old"}, Limit: 4, Depth: 9, Stale: true})
	}
	// persisted-hint safety across TWO notifier lifetimes after the first: one restart to obtain
	// a persisted hint whose request has a pending rescan (hints are only written for requests
	// whose rescan completed, so "persisted hint + pending rescan" needs a previous lifetime),
	// a second one so that the event can land in a reorged range while the notifier is down.
	// One client keeps the depth such histories need (9: reg con stop start reg dis dis stop con)
	// cheap. (The thorough tier has conf-txid-n1-restarts2 at depth 12 for the confirmation side.)
	if !thorough {
		add(Params{Name: "hint-conf-txid-n1-restarts2", Clients: []ClientSpec{conf("txid", 1)}, Contents: confOnly, Hints: allHints, Limit: 4, Depth: 10, Restarts: 2})
	}
	add(Params{Name: "hint-spend-op-restarts2", Clients: []ClientSpec{{Kind: "op"}}, Contents: spendOnly, Hints: allHints, Limit: 4, Depth: d(9, 11), Restarts: 2})
	// PAIR family: two UNRELATED watched objects in one notifier (second tx U / second
	// outpoint O', see model_test.go). TxNotifier's by-height indexes (confirm-height
	// buckets, initial-height sets, spend-height sets) are keyed by height only and shared
	// by all requests, so their maintenance can only go wrong between requests of different
	// objects whose heights coincide while an event (reorg, cancel, rescan result, maturity)
	// concerns one of them. Reduced alphabet: no restart budget, hints {old, tip1}.
	// (Placed before the larger single-object spaces so that a deadline on a loaded machine
	// does not cut the whole family.)
	for _, q := range pairSpaces(thorough) {
		add(q)
	}
	if thorough {
		for _, q := range axisSpaces(thorough) {
			add(q)
		}
	}
	// shortest reorg limit: pruning (Done) and final blocks reached within few ops
	add(Params{Name: "conf-txid-n1+n2-limit2", Clients: []ClientSpec{conf("txid", 1), conf("txid", 2)}, Contents: confOnly, Hints: allHints, Limit: 2, Depth: d(7, 10), Restarts: 1})
	// two spend clients of the same outpoint, conflicting spenders
	add(Params{Name: "spend-op+op", Clients: []ClientSpec{{Kind: "op"}, {Kind: "op"}}, Contents: spendOnly, Hints: allHints, Limit: 4, Depth: d(7, 11), Restarts: 1})
	// conf + spend in one notifier, mixed block contents
	add(Params{Name: "mixed-txid-n2+op", Clients: []ClientSpec{conf("txid", 2), {Kind: "op"}}, Contents: mixed, Hints: allHints, Limit: 4, Depth: d(6, 8), Restarts: 1})
	// the hint-read window of Register* (a chain op between cache read and lock)
	add(Params{Name: "window-conf-txid-n1+n2", Clients: []ClientSpec{conf("txid", 1), conf("txid", 2)}, Contents: confOnly, Hints: allHints, Limit: 4, Depth: d(6, 8), Restarts: 1, Window: true})
	add(Params{Name: "window-spend-op", Clients: []ClientSpec{{Kind: "op"}}, Contents: spendOnly, Hints: allHints, Limit: 4, Depth: d(6, 10), Restarts: 1, Window: true})
	// client operations between ConnectTip and NotifyHeight
	add(Params{Name: "split-conf-txid-n1+n2", Clients: []ClientSpec{conf("txid", 1), conf("txid", 2)}, Contents: confOnly, Hints: []string{"old", "tip1"}, Limit: 4, Depth: d(7, 10), Split: true})
	add(Params{Name: "split-spend-op+sscript", Clients: []ClientSpec{{Kind: "op"}, {Kind: "sscript"}}, Contents: spendOnly, Hints: []string{"old", "tip1"}, Limit: 4, Depth: d(6, 8), Split: true})
	return out
}

func obj2(c ClientSpec) ClientSpec { c.Obj = 1; return c }

// axisSpaces: see AXES.md / NOTES.md ("relevant" and "lazy" families).
func axisSpaces(thorough bool) []Params {
	h2 := []string{"old", "tip1"}
	if !thorough {
		return []Params{
			{Name: "relevant-spend-op+sscript", Clients: []ClientSpec{{Kind: "op"}, {Kind: "sscript"}}, Contents: spendOnly, Hints: h2, Limit: 4, Depth: 6, Relevant: true},
			{Name: "lazy-conf-txid-n1+n2", Clients: []ClientSpec{conf("txid", 1), conf("txid", 2)}, Contents: confOnly, Hints: h2, Limit: 4, Depth: 8, Lazy: true},
			{Name: "lazy-spend-op", Clients: []ClientSpec{{Kind: "op"}}, Contents: spendOnly, Hints: h2, Limit: 4, Depth: 9, Lazy: true},
		}
	}
	return []Params{
		{Name: "relevant-spend-op+sscript", Clients: []ClientSpec{{Kind: "op"}, {Kind: "sscript"}}, Contents: spendOnly, Hints: allHints, Limit: 4, Depth: 7, Restarts: 1, Relevant: true},
		{Name: "relevant-spend-op+op-limit2", Clients: []ClientSpec{{Kind: "op"}, {Kind: "op"}}, Contents: spendOnly, Hints: h2, Limit: 2, Depth: 8, Relevant: true},
		{Name: "relevant-mixed-txid-n2+op", Clients: []ClientSpec{conf("txid", 2), {Kind: "op"}}, Contents: mixed, Hints: h2, Limit: 4, Depth: 7, Relevant: true},
		{Name: "lazy-conf-txid-n1+n2", Clients: []ClientSpec{conf("txid", 1), conf("txid", 2)}, Contents: confOnly, Hints: h2, Limit: 4, Depth: 10, Lazy: true},
		{Name: "lazy-conf-script-n3-limit3", Clients: []ClientSpec{conf("script", 3)}, Contents: confOnly, Hints: h2, Limit: 3, Depth: 10, Lazy: true},
		{Name: "lazy-spend-op+sscript", Clients: []ClientSpec{{Kind: "op"}, {Kind: "sscript"}}, Contents: spendOnly, Hints: h2, Limit: 4, Depth: 8, Lazy: true},
		{Name: "lazy-relevant-spend-op", Clients: []ClientSpec{{Kind: "op"}}, Contents: spendOnly, Hints: h2, Limit: 4, Depth: 9, Lazy: true, Relevant: true},
	}
}

var (
	pairConf  = []string{"e", "T", "U", "TU"}
	pairSpend = []string{"e", "S1", "R1", "S1R1"}
	pairHints = []string{"old", "tip1"}
)

// pairSpaces: client 0 watches object 0, client 1 watches object 1.
func pairSpaces(thorough bool) []Params {
	var out []Params
	confPair := func(a, b uint32, depth int) {
		out = append(out, Params{Name: fmt.Sprintf("pair-conf-n%d+n%d", a, b), Clients: []ClientSpec{conf("txid", a), obj2(conf("txid", b))},
			Contents: pairConf, Hints: pairHints, Limit: 4, Depth: depth})
	}
	if !thorough {
		confPair(3, 2, 7)
		confPair(2, 2, 7)
		confPair(2, 1, 6)
		out = append(out, Params{Name: "pair-spend-op+op", Clients: []ClientSpec{{Kind: "op"}, {Kind: "op", Obj: 1}},
			Contents: pairSpend, Hints: pairHints, Limit: 4, Depth: 6})
		return out
	}
	// every unordered pair of depths (the two objects are symmetric)
	for a := uint32(1); a <= 3; a++ {
		for b := uint32(1); b <= a; b++ {
			d := 8
			if a == 3 && b == 2 {
				d = 9 // smallest pair of distinct depths with overlapping pending windows
			}
			confPair(a, b, d)
		}
	}
	out = append(out, Params{Name: "pair-spend-op+op", Clients: []ClientSpec{{Kind: "op"}, {Kind: "op", Obj: 1}},
		Contents: pairSpend, Hints: pairHints, Limit: 4, Depth: 8})
	out = append(out, Params{Name: "pair-spend-op+sscript", Clients: []ClientSpec{{Kind: "op"}, {Kind: "sscript", Obj: 1}},
		Contents: pairSpend, Hints: pairHints, Limit: 3, Depth: 7})
	out = append(out, Params{Name: "pair-conf-script-n2+txid-n2-restart", Clients: []ClientSpec{conf("script", 2), obj2(conf("txid", 2))},
		Contents: pairConf, Hints: pairHints, Limit: 3, Depth: 8, Restarts: 1})
	return out
}

// trace replays a history on a fresh world and returns its observation log and the
// violation signatures it raises.
func trace(p Params, hist []string, verbose bool) (obs []string, sigs []string, err error) {
	var mu sync.Mutex
	w, err := newWorld(theT, p, func(sig, what string, h []string, _ Params) {
		mu.Lock()
		sigs = append(sigs, sig)
		mu.Unlock()
	}, nil)
	if err != nil {
		return nil, nil, err
	}
	defer w.Close()
	w.verbose = verbose
	for i, a := range hist {
		if verbose {
			fmt.Printf("INFO step %d: %s\n", i, a)
		}
		if err := w.Do(a); err != nil {
			return nil, nil, fmt.Errorf("step %d (%s): %w", i, a, err)
		}
		if verbose {
			fmt.Printf("INFO    -> %s\n", w.Describe())
		}
	}
	w.in(func() { obs = append([]string{}, w.obs...) })
	return obs, sigs, nil
}

func hasStaleStep(hist []string) bool {
	for _, a := range hist {
		if strings.HasPrefix(a, "rss:") {
			return true
		}
	}
	return false
}

func TestC14(t *testing.T) {
	theT = t
	debug.SetGCPercent(400)
	run := evid.Start("C14", "model_checking")
	if rp := os.Getenv("VERIF_REPLAY"); rp != "" {
		replay(t, run, rp)
		return
	}
	budget := 230 * time.Second
	if run.Thorough() {
		budget = 27 * time.Minute
	}
	if s := os.Getenv("VERIF_BUDGET_S"); s != "" {
		if n, err := strconv.Atoi(s); err == nil {
			budget = time.Duration(n) * time.Second
		}
	}
	deadline := time.Now().Add(budget)
	if pf := os.Getenv("VERIF_C14_PROF"); pf != "" {
		if f, err := os.Create(pf); err == nil {
			_ = pprof.StartCPUProfile(f)
			defer pprof.StopCPUProfile()
		}
	}
	st := &Stats{}
	var (
		mu         sync.Mutex
		candidates []map[string]any
		candSeen   = map[string]bool{}
		nondet     []string
		gateSeen   = map[string]bool{}
	)
	report := func(sig, what string, hist []string, p Params) {
		full := p.Name + ":" + sig
		if hasStaleStep(hist) {
			// stale-scan variant: candidate finding, analysed by hand (DESIGN §7)
			mu.Lock()
			defer mu.Unlock()
			st.StaleCandidates.Add(1)
			if !candSeen[full] && len(candidates) < 6 {
				candSeen[full] = true
				candidates = append(candidates, map[string]any{"signature": full, "what": what, "history": hist})
			}
			return
		}
		mu.Lock()
		if gateSeen[full] {
			mu.Unlock()
			return
		}
		gateSeen[full] = true
		mu.Unlock()
		// determinism gate: three replays, identical observations and verdict
		var ref []string
		for k := 0; k < 3; k++ {
			obs, sigs, err := trace(p, hist, false)
			got := append(append([]string{}, obs...), sigs...)
			if err != nil {
				got = []string{"error: " + err.Error()}
			}
			found := false
			for _, s := range sigs {
				if s == sig {
					found = true
				}
			}
			if k == 0 {
				ref = got
			}
			if !found || strings.Join(got, "\n") != strings.Join(ref, "\n") {
				mu.Lock()
				nondet = append(nondet, full)
				mu.Unlock()
				fmt.Printf("INFO nondeterminism: %s did not reproduce identically on replay %d; not reported\n", full, k+1)
				return
			}
		}
		run.Violation(full, what+"  [history: "+strings.Join(hist, " ")+"]", map[string]any{"params": p, "history": hist})
	}
	stop := func() bool { return run.Violations() >= 3 }

	var (
		sps                                  = spaces(run.Thorough())
		per                                  []map[string]any
		caps                                 []string
		states, trans, replays, rsteps, nont int64
		samples                              []any
		completed                            int
	)
	if only := os.Getenv("VERIF_C14_ONLY"); only != "" {
		var f []Params
		for _, p := range sps {
			if strings.Contains(p.Name, only) {
				f = append(f, p)
			}
		}
		sps = f
	}
	for _, p := range sps {
		if time.Now().After(deadline) {
			caps = append(caps, "deadline before "+p.Name)
			continue
		}
		if stop() {
			caps = append(caps, "stopped before "+p.Name)
			continue
		}
		r := runSpace(p, st, report, deadline, stop)
		states += r.States
		trans += r.Transitions
		replays += r.Replays
		rsteps += r.ReplaySteps
		nont += r.Nontrivial
		if r.Exhaustive {
			completed++
		} else {
			caps = append(caps, r.Cap)
		}
		per = append(per, map[string]any{"space": p.Name, "params": p, "states": r.States, "transitions": r.Transitions,
			"nontrivial_states": r.Nontrivial, "suffix_probes": r.Probes, "states_per_depth": r.PerDepth, "depth_completed": r.DepthDone,
			"exhaustive": r.Exhaustive, "wall_s": r.Wall})
		for _, h := range r.Samples {
			if len(samples) < 6 {
				samples = append(samples, map[string]any{"space": p.Name, "history": h})
			}
		}
		fmt.Printf("INFO space %-34s depth %d/%d states %d transitions %d wall %.1fs exhaustive=%v\n", p.Name, r.DepthDone, p.Depth, r.States, r.Transitions, r.Wall, r.Exhaustive)
	}
	// determinism re-check: explore the first completed small space again and require
	// identical counts (a difference means hidden state outside the canonical key)
	var recheck map[string]any
	for i, ps := range per {
		if ps["exhaustive"] != true || ps["states"].(int64) > 60000 || time.Now().After(deadline) || stop() {
			continue
		}
		r := runSpace(sps[i], &Stats{}, func(string, string, []string, Params) {}, deadline, nil)
		same := r.Exhaustive && r.States == ps["states"].(int64) && r.Transitions == ps["transitions"].(int64)
		recheck = map[string]any{"space": sps[i].Name, "states_first": ps["states"], "states_second": r.States,
			"transitions_first": ps["transitions"], "transitions_second": r.Transitions, "identical": same}
		if r.Exhaustive && !same {
			caps = append(caps, "nondeterminism_detected in "+sps[i].Name)
		}
		break
	}
	if len(nondet) > 0 {
		caps = append(caps, "nondeterminism_detected: "+strings.Join(nondet, ", "))
	}
	if len(samples) == 0 {
		samples = append(samples, map[string]any{"note": "no history of length >= 5 was reached"})
	}
	cov := map[string]any{
		"states":                        states,
		"transitions":                   trans,
		"traces_validated_against_impl": replays,
		"replay_steps_on_impl":          rsteps,
		"samples":                       samples,
		"evaluations":                   trans,
		"distinct_nontrivial":           nont,
		"rule": "state = canonical key (reference chain + persisted hint cache + client views + outstanding rescans + structural digest of the live TxNotifier); " +
			"transition = one operation executed on the real TxNotifier/HeightHintCache from a discovered state; every operation sequence up to the per-space depth is covered (level-synchronous BFS, shortest histories); " +
			"distinct_nontrivial = distinct states that some operation executed at their discovery depth reached while delivering a notification to a client or evaluating clause (ii)/(iv) with a true antecedent; " +
			"suffix probes (not counted in states/transitions): every distinct state with the notifier up, no NotifyHeight outstanding and a persisted hint is additionally extended by 'stop ; con:X' for every connectable non-empty block content X, executed on the real notifier/cache and judged by the same clauses, regardless of the space's restart budget",
		"exhaustive":          len(caps) == 0,
		"caps_hit":            append([]string{}, caps...),
		"spaces":              len(sps),
		"spaces_completed":    completed,
		"per_space":           per,
		"determinism_recheck": recheck,
		"outcome_counts": map[string]any{
			"Confirmed_received": st.Confirmed.Load(), "NegativeConf_received": st.NegativeConf.Load(), "Updates_received": st.Updates.Load(),
			"conf_Done_received": st.ConfDone.Load(), "Spend_received": st.Spend.Load(), "spend_Reorg_received": st.SpendReorg.Load(),
			"spend_Done_received": st.SpendDone.Load(), "rescans_found": st.RescanFound.Load(), "rescans_not_found": st.RescanNone.Load(), "rescan_results_refused": st.RescanNoop.Load(),
			"historical_dispatches": st.HistoricalDispatches.Load(), "registrations_without_dispatch": st.ImmediateRegs.Load(),
			"window_ops": st.WindowOps.Load(), "window_ops_that_changed_the_cache_after_the_read": st.WindowChangedRead.Load(),
			"clause_ii_evaluations": st.IIChecked.Load(), "clause_ii_antecedent_true": st.IIAntecedent.Load(),
			"clause_iv_entries_checked": st.IVChecked.Load(), "clause_iv_event_on_chain": st.IVBound.Load(),
			"cancels": st.Cancels.Load(), "stops": st.Stops.Load(), "offline_connects": st.OfflineConnects.Load(),
			"notifier_calls_under_quiescence_watchdog": st.NotifierCalls.Load(), "hint_commits": st.HintCommits.Load(),
			"suffix_probe_states": st.ProbeStates.Load(), "suffix_probe_states_skipped_no_persisted_hint": st.ProbeSkipped.Load(),
			"suffix_probes_executed_stop_then_connect": st.ProbeSuffixes.Load(),
			"relevant_tx_reports_of_a_spend_on_chain":  st.RelevantKnown.Load(), "relevant_tx_reports_ahead_of_the_block": st.RelevantAhead.Load(),
			"relevant_tx_reports_that_delivered_a_Spend": st.RelevantDelivered.Load(),
			"lazy_reads": st.LazyReads.Load(), "lazy_states_with_unread_Confirmed_or_Spend_judged": st.LazyUnreadConfirmed.Load(), "lazy_states_with_unread_reorg_notice": st.LazyUnreadNeg.Load(),
			"matcher_differential_scans": st.MatcherScans.Load(), "matcher_txs_tested": st.MatcherTxsTested.Load(), "matcher_matches": st.MatcherMatches.Load(),
			"pair_ops_ending_with_both_objects_events_in_one_block":            st.PairSameEventHeight.Load(),
			"pair_ops_ending_with_both_objects_queued_for_one_maturity_height": st.PairSameMaturityPending.Load(),
		},
		"stale_scan_candidates": map[string]any{"count": st.StaleCandidates.Load(), "examples": candidates,
			"note": "rescan result computed at dispatch time and delivered after later chain ops (thorough tier only); analysed by hand, never auto-reported"},
	}
	run.Assumptions = append(run.Assumptions,
		"universe: heights 100..106, one watched tx T (txid+script / script-only), one outpoint O with two conflicting spenders (pair spaces: plus an unrelated second watched tx U and second outpoint O' with one spender, nothing shared with T/O but the heights); numConfs 1..3; reorg safety limit 3 or 4; no block buried by the limit below the highest tip seen is disconnected",
		"clients read their channels promptly (drained after every notifier call) except in the lazy-* spaces, where a client reads only at explicit rd steps and the clauses are evaluated on what it holds or would read now; client height hints are valid promises (the event is not on the active chain below the hint at registration time)",
		"while the notifier is down the chain only grows, and after a start no block is disconnected until every request with a persisted hint has registered again (a notifier cannot lower the hint of a request it does not know; lnd documents the limitation at channeldb.CacheConfig.QueryDisable)",
		"the per-space restart budget bounds the search only: the terminal suffix probes stop the notifier in any state (a node can go down at any time)",
		"the backend's relevant-transaction feed (relevant-* spaces) is truthful: a reported spender is on the active chain at the reported height, or is in the block connected next",
		"historical rescans are computed on the active chain at delivery time (fresh); the stale-scan variant is explored in the thorough tier under a candidate label only",
		"TxNotifier methods are atomic under its mutex except the hint-cache read of Register*, which is explored explicitly (window spaces); data races are outside this check",
		"canonical key drops client ids (uint64), closures and the mutex of the notifier; everything else it stores is in the key")
	pprof.StopCPUProfile()
	if code := run.Finish(cov); code != 0 {
		os.Exit(code)
	}
}

func replay(t *testing.T, run *evid.Run, path string) {
	b, err := os.ReadFile(path)
	if err != nil {
		t.Fatalf("replay: %v", err)
	}
	var doc struct {
		Replay struct {
			Params  Params   `json:"params"`
			History []string `json:"history"`
		} `json:"replay"`
	}
	if err := json.Unmarshal(b, &doc); err != nil {
		t.Fatalf("replay: %v", err)
	}
	p, hist := doc.Replay.Params, doc.Replay.History
	fmt.Printf("INFO replaying %d steps in space %s (clients %+v, limit %d)\n", len(hist), p.Name, p.Clients, p.Limit)
	_, sigs, err := trace(p, hist, true)
	if err != nil {
		t.Fatalf("replay: %v", err)
	}
	for _, s := range sigs {
		run.Violation(p.Name+":"+s, "reproduced by replay of "+strings.Join(hist, " "), map[string]any{"params": p, "history": hist})
	}
	if len(sigs) == 0 {
		fmt.Printf("INFO replay finished: no violation\n")
	}
	os.Exit(run.Finish(map[string]any{"evaluations": 1, "distinct_nontrivial": 2, "states": len(hist) + 1, "transitions": len(hist),
		"traces_validated_against_impl": 1, "samples": []any{hist}}))
}
