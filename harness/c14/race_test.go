// C14, supplementary -race pass (thorough tier only; DESIGN §2.3): the operation-sequence
// exploration covers thread interleavings only under the premise that every TxNotifier
// method is atomic under the notifier's mutex (plus the explicitly explored hint-read
// window). This target runs the same operations free-running from several goroutines
// (chain feed, two confirmation clients, one spend client, their rescan deliveries) on
// one real TxNotifier + HeightHintCache under the race detector. It has no oracle of its
// own: a data race reported inside lnd code is a violation of the "all schedules"
// quantifier, reported only if it reproduces in three worker runs.
package c14

import (
	"bytes"
	"fmt"
	"os"
	"os/exec"
	"regexp"
	"strings"
	"sync"
	"testing"

	"github.com/btcsuite/btcd/chainhash/v2"
	"github.com/lightningnetwork/lnd/chainntnfs"
	"github.com/lightningnetwork/lnd/verifmc/evid"
)

// feedScript is the fixed chain feed: connects with every content, reorgs of depth 1..3.
var feedScript = strings.Fields("con:e con:T dis con:e con:T con:S1 dis dis con:S2 con:e dis dis dis con:TS1 con:e con:e dis con:e dis dis dis dis")

func raceWorker() {
	pdb, err := getDB()
	if err != nil {
		fmt.Println("worker: db:", err)
		os.Exit(3)
	}
	st := &Stats{}
	hc := &hintCache{inner: pdb.cache, window: func() {}, st: st}
	var (
		mu    sync.Mutex // protects the reference chain (harness state)
		chain refChain
	)
	chain.maxSeen = baseHeight
	chain.connect(chain.mkBlock("e"))
	lifetimes, updates := 60, 0
	for life := 0; life < lifetimes; life++ {
		n := chainntnfs.NewTxNotifier(chain.tip(), 4, hc, hc)
		rounds := 1
		var wg sync.WaitGroup
		stop := make(chan struct{})
		// chain feed
		wg.Add(1)
		go func() {
			defer wg.Done()
			defer close(stop)
			for r := 0; r < rounds; r++ {
				for _, op := range feedScript {
					f := strings.Split(op, ":")
					if f[0] == "con" {
						mu.Lock()
						b := chain.mkBlock(f[1])
						chain.connect(b)
						mu.Unlock()
						if err := n.ConnectTip(b.block, b.height); err != nil {
							fmt.Println("worker: ConnectTip:", err)
							os.Exit(3)
						}
						_ = n.NotifyHeight(b.height)
					} else {
						mu.Lock()
						b := chain.disconnect()
						mu.Unlock()
						if err := n.DisconnectTip(b.height); err != nil {
							fmt.Println("worker: DisconnectTip:", err)
							os.Exit(3)
						}
					}
				}
				// unwind to the initial chain so that the script is valid again
				for {
					mu.Lock()
					if chain.tip() <= baseHeight+1 {
						mu.Unlock()
						break
					}
					b := chain.disconnect()
					mu.Unlock()
					_ = n.DisconnectTip(b.height)
				}
			}
		}()
		confClient := func(txid *chainhash.Hash, numConfs uint32) {
			defer wg.Done()
			for i := 0; ; i++ {
				select {
				case <-stop:
					return
				default:
				}
				reg, err := n.RegisterConf(txid, uni.pkT, numConfs, oldHint)
				if err != nil {
					fmt.Println("worker: RegisterConf:", err)
					os.Exit(3)
				}
				if d := reg.HistoricalDispatch; d != nil {
					mu.Lock()
					det := chain.scanConf(d.StartHeight, d.EndHeight)
					mu.Unlock()
					_ = n.UpdateConfDetails(d.ConfRequest, det)
				}
				for k := 0; k < 20; k++ {
					select {
					case <-reg.Event.Confirmed:
					case <-reg.Event.NegativeConf:
					case <-reg.Event.Updates:
					case <-reg.Event.Done:
					default:
					}
				}
				reg.Event.Cancel()
			}
		}
		wg.Add(3)
		go confClient(&uni.hT, 1)
		go confClient(nil, 2)
		go func() {
			defer wg.Done()
			for {
				select {
				case <-stop:
					return
				default:
				}
				reg, err := n.RegisterSpend(&uni.O, uni.pkO, oldHint)
				if err != nil {
					fmt.Println("worker: RegisterSpend:", err)
					os.Exit(3)
				}
				if d := reg.HistoricalDispatch; d != nil {
					mu.Lock()
					det := chain.scanSpend(d.StartHeight, d.EndHeight)
					mu.Unlock()
					_ = n.UpdateSpendDetails(d.SpendRequest, det)
				}
				for k := 0; k < 20; k++ {
					select {
					case <-reg.Event.Spend:
					case <-reg.Event.Reorg:
					case <-reg.Event.Done:
					default:
					}
				}
				reg.Event.Cancel()
			}
		}()
		wg.Wait()
		n.TearDown()
	}
	rounds := lifetimes
	_ = updates

	fmt.Printf("worker: done rounds=%d calls=%d commits=%d\n", rounds, rounds*len(feedScript), st.HintCommits.Load())
}

var raceFrame = regexp.MustCompile(`(?m)^\s+(github\.com/lightningnetwork/lnd/(?:chainntnfs|channeldb)\S*)`)

func TestC14Race(t *testing.T) {
	if os.Getenv("VERIF_C14_RACE_WORKER") != "" {
		raceWorker()
		return
	}
	run := evid.Start("C14", "model_checking")
	if os.Getenv("VERIF_REPLAY") != "" {
		os.Exit(run.Finish(map[string]any{"evaluations": 1, "distinct_nontrivial": 2, "samples": []any{"race target has no replays"}}))
	}
	self := os.Getenv("VERIF_SELF")
	if self == "" {
		self = os.Args[0]
	}
	var (
		races  []string
		runs   int
		failed string
	)
	for k := 0; k < 3; k++ {
		cmd := exec.Command(self, "-test.run", "TestC14Race", "-test.count=1")
		cmd.Env = append(os.Environ(), "VERIF_C14_RACE_WORKER=1", "GORACE=halt_on_error=0")
		var out bytes.Buffer
		cmd.Stdout, cmd.Stderr = &out, &out
		err := cmd.Run()
		runs++
		s := out.String()
		if !strings.Contains(s, "WARNING: DATA RACE") {
			if err != nil && !strings.Contains(s, "worker: done") {
				failed = s
			}
			break
		}
		frame := "unknown"
		if m := raceFrame.FindStringSubmatch(s); m != nil {
			frame = m[1]
		}
		races = append(races, frame)
		fmt.Printf("INFO race worker run %d reported a data race at %s\n", k+1, frame)
	}
	if failed != "" {
		fmt.Printf("race worker failed without a race report:\n%s\n", failed)
		os.Exit(2)
	}
	if len(races) == 3 {
		run.Violation("race:"+races[0], "data race inside lnd while chain feed, clients and rescan deliveries run concurrently on one TxNotifier (reproduced in 3 worker runs); first lnd frame: "+races[0],
			map[string]any{"params": Params{Name: "race"}, "history": feedScript})
	}
	fmt.Printf("INFO race pass: %d worker run(s), %d with a race report\n", runs, len(races))
	cov := map[string]any{
		"race_pass": map[string]any{"worker_runs": runs, "runs_with_race_report": len(races), "feed_ops_per_run": 60 * len(feedScript),
			"note": "free-running goroutines under -race; no oracle besides the race detector"},
	}
	if code := run.Finish(cov); code != 0 {
		os.Exit(code)
	}
}
