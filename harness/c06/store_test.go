// C06 store half: exhaustive comparison of shachain.RevocationStore against the
// producer and against an independent BOLT-3 reference, for every prefix length k
// up to the tier bound, every single-bit corruption of the k-th secret for small k,
// and across Encode/FromBytes at every k.
package c06

import (
	"bytes"
	"crypto/sha256"
	"fmt"
	"os"
	"testing"

	"github.com/btcsuite/btcd/chainhash/v2"
	"github.com/lightningnetwork/lnd/shachain"
	"github.com/lightningnetwork/lnd/verifmc/evid"
)

const maxIdx = (uint64(1) << 48) - 1

// refGen is BOLT-3 generate_from_seed, written independently of lnd.
func refGen(seed [32]byte, I uint64) [32]byte {
	p := seed
	for b := 47; b >= 0; b-- {
		if I>>uint(b)&1 == 1 {
			p[b/8] ^= 1 << (uint(b) % 8)
			p = sha256.Sum256(p[:])
		}
	}
	return p
}

// refDerive derives the secret for index to from the secret at index from, or
// reports that this is impossible (BOLT-3 derive_secret).
func refDerive(from uint64, secret [32]byte, to uint64) ([32]byte, bool) {
	tz := 0
	for tz < 48 && from>>uint(tz)&1 == 0 {
		tz++
	}
	if from>>uint(tz) != to>>uint(tz) {
		return [32]byte{}, false
	}
	p := secret
	for b := tz - 1; b >= 0; b-- {
		if to>>uint(b)&1 == 1 {
			p[b/8] ^= 1 << (uint(b) % 8)
			p = sha256.Sum256(p[:])
		}
	}
	return p, true
}

// refStore is the boring reference: the full list of accepted secrets.
type refStore struct{ acc [][32]byte }

func (r *refStore) wouldAccept(s [32]byte) bool {
	k := uint64(len(r.acc))
	I := maxIdx - k
	for j := range r.acc {
		d, ok := refDerive(I, s, maxIdx-uint64(j))
		if ok && d != r.acc[j] {
			return false
		}
	}
	return true
}

func storeBytes(t *testing.T, s *shachain.RevocationStore) []byte {
	var b bytes.Buffer
	if err := s.Encode(&b); err != nil {
		t.Fatalf("encode: %v", err)
	}
	return b.Bytes()
}

func TestC06Store(t *testing.T) {
	run := evid.Start("C06", "exploration")
	samples := evid.NewSamples(6)
	outcomes := evid.NewCounter()
	var evals, nontrivial int

	kmax, kfull, kcorrupt := 4096, 1024, 256
	if run.Thorough() {
		kmax, kfull, kcorrupt = 65536, 4096, 1024
	}
	seeds := [][32]byte{{}, sha256.Sum256([]byte("verif-c06-seed-1")), sha256.Sum256([]byte("verif-c06-seed-2"))}
	for i := range seeds[0] {
		seeds[0][i] = 0xff
	}

	viol := func(sig, what string, rp any) { run.Violation(sig, what, rp) }

	// (0) producer == independent BOLT-3 derivation on structural indices up to 2^48-1.
	var structural []uint64
	for j := 0; j < 48; j++ {
		structural = append(structural, 1<<uint(j), 1<<uint(j)-1, 1<<uint(j)+1)
	}
	structural = append(structural, 0, maxIdx, maxIdx-1, 0xAAAAAAAAAAAA, 0x555555555555)
	for si, seed := range seeds {
		prod := shachain.NewRevocationProducer(chainhash.Hash(seed))
		for _, v := range structural {
			if v > maxIdx {
				continue
			}
			h, err := prod.AtIndex(v)
			evals++
			want := refGen(seed, maxIdx-v)
			if err != nil || [32]byte(*h) != want {
				viol(fmt.Sprintf("producer-mismatch seed=%d", si), fmt.Sprintf("Producer.AtIndex(%d) != BOLT-3 generate_from_seed (err=%v)", v, err), map[string]any{"seed": si, "index": v})
			}
			nontrivial++
		}
	}
	outcomes.Add("producer-structural")

	for si, seed := range seeds {
		prod := shachain.NewRevocationProducer(chainhash.Hash(seed))
		other := shachain.NewRevocationProducer(chainhash.Hash(seeds[(si+1)%len(seeds)]))
		store := shachain.NewRevocationStore()
		ref := &refStore{}
		for k := 0; k < kmax; k++ {
			sec, err := prod.AtIndex(uint64(k))
			if err != nil {
				t.Fatalf("producer: %v", err)
			}
			if [32]byte(*sec) != refGen(seed, maxIdx-uint64(k)) {
				viol(fmt.Sprintf("producer-mismatch seed=%d", si), fmt.Sprintf("AtIndex(%d) differs from BOLT-3", k), map[string]any{"seed": si, "index": k})
			}

			// Corruptions of the k-th secret, decided by the reference.
			if k < kcorrupt {
				var cands [][32]byte
				for bit := 0; bit < 256; bit++ {
					c := [32]byte(*sec)
					c[bit/8] ^= 1 << (uint(bit) % 8)
					cands = append(cands, c)
				}
				if k > 0 {
					p, _ := prod.AtIndex(uint64(k - 1))
					cands = append(cands, [32]byte(*p))
				}
				n, _ := prod.AtIndex(uint64(k + 1))
				o, _ := other.AtIndex(uint64(k))
				cands = append(cands, [32]byte(*n), [32]byte(*o))
				before := storeBytes(t, store)
				for ci, c := range cands {
					cp := *store
					h := chainhash.Hash(c)
					err := cp.AddNextEntry(&h)
					want := ref.wouldAccept(c)
					evals++
					if (err == nil) != want {
						viol(fmt.Sprintf("corrupt-accept-mismatch want=%v", want),
							fmt.Sprintf("seed %d k=%d candidate #%d: store accepted=%v, reference accepted=%v", si, k, ci, err == nil, want),
							map[string]any{"seed": si, "k": k, "cand": ci})
					}
					if err != nil {
						outcomes.Add("corrupt-rejected")
						nontrivial++
						if !bytes.Equal(storeBytes(t, &cp), before) {
							viol("rejected-insert-mutated-store", fmt.Sprintf("seed %d k=%d cand %d", si, k, ci), map[string]any{"seed": si, "k": k, "cand": ci})
						}
					} else {
						outcomes.Add("corrupt-accepted-unverifiable")
						// A corrupted leaf is necessarily accepted (nothing derives from
						// it); the *next* honest secret whose subtree covers it must
						// then be rejected iff the reference says so.
						r2 := &refStore{acc: append(append([][32]byte{}, ref.acc...), c)}
						nx := [32]byte(*n)
						h2 := chainhash.Hash(nx)
						err2 := cp.AddNextEntry(&h2)
						evals++
						if (err2 == nil) != r2.wouldAccept(nx) {
							viol("post-corrupt-next-mismatch", fmt.Sprintf("seed %d k=%d cand %d: next honest secret accepted=%v ref=%v", si, k, ci, err2 == nil, r2.wouldAccept(nx)), map[string]any{"seed": si, "k": k, "cand": ci})
						}
					}
				}
				if k < 2 && si == 0 {
					samples.Add(map[string]any{"kind": "corruption", "seed": si, "k": k, "candidates": len(cands)})
				}
			}

			if !ref.wouldAccept([32]byte(*sec)) {
				t.Fatalf("reference rejects honest secret k=%d", k)
			}
			if err := store.AddNextEntry(sec); err != nil {
				viol("honest-secret-rejected", fmt.Sprintf("seed %d: AddNextEntry rejected honest secret k=%d: %v", si, k, err), map[string]any{"seed": si, "k": k})
				break
			}
			ref.acc = append(ref.acc, [32]byte(*sec))
			evals++

			// size bound: 1 + n*(8+32) + 8 bytes, n <= 49
			enc := storeBytes(t, store)
			nb := int(enc[0])
			if nb > 49 || len(enc) != 1+nb*40+8 {
				viol("store-too-large", fmt.Sprintf("seed %d k=%d: %d buckets, %d bytes", si, k, nb, len(enc)), map[string]any{"seed": si, "k": k})
			}

			// lookups: all i<=k for small k, bit-pattern set otherwise
			var idx []uint64
			if k < kfull {
				for i := 0; i <= k; i++ {
					idx = append(idx, uint64(i))
				}
			} else {
				idx = append(idx, 0, 1, uint64(k), uint64(k-1))
				for j := uint(0); (1 << j) <= k; j++ {
					idx = append(idx, 1<<j, 1<<j-1)
					if 1<<j+1 <= k {
						idx = append(idx, 1<<j+1)
					}
				}
			}
			// serialisation round trip at every k
			rt, err := shachain.NewRevocationStoreFromBytes(bytes.NewReader(enc))
			if err != nil {
				viol("store-decode-failed", fmt.Sprintf("seed %d k=%d: %v", si, k, err), map[string]any{"seed": si, "k": k})
				break
			}
			if !bytes.Equal(storeBytes(t, rt), enc) {
				viol("store-reencode-differs", fmt.Sprintf("seed %d k=%d", si, k), map[string]any{"seed": si, "k": k})
			}
			for _, i := range idx {
				evals++
				got, err := store.LookUp(i)
				got2, err2 := rt.LookUp(i)
				if err != nil || err2 != nil || [32]byte(*got) != ref.acc[i] || [32]byte(*got2) != ref.acc[i] {
					viol("lookup-mismatch", fmt.Sprintf("seed %d after k=%d secrets LookUp(%d) wrong (err=%v/%v)", si, k+1, i, err, err2), map[string]any{"seed": si, "k": k, "i": i})
				}
				nontrivial++
			}
			// not-yet-received index must not be derivable
			if _, err := store.LookUp(uint64(k + 1)); err == nil {
				viol("future-secret-derivable", fmt.Sprintf("seed %d k=%d: LookUp(k+1) succeeded", si, k), map[string]any{"seed": si, "k": k})
			}
			// the deserialised store keeps accepting: swap it in every 64 steps
			if k%64 == 63 {
				store = rt
				outcomes.Add("continued-from-deserialised")
			}
			if k == 5 && si == 1 {
				samples.Add(map[string]any{"kind": "prefix", "seed": si, "k": k, "buckets": nb, "lookups": idx})
			}
		}
		outcomes.Add(fmt.Sprintf("seed-%d-complete", si))
	}

	cov := map[string]any{
		"evaluations":         evals,
		"distinct_nontrivial": nontrivial,
		"rule":                fmt.Sprintf("for 3 seeds, every prefix length k<%d: insert, size<=49 buckets, encode/decode fixpoint, LookUp(i)==reference for all i<=k when k<%d else the bit-pattern set; for k<%d every single-bit flip (256) + neighbour/other-seed secret decided by the full-list reference; non-trivial = lookups compared with the independent BOLT-3 derivation + corrupt candidates rejected", kmax, kfull, kcorrupt),
		"samples":             samples.List(),
		"outcome_classes":     outcomes.Map(),
		"bounds":              map[string]any{"kmax": kmax, "kfull": kfull, "kcorrupt": kcorrupt, "seeds": len(seeds)},
	}
	run.Assumptions = append(run.Assumptions, "indices beyond the tier's kmax are covered only structurally (producer vs independent BOLT-3 derivation on bit patterns up to 2^48-1)")
	if code := run.Finish(cov); code != 0 {
		os.Exit(code)
	}
}
