// C06 release half: on every revoke_and_ack the API returns (RevokeCurrentCommitment
// or retransmission from ProcessChanSyncMsg) in every state of a two-peer schedule
// with reconnects: the secret is the producer's secret of exactly the next height
// (no gap, repeats only as byte-identical retransmissions), the next point is the
// point of height+2, and at that instant the durable state already holds a newer
// local commitment. The monitor lives in engine/chanmc (onRevoke).
package c06rel

import (
	"os"
	"strconv"
	"testing"
	"time"

	"github.com/lightningnetwork/lnd/verifmc/chanmc"
	"github.com/lightningnetwork/lnd/verifmc/evid"
)

func TestC06Release(t *testing.T) {
	run := evid.Start("C06", "exploration")
	budget := 200 * time.Second
	if run.Thorough() {
		budget = 20 * time.Minute
	}
	if s := os.Getenv("VERIF_BUDGET_S"); s != "" {
		if n, err := strconv.Atoi(s); err == nil {
			budget = time.Duration(n) * time.Second
		}
	}
	if rp := os.Getenv("VERIF_REPLAY"); rp != "" {
		if err := chanmc.Replay(run, rp); err != nil {
			t.Fatalf("replay: %v", err)
		}
		os.Exit(run.Finish(map[string]any{"evaluations": 1, "distinct_nontrivial": 2, "rule": "replay", "samples": []any{rp}}))
	}
	var sp []chanmc.Space
	types := []string{"legacy", "lease"}
	if run.Thorough() {
		types = chanmc.AllTypes
	}
	// "Keeps this across serialisation / a newer commitment is already durable":
	// in every state, every auxiliary channeldb writer called through a handle
	// loaded at start-up must leave the revocation store, the producer state and
	// both commitments on disk as they were (terminal `side>X` probes).
	sideTypes, sideCuts := []string{"anchors", "taproot"}, 0
	if run.Thorough() {
		sideTypes, sideCuts = chanmc.AllTypes, 1
	}
	for i, typ := range sideTypes {
		sp = append(sp, chanmc.Space{Dev: -1, P: chanmc.Params{Type: typ, OpenerB: i%2 == 0, MaxCuts: sideCuts, CutOnlyInSync: true, SideWriters: true, Script: []chanmc.Intent{
			{By: 0, Amt: 50_000_000, Fate: "settle"}, {By: 1, Amt: 60_000_001, Fate: "fail"},
		}}})
	}
	for i, typ := range types {
		sp = append(sp, chanmc.Space{Dev: -1, P: chanmc.Params{Type: typ, OpenerB: i%2 == 1, MaxCuts: 2, CutOnlyInSync: true, NoDLP: i%2 == 0, ProbeLiveReest: true, Script: []chanmc.Intent{
			{By: 0, Amt: 50_000_000, Fate: "settle"}, {By: 1, Amt: 60_000_001, Fate: "settle"},
		}}})
	}
	agg := chanmc.RunSpaces(run, sp, time.Now().Add(budget), 0)
	cov := agg.Coverage("release rule monitored on every revoke_and_ack returned in every transition of the explored two-peer schedules with up to two reconnects; distinct_nontrivial = distinct canonical states; see oracle_counts.revocations_checked")
	if code := run.Finish(cov); code != 0 {
		os.Exit(code)
	}
}
