// C06 release half: on every revoke_and_ack the API returns (RevokeCurrentCommitment
// or retransmission from ProcessChanSyncMsg) in every state of a two-peer schedule
// with reconnects: the secret is the producer's secret of exactly the next height
// (no gap, repeats only as byte-identical retransmissions), the next point is the
// point of height+2, and at that instant the durable state already holds a newer
// local commitment. The monitor lives in engine/chanmc (onRevoke).
//
// "... or on reconnect": every channel_reestablish a party produces is judged field
// by field (next_commitment_number, next_revocation_number,
// your_last_per_commitment_secret, my_current_per_commitment_point, taproot nonce,
// channel id) against the explorer's own derivation from the two producers and the
// durable heights (engine/chanmc reest.go, Params.ReestMonitor): at every cut, in
// the live-object probe, and - read-only - in EVERY distinct state for both parties
// ("what would this node send if it restarted here", live object and fresh handle).
// "Rejects any secret not consistent with the earlier ones" at the channel level:
// wherever a revoke_and_ack is about to be delivered (live or retransmitted), the
// terminal action byz>X hands X's live object a lattice of wrong revocations
// (negated / +-1 / doubled scalar, all 256 single-bit flips, the secrets of the
// previous and the next two heights, zero, ones; honest / negated / repeated next
// point) which must all be refused without any state change, then the honest one,
// which must be accepted and stored exactly (engine/chanmc byz.go, Params.ByzRevocation).
// The reestablish family crosses all seven channel types with every cut point of a
// full dance in both directions (durable local height equal to / one ahead of / one
// behind the remote height) with the data-loss-protect fields on, so that the peer's
// own verification of the fields (legacy channels) is an end-to-end oracle as well.
package c06rel

import (
	"os"
	"strconv"
	"testing"
	"time"

	"github.com/lightningnetwork/lnd/verifmc/chanmc"
	"github.com/lightningnetwork/lnd/verifmc/evid"
)

func TestC06Release(t *testing.T) {
	run := evid.Start("C06", "exploration")
	budget := 200 * time.Second
	if run.Thorough() {
		budget = 20 * time.Minute
	}
	if s := os.Getenv("VERIF_BUDGET_S"); s != "" {
		if n, err := strconv.Atoi(s); err == nil {
			budget = time.Duration(n) * time.Second
		}
	}
	if rp := os.Getenv("VERIF_REPLAY"); rp != "" {
		if err := chanmc.Replay(run, rp); err != nil {
			t.Fatalf("replay: %v", err)
		}
		os.Exit(run.Finish(map[string]any{"evaluations": 1, "distinct_nontrivial": 2, "rule": "replay", "samples": []any{rp}}))
	}
	var sp []chanmc.Space
	reestHere := func(w *chanmc.World) { w.CheckReestHere() }
	// Reestablish family (first: it is small and must not be starved by the
	// deadline). Crossing rule: every channel type x every state of one complete
	// HTLC life cycle (add, sign, revoke, sign, revoke, settle, sign, revoke, sign,
	// revoke - each party passes through local==remote, local==remote+1 and
	// remote==local+1) x {a reconnect in that state, the live-object probe probe>X
	// wherever a commitment_signed is at the head of X's wire}; offerer and opener alternate
	// over the types (thorough adds, per type, the opposite opener/offerer with a
	// failed HTLC interleaved with a fee update; the two-reconnect spaces below
	// carry the same monitor).
	for i, typ := range chanmc.AllTypes {
		sp = append(sp, chanmc.Space{Dev: -1, OnState: reestHere, P: chanmc.Params{Type: typ, OpenerB: i%2 == 1, MaxCuts: 1, ReestMonitor: true, ProbeLiveReest: true, ByzRevocation: true, Script: []chanmc.Intent{
			{By: (i / 2) % 2, Amt: 50_000_000, Fate: "settle"},
		}}})
	}
	if run.Thorough() {
		for i, typ := range chanmc.AllTypes {
			sp = append(sp, chanmc.Space{Dev: -1, OnState: reestHere, P: chanmc.Params{Type: typ, OpenerB: i%2 == 0, MaxCuts: 1, ReestMonitor: true, ProbeLiveReest: true, ByzRevocation: true, Fees: []int64{7000}, Script: []chanmc.Intent{
				{By: 1 - (i/2)%2, Amt: 50_000_000, Fate: "fail"},
			}}})
		}
	}
	types := []string{"legacy", "lease"}
	if run.Thorough() {
		types = chanmc.AllTypes
	}
	// "Keeps this across serialisation / a newer commitment is already durable":
	// in every state, every auxiliary channeldb writer called through a handle
	// loaded at start-up must leave the revocation store, the producer state and
	// both commitments on disk as they were (terminal `side>X` probes).
	sideTypes, sideCuts := []string{"anchors", "taproot"}, 0
	if run.Thorough() {
		sideTypes, sideCuts = chanmc.AllTypes, 1
	}
	for i, typ := range sideTypes {
		sp = append(sp, chanmc.Space{Dev: -1, OnState: reestHere, P: chanmc.Params{Type: typ, OpenerB: i%2 == 0, MaxCuts: sideCuts, CutOnlyInSync: true, SideWriters: true, ReestMonitor: true, Script: []chanmc.Intent{
			{By: 0, Amt: 50_000_000, Fate: "settle"}, {By: 1, Amt: 60_000_001, Fate: "fail"},
		}}})
	}
	for i, typ := range types {
		sp = append(sp, chanmc.Space{Dev: -1, OnState: reestHere, P: chanmc.Params{Type: typ, OpenerB: i%2 == 1, MaxCuts: 2, CutOnlyInSync: true, NoDLP: i%2 == 0, ProbeLiveReest: true, ReestMonitor: true, ByzRevocation: run.Thorough(), Script: []chanmc.Intent{
			{By: 0, Amt: 50_000_000, Fate: "settle"}, {By: 1, Amt: 60_000_001, Fate: "settle"},
		}}})
	}
	agg := chanmc.RunSpaces(run, sp, time.Now().Add(budget), 0)
	cov := agg.Coverage("release rule monitored on every revoke_and_ack returned in every transition of the explored two-peer schedules with up to two reconnects; every channel_reestablish (at each reconnect and, read-only, for both parties in every distinct state) judged field by field against the producers and the durable heights; distinct_nontrivial = distinct canonical states; see oracle_counts.revocations_checked and oracle_counts.reestablish_*")
	// Byzantine-revocation probe (engine/chanmc/byz.go): per-cell counts make an
	// empty (type x height parity) cell visible.
	if oc, ok := cov["oracle_counts"].(map[string]any); ok {
		oc["byz_revocation_probes"] = chanmc.Byz.Probes.Load()
		oc["byz_wrong_revocations_delivered"] = chanmc.Byz.Variants.Load()
		oc["byz_wrong_revocations_refused_without_state_change"] = chanmc.Byz.Refused.Load()
		oc["byz_refused_but_in_memory_store_took_the_secret"] = chanmc.Byz.MemStoreDirty.Load()
		oc["byz_honest_accepted_after_lattice"] = chanmc.Byz.HonestAccepted.Load()
		oc["byz_secrets_reread_from_disk"] = chanmc.Byz.SecretsReread.Load()
		oc["byz_probes_per_cell"] = chanmc.Byz.Cells()
	}
	if code := run.Finish(cov); code != 0 {
		os.Exit(code)
	}
}
