// C11 harness, part 3: the enumerators. Each function lists EVERY point of a
// finite space (no sampling); the tier only chooses the bounds.
package c11

import (
	"encoding/json"
	"sort"
)

var threeMasks = []int{0x01, 0x80, 0xff}

func allMasks() []int {
	m := make([]int, 0, 255)
	for v := 1; v <= 255; v++ {
		m = append(m, v)
	}
	return m
}

func bitMasks() []int { return []int{0x01, 0x02, 0x04, 0x08, 0x10, 0x20, 0x40, 0x80, 0xff} }

var actLen = map[int]int{1: 50, 2: 50, 3: 66}

// otherEph returns variants of k that keep the static keys and change the
// initiator's, the responder's, or both ephemeral keys.
func otherEph(k Keys) []Keys {
	a, b, c := k, k, k
	a.EI = (k.EI + 2) % 4
	b.ER = (k.ER + 2) % 4
	c.EI, c.ER = (k.EI+2)%4, (k.ER+2)%4
	return []Keys{a, b, c}
}

func enumerate(thorough bool) []Case {
	var cs []Case
	add := func(c Case) { cs = append(cs, c) }

	// ---- hs: all (initiator static, responder static, targeted static) triples
	ephPairs := [][2]int{{0, 1}, {2, 3}}
	if thorough {
		ephPairs = append(ephPairs, [2]int{1, 0}, [2]int{3, 3})
	}
	for i := 0; i < 4; i++ {
		for r := 0; r < 4; r++ {
			for t := 0; t < 4; t++ {
				for _, e := range ephPairs {
					add(Case{F: "hs", Keys: Keys{I: i, R: r, T: t, EI: e[0], ER: e[1]}})
				}
			}
		}
	}

	// ---- hsmut: every single-byte replacement of every act; byte pairs
	for ci, k := range combos {
		masks := threeMasks
		if ci == 0 || thorough {
			masks = allMasks()
		}
		for act := 1; act <= 3; act++ {
			for p := 0; p < actLen[act]; p++ {
				for _, m := range masks {
					add(Case{F: "hsmut", Keys: k, Act: act, P1: p, M1: m})
				}
			}
		}
	}
	for act := 1; act <= 3; act++ {
		n := actLen[act]
		if thorough {
			for p := 0; p < n; p++ {
				for q := p + 1; q < n; q++ {
					for _, m1 := range threeMasks {
						for _, m2 := range threeMasks {
							add(Case{F: "hsmut", Keys: combos[0], Act: act, P1: p, M1: m1, P2: q, M2: m2})
						}
					}
				}
			}
		} else {
			for p := 0; p+1 < n; p++ {
				add(Case{F: "hsmut", Keys: combos[0], Act: act, P1: p, M1: 0xff, P2: p + 1, M2: 0xff})
				add(Case{F: "hsmut", Keys: combos[0], Act: act, P1: p, M1: 0x01, P2: p + 1, M2: 0x80})
			}
			// version byte together with each tag byte
			for q := n - 16; q < n; q++ {
				add(Case{F: "hsmut", Keys: combos[0], Act: act, P1: 0, M1: 0x01, P2: q, M2: 0x01})
			}
		}
	}

	// ---- hsswap: reflection, replay across sessions, every splice point
	for ci, k := range combos {
		add(Case{F: "hsswap", Op: "reflect12", Keys: k})
		for cj := range combos {
			if cj != ci {
				k2 := combos[cj]
				add(Case{F: "hsswap", Op: "act2as1", Keys: k, Keys2: &k2})
			}
		}
		for _, k2 := range otherEph(k) {
			k2 := k2
			for act := 1; act <= 3; act++ {
				add(Case{F: "hsswap", Op: "replay", Act: act, Keys: k, Keys2: &k2})
				for cut := 0; cut <= actLen[act]; cut++ {
					add(Case{F: "hsswap", Op: "splice", Act: act, K: cut, Keys: k, Keys2: &k2})
				}
			}
		}
	}

	// ---- dial: brontide.Dial over the in-memory conn
	for i := 0; i < 4; i++ {
		for r := 0; r < 4; r++ {
			for t := 0; t < 4; t++ {
				add(Case{F: "dial", Op: "keys", Keys: Keys{I: i, R: r, T: t, EI: 0, ER: (r + 1) % 4}})
			}
		}
	}
	for ci, k := range combos {
		masks := threeMasks
		if ci == 0 || thorough {
			masks = allMasks()
		}
		for p := 0; p < 50; p++ {
			for _, m := range masks {
				add(Case{F: "dial", Op: "a2xor", Keys: k, P1: p, M1: m})
			}
		}
		for cut := 0; cut < 50; cut++ {
			add(Case{F: "dial", Op: "a2trunc", Keys: k, K: cut})
		}
		add(Case{F: "dial", Op: "a2reflect", Keys: k})
		for _, k2 := range otherEph(k) {
			k2 := k2
			add(Case{F: "dial", Op: "a2stale", Keys: k, Keys2: &k2})
		}
	}

	// ---- listener: the responder half over loopback TCP
	ln := 520
	if thorough {
		ln = 1100
	}
	for i := 0; i < 4; i++ {
		for r := 0; r < 4; r++ {
			for t := 0; t < 4; t++ {
				add(Case{F: "listener", Op: "keys", Keys: Keys{I: i, R: r, T: t, EI: 0, ER: 0}, N: ln})
			}
		}
	}
	for ci, k := range combos {
		add(Case{F: "listener", Op: "a3ok", Keys: k})
		masks := threeMasks
		if thorough && ci == 0 {
			masks = bitMasks()
		}
		if ci != 0 && !thorough {
			masks = []int{0x01}
		}
		for p := 0; p < 50; p++ {
			for _, m := range masks {
				add(Case{F: "listener", Op: "a1xor", Keys: k, P1: p, M1: m})
			}
		}
		for p := 0; p < 66; p++ {
			for _, m := range masks {
				add(Case{F: "listener", Op: "a3xor", Keys: k, P1: p, M1: m})
			}
		}
		if ci == 0 || thorough {
			for cut := 0; cut < 50; cut++ {
				add(Case{F: "listener", Op: "a1trunc", Keys: k, K: cut})
			}
			for cut := 0; cut < 66; cut++ {
				add(Case{F: "listener", Op: "a3trunc", Keys: k, K: cut})
			}
		}
	}

	// ---- stream
	sn := 1600 // 3 rotations per direction (a rotation every 500 messages = 1000 seals)
	modes := []string{"msg", "split", "frag", "conn", "connsplit", "connread"}
	if thorough {
		sn = 3200
		for _, mode := range modes {
			for ci := range combos {
				for off := 0; off < 5; off++ {
					for sc := range scheds {
						add(Case{F: "stream", Mode: mode, Keys: combos[ci], N: sn, Off: off, Sched: sc})
					}
				}
			}
		}
	} else {
		for mi, mode := range modes {
			for off := 0; off < 5; off++ {
				add(Case{F: "stream", Mode: mode, Keys: combos[(off+mi)%4], N: sn, Off: off, Sched: (off + mi) % 3})
			}
		}
		for ci := range combos {
			for sc := range scheds {
				add(Case{F: "stream", Mode: "msg", Keys: combos[ci], N: sn, Off: (ci + sc) % 5, Sched: sc})
			}
		}
	}

	// ---- flush
	flushPos := []int{0, 499, 500}
	if thorough {
		flushPos = []int{0, 1, 498, 499, 500, 501, 999, 1000, 1499, 1500}
	}
	for _, size := range []int{0, 1, 17, 65535} {
		total := hdrLen + size + macLen
		var k1s []int
		if size <= 64 {
			for v := 0; v <= total; v++ {
				k1s = append(k1s, v)
			}
		} else {
			k1s = boundaryCuts(size)
		}
		inK1 := map[int]bool{}
		for _, v := range k1s {
			inK1[v] = true
		}
		for pi, pos := range flushPos {
			for dir := 0; dir < 2; dir++ {
				for _, eager := range []bool{false, true} {
					if eager && pi != 0 && !thorough {
						continue
					}
					for _, mode := range []string{"machine", "conn"} {
						if mode == "conn" && (dir != 0 || (pi != 0 && !thorough)) {
							continue
						}
						for _, k1 := range k1s {
							add(Case{F: "flush", Mode: mode, Keys: combos[(dir+pi)%4], Dir: dir, Pos: pos, Size: size, Plan: []int{k1}, Eager: eager})
							if k1 >= total {
								continue
							}
							// second cut: everywhere at message 0; at the rotation
							// positions the quick tier keeps all pairs only for the
							// 1-byte and the 65535-byte message
							pairs := thorough || (pi == 0 && !eager) || size == 1 || size > 64
							for k2 := 0; pairs && k1+k2 <= total; k2++ {
								if !inK1[k1+k2] {
									continue
								}
								add(Case{F: "flush", Mode: mode, Keys: combos[(dir+pi)%4], Dir: dir, Pos: pos, Size: size, Plan: []int{k1, k2}, Eager: eager})
							}
							if pi == 0 && !eager {
								add(Case{F: "flush", Mode: mode, Keys: combos[dir], Dir: dir, Pos: pos, Size: size, Plan: []int{k1}, Probe: true})
							}
						}
						// one byte per flush; stalled flushes
						if size <= 64 {
							ones := make([]int, total)
							for i := range ones {
								ones[i] = 1
							}
							add(Case{F: "flush", Mode: mode, Keys: combos[dir], Dir: dir, Pos: pos, Size: size, Plan: ones, Eager: eager})
							add(Case{F: "flush", Mode: mode, Keys: combos[dir], Dir: dir, Pos: pos, Size: size, Plan: []int{0, 0, 0, 3, 0, 0}, Eager: eager})
						}
					}
				}
			}
		}
	}
	if thorough {
		// every three-cut pattern of a 1-byte message (35-byte frame)
		total := hdrLen + 1 + macLen
		for k1 := 0; k1 < total; k1++ {
			for k2 := 0; k1+k2 < total; k2++ {
				for k3 := 0; k1+k2+k3 <= total; k3++ {
					add(Case{F: "flush", Mode: "machine", Keys: combos[2], Dir: k1 % 2, Pos: 499, Size: 1, Plan: []int{k1, k2, k3}})
				}
			}
		}
	}

	// ---- connwrite: chunked Conn.Write through the faulty conn
	frame := hdrLen + 65535 + macLen
	for _, size := range []int{65536, 2 * 65535, 2*65535 + 1} {
		last := size - (size-1)/65535*65535
		cuts := map[int]bool{}
		for c := 0; c*65535 < size; c++ {
			body := 65535
			if c == (size-1)/65535 {
				body = last
			}
			for _, b := range []int{0, 1, 2, 17, 18, 19, 20, hdrLen + body - 1, hdrLen + body, hdrLen + body + 1, hdrLen + body + 15, hdrLen + body + 16} {
				cuts[c*frame+b] = true
			}
			cuts[c*frame+hdrLen+body/2] = true
		}
		var ks []int
		for v := range cuts {
			ks = append(ks, v)
		}
		sort.Ints(ks)
		poss := []int{0, 499}
		if thorough {
			poss = []int{0, 498, 499, 500}
		}
		for _, pos := range poss {
			for _, eager := range []bool{false, true} {
				for _, k1 := range ks {
					add(Case{F: "connwrite", Keys: combos[pos%4], Pos: pos, Size: size, Plan: []int{k1}, Eager: eager})
					for _, k2 := range []int{0, 1, 17, 18, 19, 65535, frame - 1, frame} {
						add(Case{F: "connwrite", Keys: combos[pos%4], Pos: pos, Size: size, Plan: []int{k1, k2}, Eager: eager})
					}
				}
			}
		}
	}

	// ---- tamper
	tamperPos := []int{0, 499, 500}
	if thorough {
		tamperPos = []int{0, 499, 500, 999, 1000}
	}
	small := []int{0, 1, 2, 17, 32}
	for _, mode := range []string{"", "split", "conn", "connread"} {
		for dir := 0; dir < 2; dir++ {
			if (mode == "conn" || mode == "connread") && dir != 1 {
				continue
			}
			for pi, pos := range tamperPos {
				ks := []Keys{combos[0]}
				if thorough {
					ks = append(ks, combos[2])
				}
				for ki, k := range ks {
					for _, size := range append(append([]int{}, small...), 65535) {
						if mode == "connread" && size == 0 {
							continue
						}
						total := hdrLen + size + macLen
						base := Case{F: "tamper", Mode: mode, Keys: k, Dir: dir, Pos: pos, Size: size}
						// single-byte replacement
						var positions []int
						if size <= 64 {
							for p := 0; p < total; p++ {
								positions = append(positions, p)
							}
						} else {
							positions = []int{0, 1, 2, 17, 18, 19, hdrLen + size/2, hdrLen + size - 1, hdrLen + size, hdrLen + size + 1, total - 1}
						}
						masks := threeMasks
						switch {
						case thorough && mode == "" && ki == 0:
							masks = allMasks()
						case thorough:
						case mode == "" && pi == 0 && (size == 0 || size == 17):
							// quick: all 255 values on the empty and the 17-byte frame
							masks = allMasks()
						case mode == "" && pi == 0:
							masks = bitMasks()
						case mode != "" && (size == 1 || size == 32):
							masks = nil
						}
						for _, p := range positions {
							for _, m := range masks {
								c := base
								c.Op, c.P1, c.M1 = "xor", p, m
								add(c)
							}
						}
						// byte pairs
						if mode == "" && ki == 0 && size <= 17 {
							if thorough && pi == 0 {
								for p := 0; p < total; p++ {
									for q := p + 1; q < total; q++ {
										for _, m1 := range threeMasks {
											for _, m2 := range threeMasks {
												c := base
												c.Op, c.P1, c.M1, c.P2, c.M2 = "xor", p, m1, q, m2
												add(c)
											}
										}
									}
								}
							} else if pi == 0 || thorough {
								for p := 0; p+1 < total; p++ {
									c := base
									c.Op, c.P1, c.M1, c.P2, c.M2 = "xor", p, 0xff, p+1, 0xff
									add(c)
									c.M1, c.M2 = 0x01, 0x80
									add(c)
								}
								// one header byte together with one body byte
								for _, p := range []int{0, 1, 2, 17} {
									for q := hdrLen; q < total; q++ {
										c := base
										c.Op, c.P1, c.M1, c.P2, c.M2 = "xor", p, 0x01, q, 0x01
										add(c)
									}
								}
							}
						}
						if ki != 0 && !thorough {
							continue
						}
						// truncation at every byte
						var cuts []int
						if size <= 64 {
							for v := 0; v < total; v++ {
								cuts = append(cuts, v)
							}
						} else {
							cuts = []int{0, 1, 17, 18, 19, hdrLen + size - 1, hdrLen + size, total - 1}
						}
						for _, v := range cuts {
							c := base
							c.Op, c.K = "trunc", v
							add(c)
							c.Op = "delete"
							add(c)
							for _, b := range []int{0x00, 0xff} {
								c.Op, c.M1 = "insert", b
								add(c)
							}
							c.M1 = 0
						}
						for _, op := range []string{"swap", "drop", "replay", "hdrsplice", "bodysplice", "zero", "none"} {
							c := base
							c.Op = op
							add(c)
						}
						for _, v := range []int{1, 18, 40} {
							c := base
							c.Op, c.K = "extend", v
							add(c)
						}
						if size == 2 {
							c := base
							c.Op = "hbswap"
							add(c)
						}
						if mode == "" || mode == "split" {
							c := base
							c.Op = "reflect"
							add(c)
						}
						for _, k2 := range otherEph(k) {
							k2 := k2
							c := base
							c.Op, c.Keys2 = "xsession", &k2
							add(c)
						}
					}
				}
			}
		}
	}
	// structural ops on the remaining key combinations (machine mode, first message
	// and both sides of the first rotation)
	for _, k := range combos[1:] {
		for dir := 0; dir < 2; dir++ {
			for _, pos := range []int{0, 499, 500} {
				for _, size := range []int{0, 2, 17} {
					base := Case{F: "tamper", Keys: k, Dir: dir, Pos: pos, Size: size}
					for _, op := range []string{"swap", "drop", "replay", "hdrsplice", "bodysplice", "zero", "none", "reflect"} {
						c := base
						c.Op = op
						add(c)
					}
				}
			}
		}
	}

	// ---- duplex: one end writes (with interrupted flushes) and reads at the same
	// time; every case stands for ALL interleavings of its two threads
	for _, c := range enumDuplex(thorough) {
		add(c)
	}

	// ---- nonce
	nn := 1600
	if thorough {
		nn = 3200
	}
	add(Case{F: "nonce", Keys: combos[0], N: nn})

	// overlapping sub-spaces may name the same point twice; keep the first
	seen := make(map[string]bool, len(cs))
	out := cs[:0]
	for _, c := range cs {
		b, _ := json.Marshal(c)
		if !seen[string(b)] {
			seen[string(b)] = true
			out = append(out, c)
		}
	}
	return out
}

// boundaryCuts lists the accepted-byte counts within +-2 of every structural
// boundary of a large frame (start, header end, payload end, MAC end) plus the middle.
func boundaryCuts(size int) []int {
	total := hdrLen + size + macLen
	set := map[int]bool{}
	for _, b := range []int{0, hdrLen, hdrLen + size, total} {
		for d := -2; d <= 2; d++ {
			if v := b + d; v >= 0 && v <= total {
				set[v] = true
			}
		}
	}
	set[hdrLen+size/2] = true
	set[hdrLen-1] = true
	var out []int
	for v := range set {
		out = append(out, v)
	}
	sort.Ints(out)
	return out
}
