// C11 harness, part 1: the closed world the cases run in.
//
// Everything here uses the exported brontide API only (NewBrontideMachine,
// EphemeralGenerator, Machine.{Gen,Recv}Act*, WriteMessage, Flush, ReadMessage,
// ReadHeader, ReadBody, Dial, Conn.*, NewListener).  Key material is fixed; the far
// end of the in-memory net.Conn is a responder Machine driven inline, so a whole
// Dial runs single-threaded and deterministically.
package c11

import (
	"bytes"
	"crypto/sha256"
	"errors"
	"fmt"
	"io"
	"net"
	"time"

	"github.com/btcsuite/btcd/btcec/v2"
	"github.com/lightningnetwork/lnd/brontide"
	"github.com/lightningnetwork/lnd/keychain"
	"github.com/lightningnetwork/lnd/lnwire"
)

const (
	hdrLen = 18 // 2-byte length + 16-byte tag
	macLen = 16
)

// ---------------------------------------------------------------------------
// key material
// ---------------------------------------------------------------------------

func rep(b byte) []byte { return bytes.Repeat([]byte{b}, 32) }

func h(s string) []byte { x := sha256.Sum256([]byte(s)); return x[:] }

// statics[0], statics[1], ephs[0], ephs[1] are the BOLT-8 test-vector keys.
var (
	staticBytes = [][]byte{rep(0x11), rep(0x21), h("verif-c11-static-2"), h("verif-c11-static-3")}
	ephBytes    = [][]byte{rep(0x12), rep(0x22), h("verif-c11-eph-2"), h("verif-c11-eph-3")}
	statics     []*btcec.PrivateKey
	ephs        []*btcec.PrivateKey
)

func init() {
	for _, b := range staticBytes {
		k, _ := btcec.PrivKeyFromBytes(b)
		statics = append(statics, k)
	}
	for _, b := range ephBytes {
		k, _ := btcec.PrivKeyFromBytes(b)
		ephs = append(ephs, k)
	}
}

// Keys selects the key material of one session: initiator static, responder
// static, the static key the initiator *targets*, initiator ephemeral, responder
// ephemeral (indices into statics / ephs).
type Keys struct {
	I  int `json:"i"`
	R  int `json:"r"`
	T  int `json:"t"`
	EI int `json:"ei"`
	ER int `json:"er"`
}

func (k Keys) String() string { return fmt.Sprintf("I%d.R%d.T%d.e%d.e%d", k.I, k.R, k.T, k.EI, k.ER) }

// honest reports whether the initiator targets the responder's real key.
func (k Keys) honest() bool { return statics[k.T].PubKey().IsEqual(statics[k.R].PubKey()) }

// combos are the four honest key assignments used by the transport families.
var combos = []Keys{
	{I: 0, R: 1, T: 1, EI: 0, ER: 1}, // BOLT-8 vector assignment
	{I: 1, R: 0, T: 0, EI: 1, ER: 0}, // roles swapped
	{I: 2, R: 3, T: 3, EI: 2, ER: 3},
	{I: 3, R: 3, T: 3, EI: 3, ER: 2}, // same static key on both ends
}

func ephGen(i int) func(*brontide.Machine) {
	return brontide.EphemeralGenerator(func() (*btcec.PrivateKey, error) {
		return ephs[i], nil
	})
}

func newInitiator(k Keys) *brontide.Machine {
	return brontide.NewBrontideMachine(
		true, &keychain.PrivKeyECDH{PrivKey: statics[k.I]}, statics[k.T].PubKey(), ephGen(k.EI),
	)
}

func newResponder(k Keys) *brontide.Machine {
	return brontide.NewBrontideMachine(
		false, &keychain.PrivKeyECDH{PrivKey: statics[k.R]}, nil, ephGen(k.ER),
	)
}

// session is a pair of real Machines plus the genuine handshake acts.
type session struct {
	init, resp *brontide.Machine
	a1         [brontide.ActOneSize]byte
	a2         [brontide.ActTwoSize]byte
	a3         [brontide.ActThreeSize]byte
}

// handshake runs the three acts on fresh machines. failedAt names the first
// failing call ("" = completed).
func handshake(k Keys) (s *session, failedAt string, err error) {
	s = &session{init: newInitiator(k), resp: newResponder(k)}
	if s.a1, err = s.init.GenActOne(); err != nil {
		return s, "GenActOne", err
	}
	if err = s.resp.RecvActOne(s.a1); err != nil {
		return s, "RecvActOne", err
	}
	if s.a2, err = s.resp.GenActTwo(); err != nil {
		return s, "GenActTwo", err
	}
	if err = s.init.RecvActTwo(s.a2); err != nil {
		return s, "RecvActTwo", err
	}
	if s.a3, err = s.init.GenActThree(); err != nil {
		return s, "GenActThree", err
	}
	if err = s.resp.RecvActThree(s.a3); err != nil {
		return s, "RecvActThree", err
	}
	return s, "", nil
}

// ends returns (writer, reader) for a direction: 0 = initiator -> responder.
func (s *session) ends(dir int) (w, r *brontide.Machine) {
	if dir == 0 {
		return s.init, s.resp
	}
	return s.resp, s.init
}

// ---------------------------------------------------------------------------
// message contents
// ---------------------------------------------------------------------------

var patternBase = func() []byte {
	b := make([]byte, 0, 65535+512+32)
	var ctr [8]byte
	for len(b) < 65535+512 {
		for i := 7; i >= 0; i-- {
			ctr[i]++
			if ctr[i] != 0 {
				break
			}
		}
		x := sha256.Sum256(ctr[:])
		b = append(b, x[:]...)
	}
	return b
}()

// pattern is the plaintext of message idx in direction dir: a window into a fixed
// non-periodic byte string, so neighbouring messages and the two directions differ
// (a reordered or reflected delivery cannot compare equal) at no per-message cost.
func pattern(dir, idx, size int) []byte {
	off := (idx*37 + dir*211 + 1) % 509
	return patternBase[off : off+size : off+size]
}

// ffwdSize is the size of the i-th fast-forward message.
func ffwdSize(i int) int { return i % 3 }

// ---------------------------------------------------------------------------
// faulty writers and the in-memory net.Conn
// ---------------------------------------------------------------------------

type timeoutErr struct{}

func (timeoutErr) Error() string   { return "verif: i/o timeout" }
func (timeoutErr) Timeout() bool   { return true }
func (timeoutErr) Temporary() bool { return true }

var errTimeout net.Error = timeoutErr{}

func isTimeout(err error) bool {
	var ne net.Error
	return errors.As(err, &ne) && ne.Timeout()
}

// budget implements "accept k bytes, then time out". allow < 0 = unlimited.
// eager = also report the timeout when the allowance is used up exactly (the
// behaviour of the repo's own timeoutWriter); otherwise an error is returned only
// together with a short write, like a real net.Conn.
type budget struct {
	allow int
	eager bool
}

func (b *budget) take(w *bytes.Buffer, p []byte) (int, error) {
	if b.allow < 0 {
		return w.Write(p)
	}
	n := len(p)
	if n > b.allow {
		n = b.allow
	}
	w.Write(p[:n])
	b.allow -= n
	if n < len(p) || (b.eager && b.allow == 0) {
		return n, errTimeout
	}
	return n, nil
}

// faultWriter is the io.Writer handed to Machine.Flush.
type faultWriter struct {
	w *bytes.Buffer
	b budget
}

func (f *faultWriter) Write(p []byte) (int, error) { return f.b.take(f.w, p) }

type dummyAddr struct{}

func (dummyAddr) Network() string { return "tcp" }
func (dummyAddr) String() string  { return "127.0.0.1:9735" }

// pipe is a synchronous in-memory net.Conn. The near end is used by
// brontide.Dial / brontide.Conn (the initiator); the far end is a responder
// Machine driven inline from Write during the handshake. After the handshake,
// bytes written by the initiator accumulate in toResp (subject to the write
// budget) and bytes for the initiator are taken from toInit.
type pipe struct {
	resp    *brontide.Machine
	stage   int // 0: expecting act one, 1: expecting act three, 2: transport
	hsIn    []byte
	toInit  bytes.Buffer
	toResp  bytes.Buffer
	respErr error
	closed  bool
	a1      []byte // act one as received (for the reflect tamper)

	// act-two tampering
	mutAct2 func(genuine []byte, actOne []byte) []byte

	bud budget

	// duplex family (all optional, nil/zero = behaviour unchanged): scheduling
	// hooks run at the start of every transport-phase Write / Read, and rdStops
	// lists the offsets (in bytes delivered since the stops were installed) at
	// which a Read returns short, like a TCP segment boundary.
	onWrite func()
	onRead  func()
	rdStops []int
	rdOff   int
}

func newPipe(resp *brontide.Machine) *pipe {
	return &pipe{resp: resp, bud: budget{allow: -1}}
}

func (p *pipe) Write(b []byte) (int, error) {
	if p.closed {
		return 0, net.ErrClosed
	}
	if p.stage == 2 {
		if p.onWrite != nil {
			p.onWrite()
		}
		return p.bud.take(&p.toResp, b)
	}
	p.hsIn = append(p.hsIn, b...)
	if p.respErr != nil {
		return len(b), nil
	}
	if p.stage == 0 && len(p.hsIn) >= brontide.ActOneSize {
		var a1 [brontide.ActOneSize]byte
		copy(a1[:], p.hsIn)
		p.a1 = append([]byte{}, a1[:]...)
		p.hsIn = p.hsIn[brontide.ActOneSize:]
		if err := p.resp.RecvActOne(a1); err != nil {
			p.respErr = fmt.Errorf("RecvActOne: %w", err)
			return len(b), nil
		}
		a2, err := p.resp.GenActTwo()
		if err != nil {
			p.respErr = fmt.Errorf("GenActTwo: %w", err)
			return len(b), nil
		}
		out := a2[:]
		if p.mutAct2 != nil {
			out = p.mutAct2(out, p.a1)
		}
		p.toInit.Write(out)
		p.stage = 1
	}
	if p.stage == 1 && len(p.hsIn) >= brontide.ActThreeSize {
		var a3 [brontide.ActThreeSize]byte
		copy(a3[:], p.hsIn)
		p.hsIn = p.hsIn[brontide.ActThreeSize:]
		if err := p.resp.RecvActThree(a3); err != nil {
			p.respErr = fmt.Errorf("RecvActThree: %w", err)
			return len(b), nil
		}
		p.stage = 2
	}
	return len(b), nil
}

func (p *pipe) Read(b []byte) (int, error) {
	if p.closed {
		return 0, net.ErrClosed
	}
	if p.onRead != nil {
		p.onRead()
	}
	if p.toInit.Len() == 0 {
		// Nothing will ever arrive in a single-threaded world: the peer is gone.
		return 0, io.EOF
	}
	if p.rdStops != nil {
		b = b[:stopLimit(p.rdStops, p.rdOff, len(b))]
	}
	n, err := p.toInit.Read(b)
	p.rdOff += n
	return n, err
}

// stopLimit caps a read of n bytes starting at stream offset off so that it does
// not cross the next stop.
func stopLimit(stops []int, off, n int) int {
	for _, s := range stops {
		if s > off && s-off < n {
			n = s - off
		}
	}
	return n
}

func (p *pipe) Close() error                       { p.closed = true; return nil }
func (p *pipe) LocalAddr() net.Addr                { return dummyAddr{} }
func (p *pipe) RemoteAddr() net.Addr               { return dummyAddr{} }
func (p *pipe) SetDeadline(t time.Time) error      { return nil }
func (p *pipe) SetReadDeadline(t time.Time) error  { return nil }
func (p *pipe) SetWriteDeadline(t time.Time) error { return nil }

// dialPipe runs brontide.Dial over a fresh pipe whose far end is the responder of k.
func dialPipe(k Keys, mut func([]byte, []byte) []byte) (*brontide.Conn, *pipe, error) {
	p := newPipe(newResponder(k))
	p.mutAct2 = mut
	addr := &lnwire.NetAddress{
		IdentityKey: statics[k.T].PubKey(),
		Address:     &net.TCPAddr{IP: net.IPv4(127, 0, 0, 1), Port: 9735},
	}
	conn, err := brontide.Dial(
		&keychain.PrivKeyECDH{PrivKey: statics[k.I]}, addr, time.Second,
		func(network, address string, timeout time.Duration) (net.Conn, error) {
			return p, nil
		},
	)
	return conn, p, err
}
