// C11 — transport delivers exactly the bytes sent, in order, or fails; never altered.
//
// Exhaustive bounded enumeration on the real brontide code (see enum_test.go for the
// spaces, cases_test.go for the oracles). All cases are independent executions on
// fresh Machines, so they are simply distributed over a worker pool; VERIF_SEED only
// rotates the order.
package c11

import (
	"encoding/json"
	"fmt"
	"os"
	"runtime"
	"sort"
	"strconv"
	"sync"
	"sync/atomic"
	"testing"
	"time"

	"github.com/lightningnetwork/lnd/verifmc/evid"
)

func gcd(a, b int) int {
	for b != 0 {
		a, b = b, a%b
	}
	return a
}

func info(format string, a ...any) { fmt.Printf("INFO "+format+"\n", a...) }

func TestC11(t *testing.T) {
	run := evid.Start("C11", "exploration")
	if rp := os.Getenv("VERIF_REPLAY"); rp != "" {
		replay(t, run, rp)
		return
	}

	budget := 165 * time.Second
	if run.Thorough() {
		budget = 27 * time.Minute
	}
	if s := os.Getenv("VERIF_BUDGET_S"); s != "" {
		if n, err := strconv.Atoi(s); err == nil {
			budget = time.Duration(n) * time.Second
		}
	}
	deadline := time.Now().Add(budget)

	cases := enumerate(run.Thorough())
	if only := os.Getenv("C11_ONLY"); only != "" { // development aid: one family
		var f []Case
		for _, c := range cases {
			if c.F == only {
				f = append(f, c)
			}
		}
		cases = f
	}
	// Work order: a fixed stride permutation interleaves the families (so a run
	// cut short by the time budget has touched every family, and the long stream
	// cases do not pile up at the end); VERIF_SEED only rotates it. The set of
	// cases executed by a complete run is the same for every seed.
	if n := len(cases); n > 0 {
		stride := 1000003 % n
		for stride < 1 || gcd(stride, n) != 1 {
			stride++
		}
		off := ((run.Seed() % n) + n) % n
		perm := make([]Case, n)
		for i := range perm {
			perm[i] = cases[(off+i*stride)%n]
		}
		cases = perm
	}

	// The enumerators must not produce the same point twice (distinct counts are
	// measured, not assumed).
	dups := 0
	{
		seen := make(map[string]bool, len(cases))
		for _, c := range cases {
			b, _ := json.Marshal(c)
			if seen[string(b)] {
				dups++
			}
			seen[string(b)] = true
		}
	}

	var (
		mu        sync.Mutex
		evals     int
		executed  int
		nt        = map[string]struct{}{}
		outcomes  = evid.NewCounter()
		perFamily = map[string]int{}
		famTime   = map[string]time.Duration{}
		samples   = map[string][]any{}
		next      int64
		stopped   int32
	)
	workers := runtime.GOMAXPROCS(0)
	var wg sync.WaitGroup
	for w := 0; w < workers; w++ {
		wg.Add(1)
		go func() {
			defer wg.Done()
			for {
				i := int(atomic.AddInt64(&next, 1)) - 1
				if i >= len(cases) {
					return
				}
				if i%64 == 0 && time.Now().After(deadline) {
					atomic.StoreInt32(&stopped, 1)
				}
				if atomic.LoadInt32(&stopped) == 1 {
					return
				}
				c := cases[i]
				t0 := time.Now()
				res := c.run(nolog)
				dt := time.Since(t0)
				if res.v != nil {
					if res.rc != nil {
						c = *res.rc
					}
					if !confirm(c, res.v) {
						mu.Lock()
						outcomes.Add("nondeterminism_detected:" + c.F)
						mu.Unlock()
						cj, _ := json.Marshal(c)
						info("not reproducible in 3 re-runs, not judged (a harness defect unless the case involves Dial's random ephemeral keys): %s on %s", res.v.sig, cj)
						continue
					}
					run.Violation(res.v.sig, res.v.what, c)
				}
				mu.Lock()
				executed++
				evals += res.evals
				perFamily[c.F]++
				famTime[c.F] += dt
				for _, k := range res.nt {
					nt[k] = struct{}{}
				}
				if len(samples[c.F]) < 2 && res.v == nil && res.outcome != "" {
					samples[c.F] = append(samples[c.F], map[string]any{"case": c, "outcome": res.outcome})
				}
				mu.Unlock()
				outcomes.Add(c.F + ":" + res.outcome)
			}
		}()
	}
	wg.Wait()

	var smp []any
	fams := make([]string, 0, len(samples))
	for f := range samples {
		fams = append(fams, f)
	}
	sort.Strings(fams)
	for _, f := range fams {
		smp = append(smp, samples[f]...)
	}
	cpu := map[string]any{}
	for f, d := range famTime {
		cpu[f] = float64(int(d.Seconds()*10)) / 10
	}
	inconclusive := 0
	for k, v := range outcomes.Map() {
		if len(k) > 22 && k[:22] == "listener:inconclusive:" {
			inconclusive += v
		}
	}
	cov := map[string]any{
		"evaluations":         evals,
		"distinct_nontrivial": len(nt),
		"rule": "cases = every point of the finite spaces listed in bounds (enum_test.go), each an execution of the real brontide.Machine / Conn / Dial / Listener on fresh state; " +
			"evaluations = oracle decisions (one per case, one per message for stream/listener traffic, one per seal for the nonce family); " +
			"distinct_nontrivial = distinct case classes in which an oracle clause was exercised non-vacuously: a tampered/foreign input that differs from every genuine one and was rejected " +
			"(keyed by family, act or frame size, byte position(s)/cut, direction, rotation phase and error class - the 255 replacement values of one position count once), " +
			"a partial-write pattern that really interrupted the frame (keyed by the cut regions), " +
			"or a (mode, direction, size, rotation phase, key epoch) in which a delivered message was compared byte-for-byte, " +
			"or (duplex) a schedule that really nests one end's read steps inside its write steps or vice versa, keyed by (API mode, role, sizes, rotation phases, cut regions, read fragmentation, number of writer segments before the first / last reader segment); " +
			"for the duplex family a case is a whole schedule space and every executed schedule is one evaluation",
		"samples":             smp,
		"cases_enumerated":    len(cases),
		"cases_executed":      executed,
		"duplicate_cases":     dups,
		"cases_per_family":    perFamily,
		"worker_s_per_family": cpu, // wall time spent inside cases, summed over the workers
		"outcome_classes":     outcomes.Map(),
		"distinct_outcomes":   outcomes.Distinct(),
		"inconclusive_cases":  inconclusive,
		"workers":             workers,
		"bounds":              boundsText(run.Thorough()),
	}
	if atomic.LoadInt32(&stopped) == 1 {
		cov["exhaustive"] = false
		cov["caps_hit"] = []string{fmt.Sprintf("time budget %s: %d of %d cases executed", budget, executed, len(cases))}
	} else if inconclusive > 0 {
		cov["exhaustive"] = false
		cov["caps_hit"] = []string{fmt.Sprintf("%d loopback-TCP listener cases were inconclusive (guard timeout / socket error)", inconclusive)}
	} else {
		cov["exhaustive"] = true
	}
	run.Assumptions = append(run.Assumptions,
		"fixed key material (4 static and 4 ephemeral secp256k1 keys, incl. the BOLT-8 vector keys) stands for 'all key pairs'; Dial and Listener draw their own random ephemeral keys, which no oracle depends on",
		"'all byte strings' is covered through the bounded neighbourhoods listed in bounds: every single-byte replacement of every act and of every frame byte for payloads <= 32 bytes, boundary bytes for 65535-byte payloads, byte pairs, truncation/insertion/deletion at every offset, swaps, replays, reflections, splices",
		"an AEAD forgery (probability 2^-128 per tampered input) would be reported as a violation",
		"only the FIRST read of tampered data is judged; lnd drops the connection on a read error, and Decrypt advancing the nonce on failure is not judged",
		"nonce uniqueness is observed black-box through ciphertext equality of identical plaintexts; this relies on header and body both being sealed with empty associated data (true for BOLT-8)",
		"Conn.Read on an empty (0-byte) record returns (0, io.EOF) from the drained buffer; recorded as an observation (zero bytes delivered), not judged",
		"duplex: the two goroutines of the real program are taken to interleave at the granularity of calls into the transport (sequentially consistent, a goroutine is descheduled only where it can block); finer-grained data races inside one call are out of scope",
		"duplex: data returned by a read is compared again after all later operations of the same end (the API hands the caller its own buffer)",
		"the responder half of brontide.Conn is reachable only through Listener over loopback TCP; a guard timeout there is 'inconclusive', never a violation",
	)
	fmt.Printf("INFO C11 %s: %d cases (%d executed), %d evaluations, %d distinct non-trivial classes, %d outcome classes\n",
		run.Tier(), len(cases), executed, evals, len(nt), outcomes.Distinct())
	if code := run.Finish(cov); code != 0 {
		os.Exit(code)
	}
}

// confirm re-runs a violating case three times (determinism gate): the same
// signature must come out each time, otherwise it is a harness defect, not a
// violation.
func confirm(c Case, v *viol) bool {
	for i := 0; i < 3; i++ {
		r := c.run(nolog)
		if r.v == nil || r.v.sig != v.sig {
			return false
		}
	}
	return true
}

func replay(t *testing.T, run *evid.Run, path string) {
	b, err := os.ReadFile(path)
	if err != nil {
		t.Fatalf("replay: %v", err)
	}
	var art struct {
		Signature string `json:"signature"`
		Replay    Case   `json:"replay"`
	}
	if err := json.Unmarshal(b, &art); err != nil {
		t.Fatalf("replay: %v", err)
	}
	c := art.Replay
	cj, _ := json.Marshal(c)
	info("replaying case %s", cj)
	info("recorded signature: %s", art.Signature)
	var sigs []string
	for i := 0; i < 3; i++ {
		lg := nolog
		if i == 0 {
			lg = info
		}
		res := c.run(lg)
		if res.v != nil {
			sigs = append(sigs, res.v.sig)
			if i == 0 {
				run.Violation(res.v.sig, res.v.what, c)
			}
		} else {
			sigs = append(sigs, "held:"+res.outcome)
		}
	}
	info("three runs: %v", sigs)
	code := run.Finish(map[string]any{
		"evaluations": 3, "distinct_nontrivial": 2, "rule": "replay of one recorded case, three times",
		"samples": []any{c}, "exhaustive": true,
	})
	if code != 0 {
		os.Exit(code)
	}
}

func boundsText(thorough bool) map[string]any {
	b := map[string]any{
		"keys":      "4 static x 4 static x 4 targeted static keys, 2 ephemeral pairs (thorough 4); transport families on 4 honest combinations (BOLT-8 vector keys, roles swapped, a third pair, same static key on both ends)",
		"hsmut":     "acts 1/2/3 (50/50/66 B): every position x all 255 replacement values on the BOLT-8 combination (thorough: on all 4), {01,80,ff} on the others; byte pairs: adjacent + version-with-tag (thorough: all pairs x {01,80,ff}^2)",
		"hsswap":    "act one reflected as act two; act two as act one; acts 1/2/3 replayed into a session with other ephemeral keys (initiator's, responder's, both); every splice point of two sessions' acts",
		"dial":      "brontide.Dial over a synchronous in-memory conn with an inline responder: 64 key triples; act two: every position x 255 values (BOLT-8 combination; thorough all), every truncation 0..49, reflected act one, stale act two",
		"listener":  "brontide.Listener over loopback TCP: 64 key triples with traffic across the first rotation in both directions through two Conns; raw initiator with every position of act one/three x {01,80,ff} (thorough 9 masks), every truncation",
		"stream":    "sizes {0,1,2,65534,65535} cycled with every offset; 1600 (thorough 3200) messages per direction = 3 (6) rotations each way; 3 interleaving schedules; readers: ReadMessage, ReadHeader+ReadBody, ReadMessage from a one-byte-per-Read source, Conn.ReadNextMessage, Conn.ReadNextHeader/Body, Conn.Read",
		"flush":     "sizes {0,1,17}: every first allowance k1 in [0,frame], every second allowance k2 in [0,frame-k1], one byte per flush, stalled flushes; size 65535: every k1,k1+k2 within +-2 of frame start/header end/payload end/MAC end; at message index {0,499,500} (thorough {0,1,498..501,999,1000,1499,1500}); both directions; Machine.Flush and Conn.Write/Flush; both timeout conventions; WriteMessage while pending",
		"connwrite": "Conn.Write of 65536 / 131070 / 131071 bytes (2-3 records): first allowance at every record boundary +-, second allowance from {0,1,17,18,19,65535,frame-1,frame}; resume = Flush until nil then Write the rest",
		"tamper":    "payload sizes {0,1,2,17,32}: every frame byte x 255 values at message 0 (thorough also at 499,500,999,1000), {01,80,ff} at the rotation positions; 65535: boundary bytes; byte pairs; truncation, deletion, insertion (00,ff) at every offset; swap, drop, replay, header/body splice, header<->body, zero frame, reflection, other-session frame; readers: ReadMessage, ReadHeader+ReadBody, Conn.ReadNextMessage, Conn.Read; both directions",
		"duplex":    "one end (Machine as initiator and as responder via ReadMessage or ReadHeader+ReadBody; dialled Conn via Write/ReadNextMessage, WriteMessage+Flush/ReadNextHeader+Body, Write/Read) runs a writer thread (WriteMessage, Flush with allowance k1 [,k2], Flush to completion, per message) and a reader thread (inbound messages already on the wire) - ALL interleavings of their segments (scheduling points: thread start, between two outbound messages, every transport Write inside Flush, every transport Read inside ReadHeader/ReadBody), 10..495 schedules per case. (A) 1 out x 1 in at message 0: out sizes {0,1,17} (thorough {0,1,2,17,32}) x every k1 in [0,frame] x inbound delivered whole or split mid-header; boundary k1 x inbound sizes {0,17} x inbound split at {1,2,17,18,19,frame-1} (thorough every offset, except Conn.Write-based modes); (B) out index x in index over {0,499,500}^2 (thorough {0,499,500,501,999,1000}^2 for the Machine modes and WriteMessage+Flush/ReadNextHeader+Body) x boundary k1; (C) 65535-byte frames either/both ways x k1 within +-2 of every boundary; (D) 2 out x 2 in with cuts in the first {0,7,18,20} (thorough every k1 of the 35-byte frame) and second {none,0,18} message; (E) two cuts k1 in {0,1,17}, k2 in {0,1,to header end,+1} (thorough all k1,k2 of a 1-byte message for ReadMessage and the Conn WriteMessage+Flush pair); both timeout conventions (quick: eager only for 1-byte/Machine). Cases at message 0/0 run their schedules back to back on one session while all indexes stay < 400 (mid-epoch indexes are taken as equivalent); all other cases use a fresh session per schedule at the exact indexes",
		"nonce":     "6 sessions x 2 directions x 1600 (thorough 3200) identical 2-byte messages = 3200 (6400) seals per direction, 3 (6) rotations",
	}
	b["tier"] = map[bool]string{false: "quick", true: "thorough"}[thorough]
	return b
}
