// C11 harness, part 2: the case families and their oracles.
//
// A Case is a fully explicit, JSON-serialisable description of one execution of
// the real brontide code (it is also the replay artefact). Every family has ONE
// oracle that does not depend on the particular case:
//
//	hs / dial / listener  the handshake completes  <=>  the initiator targets the
//	                      responder's real static key; then each side's traffic
//	                      decrypts at the other and not at itself.
//	hsmut / hsswap        an act is accepted  =>  it is byte-identical to a genuine
//	                      act for the receiver's current state.
//	stream                every message read equals the message written, in order.
//	flush / connwrite     whatever the writer's accept-k-bytes-then-time-out
//	                      behaviour: counts are exact, an incomplete flush reports
//	                      the timeout, and the peer reads exactly the bytes written.
//	tamper                a read yields data  =>  the bytes fed start with the
//	                      genuine ciphertext of the next message, and the data is
//	                      that message.
//	nonce                 equal plaintexts never produce equal ciphertexts.
//	duplex                (duplex_test.go) whatever the interleaving of one end's
//	                      write activity with its read activity: both directions
//	                      deliver exactly the bytes written, in order.
package c11

import (
	"bytes"
	"errors"
	"fmt"
	"io"
	"net"
	"runtime/debug"
	"strings"
	"testing/iotest"
	"time"

	"github.com/lightningnetwork/lnd/brontide"
	"github.com/lightningnetwork/lnd/keychain"
	"github.com/lightningnetwork/lnd/lnwire"
)

// Case is one execution. Unused fields stay zero.
type Case struct {
	F     string `json:"f"`
	Keys  Keys   `json:"keys"`
	Keys2 *Keys  `json:"keys2,omitempty"`
	Op    string `json:"op,omitempty"`
	Mode  string `json:"mode,omitempty"`
	Dir   int    `json:"dir,omitempty"`  // 0 initiator->responder, 1 responder->initiator
	Pos   int    `json:"pos,omitempty"`  // index (in its direction) of the message under test
	Size  int    `json:"size,omitempty"` // plaintext size
	Act   int    `json:"act,omitempty"`
	P1    int    `json:"p1,omitempty"` // byte position / xor mask pairs
	M1    int    `json:"m1,omitempty"`
	P2    int    `json:"p2,omitempty"`
	M2    int    `json:"m2,omitempty"`
	K     int    `json:"k,omitempty"`    // cut position
	Plan  []int  `json:"plan,omitempty"` // per-call write allowances ("accept k bytes then time out")
	Eager bool   `json:"eager,omitempty"`
	Probe bool   `json:"probe,omitempty"` // try WriteMessage while a flush is pending
	N     int    `json:"n,omitempty"`
	Off   int    `json:"off,omitempty"`
	Sched int    `json:"sched,omitempty"`

	// duplex family (duplex_test.go)
	InPos   int      `json:"inpos,omitempty"`   // index of the first inbound message (direction 1-Dir)
	Sizes   []int    `json:"sizes,omitempty"`   // outbound message sizes
	InSizes []int    `json:"insizes,omitempty"` // inbound message sizes
	Plans   [][]int  `json:"plans,omitempty"`   // per outbound message: write allowances of the successive flushes
	Stops   []int    `json:"stops,omitempty"`   // inbound stream offsets at which a Read returns short
	Ilv     string   `json:"ilv,omitempty"`     // explicit interleaving (w/r per segment); "" = every interleaving
	Hist    []string `json:"hist,omitempty"`    // with Ilv: interleavings executed before it on the same session
}

type viol struct{ sig, what string }

type result struct {
	outcome string   // outcome class (information only)
	nt      []string // distinct non-trivial case classes exercised
	evals   int
	v       *viol
	rc      *Case // replay artefact if it differs from the enumerated case (one schedule of a schedule space)
}

type logf func(format string, a ...any)

func nolog(string, ...any) {}

func (r *result) fail(sig, what string, a ...any) {
	if r.v == nil {
		r.v = &viol{sig: sig, what: fmt.Sprintf(what, a...)}
	}
}

// run executes the case; a panic inside lnd becomes a violation.
func (c Case) run(lg logf) (res result) {
	defer func() {
		if p := recover(); p != nil {
			st := string(debug.Stack())
			if len(st) > 1500 {
				st = st[:1500]
			}
			res.v = &viol{sig: "panic f=" + c.F + " op=" + c.Op, what: fmt.Sprintf("panic: %v\n%s", p, st)}
			res.outcome = "panic"
		}
	}()
	switch c.F {
	case "hs":
		runHS(c, lg, &res)
	case "hsmut":
		runHSMut(c, lg, &res)
	case "hsswap":
		runHSSwap(c, lg, &res)
	case "dial":
		runDial(c, lg, &res)
	case "listener":
		runListener(c, lg, &res)
	case "stream":
		runStream(c, lg, &res)
	case "flush":
		runFlush(c, lg, &res)
	case "connwrite":
		runConnWrite(c, lg, &res)
	case "tamper":
		runTamper(c, lg, &res)
	case "nonce":
		runNonce(c, lg, &res)
	case "duplex":
		runDuplex(c, lg, &res)
	default:
		panic("unknown family " + c.F)
	}
	return res
}

// classify maps an error to a coarse class (information only, never an oracle).
func classify(err error) string {
	if err == nil {
		return "ok"
	}
	s := err.Error()
	switch {
	case errors.Is(err, io.ErrUnexpectedEOF):
		return "short"
	case errors.Is(err, io.EOF):
		return "eof"
	case isTimeout(err):
		return "timeout"
	case strings.Contains(s, "invalid handshake version"):
		return "version"
	case strings.Contains(s, "message authentication failed"):
		return "mac"
	case strings.Contains(s, "public key") || strings.Contains(s, "pubkey") || strings.Contains(s, "not on") || strings.Contains(s, "invalid"):
		return "pubkey"
	case errors.Is(err, brontide.ErrMessageNotFlushed):
		return "not-flushed"
	}
	if len(s) > 40 {
		s = s[:40]
	}
	return "other:" + s
}

// encode makes w encrypt msg and returns the complete ciphertext.
func encode(w *brontide.Machine, msg []byte) ([]byte, error) {
	var b bytes.Buffer
	if err := w.WriteMessage(msg); err != nil {
		return nil, fmt.Errorf("WriteMessage: %w", err)
	}
	n, err := w.Flush(&b)
	if err != nil {
		return nil, fmt.Errorf("Flush: %w", err)
	}
	if n != len(msg) {
		return nil, fmt.Errorf("Flush returned %d for a %d-byte message", n, len(msg))
	}
	return append([]byte{}, b.Bytes()...), nil
}

// honestSession returns a completed session or records a violation.
func honestSession(k Keys, res *result) *session {
	s, at, err := handshake(k)
	if at != "" {
		res.fail("hs-honest-fails at="+at, "handshake with keys %s (initiator targets the responder's real key) failed in %s: %v", k, at, err)
		return nil
	}
	return s
}

// ffwd advances one direction by pos delivered messages (each verified).
func ffwd(send func([]byte) error, recv func() ([]byte, error), dir, pos int, res *result) bool {
	for i := 0; i < pos; i++ {
		m := pattern(dir, i, ffwdSize(i))
		if err := send(m); err != nil {
			res.fail("ffwd-send-error", "message %d (dir %d, %d bytes) could not be sent: %v", i, dir, len(m), err)
			return false
		}
		got, err := recv()
		if err != nil || !bytes.Equal(got, m) {
			res.fail(fmt.Sprintf("delivery-mismatch dir=%d", dir), "message %d (dir %d, %d bytes) read back as %d bytes, err=%v", i, dir, len(m), len(got), err)
			return false
		}
	}
	return true
}

func machineIO(w, r *brontide.Machine, wire *bytes.Buffer) (func([]byte) error, func() ([]byte, error)) {
	send := func(m []byte) error {
		if err := w.WriteMessage(m); err != nil {
			return err
		}
		n, err := w.Flush(wire)
		if err == nil && n != len(m) {
			err = fmt.Errorf("Flush returned %d for %d bytes", n, len(m))
		}
		return err
	}
	recv := func() ([]byte, error) { return r.ReadMessage(wire) }
	return send, recv
}

func rotPhase(i int) string {
	switch i % 500 {
	case 498, 499, 0, 1:
		return fmt.Sprintf("rot%+d", (i+250)%500-250)
	}
	return "mid"
}

// ---------------------------------------------------------------------------
// hs: key-pair combinations
// ---------------------------------------------------------------------------

func runHS(c Case, lg logf, res *result) {
	k := c.Keys
	res.evals = 1
	s, at, err := handshake(k)
	lg("handshake keys=%s honest=%v: first failing call=%q err=%v", k, k.honest(), at, err)
	if !k.honest() {
		if at == "" {
			res.fail("hs-completes-with-wrong-static-key", "keys %s: initiator targets static key %d but responder owns %d, yet all six acts succeeded", k, k.T, k.R)
		}
		res.outcome = "rejected@" + at + ":" + classify(err)
		res.nt = append(res.nt, "hs/reject/"+k.String())
		return
	}
	if at != "" {
		res.fail("hs-honest-fails at="+at, "keys %s: honest handshake failed in %s: %v", k, at, err)
		return
	}
	// send keys of each side == receive keys of the other; never its own.
	mA, mB := pattern(0, 0, 33), pattern(1, 0, 34)
	cA, err := encode(s.init, mA)
	if err != nil {
		res.fail("encode-error", "initiator: %v", err)
		return
	}
	cB, err := encode(s.resp, mB)
	if err != nil {
		res.fail("encode-error", "responder: %v", err)
		return
	}
	got, err := s.resp.ReadMessage(bytes.NewReader(cA))
	lg("responder reads initiator's first message: %d bytes err=%v", len(got), err)
	if err != nil || !bytes.Equal(got, mA) {
		res.fail("hs-keys-mismatch dir=0", "keys %s: initiator's first message does not decrypt at the responder: err=%v", k, err)
		return
	}
	got, err = s.init.ReadMessage(bytes.NewReader(cB))
	lg("initiator reads responder's first message: %d bytes err=%v", len(got), err)
	if err != nil || !bytes.Equal(got, mB) {
		res.fail("hs-keys-mismatch dir=1", "keys %s: responder's first message does not decrypt at the initiator: err=%v", k, err)
		return
	}
	if out, err := s.init.ReadMessage(bytes.NewReader(cA)); err == nil {
		res.fail("tamper-accepted op=reflect", "keys %s: initiator decrypted its own ciphertext (%d bytes): send key == receive key", k, len(out))
		return
	}
	if out, err := s.resp.ReadMessage(bytes.NewReader(cB)); err == nil {
		res.fail("tamper-accepted op=reflect", "keys %s: responder decrypted its own ciphertext (%d bytes)", k, len(out))
		return
	}
	res.evals += 4
	res.outcome = "complete"
	res.nt = append(res.nt, "hs/complete/"+k.String())
}

// ---------------------------------------------------------------------------
// hsmut: byte corruptions of the acts
// ---------------------------------------------------------------------------

func actRegion(act, p int) string {
	switch {
	case p == 0:
		return "version"
	case act < 3 && p < 34:
		return "ephemeral"
	case act == 3 && p < 50:
		return "static-ct"
	}
	return "tag"
}

func mutate(b []byte, c Case) []byte {
	x := append([]byte{}, b...)
	x[c.P1] ^= byte(c.M1)
	if c.M2 != 0 {
		x[c.P2] ^= byte(c.M2)
	}
	return x
}

// toAct feeds a byte string to the receiver of act n in session state st.
type hsState struct {
	i, r *brontide.Machine
}

// advance brings fresh machines to the point where act n is about to be received
// and returns the genuine act n.
func advance(k Keys, act int) (st hsState, genuine []byte, err error) {
	st = hsState{i: newInitiator(k), r: newResponder(k)}
	a1, err := st.i.GenActOne()
	if err != nil {
		return st, nil, fmt.Errorf("GenActOne: %w", err)
	}
	if act == 1 {
		return st, a1[:], nil
	}
	if err = st.r.RecvActOne(a1); err != nil {
		return st, nil, fmt.Errorf("RecvActOne: %w", err)
	}
	a2, err := st.r.GenActTwo()
	if err != nil {
		return st, nil, fmt.Errorf("GenActTwo: %w", err)
	}
	if act == 2 {
		return st, a2[:], nil
	}
	if err = st.i.RecvActTwo(a2); err != nil {
		return st, nil, fmt.Errorf("RecvActTwo: %w", err)
	}
	a3, err := st.i.GenActThree()
	if err != nil {
		return st, nil, fmt.Errorf("GenActThree: %w", err)
	}
	return st, a3[:], nil
}

func (st hsState) recv(act int, x []byte) error {
	switch act {
	case 1:
		var a [brontide.ActOneSize]byte
		copy(a[:], x)
		return st.r.RecvActOne(a)
	case 2:
		var a [brontide.ActTwoSize]byte
		copy(a[:], x)
		return st.i.RecvActTwo(a)
	default:
		var a [brontide.ActThreeSize]byte
		copy(a[:], x)
		return st.r.RecvActThree(a)
	}
}

func runHSMut(c Case, lg logf, res *result) {
	res.evals = 1
	st, g, err := advance(c.Keys, c.Act)
	if err != nil {
		res.fail("hs-honest-fails at=advance", "keys %s: could not reach act %d honestly: %v", c.Keys, c.Act, err)
		return
	}
	x := mutate(g, c)
	lg("act %d genuine  %x", c.Act, g)
	lg("act %d tampered %x", c.Act, x)
	err = st.recv(c.Act, x)
	lg("RecvAct%d -> %v", c.Act, err)
	region := actRegion(c.Act, c.P1)
	if err == nil {
		res.fail(fmt.Sprintf("hs-tampered-act-accepted act=%d region=%s", c.Act, region),
			"keys %s: act %d with byte %d xor %#02x (and byte %d xor %#02x) was accepted by RecvAct", c.Keys, c.Act, c.P1, c.M1, c.P2, c.M2)
		return
	}
	res.outcome = fmt.Sprintf("act%d-%s:%s", c.Act, region, classify(err))
	key := fmt.Sprintf("hsmut/%d/%d", c.Act, c.P1)
	if c.M2 != 0 {
		key += fmt.Sprintf("+%d", c.P2)
	}
	res.nt = append(res.nt, key+"/"+classify(err))
}

// ---------------------------------------------------------------------------
// hsswap: acts reflected, replayed from another session, spliced
// ---------------------------------------------------------------------------

// foreignActGenuine reports whether act n produced in session `from` is, by the
// protocol itself, a genuine act n for the receiver in the state of session `to`
// (so accepting it is correct):
//
//	act one   - any act one built for the receiver's static key (the responder has
//	            no other state yet);
//	act two   - the initiator's state is (targeted key, own ephemeral); ANY act two
//	            from the real owner of the targeted key that answers the same act
//	            one is genuine, whatever the responder's ephemeral key;
//	act three - the responder's state is (own static, own ephemeral, act one seen);
//	            an act three from any initiator static key for that exact state is
//	            genuine.
func foreignActGenuine(from, to Keys, act int) bool {
	same := func(a, b int) bool { return statics[a].PubKey().IsEqual(statics[b].PubKey()) }
	sameE := func(a, b int) bool { return ephs[a].PubKey().IsEqual(ephs[b].PubKey()) }
	switch act {
	case 1:
		return same(from.T, to.R)
	case 2:
		return from.honest() && same(from.R, to.T) && same(from.T, to.T) && sameE(from.EI, to.EI)
	default:
		return same(from.R, to.R) && same(from.T, to.T) && sameE(from.EI, to.EI) && sameE(from.ER, to.ER)
	}
}

func runHSSwap(c Case, lg logf, res *result) {
	res.evals = 1
	k := c.Keys
	k2 := k
	if c.Keys2 != nil {
		k2 = *c.Keys2
	}
	var (
		x       []byte   // what is fed
		allowed [][]byte // acts that may legitimately be accepted
		act     = c.Act
		st      hsState
		err     error
	)
	switch c.Op {
	case "reflect12": // initiator is handed its own act one as act two
		var g []byte
		st, g, err = advance(k, 2)
		if err == nil {
			allowed = [][]byte{g}
			_, x, err = advance(k, 1)
			act = 2
		}
	case "act2as1": // a fresh responder is handed an act two as act one
		_, x, err = advance(k, 2)
		if err == nil {
			var g []byte
			st, g, err = advance(k2, 1)
			// valid act ones for this responder: the one generated for it
			allowed = [][]byte{g}
			act = 1
		}
	case "replay": // act from session k fed into session k2 (other ephemerals)
		_, x, err = advance(k, act)
		if err == nil {
			var g []byte
			st, g, err = advance(k2, act)
			allowed = [][]byte{g}
			if foreignActGenuine(k, k2, act) {
				allowed = append(allowed, x)
			}
		}
	case "splice": // prefix of session k's act, suffix of session k2's, fed into k
		var g1, g2 []byte
		st, g1, err = advance(k, act)
		if err == nil {
			_, g2, err = advance(k2, act)
		}
		if err == nil {
			x = append(append([]byte{}, g1[:c.K]...), g2[c.K:]...)
			allowed = [][]byte{g1}
			if foreignActGenuine(k2, k, act) {
				allowed = append(allowed, g2)
			}
		}
	default:
		panic("hsswap op " + c.Op)
	}
	if err != nil {
		res.fail("hs-honest-fails at=advance", "keys %s/%s op %s: honest prefix failed: %v", k, k2, c.Op, err)
		return
	}
	legit := false
	for _, a := range allowed {
		if bytes.Equal(a, x) {
			legit = true
		}
	}
	lg("op=%s act=%d k=%d fed %x (identical to a genuine act: %v)", c.Op, act, c.K, x, legit)
	err = st.recv(act, x)
	lg("RecvAct%d -> %v", act, err)
	switch {
	case err == nil && !legit:
		res.fail(fmt.Sprintf("hs-foreign-act-accepted op=%s act=%d", c.Op, act),
			"keys %s/%s: RecvAct%d accepted bytes that are not a genuine act for its state (op %s, cut %d)", k, k2, act, c.Op, c.K)
	case err != nil && legit:
		res.fail(fmt.Sprintf("hs-genuine-act-rejected op=%s act=%d", c.Op, act),
			"keys %s/%s: RecvAct%d rejected a genuine act (op %s, cut %d): %v", k, k2, act, c.Op, c.K, err)
	}
	res.outcome = fmt.Sprintf("%s-act%d:%s", c.Op, act, classify(err))
	if !legit {
		res.nt = append(res.nt, fmt.Sprintf("hsswap/%s/%d/%d/%s", c.Op, act, c.K, classify(err)))
	}
}

// ---------------------------------------------------------------------------
// dial: brontide.Dial over the synchronous in-memory conn
// ---------------------------------------------------------------------------

func runDial(c Case, lg logf, res *result) {
	res.evals = 1
	k := c.Keys
	var mut func(g, a1 []byte) []byte
	switch c.Op {
	case "keys":
	case "a2xor":
		mut = func(g, _ []byte) []byte { return mutate(g, c) }
	case "a2trunc":
		mut = func(g, _ []byte) []byte { return g[:c.K] }
	case "a2reflect":
		mut = func(_, a1 []byte) []byte { return a1 }
	case "a2stale": // an act two produced for another initiator ephemeral
		mut = func(_, _ []byte) []byte {
			_, g, err := advance(*c.Keys2, 2)
			if err != nil {
				panic(err)
			}
			return g
		}
	default:
		panic("dial op " + c.Op)
	}
	conn, p, err := dialPipe(k, mut)
	lg("Dial keys=%s op=%s -> conn=%v err=%v; responder side: stage=%d err=%v", k, c.Op, conn != nil, err, p.stage, p.respErr)
	tampered := c.Op != "keys"
	if tampered || !k.honest() {
		if err == nil || conn != nil {
			if tampered {
				res.fail("dial-accepts-tampered-act2 op="+c.Op, "keys %s: Dial returned a connection although act two was tampered (%s p1=%d m1=%#x k=%d)", k, c.Op, c.P1, c.M1, c.K)
			} else {
				res.fail("hs-completes-with-wrong-static-key", "keys %s: Dial returned a connection although the initiator targets key %d and the responder owns %d", k, k.T, k.R)
			}
			return
		}
		res.outcome = "dial-" + c.Op + ":" + classify(err)
		res.nt = append(res.nt, fmt.Sprintf("dial/%s/%s/%d/%d/%s", c.Op, k, c.P1, c.K, classify(err)))
		return
	}
	if err != nil || conn == nil {
		res.fail("hs-honest-fails at=Dial", "keys %s: Dial failed: %v", k, err)
		return
	}
	if p.respErr != nil || p.stage != 2 {
		res.fail("hs-honest-fails at=responder", "keys %s: Dial succeeded but the responder did not complete: %v", k, p.respErr)
		return
	}
	if !conn.RemotePub().IsEqual(statics[k.T].PubKey()) || !conn.LocalPub().IsEqual(statics[k.I].PubKey()) {
		res.fail("conn-identity-wrong", "keys %s: Conn.RemotePub/LocalPub do not match the session's static keys", k)
		return
	}
	mA, mB := pattern(0, 0, 40), pattern(1, 0, 41)
	n, err := conn.Write(mA)
	if err != nil || n != len(mA) {
		res.fail("conn-write-error", "Conn.Write: n=%d err=%v", n, err)
		return
	}
	got, err := p.resp.ReadMessage(&p.toResp)
	if err != nil || !bytes.Equal(got, mA) {
		res.fail("hs-keys-mismatch dir=0", "keys %s: Conn.Write does not decrypt at the responder: %v", k, err)
		return
	}
	cB, err := encode(p.resp, mB)
	if err != nil {
		res.fail("encode-error", "responder: %v", err)
		return
	}
	p.toInit.Write(cB)
	got, err = conn.ReadNextMessage()
	if err != nil || !bytes.Equal(got, mB) {
		res.fail("hs-keys-mismatch dir=1", "keys %s: responder's message does not decrypt at the dialled Conn: %v", k, err)
		return
	}
	res.evals += 2
	res.outcome = "dial-complete"
	res.nt = append(res.nt, "dial/complete/"+k.String())
}

// ---------------------------------------------------------------------------
// listener: brontide.NewListener over loopback TCP (the responder half of conn.go
// can only be reached this way). Outcomes are decided by explicit event order, not
// by time; a guard timeout or a network error is "inconclusive", never a violation.
// ---------------------------------------------------------------------------

const guard = 30 * time.Second

func runListener(c Case, lg logf, res *result) {
	res.evals = 1
	k := c.Keys
	l, err := brontide.NewListener(&keychain.PrivKeyECDH{PrivKey: statics[k.R]}, "127.0.0.1:0", brontide.DisabledBanClosure)
	if err != nil {
		res.outcome = "inconclusive:listen:" + classify(err)
		return
	}
	defer l.Close()
	type acc struct {
		c   net.Conn
		err error
	}
	accCh := make(chan acc, 1)
	go func() {
		cn, err := l.Accept()
		// Accept returns a typed nil *Conn inside the interface on failure
		if bc, ok := cn.(*brontide.Conn); ok && bc == nil {
			cn = nil
		}
		accCh <- acc{cn, err}
	}()
	wait := func() (acc, bool) {
		select {
		case a := <-accCh:
			return a, true
		case <-time.After(guard):
			return acc{}, false
		}
	}
	addr := l.Addr().(*net.TCPAddr)

	if c.Op == "keys" {
		na := &lnwire.NetAddress{IdentityKey: statics[k.T].PubKey(), Address: addr}
		conn, derr := brontide.Dial(&keychain.PrivKeyECDH{PrivKey: statics[k.I]}, na, guard, net.DialTimeout)
		if conn != nil {
			defer conn.Close()
		}
		if derr != nil && isTimeout(derr) {
			res.outcome = "inconclusive:dial-timeout"
			return
		}
		a, ok := wait()
		if !ok {
			res.outcome = "inconclusive:accept-timeout"
			return
		}
		if a.c != nil {
			defer a.c.Close()
		}
		lg("listener keys=%s: Dial err=%v; Accept conn=%v err=%v", k, derr, a.c != nil, a.err)
		if a.err != nil && isTimeout(a.err) {
			// the listener's own 5 s handshake read deadline fired (overloaded host)
			res.outcome = "inconclusive:listener-deadline"
			return
		}
		if !k.honest() {
			if derr == nil || a.c != nil || a.err == nil {
				res.fail("hs-completes-with-wrong-static-key", "keys %s over TCP: Dial err=%v, Accept conn=%v err=%v", k, derr, a.c != nil, a.err)
			}
			res.outcome = "listener-reject:" + classify(derr)
			res.nt = append(res.nt, "listener/reject/"+k.String())
			return
		}
		if derr != nil || a.err != nil || a.c == nil {
			res.fail("hs-honest-fails at=listener", "keys %s over TCP: Dial err=%v, Accept err=%v", k, derr, a.err)
			return
		}
		rc := a.c.(*brontide.Conn)
		if !rc.RemotePub().IsEqual(statics[k.I].PubKey()) || !rc.LocalPub().IsEqual(statics[k.R].PubKey()) {
			res.fail("conn-identity-wrong", "keys %s: accepted Conn reports a remote static key that is not the initiator's", k)
			return
		}
		// traffic in both directions through two real Conns, across one rotation of
		// the responder's send key (never exercised by the repo's tests).
		_ = conn.SetDeadline(time.Now().Add(guard))
		_ = rc.SetDeadline(time.Now().Add(guard))
		n := c.N
		for i := 0; i < n; i++ {
			for dir := 0; dir < 2; dir++ {
				var w, r *brontide.Conn = conn, rc
				if dir == 1 {
					w, r = rc, conn
				}
				m := pattern(dir, i, 1+i%7)
				if _, err := w.Write(m); err != nil {
					if isTimeout(err) {
						res.outcome = "inconclusive:io-timeout"
						return
					}
					res.fail("conn-write-error", "keys %s dir %d msg %d: %v", k, dir, i, err)
					return
				}
				got, err := r.ReadNextMessage()
				if err != nil && isTimeout(err) {
					res.outcome = "inconclusive:io-timeout"
					return
				}
				if err != nil || !bytes.Equal(got, m) {
					res.fail(fmt.Sprintf("delivery-mismatch dir=%d", dir), "keys %s over TCP: message %d dir %d read back as %d bytes err=%v", k, i, dir, len(got), err)
					return
				}
				res.evals++
			}
		}
		res.outcome = "listener-complete"
		res.nt = append(res.nt, "listener/complete/"+k.String())
		return
	}

	// raw initiator driven by the harness
	tc, err := net.DialTimeout("tcp", addr.String(), guard)
	if err != nil {
		res.outcome = "inconclusive:tcp-dial:" + classify(err)
		return
	}
	defer tc.Close()
	_ = tc.SetDeadline(time.Now().Add(guard))
	ini := newInitiator(k)
	a1, err := ini.GenActOne()
	if err != nil {
		res.fail("hs-honest-fails at=GenActOne", "%v", err)
		return
	}
	send := func(b []byte) bool {
		if _, err := tc.Write(b); err != nil {
			res.outcome = "inconclusive:tcp-write:" + classify(err)
			return false
		}
		return true
	}
	act := 1
	switch c.Op {
	case "a1xor":
		if !send(mutate(a1[:], c)) {
			return
		}
	case "a1trunc":
		if !send(a1[:c.K]) {
			return
		}
		tc.(*net.TCPConn).CloseWrite()
	case "a3xor", "a3trunc", "a3ok":
		act = 3
		if !send(a1[:]) {
			return
		}
		var a2 [brontide.ActTwoSize]byte
		if _, err := io.ReadFull(tc, a2[:]); err != nil {
			if isTimeout(err) {
				res.outcome = "inconclusive:io-timeout"
				return
			}
			res.fail("hs-honest-fails at=listener-act2", "keys %s: no act two from the listener: %v", k, err)
			return
		}
		if err := ini.RecvActTwo(a2); err != nil {
			res.fail("hs-honest-fails at=RecvActTwo", "keys %s: listener's act two rejected: %v", k, err)
			return
		}
		a3, err := ini.GenActThree()
		if err != nil {
			res.fail("hs-honest-fails at=GenActThree", "%v", err)
			return
		}
		switch c.Op {
		case "a3xor":
			if !send(mutate(a3[:], c)) {
				return
			}
		case "a3trunc":
			if !send(a3[:c.K]) {
				return
			}
			tc.(*net.TCPConn).CloseWrite()
		default:
			if !send(a3[:]) {
				return
			}
		}
	default:
		panic("listener op " + c.Op)
	}
	a, ok := wait()
	if !ok {
		res.outcome = "inconclusive:accept-timeout"
		return
	}
	if a.c != nil {
		defer a.c.Close()
	}
	lg("listener op=%s act=%d p1=%d m1=%#x k=%d: Accept conn=%v err=%v", c.Op, act, c.P1, c.M1, c.K, a.c != nil, a.err)
	if c.Op == "a3ok" {
		if a.err != nil && isTimeout(a.err) {
			res.outcome = "inconclusive:listener-deadline"
			return
		}
		if a.err != nil || a.c == nil {
			res.fail("hs-honest-fails at=listener", "keys %s: listener rejected an honest raw handshake: %v", k, a.err)
		}
		res.outcome = "listener-raw-complete"
		res.nt = append(res.nt, "listener/raw-complete/"+k.String())
		return
	}
	if a.c != nil || a.err == nil {
		res.fail(fmt.Sprintf("listener-accepts-tampered-act op=%s", c.Op), "keys %s: Listener.Accept returned a connection although act %d was tampered (%s p1=%d m1=%#x k=%d)", k, act, c.Op, c.P1, c.M1, c.K)
		return
	}
	cls := "rejected"
	switch {
	case strings.Contains(a.err.Error(), "EOF"):
		cls = "short"
	case strings.Contains(a.err.Error(), "version"):
		cls = "version"
	case strings.Contains(a.err.Error(), "authentication"):
		cls = "mac"
	}
	res.outcome = "listener-" + c.Op + ":" + cls
	res.nt = append(res.nt, fmt.Sprintf("listener/%s/%d/%d/%s", c.Op, c.P1, c.K, cls))
}

// ---------------------------------------------------------------------------
// stream: long message sequences in both directions across rotations
// ---------------------------------------------------------------------------

var streamSizes = []int{0, 1, 2, 65534, 65535}

var scheds = [][2]int{{1, 1}, {3, 2}, {1, 7}}

func runStream(c Case, lg logf, res *result) {
	k := c.Keys
	var (
		send [2]func([]byte) error
		recv [2]func(want int) ([]byte, error)
		tail func() error // nothing may be left over at the end

		emptyEOF int // observation only
	)
	switch c.Mode {
	case "msg", "split", "frag":
		s := honestSession(k, res)
		if s == nil {
			return
		}
		var wires [2]bytes.Buffer
		for dir := 0; dir < 2; dir++ {
			w, r := s.ends(dir)
			wire := &wires[dir]
			send[dir], _ = machineIO(w, r, wire)
			if c.Mode == "msg" {
				recv[dir] = func(int) ([]byte, error) { return r.ReadMessage(wire) }
			} else if c.Mode == "frag" {
				// the transport hands the reader one byte per Read call
				recv[dir] = func(int) ([]byte, error) { return r.ReadMessage(iotest.OneByteReader(wire)) }
			} else {
				recv[dir] = func(int) ([]byte, error) {
					n, err := r.ReadHeader(wire)
					if err != nil {
						return nil, err
					}
					return r.ReadBody(wire, make([]byte, n))
				}
			}
		}
		tail = func() error {
			if wires[0].Len()+wires[1].Len() != 0 {
				return fmt.Errorf("%d/%d ciphertext bytes left unread", wires[0].Len(), wires[1].Len())
			}
			return nil
		}
	case "conn", "connsplit", "connread":
		conn, p, err := dialPipe(k, nil)
		if err != nil || p.respErr != nil {
			res.fail("hs-honest-fails at=Dial", "keys %s: %v / %v", k, err, p.respErr)
			return
		}
		send[0] = func(m []byte) error {
			n, err := conn.Write(m)
			if err == nil && n != len(m) {
				err = fmt.Errorf("Conn.Write returned %d for %d bytes", n, len(m))
			}
			return err
		}
		recv[0] = func(int) ([]byte, error) { return p.resp.ReadMessage(&p.toResp) }
		send[1], _ = machineIO(p.resp, nil, &p.toInit)
		switch c.Mode {
		case "conn":
			recv[1] = func(int) ([]byte, error) { return conn.ReadNextMessage() }
		case "connsplit":
			recv[1] = func(int) ([]byte, error) {
				n, err := conn.ReadNextHeader()
				if err != nil {
					return nil, err
				}
				return conn.ReadNextBody(make([]byte, n))
			}
		default:
			// net.Conn stream semantics. An empty record carries no bytes; one
			// Read call consumes it (returning 0 bytes, possibly with io.EOF from
			// the drained buffer - recorded, not judged).
			recv[1] = func(want int) ([]byte, error) {
				if want == 0 {
					n, err := conn.Read(make([]byte, 1))
					if n != 0 {
						return nil, fmt.Errorf("Conn.Read returned %d bytes for an empty record", n)
					}
					if err != nil && err != io.EOF {
						return nil, err
					}
					if err == io.EOF {
						emptyEOF++
					}
					return []byte{}, nil
				}
				// deliberately odd read sizes: the record is drained in pieces
				buf := make([]byte, want)
				half := want / 3
				if _, err := io.ReadFull(conn, buf[:half]); err != nil {
					return nil, err
				}
				if _, err := io.ReadFull(conn, buf[half:]); err != nil {
					return nil, err
				}
				return buf, nil
			}
		}
		tail = func() error {
			if p.toResp.Len()+p.toInit.Len() != 0 {
				return fmt.Errorf("%d/%d ciphertext bytes left unread", p.toResp.Len(), p.toInit.Len())
			}
			return nil
		}
	default:
		panic("stream mode " + c.Mode)
	}

	size := func(dir, i int) int { return streamSizes[(i+c.Off+2*dir)%len(streamSizes)] }
	var sent, rcvd [2]int
	nt := map[string]bool{}
	burst := scheds[c.Sched]
	for rcvd[0] < c.N || rcvd[1] < c.N {
		for dir := 0; dir < 2; dir++ {
			for j := 0; j < burst[dir] && sent[dir] < c.N; j++ {
				i := sent[dir]
				if err := send[dir](pattern(dir, i, size(dir, i))); err != nil {
					res.fail(fmt.Sprintf("send-error mode=%s dir=%d", c.Mode, dir), "keys %s: message %d dir %d (%d bytes) could not be written: %v", k, i, dir, size(dir, i), err)
					return
				}
				sent[dir]++
			}
		}
		for dir := 1; dir >= 0; dir-- {
			for rcvd[dir] < sent[dir] {
				i := rcvd[dir]
				want := pattern(dir, i, size(dir, i))
				got, err := recv[dir](len(want))
				res.evals++
				if err != nil || !bytes.Equal(got, want) {
					lg("message %d dir %d size %d: got %d bytes err=%v", i, dir, len(want), len(got), err)
					res.fail(fmt.Sprintf("delivery-mismatch dir=%d", dir),
						"keys %s mode %s sched %v off %d: message %d in direction %d (%d bytes, %s of a rotation) was read as %d bytes, err=%v",
						k, c.Mode, burst, c.Off, i, dir, len(want), rotPhase(i), len(got), err)
					return
				}
				nt[fmt.Sprintf("stream/%s/%d/%d/%s/epoch%d", c.Mode, dir, len(want), rotPhase(i), i/500)] = true
				rcvd[dir]++
			}
		}
	}
	if err := tail(); err != nil {
		res.fail("stream-leftover", "keys %s mode %s: %v", k, c.Mode, err)
		return
	}
	lg("delivered %d+%d messages identically and in order (mode %s, sched %v, size offset %d)", rcvd[0], rcvd[1], c.Mode, burst, c.Off)
	for key := range nt {
		res.nt = append(res.nt, key)
	}
	res.outcome = "stream-" + c.Mode + ":delivered"
	if emptyEOF > 0 {
		res.outcome += "(Conn.Read on an empty record gave 0,io.EOF)"
	}
}

// ---------------------------------------------------------------------------
// flush: every accept-k-bytes-then-time-out behaviour of the writer
// ---------------------------------------------------------------------------

func runFlush(c Case, lg logf, res *result) {
	res.evals = 1
	k := c.Keys
	var (
		wire    *bytes.Buffer
		plain   func([]byte) error                     // complete send (fast-forward, follow-up)
		start   func(m []byte, allow int) (int, error) // WriteMessage + first Flush
		again   func(allow int) (int, error)           // later Flush calls
		pending func(m []byte) error                   // WriteMessage while a flush is pending
		recv    func() ([]byte, error)
	)
	switch c.Mode {
	case "", "machine":
		s := honestSession(k, res)
		if s == nil {
			return
		}
		w, r := s.ends(c.Dir)
		wire = new(bytes.Buffer)
		plain, recv = machineIO(w, r, wire)
		again = func(allow int) (int, error) {
			return w.Flush(&faultWriter{w: wire, b: budget{allow: allow, eager: c.Eager}})
		}
		start = func(m []byte, allow int) (int, error) {
			if err := w.WriteMessage(m); err != nil {
				return 0, fmt.Errorf("WriteMessage: %w", err)
			}
			return again(allow)
		}
		pending = w.WriteMessage
	case "conn":
		conn, p, err := dialPipe(k, nil)
		if err != nil || p.respErr != nil {
			res.fail("hs-honest-fails at=Dial", "keys %s: %v / %v", k, err, p.respErr)
			return
		}
		wire = &p.toResp
		plain = func(m []byte) error {
			p.bud = budget{allow: -1}
			n, err := conn.Write(m)
			if err == nil && n != len(m) {
				err = fmt.Errorf("Conn.Write returned %d for %d bytes", n, len(m))
			}
			return err
		}
		recv = func() ([]byte, error) { return p.resp.ReadMessage(&p.toResp) }
		start = func(m []byte, allow int) (int, error) {
			p.bud = budget{allow: allow, eager: c.Eager}
			return conn.Write(m)
		}
		again = func(allow int) (int, error) {
			p.bud = budget{allow: allow, eager: c.Eager}
			return conn.Flush()
		}
		pending = conn.WriteMessage
	default:
		panic("flush mode " + c.Mode)
	}
	if !ffwd(plain, recv, c.Dir, c.Pos, res) {
		return
	}
	lg("handshake %s complete; %d messages delivered and verified in direction %d; message under test: index %d, %d bytes (%s of a rotation), via %s", k, c.Pos, c.Dir, c.Pos, c.Size, rotPhase(c.Pos), c.Mode)

	msg := pattern(c.Dir, c.Pos, c.Size)
	total := hdrLen + c.Size + macLen
	plan := append(append([]int{}, c.Plan...), -1, -1) // finish, then one flush that must be a no-op
	sum, done, probed := 0, false, false
	var second []byte
	for step, allow := range plan {
		before := wire.Len()
		var n int
		var err error
		if step == 0 {
			n, err = start(msg, allow)
		} else {
			n, err = again(allow)
		}
		after := wire.Len()
		lg("flush #%d allowance=%d -> n=%d err=%v; %d of %d ciphertext bytes on the wire", step, allow, n, err, after, total)
		if err != nil && !isTimeout(err) {
			res.fail("flush-unexpected-error", "size %d plan %v step %d: %v", c.Size, c.Plan, step, err)
			return
		}
		if probed {
			// a second message was accepted while the first was pending: only the
			// end-to-end delivery is judged below.
			continue
		}
		if done {
			if n != 0 || err != nil || after != before {
				res.fail("flush-after-complete-not-noop", "size %d plan %v: Flush with nothing pending returned n=%d err=%v and wrote %d bytes", c.Size, c.Plan, n, err, after-before)
				return
			}
			continue
		}
		sum += n
		want := after - hdrLen
		if want < 0 {
			want = 0
		}
		if want > c.Size {
			want = c.Size
		}
		if n < 0 || sum != want {
			res.fail("flush-count-wrong", "size %d plan %v eager=%v: after flush #%d %d ciphertext bytes are on the wire = %d plaintext bytes, but the returned counts sum to %d (last n=%d)", c.Size, c.Plan, c.Eager, step, after, want, sum, n)
			return
		}
		if after > total {
			res.fail("flush-overrun", "size %d plan %v: %d bytes written for a %d-byte frame", c.Size, c.Plan, after, total)
			return
		}
		if after < total && err == nil {
			res.fail("flush-silent-incomplete", "size %d plan %v: Flush #%d returned nil with %d of %d bytes written", c.Size, c.Plan, step, after, total)
			return
		}
		if after == total {
			done = true
		} else if c.Probe && step == 0 {
			second = pattern(c.Dir, c.Pos+1, c.Size)
			perr := pending(second)
			lg("WriteMessage while %d bytes are still pending -> %v", total-after, perr)
			if perr == nil {
				probed = true
			} else {
				second = nil
			}
		}
	}
	if !done && !probed {
		res.fail("flush-never-completes", "size %d plan %v: %d of %d bytes after unlimited flushes", c.Size, c.Plan, wire.Len(), total)
		return
	}
	if !probed && sum != c.Size {
		res.fail("flush-count-wrong", "size %d plan %v: counts sum to %d", c.Size, c.Plan, sum)
		return
	}
	expect := [][]byte{msg}
	if probed {
		expect = append(expect, second)
	}
	for j, want := range expect {
		got, err := recv()
		lg("peer reads message %d: %d bytes err=%v identical=%v", j, len(got), err, bytes.Equal(got, want))
		if err != nil || !bytes.Equal(got, want) {
			sig := fmt.Sprintf("delivery-mismatch-after-partial-flush dir=%d", c.Dir)
			if probed {
				sig = "write-while-pending-accepted-and-corrupts"
			}
			res.fail(sig, "keys %s dir %d pos %d size %d plan %v eager=%v: message %d written through interrupted flushes is read as %d bytes, err=%v", k, c.Dir, c.Pos, c.Size, c.Plan, c.Eager, j, len(got), err)
			return
		}
	}
	// the session must be intact afterwards
	next := pattern(c.Dir, c.Pos+2, 5)
	if err := plain(next); err != nil {
		res.fail("send-error-after-partial-flush", "size %d plan %v: next message: %v", c.Size, c.Plan, err)
		return
	}
	got, err := recv()
	if err != nil || !bytes.Equal(got, next) {
		res.fail(fmt.Sprintf("delivery-mismatch-after-partial-flush dir=%d", c.Dir), "size %d plan %v: the message after the interrupted one is read as %d bytes err=%v", c.Size, c.Plan, len(got), err)
		return
	}
	if wire.Len() != 0 {
		res.fail("stream-leftover", "size %d plan %v: %d bytes left", c.Size, c.Plan, wire.Len())
		return
	}
	cuts := 0
	at := 0
	var where []string
	for _, a := range c.Plan {
		at += a
		if at < total {
			cuts++
			where = append(where, cutRegion(at, c.Size))
		}
	}
	res.outcome = fmt.Sprintf("flush-%s:cuts=%d", c.Mode, cuts)
	if cuts > 0 {
		res.nt = append(res.nt, fmt.Sprintf("flush/%s/%d/%d/%s/%v/%s/%v", c.Mode, c.Dir, c.Size, rotPhase(c.Pos), c.Eager, strings.Join(where, ","), c.Probe))
	}
}

func cutRegion(at, size int) string {
	switch {
	case at == 0:
		return "h0"
	case at < hdrLen:
		return fmt.Sprintf("h%d", at)
	case at == hdrLen:
		return "b0"
	case at < hdrLen+size:
		if size > 64 {
			return fmt.Sprintf("b%+d", at-hdrLen-size)
		}
		return fmt.Sprintf("b%d", at-hdrLen)
	}
	return fmt.Sprintf("m%d", at-hdrLen-size)
}

// ---------------------------------------------------------------------------
// connwrite: Conn.Write of more than 65535 bytes (chunked) through a faulty conn
// ---------------------------------------------------------------------------

func bigData(n int) []byte {
	b := make([]byte, 0, n)
	for i := 0; len(b) < n; i++ {
		m := n - len(b)
		if m > 65535 {
			m = 65535
		}
		b = append(b, pattern(0, 1000+i, m)...)
	}
	return b
}

func runConnWrite(c Case, lg logf, res *result) {
	res.evals = 1
	k := c.Keys
	conn, p, err := dialPipe(k, nil)
	if err != nil || p.respErr != nil {
		res.fail("hs-honest-fails at=Dial", "keys %s: %v / %v", k, err, p.respErr)
		return
	}
	plain := func(m []byte) error {
		n, err := conn.Write(m)
		if err == nil && n != len(m) {
			err = fmt.Errorf("Conn.Write returned %d for %d bytes", n, len(m))
		}
		return err
	}
	recv := func() ([]byte, error) { return p.resp.ReadMessage(&p.toResp) }
	if !ffwd(plain, recv, 0, c.Pos, res) {
		return
	}
	data := bigData(c.Size)
	step := 0
	allow := func() budget {
		a := -1
		if step < len(c.Plan) {
			a = c.Plan[step]
		}
		step++
		return budget{allow: a, eager: c.Eager}
	}
	sum, calls, timeouts := 0, 0, 0
	for sum < len(data) {
		p.bud = allow()
		n, err := conn.Write(data[sum:])
		lg("Conn.Write(%d bytes) allowance=%d -> n=%d err=%v (wire %d bytes)", len(data)-sum, p.bud.allow, n, err, p.toResp.Len())
		if n < 0 || n > len(data)-sum {
			res.fail("connwrite-count-wrong", "size %d plan %v: Conn.Write returned %d for %d bytes", c.Size, c.Plan, n, len(data)-sum)
			return
		}
		if err == nil && n != len(data)-sum {
			res.fail("connwrite-short-without-error", "size %d plan %v: Conn.Write returned n=%d < %d with a nil error", c.Size, c.Plan, n, len(data)-sum)
			return
		}
		sum += n
		for err != nil {
			if !isTimeout(err) {
				res.fail("flush-unexpected-error", "size %d plan %v: %v", c.Size, c.Plan, err)
				return
			}
			timeouts++
			if calls++; calls > 64 {
				res.fail("flush-never-completes", "size %d plan %v", c.Size, c.Plan)
				return
			}
			// peer.writeMessage's protocol: on a timeout only flush again.
			p.bud = allow()
			n, err = conn.Flush()
			lg("Conn.Flush allowance=%d -> n=%d err=%v (wire %d bytes)", p.bud.allow, n, err, p.toResp.Len())
			if n < 0 {
				res.fail("connwrite-count-wrong", "negative flush count")
				return
			}
			sum += n
		}
		if sum > len(data) {
			res.fail("connwrite-count-wrong", "size %d plan %v eager=%v: Write/Flush counts sum to %d for %d bytes", c.Size, c.Plan, c.Eager, sum, len(data))
			return
		}
	}
	var got []byte
	msgs := 0
	for p.toResp.Len() > 0 {
		m, err := p.resp.ReadMessage(&p.toResp)
		if err != nil {
			res.fail("delivery-mismatch-after-partial-flush dir=0", "size %d plan %v eager=%v: record %d of the chunked write cannot be read: %v", c.Size, c.Plan, c.Eager, msgs, err)
			return
		}
		msgs++
		got = append(got, m...)
	}
	lg("peer read %d records, %d bytes, identical=%v", msgs, len(got), bytes.Equal(got, data))
	if !bytes.Equal(got, data) {
		res.fail("connwrite-stream-differs", "size %d plan %v eager=%v: the peer read %d bytes in %d records; they differ from the %d bytes written (counts summed to %d)", c.Size, c.Plan, c.Eager, len(got), msgs, len(data), sum)
		return
	}
	res.outcome = fmt.Sprintf("connwrite:timeouts=%d", timeouts)
	if timeouts > 0 {
		at, where := 0, []string{}
		for _, a := range c.Plan {
			if a < 0 {
				break
			}
			at += a
			frame := hdrLen + 65535 + macLen
			where = append(where, fmt.Sprintf("c%d.%s", at/frame, cutRegion(at%frame, 65535)))
		}
		res.nt = append(res.nt, fmt.Sprintf("connwrite/%d/%s/%v/%s", c.Size, strings.Join(where, ","), c.Eager, rotPhase(c.Pos)))
	}
}

// ---------------------------------------------------------------------------
// tamper: corruption, truncation, reordering, replay, reflection of ciphertext
// ---------------------------------------------------------------------------

func wirePart(p, size int) string {
	switch {
	case p < 2:
		return "hdr-len"
	case p < hdrLen:
		return "hdr-tag"
	case p < hdrLen+size:
		return "body"
	}
	return "body-tag"
}

func runTamper(c Case, lg logf, res *result) {
	res.evals = 1
	k := c.Keys
	type world struct {
		send  func([]byte) error
		recv  func() ([]byte, error)
		enc   func([]byte) ([]byte, error)   // writer produces ciphertext (not delivered)
		read  func(x []byte) ([]byte, error) // reader is fed x
		self  func(x []byte) ([]byte, error) // writer is fed x (reflection)
		other func([]byte) ([]byte, error)   // reader produces ciphertext (for the reflect oracle)
	}
	build := func(k Keys) *world {
		switch c.Mode {
		case "", "msg", "split":
			s := honestSession(k, res)
			if s == nil {
				return nil
			}
			w, r := s.ends(c.Dir)
			wire := new(bytes.Buffer)
			wd := &world{}
			wd.send, wd.recv = machineIO(w, r, wire)
			wd.enc = func(m []byte) ([]byte, error) { return encode(w, m) }
			wd.other = func(m []byte) ([]byte, error) { return encode(r, m) }
			rd := func(m *brontide.Machine) func([]byte) ([]byte, error) {
				return func(x []byte) ([]byte, error) {
					src := bytes.NewReader(x)
					if c.Mode != "split" {
						return m.ReadMessage(src)
					}
					n, err := m.ReadHeader(src)
					if err != nil {
						return nil, err
					}
					return m.ReadBody(src, make([]byte, n))
				}
			}
			wd.read, wd.self = rd(r), rd(w)
			return wd
		case "conn", "connread":
			// the dialled Conn is the reader; direction is responder -> initiator
			conn, p, err := dialPipe(k, nil)
			if err != nil || p.respErr != nil {
				res.fail("hs-honest-fails at=Dial", "keys %s: %v / %v", k, err, p.respErr)
				return nil
			}
			wd := &world{}
			wd.send, _ = machineIO(p.resp, nil, &p.toInit)
			wd.recv = conn.ReadNextMessage
			wd.enc = func(m []byte) ([]byte, error) { return encode(p.resp, m) }
			wd.read = func(x []byte) ([]byte, error) {
				p.toInit.Reset()
				p.toInit.Write(x)
				if c.Mode == "conn" {
					return conn.ReadNextMessage()
				}
				buf := make([]byte, 70000)
				// (empty records are not enumerated in this mode: Conn.Read
				// reports them as (0, io.EOF), indistinguishable from a closed
				// connection - see the assumptions)
				n, err := conn.Read(buf)
				return buf[:n], err
			}
			return wd
		}
		panic("tamper mode " + c.Mode)
	}
	wd := build(k)
	if wd == nil {
		return
	}
	if !ffwd(wd.send, wd.recv, c.Dir, c.Pos, res) {
		return
	}
	lg("handshake %s complete; %d messages delivered and verified in direction %d; message under test: index %d, %d bytes (%s of a rotation)", k, c.Pos, c.Dir, c.Pos, c.Size, rotPhase(c.Pos))
	m0, m1 := pattern(c.Dir, c.Pos, c.Size), pattern(c.Dir, c.Pos+1, c.Size)
	c0, err := wd.enc(m0)
	if err != nil {
		res.fail("encode-error", "%v", err)
		return
	}
	c1, err := wd.enc(m1)
	if err != nil {
		res.fail("encode-error", "%v", err)
		return
	}
	if len(c0) != hdrLen+c.Size+macLen {
		res.fail("frame-size-unexpected", "a %d-byte message produced %d ciphertext bytes", c.Size, len(c0))
		return
	}
	var (
		x      []byte
		g, gm  = c0, m0 // genuine next ciphertext / plaintext for the reader
		reader = wd.read
		part   = c.Op
	)
	cat := func(bs ...[]byte) []byte { return bytes.Join(bs, nil) }
	switch c.Op {
	case "xor":
		x = mutate(c0, c)
		part = wirePart(c.P1, c.Size)
		if c.M2 != 0 {
			part += "+" + wirePart(c.P2, c.Size)
		}
		x = cat(x, c1)
	case "trunc":
		x = c0[:c.K]
		part = "trunc-" + wirePart(c.K, c.Size)
	case "insert":
		x = cat(c0[:c.K], []byte{byte(c.M1)}, c0[c.K:], c1)
	case "delete":
		x = cat(c0[:c.K], c0[c.K+1:], c1)
	case "swap":
		x = cat(c1, c0)
	case "drop":
		x = c1
	case "replay":
		got, err := wd.read(c0)
		if err != nil || !bytes.Equal(got, m0) {
			res.fail("genuine-rejected", "keys %s dir %d pos %d size %d: untampered message rejected: %v", k, c.Dir, c.Pos, c.Size, err)
			return
		}
		x, g, gm = cat(c0, c1), c1, m1
	case "hdrsplice":
		x = cat(c0[:hdrLen], c1[hdrLen:])
	case "bodysplice":
		x = cat(c1[:hdrLen], c0[hdrLen:])
	case "hbswap":
		x = cat(c0[hdrLen:], c0[:hdrLen], c1)
	case "zero":
		x = make([]byte, len(c0))
	case "extend":
		x = cat(c0, bytes.Repeat([]byte{0xa5}, c.K))
	case "reflect":
		if wd.self == nil {
			panic("reflect needs machine mode")
		}
		rm := pattern(1-c.Dir, 0, c.Size)
		if g, err = wd.other(rm); err != nil {
			res.fail("encode-error", "%v", err)
			return
		}
		x, gm, reader = c0, rm, wd.self
	case "xsession":
		w2 := build(*c.Keys2)
		if w2 == nil {
			return
		}
		if !ffwd(w2.send, w2.recv, c.Dir, c.Pos, res) {
			return
		}
		if x, err = w2.enc(m0); err != nil {
			res.fail("encode-error", "%v", err)
			return
		}
	case "none":
		x = cat(c0, c1)
	default:
		panic("tamper op " + c.Op)
	}
	genuine := bytes.HasPrefix(x, g)
	if len(c0) <= 80 {
		lg("genuine frame  %x", g)
		lg("fed to reader  %x", x)
	} else {
		lg("genuine frame %d bytes; fed %d bytes; op=%s p1=%d m1=%#x k=%d", len(g), len(x), c.Op, c.P1, c.M1, c.K)
	}
	out, err := reader(x)
	lg("read -> %d bytes, err=%v (fed bytes start with the genuine frame: %v)", len(out), err, genuine)
	switch {
	case genuine && (err != nil || !bytes.Equal(out, gm)):
		res.fail("genuine-rejected", "keys %s dir %d pos %d size %d op %s: the genuine frame was not delivered: %d bytes err=%v", k, c.Dir, c.Pos, c.Size, c.Op, len(out), err)
		return
	case !genuine && err == nil:
		res.fail(fmt.Sprintf("tamper-accepted op=%s part=%s", c.Op, part),
			"keys %s dir %d pos %d size %d mode %q: op %s (p1=%d m1=%#x p2=%d m2=%#x k=%d) - the read returned %d bytes of data instead of failing", k, c.Dir, c.Pos, c.Size, c.Mode, c.Op, c.P1, c.M1, c.P2, c.M2, c.K, len(out))
		return
	}
	res.outcome = fmt.Sprintf("tamper-%s:%s", part, classify(err))
	if !genuine {
		key := fmt.Sprintf("tamper/%s/%d/%d/%s/%s/%d/%d/%d", c.Mode, c.Dir, c.Size, rotPhase(c.Pos), c.Op, c.P1, c.P2, c.K)
		res.nt = append(res.nt, key+"/"+classify(err))
	} else {
		res.nt = append(res.nt, fmt.Sprintf("tamper/%s/%d/%d/%s/%s/%d/delivered", c.Mode, c.Dir, c.Size, rotPhase(c.Pos), c.Op, c.K))
	}
}

// ---------------------------------------------------------------------------
// nonce: no (key, nonce) pair encrypts twice - black box
// ---------------------------------------------------------------------------

// Every message is the 2 bytes 0x00 0x02, i.e. exactly the plaintext of its own
// length header. Header and body are both sealed without associated data, so all
// 2N seals per direction have the same plaintext and AD: two equal 18-byte
// ciphertexts <=> the same (key, nonce) was used twice (or two keys collide),
// whether between messages, between header and body, across a rotation, between
// directions or between sessions with different ephemeral keys.
func runNonce(c Case, lg logf, res *result) {
	type loc struct {
		k    Keys
		dir  int
		seal int
	}
	seen := map[[hdrLen]byte]loc{}
	msg := []byte{0x00, 0x02}
	ks := append([]Keys{}, combos...)
	// sessions differing only in one ephemeral key
	ks = append(ks, Keys{I: 0, R: 1, T: 1, EI: 2, ER: 1}, Keys{I: 0, R: 1, T: 1, EI: 0, ER: 3})
	nt := map[string]bool{}
	for _, k := range ks {
		s := honestSession(k, res)
		if s == nil {
			return
		}
		for dir := 0; dir < 2; dir++ {
			w, r := s.ends(dir)
			for i := 0; i < c.N; i++ {
				ct, err := encode(w, msg)
				if err != nil {
					res.fail("encode-error", "%v", err)
					return
				}
				if len(ct) != 2*hdrLen {
					res.fail("frame-size-unexpected", "2-byte message gave %d bytes", len(ct))
					return
				}
				for half := 0; half < 2; half++ {
					var key [hdrLen]byte
					copy(key[:], ct[half*hdrLen:])
					here := loc{k, dir, 2*i + half}
					res.evals++
					if prev, dup := seen[key]; dup {
						lg("ciphertext %x repeats: %+v and %+v", key, prev, here)
						res.fail("ciphertext-repeats",
							"identical plaintext sealed to identical ciphertext %x: session %s dir %d seal #%d and session %s dir %d seal #%d - the same (key, nonce) pair encrypted twice",
							key, prev.k, prev.dir, prev.seal, here.k, here.dir, here.seal)
						return
					}
					seen[key] = here
				}
				got, err := r.ReadMessage(bytes.NewReader(ct))
				if err != nil || !bytes.Equal(got, msg) {
					res.fail(fmt.Sprintf("delivery-mismatch dir=%d", dir), "keys %s: message %d (2 bytes) dir %d: err=%v", k, i, dir, err)
					return
				}
				nt[fmt.Sprintf("nonce/%s/%d/epoch%d", k, dir, (2*i)/1000)] = true
			}
		}
	}
	lg("%d seals of the same plaintext in %d sessions x 2 directions: all ciphertexts pairwise distinct", len(seen), len(ks))
	for key := range nt {
		res.nt = append(res.nt, key)
	}
	res.outcome = "nonce:distinct"
}
