// C11 harness, part 4: the duplex family - one end of a connection writes and reads
// at the same time.
//
// lnd uses one brontide.Conn from two goroutines without any lock between them:
// peer.writeHandler calls WriteMessage / Flush (and re-Flushes after a write
// timeout), peer.readHandler calls ReadNextHeader / ReadNextBody. The statement
// quantifies over schedules, so the read path and the write path of ONE Machine
// must not disturb each other however their steps interleave.
//
// A case fixes the two activities of the end under test (the "subject"):
//
//	writer thread  for each outbound message: WriteMessage, then Flush with the
//	               case's accept-k-bytes-then-time-out allowances, then Flush
//	               until the frame is out;
//	reader thread  for each inbound message (already sent by the peer): ReadMessage
//	               / ReadHeader+ReadBody / the Conn variants, from a transport that
//	               hands the bytes over in the case's fragments.
//
// Scheduling points are the places where a goroutine of the real program can be
// descheduled between two steps of lnd code that touch the Machine: the start of a
// thread, the gap between two messages of the writer, and every call lnd makes into
// the transport (io.Writer.Write inside Flush, io.Reader.Read inside ReadHeader /
// ReadBody - the goroutine blocks there in the real program). The two threads are
// real goroutines handing a baton to each other, so exactly one runs at a time and
// every execution is a deterministic function of the interleaving string.
//
// runDuplex enumerates EVERY interleaving of the two threads' segments by stateless
// depth-first search (re-execution on fresh Machines with a forced prefix) and
// checks the number of schedules against the binomial coefficient of the two
// segment counts. The oracle is the same for every case and every schedule:
// counts returned by Flush are exact, nothing but the harness's own timeouts is
// reported, every inbound message is read identical and in order, the peer reads
// every outbound message identical and in order, nothing is left on either wire,
// data handed to the reader does not change afterwards, and the session still
// carries a message in each direction.
package c11

import (
	"bytes"
	"fmt"
	"io"
	"runtime/debug"
	"strings"
)

// ---------------------------------------------------------------------------
// two cooperative threads
// ---------------------------------------------------------------------------

type coThread struct {
	resume chan struct{}
	parked chan bool // true = finished
	done   bool
	pan    string
}

func (t *coThread) yield() {
	t.parked <- false
	<-t.resume
}

func startThread(body func(yield func())) *coThread {
	t := &coThread{resume: make(chan struct{}), parked: make(chan bool)}
	go func() {
		<-t.resume
		defer func() {
			if p := recover(); p != nil {
				st := string(debug.Stack())
				if len(st) > 1500 {
					st = st[:1500]
				}
				t.pan = fmt.Sprintf("panic: %v\n%s", p, st)
			}
			t.parked <- true
		}()
		body(t.yield)
	}()
	return t
}

// interleave runs the writer ('w') and the reader ('r') thread to completion.
// prefix forces the first choices; afterwards the writer is preferred. full is the
// segment sequence actually executed, free[i] tells whether both threads were
// runnable at step i (a real choice).
func interleave(prefix string, w, r func(yield func())) (full string, free []bool, pan string) {
	th := [2]*coThread{startThread(w), startThread(r)}
	var sb strings.Builder
	for i := 0; !th[0].done || !th[1].done; i++ {
		both := !th[0].done && !th[1].done
		pick := 0
		if i < len(prefix) && prefix[i] == 'r' {
			pick = 1
		}
		if th[pick].done {
			pick = 1 - pick
		}
		sb.WriteByte("wr"[pick])
		free = append(free, both)
		th[pick].resume <- struct{}{}
		th[pick].done = <-th[pick].parked
	}
	for _, t := range th {
		if t.pan != "" {
			pan = t.pan
		}
	}
	return sb.String(), free, pan
}

// ---------------------------------------------------------------------------
// transports with scheduling points
// ---------------------------------------------------------------------------

type dupWriter struct {
	w     *bytes.Buffer
	b     budget
	yield func()
	lg    logf
}

func (d *dupWriter) Write(p []byte) (int, error) {
	d.yield()
	n, err := d.b.take(d.w, p)
	d.lg("  writer: transport offered %d bytes, accepted %d, err=%v", len(p), n, err)
	return n, err
}

type dupReader struct {
	r     *bytes.Buffer
	stops []int
	off   int
	yield func()
	lg    logf
}

func (d *dupReader) Read(p []byte) (int, error) {
	d.yield()
	if d.r.Len() == 0 {
		return 0, io.EOF
	}
	p = p[:stopLimit(d.stops, d.off, len(p))]
	n, err := d.r.Read(p)
	d.lg("  reader: transport delivered %d bytes (stream offset %d)", n, d.off)
	d.off += n
	return n, err
}

// ---------------------------------------------------------------------------
// one session, one or more executions
// ---------------------------------------------------------------------------

// dupWorld is one real session (fresh handshake, both directions advanced to the
// case's positions with verified messages) on which schedules are executed. Every
// execution sends len(Sizes)+1 outbound and len(InSizes)+1 inbound messages; outIdx
// and inIdx are the indexes of the next message of each direction.
type dupWorld struct {
	c             Case
	lg            logf
	in            int // direction of the inbound traffic
	outIdx, inIdx int
	execs         int

	outWire, inWire *bytes.Buffer
	plainOut        func([]byte) error             // subject sends a whole message
	recvOut         func() ([]byte, error)         // peer reads the next outbound message
	plainIn         func([]byte) error             // peer sends a whole message
	begin           func([]byte, int) (int, error) // WriteMessage + first Flush (allowance)
	again           func(int) (int, error)         // later Flush
	readOne         func(int) ([]byte, error)      // subject reads the next inbound message
	hooks           func(wy, ry func())            // install (or, with nil, remove) the scheduling hooks
}

func (w *dupWorld) violf(sig, what string, a ...any) *viol {
	c := w.c
	return &viol{sig: sig, what: fmt.Sprintf("keys %s mode %s subject=%s next message index %d/%d sizes %v/%v plans %v stops %v eager=%v: ",
		c.Keys, c.Mode, [2]string{"initiator", "responder"}[c.Dir], w.outIdx, w.inIdx, c.Sizes, c.InSizes, c.Plans, c.Stops, c.Eager) + fmt.Sprintf(what, a...)}
}

func newDupWorld(c Case, lg logf) (*dupWorld, *viol) {
	k := c.Keys
	w := &dupWorld{c: c, lg: lg, in: 1 - c.Dir}
	var res result
	switch c.Mode {
	case "msg", "split":
		s := honestSession(k, &res)
		if s == nil {
			return nil, res.v
		}
		x, y := s.ends(c.Dir)
		w.outWire, w.inWire = new(bytes.Buffer), new(bytes.Buffer)
		w.plainOut, w.recvOut = machineIO(x, y, w.outWire)
		w.plainIn, _ = machineIO(y, x, w.inWire)
		nop := func() {}
		dw := &dupWriter{w: w.outWire, yield: nop, lg: lg}
		dr := &dupReader{r: w.inWire, yield: nop, lg: lg}
		w.hooks = func(wy, ry func()) {
			if wy == nil {
				wy, ry = nop, nop
			}
			dw.yield, dr.yield = wy, ry
			dr.stops, dr.off = c.Stops, 0
		}
		w.again = func(allow int) (int, error) {
			dw.b = budget{allow: allow, eager: c.Eager}
			return x.Flush(dw)
		}
		w.begin = func(m []byte, allow int) (int, error) {
			if err := x.WriteMessage(m); err != nil {
				return 0, fmt.Errorf("WriteMessage: %w", err)
			}
			return w.again(allow)
		}
		w.readOne = func(int) ([]byte, error) {
			if c.Mode == "msg" {
				return x.ReadMessage(dr)
			}
			n, err := x.ReadHeader(dr)
			if err != nil {
				return nil, err
			}
			return x.ReadBody(dr, make([]byte, n))
		}
	case "conn", "connsplit", "connread":
		if c.Dir != 0 {
			panic("duplex conn modes: the dialled Conn is the initiator")
		}
		conn, p, err := dialPipe(k, nil)
		if err != nil || p.respErr != nil {
			return nil, w.violf("hs-honest-fails at=Dial", "%v / %v", err, p.respErr)
		}
		w.outWire, w.inWire = &p.toResp, &p.toInit
		w.plainOut = func(m []byte) error {
			p.bud = budget{allow: -1}
			n, err := conn.Write(m)
			if err == nil && n != len(m) {
				err = fmt.Errorf("Conn.Write returned %d for %d bytes", n, len(m))
			}
			return err
		}
		w.recvOut = func() ([]byte, error) { return p.resp.ReadMessage(&p.toResp) }
		w.plainIn, _ = machineIO(p.resp, nil, &p.toInit)
		w.hooks = func(wy, ry func()) {
			p.onWrite, p.onRead = wy, ry
			p.rdStops, p.rdOff = nil, 0
			if wy != nil && c.Stops != nil {
				p.rdStops = c.Stops
			}
		}
		w.again = func(allow int) (int, error) {
			p.bud = budget{allow: allow, eager: c.Eager}
			return conn.Flush()
		}
		w.begin = func(m []byte, allow int) (int, error) {
			p.bud = budget{allow: allow, eager: c.Eager}
			if c.Mode == "connsplit" { // the calls peer.writeMessage makes
				if err := conn.WriteMessage(m); err != nil {
					return 0, fmt.Errorf("WriteMessage: %w", err)
				}
				return conn.Flush()
			}
			return conn.Write(m)
		}
		w.readOne = func(want int) ([]byte, error) {
			switch c.Mode {
			case "conn":
				return conn.ReadNextMessage()
			case "connsplit": // the calls peer.readNextMessage makes
				n, err := conn.ReadNextHeader()
				if err != nil {
					return nil, err
				}
				return conn.ReadNextBody(make([]byte, n))
			}
			// net.Conn stream semantics; the record is drained in two pieces
			buf := make([]byte, want)
			if _, err := io.ReadFull(conn, buf[:want/3]); err != nil {
				return nil, err
			}
			if _, err := io.ReadFull(conn, buf[want/3:]); err != nil {
				return nil, err
			}
			return buf, nil
		}
	default:
		panic("duplex mode " + c.Mode)
	}

	// both directions are advanced to their positions (every message verified)
	if !ffwd(w.plainOut, w.recvOut, c.Dir, c.Pos, &res) {
		return nil, res.v
	}
	if c.Mode == "connread" {
		// Conn.Read cannot observe empty records; fast-forward with 1..2-byte messages
		for i := 0; i < c.InPos; i++ {
			m := pattern(w.in, i, 1+i%2)
			if err := w.plainIn(m); err != nil {
				return nil, w.violf("ffwd-send-error", "inbound message %d: %v", i, err)
			}
			got, err := w.readOne(len(m))
			if err != nil || !bytes.Equal(got, m) {
				return nil, w.violf(fmt.Sprintf("delivery-mismatch dir=%d", w.in), "inbound message %d read back as %d bytes err=%v", i, len(got), err)
			}
		}
	} else if !ffwd(w.plainIn, func() ([]byte, error) { return w.readOne(0) }, w.in, c.InPos, &res) {
		return nil, res.v
	}
	w.outIdx, w.inIdx = c.Pos, c.InPos
	lg("handshake %s complete; subject = %s via %s; %d outbound and %d inbound messages delivered and verified", k,
		[2]string{"initiator", "responder"}[c.Dir], c.Mode, c.Pos, c.InPos)
	return w, nil
}

// room reports whether one more execution on this session stays clear of the first
// key rotation (message index 500 of a direction). Only sessions of cases placed
// at the very beginning of both directions are reused.
func (w *dupWorld) room() bool {
	c := w.c
	if c.Pos != 0 || c.InPos != 0 {
		return false
	}
	return w.outIdx+len(c.Sizes)+1 <= 400 && w.inIdx+len(c.InSizes)+1 <= 400
}

// exec runs the two threads under one interleaving (forced prefix, writer
// preferred afterwards) at the session's current message indexes. After a
// violation the session must not be used again.
func (w *dupWorld) exec(prefix string) (full string, free []bool, v *viol) {
	c, lg := w.c, w.lg
	fail := func(sig, what string, a ...any) {
		if v == nil {
			v = w.violf(sig, what, a...)
		}
	}

	// the peer's messages are on the wire towards the subject before it starts
	var ins, outs [][]byte
	for j, size := range c.InSizes {
		m := pattern(w.in, w.inIdx+j, size)
		ins = append(ins, m)
		if err := w.plainIn(m); err != nil {
			fail("ffwd-send-error", "peer could not send inbound message %d: %v", j, err)
			return "", nil, v
		}
	}
	for j, size := range c.Sizes {
		outs = append(outs, pattern(c.Dir, w.outIdx+j, size))
	}
	lg("execution #%d on this session: out #0 has index %d, in #0 has index %d; peer has sent %d message(s) (%v bytes): %d ciphertext bytes wait for the subject; interleaving prefix %q",
		w.execs, w.outIdx, w.inIdx, len(ins), c.InSizes, w.inWire.Len(), prefix)
	w.execs++

	var got [][]byte
	writer := func(yield func()) {
		for j, m := range outs {
			if j > 0 {
				yield()
			}
			var plan []int
			if j < len(c.Plans) {
				plan = c.Plans[j]
			}
			total := hdrLen + len(m) + macLen
			startLen, sum := w.outWire.Len(), 0
			for step := 0; ; step++ {
				allow := -1
				if step < len(plan) {
					allow = plan[step]
				}
				var n int
				var err error
				if step == 0 {
					lg("writer: WriteMessage(out #%d, %d bytes) + Flush with allowance %d", j, len(m), allow)
					n, err = w.begin(m, allow)
				} else {
					lg("writer: Flush again with allowance %d", allow)
					n, err = w.again(allow)
				}
				on := w.outWire.Len() - startLen
				lg("writer: -> n=%d err=%v; %d of %d ciphertext bytes of out #%d on the wire", n, err, on, total, j)
				if err != nil && !isTimeout(err) {
					fail("duplex-unexpected-error op=write", "out #%d flush #%d: %v", j, step, err)
					return
				}
				sum += n
				want := on - hdrLen
				if want < 0 {
					want = 0
				}
				if want > len(m) {
					want = len(m)
				}
				if n < 0 || sum != want {
					fail("flush-count-wrong", "out #%d: after flush #%d %d ciphertext bytes are on the wire = %d plaintext bytes, but the returned counts sum to %d", j, step, on, want, sum)
					return
				}
				if on > total {
					fail("flush-overrun", "out #%d: %d bytes written for a %d-byte frame", j, on, total)
					return
				}
				if on < total && err == nil {
					fail("flush-silent-incomplete", "out #%d: Flush #%d returned nil with %d of %d bytes written", j, step, on, total)
					return
				}
				if on == total {
					break
				}
				if allow < 0 {
					fail("flush-never-completes", "out #%d: %d of %d bytes after an unlimited flush", j, on, total)
					return
				}
			}
		}
	}
	reader := func(yield func()) {
		for j, want := range ins {
			lg("reader: read in #%d (%d bytes expected)", j, len(want))
			g, err := w.readOne(len(want))
			lg("reader: -> %d bytes err=%v identical=%v", len(g), err, err == nil && bytes.Equal(g, want))
			if err != nil || !bytes.Equal(g, want) {
				fail(fmt.Sprintf("duplex-inbound-mismatch dir=%d", w.in), "inbound message %d (%d bytes), read while the same end was writing, came out as %d bytes, err=%v", j, len(want), len(g), err)
				return
			}
			got = append(got, g)
		}
	}
	// the hooks need the threads' yield functions, which exist only once the
	// threads run
	var wyield, ryield func()
	first := true
	w.hooks(func() {
		if wyield != nil {
			wyield()
		}
	}, func() {
		if first { // the start of the reader thread is itself the scheduling point
			first = false
			return
		}
		if ryield != nil {
			ryield()
		}
	})
	var pan string
	full, free, pan = interleave(prefix,
		func(y func()) { wyield = y; writer(y) },
		func(y func()) { ryield = y; reader(y) },
	)
	w.hooks(nil, nil)
	lg("interleaving executed: %s", full)
	if pan != "" {
		return full, free, &viol{sig: "panic f=duplex op=" + c.Mode, what: pan}
	}
	if v != nil {
		return full, free, v
	}

	// the peer reads what the subject wrote
	for j, want := range outs {
		g, err := w.recvOut()
		lg("peer reads out #%d: %d bytes err=%v identical=%v", j, len(g), err, err == nil && bytes.Equal(g, want))
		if err != nil || !bytes.Equal(g, want) {
			fail(fmt.Sprintf("duplex-outbound-mismatch dir=%d", c.Dir), "outbound message %d (%d bytes), written while the same end was reading, is read by the peer as %d bytes, err=%v (interleaving %s)", j, len(want), len(g), err, full)
			return full, free, v
		}
	}
	if w.outWire.Len() != 0 || w.inWire.Len() != 0 {
		fail("stream-leftover", "%d outbound / %d inbound ciphertext bytes left over", w.outWire.Len(), w.inWire.Len())
		return full, free, v
	}
	for j := range got {
		if !bytes.Equal(got[j], ins[j]) {
			fail("duplex-read-result-mutated", "the %d bytes returned for inbound message %d were changed by later operations on the same end (interleaving %s)", len(ins[j]), j, full)
			return full, free, v
		}
	}
	// the session must be intact in both directions
	next := pattern(c.Dir, w.outIdx+len(outs), 5)
	if err := w.plainOut(next); err != nil {
		fail("duplex-followup-mismatch side=out", "next outbound message: %v", err)
		return full, free, v
	}
	if g, err := w.recvOut(); err != nil || !bytes.Equal(g, next) {
		fail("duplex-followup-mismatch side=out", "the outbound message after the interleaved ones is read as %d bytes err=%v", len(g), err)
		return full, free, v
	}
	next = pattern(w.in, w.inIdx+len(ins), 6)
	if err := w.plainIn(next); err != nil {
		fail("duplex-followup-mismatch side=in", "next inbound message: %v", err)
		return full, free, v
	}
	if g, err := w.readOne(len(next)); err != nil || !bytes.Equal(g, next) {
		fail("duplex-followup-mismatch side=in", "the inbound message after the interleaved ones is read as %d bytes err=%v", len(g), err)
		return full, free, v
	}
	w.outIdx += len(outs) + 1
	w.inIdx += len(ins) + 1
	lg("both directions delivered identically and in order; follow-up messages delivered")
	return full, free, v
}

// dupReplay executes the recorded schedules c.Hist (which must hold) and then c.Ilv
// on one fresh session.
func dupReplay(c Case, lg logf) (full string, v *viol) {
	w, v := newDupWorld(c, lg)
	if v != nil {
		return "", v
	}
	for _, h := range c.Hist {
		if _, _, v = w.exec(h); v != nil {
			return h, v
		}
	}
	full, _, v = w.exec(c.Ilv)
	return full, v
}

// ---------------------------------------------------------------------------
// every interleaving of one case
// ---------------------------------------------------------------------------

func binom(n, k int) int {
	r := 1
	for i := 1; i <= k; i++ {
		r = r * (n - k + i) / i
	}
	return r
}

// interleaved reports whether the schedule really nests the two activities (it is
// neither "all of one thread, then all of the other").
func interleaved(full string) bool {
	return strings.Contains(full, "wr") && strings.Contains(full, "rw")
}

func dupConfig(c Case) string {
	var cuts []string
	for j, plan := range c.Plans {
		if j >= len(c.Sizes) {
			break
		}
		at, total := 0, hdrLen+c.Sizes[j]+macLen
		var w []string
		for _, a := range plan {
			at += a
			if at < total {
				w = append(w, cutRegion(at, c.Sizes[j]))
			}
		}
		cuts = append(cuts, strings.Join(w, ","))
	}
	return fmt.Sprintf("duplex/%s/%d/%v/%v/%s/%s/%s/%v/%v", c.Mode, c.Dir, c.Sizes, c.InSizes, rotPhase(c.Pos), rotPhase(c.InPos), strings.Join(cuts, ";"), c.Stops, c.Eager)
}

func runDuplex(c Case, lg logf, res *result) {
	if c.Ilv != "" { // one recorded schedule (after the recorded history, if any)
		res.evals = 1
		full, v := dupReplay(c, lg)
		res.v = v
		res.outcome = "duplex-" + c.Mode + ":one-schedule"
		if v == nil && full != c.Ilv {
			res.outcome += "(executed " + full + ")"
		}
		return
	}
	cfg := dupConfig(c)
	nt := map[string]bool{}
	prefix, n, want, sessions := "", 0, 0, 0
	var w *dupWorld
	var hist []string
	for {
		l := nolog
		if n == 0 {
			l = lg
		}
		if w == nil || !w.room() {
			var v *viol
			if w, v = newDupWorld(c, l); v != nil {
				res.v = v
				return
			}
			hist = nil
			sessions++
		}
		w.lg = l
		full, free, v := w.exec(prefix)
		n++
		res.evals++
		if v != nil {
			// replay artefact: the schedule alone on a fresh session if that shows
			// the same violation, otherwise together with the session's history
			rc := c
			rc.Ilv = full
			if len(hist) > 0 {
				if _, v2 := dupReplay(rc, nolog); v2 == nil || v2.sig != v.sig {
					rc.Hist = hist
				} else {
					v = v2
				}
			}
			res.v, res.rc = v, &rc
			res.outcome = "violation"
			return
		}
		hist = append(hist, full)
		if n == 1 {
			want = binom(len(full), strings.Count(full, "w"))
		}
		if interleaved(full) {
			// shape of the nesting: how many writer segments precede the first
			// and the last reader segment
			a := strings.Count(full[:strings.Index(full, "r")], "w")
			b := strings.Count(full[:strings.LastIndex(full, "r")], "w")
			nt[fmt.Sprintf("%s/r%d-%d", cfg, a, b)] = true
		}
		i := len(full) - 1
		for ; i >= 0; i-- {
			if free[i] && full[i] == 'w' {
				break
			}
		}
		if i < 0 {
			break
		}
		prefix = full[:i] + "r"
	}
	for key := range nt {
		res.nt = append(res.nt, key)
	}
	res.outcome = fmt.Sprintf("duplex-%s:schedules=%d", c.Mode, n)
	if n != want {
		// every thread has a fixed number of segments, so the schedule space of a
		// case must be the full set of merges of the two segment sequences
		res.fail("duplex-schedule-space-unexpected", "case %s: %d schedules executed but the first execution had segment counts giving %d merges - a thread's steps depend on the interleaving", cfg, n, want)
	}
}

// ---------------------------------------------------------------------------
// the case space
// ---------------------------------------------------------------------------

// edgeCuts lists the accepted-byte counts within +-d of every structural boundary
// of a frame (start, header end, payload end, MAC end).
func edgeCuts(size, d int) []int {
	total := hdrLen + size + macLen
	var out []int
	seen := map[int]bool{}
	for _, b := range []int{0, hdrLen, hdrLen + size, total} {
		for v := b - d; v <= b+d; v++ {
			if v >= 0 && v <= total && !seen[v] {
				seen[v] = true
				out = append(out, v)
			}
		}
	}
	return out
}

type dupEnd struct {
	mode string
	dir  int
}

// dupEnds: which end is the subject and through which API. The Machine modes are
// run for both roles; a dialled Conn is always the initiator.
var dupEnds = []dupEnd{
	{"msg", 0}, {"msg", 1}, {"split", 0}, {"split", 1},
	{"conn", 0}, {"connsplit", 0}, {"connread", 0},
}

func enumDuplex(thorough bool) []Case {
	var cs []Case
	add := func(e dupEnd, ki, pos, inpos int, sizes, insizes []int, plans [][]int, stops []int, eager bool) {
		if e.mode == "connread" {
			for _, s := range insizes {
				if s == 0 {
					return // Conn.Read cannot observe an empty record
				}
			}
		}
		cs = append(cs, Case{F: "duplex", Mode: e.mode, Dir: e.dir, Keys: combos[ki%4], Pos: pos, InPos: inpos,
			Sizes: sizes, InSizes: insizes, Plans: plans, Stops: stops, Eager: eager})
	}
	all := func(total int) []int {
		var v []int
		for i := 0; i <= total; i++ {
			v = append(v, i)
		}
		return v
	}
	midHeader := []int{9}

	// (A) first message of both directions: one outbound message of size s, every
	// first allowance k1 in [0, frame], one inbound message delivered whole or
	// with its header split in the middle.
	smallOut := []int{0, 1, 17}
	if thorough {
		smallOut = []int{0, 1, 2, 17, 32}
	}
	for ei, e := range dupEnds {
		// the API pairs lnd itself uses get the deepest bounds
		main := e.mode == "msg" || e.mode == "connsplit"
		for _, size := range smallOut {
			total := hdrLen + size + macLen
			for _, k1 := range all(total) {
				for _, eager := range []bool{false, true} {
					if eager && !(thorough && main) && !(size == 1 && e.mode == "msg") {
						continue
					}
					add(e, ei+size, 0, 0, []int{size}, []int{1}, [][]int{{k1}}, nil, eager)
					add(e, ei+size, 0, 0, []int{size}, []int{1}, [][]int{{k1}}, midHeader, eager)
				}
			}
			// inbound sizes 0 and 17, and every fragmentation point of the inbound
			// frame, against the boundary allowances
			for _, k1 := range edgeCuts(size, 1) {
				for _, insize := range []int{0, 17} {
					add(e, ei, 0, 0, []int{size}, []int{insize}, [][]int{{k1}}, nil, false)
				}
				if size != 1 && !thorough {
					continue
				}
				inTotal := hdrLen + 1 + macLen
				stops := []int{1, 2, 17, 18, 19, inTotal - 1}
				if thorough && (main || e.mode == "split") {
					stops = all(inTotal - 1)[1:]
				}
				for _, st := range stops {
					if main || thorough {
						add(e, ei, 0, 0, []int{size}, []int{1}, [][]int{{k1}}, []int{st}, false)
					}
				}
			}
		}
	}

	// (B) both directions next to their key rotations, crossed
	for ei, e := range dupEnds {
		side := e.mode == "conn" || e.mode == "connread"
		if !thorough && side {
			continue
		}
		rot := []int{0, 499, 500}
		if thorough && !side {
			rot = []int{0, 499, 500, 501, 999, 1000}
		}
		for _, pos := range rot {
			for _, inpos := range rot {
				if pos == 0 && inpos == 0 {
					continue
				}
				for _, k1 := range edgeCuts(1, 1) {
					add(e, ei+pos, pos, inpos, []int{1}, []int{1}, [][]int{{k1}}, nil, false)
					if e.mode == "msg" || e.mode == "split" || thorough {
						add(e, ei+pos, pos, inpos, []int{1}, []int{1}, [][]int{{k1}}, midHeader, false)
					}
				}
			}
		}
	}

	// (C) maximal frames in either or both directions
	for ei, e := range dupEnds {
		if !thorough && (e.mode == "conn" || e.mode == "connread") {
			continue
		}
		for _, k1 := range boundaryCuts(65535) {
			add(e, ei, 0, 0, []int{65535}, []int{65535}, [][]int{{k1}}, nil, false)
			add(e, ei, 0, 0, []int{65535}, []int{65535}, [][]int{{k1}}, midHeader, false)
			if thorough {
				add(e, ei, 499, 499, []int{65535}, []int{65535}, [][]int{{k1}}, []int{hdrLen + 65535}, false)
				add(e, ei, 0, 0, []int{65535}, []int{1}, [][]int{{k1}}, nil, true)
			}
		}
		for _, k1 := range edgeCuts(1, 1) {
			add(e, ei, 0, 0, []int{1}, []int{65535}, [][]int{{k1}}, nil, false)
		}
	}

	// (D) two messages each way (buffers of the first message are released and
	// reused while the other thread is in the middle of something)
	firstCuts, secondCuts := []int{0, 7, 18, 20}, []int{-1, 0, 18}
	if thorough {
		firstCuts = all(hdrLen + 1 + macLen)
	}
	for ei, e := range dupEnds {
		if !thorough && (e.mode == "conn" || e.mode == "connread") {
			continue
		}
		for _, k1 := range firstCuts {
			for _, k2 := range secondCuts {
				add(e, ei+1, 0, 0, []int{1, 17}, []int{1, 0}, [][]int{{k1}, {k2}}, nil, false)
				if thorough && (e.mode == "msg" || e.mode == "connsplit") && (k1 == 0 || k1 == 7 || k1 == 18 || k1 == 20) {
					add(e, ei+1, 499, 499, []int{1, 17}, []int{1, 2}, [][]int{{k1}, {k2}}, nil, false)
				}
			}
		}
	}

	// (E) two interruptions of one message
	for ei, e := range dupEnds {
		if !thorough && e.mode != "msg" && e.mode != "connsplit" {
			continue
		}
		total := hdrLen + 1 + macLen
		deep := thorough && (e.mode == "msg" || e.mode == "connsplit")
		k1s := []int{0, 1, 17}
		if deep {
			k1s = all(total - 1)
		}
		for _, k1 := range k1s {
			k2s := []int{0, 1, hdrLen - k1, hdrLen + 1 - k1}
			if deep {
				k2s = all(total - k1)
			}
			for _, k2 := range k2s {
				add(e, ei+2, 0, 0, []int{1}, []int{1}, [][]int{{k1, k2}}, nil, false)
				if !deep || e.mode == "msg" {
					add(e, ei+2, 0, 0, []int{1}, []int{1}, [][]int{{k1, k2}}, midHeader, false)
				}
			}
		}
	}
	return cs
}
