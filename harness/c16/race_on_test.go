//go:build race

package c16

const raceEnabled = true
