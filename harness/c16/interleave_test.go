// Transaction-granular interleavings of the multi-transaction operations.
//
// The transaction table measured during the sequential exploration (crashdb in
// counting mode on the KV side, a counting wrapper around the TransactionExecutor on
// the SQL side) says which operations are exactly one database transaction: those
// are atomic, and every interleaving of them with other calls is one of the
// enumerated sequences. For every operation kind seen with more than one write
// transaction, this pass enumerates, in every explored state up to a depth bound,
// every way of running one (quick) or two (thorough) other operations of the alphabet
// "on another thread" exactly at each transaction boundary of the operation — the
// other operations are executed from the scheduling hook that precedes the next
// transaction — and requires the outcome (answers of all calls + final report of the
// store) to equal that of one of the sequential orders allowed by real time
// (linearizability, brute force over the orders, computed on the implementation).
package c16

import (
	"fmt"
	"sort"
	"strings"
	"sync"
	"sync/atomic"
	"time"

	"github.com/lightningnetwork/lnd/verifmc/evid"
)

type ilResult struct {
	Executions  int64 // fresh store instances driven by this pass
	Cases       int64
	Boundaries  int64 // cases in which the boundary was reached and ops were injected
	NoBoundary  int64
	Linearized  map[string]int64 // which sequential order explained the outcome
	Kinds       []string
	StatesUsed  int
	DepthBound  int
	MaxInjected int
	Exhaustive  bool
	Cap         string
}

func (r ilResult) Coverage() map[string]any {
	return map[string]any{
		"multi_tx_operation_kinds": r.Kinds, "base_states": r.StatesUsed, "base_state_depth_bound": r.DepthBound,
		"max_ops_injected_at_a_boundary": r.MaxInjected, "cases": r.Cases, "cases_boundary_reached": r.Boundaries,
		"cases_without_boundary": r.NoBoundary, "explained_by_order": r.Linearized, "store_instances": r.Executions,
		"cases_injected_ops_blocked_behind_a_lock": atomic.LoadInt64(&injectedBlocked),
		"exhaustive": r.Exhaustive, "cap": r.Cap,
	}
}

// stateHist collects the shortest history of every explored state (per space).
type stateHist struct {
	mu sync.Mutex
	m  map[string][][]string // space -> histories
}

var explored = &stateHist{m: map[string][][]string{}}

func (s *stateHist) add(space string, hist []string, maxLen int) {
	if len(hist) > maxLen {
		return
	}
	s.mu.Lock()
	s.m[space] = append(s.m[space], append([]string{}, hist...))
	s.mu.Unlock()
}

// oneBackend is a single store (no lock-step partner, no ledger) used by this pass.
type oneBackend struct {
	b  *backend
	nh int
}

func newOneBackend(name string, sp Space) (*oneBackend, error) {
	nh := len(sp.RegIDs)
	if name == "kv" {
		b, err := newKVBackend(true, sp.KV)
		if err != nil {
			return nil, err
		}
		b.noMig = sp.NoMig
		return &oneBackend{b: b, nh: nh}, nil
	}
	h, err := openFreshSQL()
	if err != nil {
		return nil, err
	}
	b, err := newSQLBackend(h, sp.SQLCfg)
	if err != nil {
		h.close()
		return nil, err
	}
	return &oneBackend{b: b, nh: nh}, nil
}

func (o *oneBackend) close() {
	if o.b.name == "kv" {
		_ = o.b.bolt.Close()
		removeAll(o.b.dir)
		return
	}
	o.b.sq.close()
}

// run executes a history; amount tokens are resolved step by step against what the
// store reports at that point.
func (o *oneBackend) run(ops []string) ([]result, error) {
	var out []result
	for _, raw := range ops {
		p, err := parseOp(raw)
		if err != nil {
			return nil, err
		}
		rs, err := o.runOps([]op{o.b.resolveOn(p)})
		if err != nil {
			return nil, err
		}
		out = append(out, rs...)
	}
	return out, nil
}

// resolveAll parses ops and resolves their amount tokens against the *current* state
// of the store: the operations of a concurrent / interleaved case are fixed calls
// (same arguments in every order that is compared).
func (o *oneBackend) resolveAll(ops []string) ([]op, error) {
	out := make([]op, len(ops))
	for i, raw := range ops {
		p, err := parseOp(raw)
		if err != nil {
			return nil, err
		}
		out[i] = o.b.resolveOn(p)
	}
	return out, nil
}

func (o *oneBackend) runOps(ops []op) ([]result, error) {
	var out []result
	for _, p := range ops {
		if p.kind == "reopen" {
			if err := o.b.reopen(); err != nil {
				return nil, err
			}
			out = append(out, result{ok: true, class: "ok"})
			continue
		}
		out = append(out, o.b.exec(p))
	}
	return out, nil
}

// setBefore installs fn as the scheduling hook preceding every transaction (read
// or write) the store begins.
func (o *oneBackend) setBefore(fn func()) {
	if o.b.name == "kv" {
		if fn == nil {
			o.b.txHook = nil
			return
		}
		o.b.txHook = func(bool) { fn() }
		return
	}
	if fn == nil {
		o.b.cq.before = nil
		return
	}
	o.b.cq.before = func(bool) { fn() }
}

func (o *oneBackend) final() string {
	// The order of the QueryPayments listing follows the sequence numbers, which the
	// KV store allocates in a transaction of its own before the payment is written:
	// under concurrency "allocation order" and "commit order" may differ. The property
	// says nothing about listing order, so concurrent outcomes are compared on the
	// listing as a set.
	ob := o.b.observe(o.nh, -1, true, true, nil)
	ob.query = append([]int{}, ob.query...)
	sort.Ints(ob.query)
	return ob.stateString()
}

func resString(r result) string {
	s := r.class
	if r.pay != nil {
		s += "{" + r.pay.String() + "}"
	}
	if r.n != 0 {
		s += fmt.Sprintf("#%d", r.n)
	}
	return s
}

// injectedRun replays hist, re-instantiates the store, then runs a with the ops inj
// executed right before a's tx-th transaction. It returns the answers (a first,
// then inj in order), the final report and whether the boundary was reached.
func injectedRun(be string, sp Space, hist []string, a string, inj []string, tx int64) (answers []string, final string, reached bool, err error) {
	o, err := newOneBackend(be, sp)
	if err != nil {
		return nil, "", false, err
	}
	defer o.close()
	if _, err := o.run(append(append([]string{}, hist...), "reopen")); err != nil {
		return nil, "", false, err
	}
	all, err := o.resolveAll(append([]string{a}, inj...))
	if err != nil {
		return nil, "", false, err
	}
	pa, injOps := all[0], all[1:]
	var (
		hmu     sync.Mutex
		n       int64
		active  bool
		injRes  []result
		injErr  error
		pending chan struct{}
	)
	o.setBefore(func() {
		hmu.Lock()
		if active {
			hmu.Unlock()
			return
		}
		n++
		if n != tx {
			hmu.Unlock()
			return
		}
		active = true
		hmu.Unlock()
		// The other thread's operations run on a goroutine of their own: if a holds a
		// lock of the store across this transaction boundary (e.g. the KV store's
		// sequence-number mutex), an injected operation that needs the same lock can
		// only finish after a resumes. Executing it on a's goroutine would self-deadlock
		// the harness. In that case a is resumed and the injected operations are joined
		// after it: they still overlap a in real time, so the same sequential orders
		// remain the allowed explanations. (The grace period only decides "blocked
		// behind a"; it is not an oracle.)
		done := make(chan struct{})
		go func() {
			defer close(done)
			injRes, injErr = o.runOps(injOps)
		}()
		select {
		case <-done:
			hmu.Lock()
			active = false
			hmu.Unlock()
		case <-time.After(injectGrace):
			atomic.AddInt64(&injectedBlocked, 1)
			pending = done
		}
		reached = true
	})
	ra := o.b.exec(pa)
	if pending != nil {
		<-pending
	}
	o.setBefore(nil)
	if injErr != nil {
		return nil, "", false, injErr
	}
	answers = append(answers, resString(ra))
	for _, r := range injRes {
		answers = append(answers, resString(r))
	}
	return answers, o.final(), reached, nil
}

// sequentialRun is the reference: hist, re-instantiation, then the given order.
// answers are returned in the canonical order (a first, then inj in order).
func sequentialRun(be string, sp Space, hist []string, pos int, a string, inj []string) (answers []string, final string, err error) {
	order := orderAt(a, inj, pos)
	o, err := newOneBackend(be, sp)
	if err != nil {
		return nil, "", err
	}
	defer o.close()
	if _, err := o.run(append(append([]string{}, hist...), "reopen")); err != nil {
		return nil, "", err
	}
	// the same calls (arguments resolved in the base state) as in the injected run
	ops, err := o.resolveAll(order)
	if err != nil {
		return nil, "", err
	}
	rs, err := o.runOps(ops)
	if err != nil {
		return nil, "", err
	}
	// order is inj[:pos] + a + inj[pos:]: map answers back by position
	answers = append(answers, resString(rs[pos]))
	for j := range inj {
		k := j
		if j >= pos {
			k = j + 1
		}
		answers = append(answers, resString(rs[k]))
	}
	return answers, o.final(), nil
}

// ordersFor lists the sequential orders compatible with real time when inj ran (in
// order) strictly inside the execution of a: a may take effect before, between or
// after them.
func ordersFor(a string, inj []string) [][]string {
	var out [][]string
	for pos := 0; pos <= len(inj); pos++ {
		out = append(out, orderAt(a, inj, pos))
	}
	return out
}

func orderAt(a string, inj []string, pos int) []string {
	var o []string
	o = append(o, inj[:pos]...)
	o = append(o, a)
	o = append(o, inj[pos:]...)
	return o
}

// injectGrace is how long the injected operations may run before they are considered
// blocked behind a lock held by the interrupted operation; injectedBlocked counts those cases.
var (
	injectGrace     = 10 * time.Second
	injectedBlocked int64
)

type ilCase struct {
	be    string
	space Space
	hist  []string
	a     string
	inj   []string
	tx    int64
}

// checkCase returns ("", order index) if linearizable, else a description.
func checkCase(c ilCase, execs *int64) (bad string, which string, reached bool, err error) {
	ans, fin, reached, err := injectedRun(c.be, c.space, c.hist, c.a, c.inj, c.tx)
	atomic.AddInt64(execs, 1)
	if err != nil || !reached {
		return "", "", reached, err
	}
	var tried []string
	for i, ord := range ordersFor(c.a, c.inj) {
		sa, sf, err := sequentialRun(c.be, c.space, c.hist, i, c.a, c.inj)
		atomic.AddInt64(execs, 1)
		if err != nil {
			return "", "", true, err
		}
		if strings.Join(sa, " | ") == strings.Join(ans, " | ") && sf == fin {
			return "", fmt.Sprintf("position-%d-of-%d", i, len(c.inj)), true, nil
		}
		tried = append(tried, fmt.Sprintf("order %v -> answers [%s] final {%s}", ord, strings.Join(sa, " | "), sf))
	}
	return fmt.Sprintf("interleaved execution answered [%s] final {%s}; no sequential order explains it: %s",
		strings.Join(ans, " | "), fin, strings.Join(tried, " ;; ")), "", true, nil
}

func runInterleavings(run *evid.Run, sps []Space, st *Stats, pool *sqlPool, deadline time.Time, workers int) ilResult {
	res := ilResult{Linearized: map[string]int64{}, Exhaustive: true}
	// operation kinds observed with more than one write transaction
	type mk struct{ be, kind string }
	var kindsMulti []mk
	maxTx := map[mk]int64{}
	st.mu.Lock()
	for k, m := range st.TxTable {
		f := strings.SplitN(k, ":", 2)
		for c := range m {
			var w, r int64
			fmt.Sscanf(c, "w=%d,r=%d", &w, &r)
			if w+r > 1 {
				key := mk{f[0], f[1]}
				if maxTx[key] == 0 {
					kindsMulti = append(kindsMulti, key)
				}
				if w+r > maxTx[key] {
					maxTx[key] = w + r
				}
			}
		}
	}
	st.mu.Unlock()
	sort.Slice(kindsMulti, func(i, j int) bool { return kindsMulti[i].be+kindsMulti[i].kind < kindsMulti[j].be+kindsMulti[j].kind })
	for _, k := range kindsMulti {
		res.Kinds = append(res.Kinds, fmt.Sprintf("%s:%s(max %d tx)", k.be, k.kind, maxTx[k]))
	}
	if len(kindsMulti) == 0 || run.Violations() > 0 {
		if run.Violations() > 0 {
			res.Exhaustive, res.Cap = false, "skipped: violations already reported"
		}
		return res
	}
	depth := 3
	res.MaxInjected = 1
	if run.Thorough() {
		res.MaxInjected = 2 // two injected operations on the states of depth <= 1
	}
	depth = envInt("C16_IL_DEPTH", depth)
	res.DepthBound = depth

	var cases []ilCase
	explored.mu.Lock()
	for _, sp := range sps {
		hs := explored.m[sp.Name]
		alpha := sp.Alphabet()
		var others []string
		for _, x := range alpha {
			if x != "reopen" {
				others = append(others, x)
			}
		}
		for _, h := range hs {
			if len(h) > depth {
				continue
			}
			res.StatesUsed++
			for _, k := range kindsMulti {
				for _, a := range alpha {
					if !strings.HasPrefix(a, k.kind+":") {
						continue
					}
					for tx := int64(2); tx <= maxTx[k]; tx++ {
						for _, x := range others {
							cases = append(cases, ilCase{be: k.be, space: sp, hist: h, a: a, inj: []string{x}, tx: tx})
						}
						// two injected operations: only on the shallowest states
						if res.MaxInjected >= 2 && len(h) <= depth-2 {
							for _, x := range others {
								for _, y := range others {
									cases = append(cases, ilCase{be: k.be, space: sp, hist: h, a: a, inj: []string{x, y}, tx: tx})
								}
							}
						}
					}
				}
			}
		}
	}
	explored.mu.Unlock()

	if workers <= 0 {
		workers = 16
	}
	var (
		idx  int64 = -1
		wg   sync.WaitGroup
		mu   sync.Mutex
		stop atomic.Bool
	)
	for wk := 0; wk < workers; wk++ {
		wg.Add(1)
		go func() {
			defer wg.Done()
			for {
				i := int(atomic.AddInt64(&idx, 1))
				if i >= len(cases) || stop.Load() {
					return
				}
				if time.Now().After(deadline) {
					stop.Store(true)
					mu.Lock()
					res.Exhaustive, res.Cap = false, "deadline"
					mu.Unlock()
					return
				}
				c := cases[i]
				var bad, which string
				var reached bool
				var err error
				func() {
					defer func() {
						if v := recover(); v != nil {
							theGate.report(run, "panic:interleave:"+firstLine(fmt.Sprint(v)), fmt.Sprintf("panic in interleaved case %+v: %v", c, v),
								replayDoc{Space: c.space, History: append(append([]string{}, c.hist...), c.a), Inject: &injectDoc{Be: c.be, Ops: c.inj, Tx: c.tx}}, nil)
						}
					}()
					bad, which, reached, err = checkCase(c, &res.Executions)
				}()
				mu.Lock()
				res.Cases++
				if reached {
					res.Boundaries++
					if which != "" {
						res.Linearized[which]++
					}
				} else {
					res.NoBoundary++
				}
				mu.Unlock()
				if err != nil {
					theGate.report(run, "harness:interleave-error", fmt.Sprintf("case %+v: %v", c, err), replayDoc{Space: c.space, History: c.hist}, nil)
					continue
				}
				if bad != "" {
					kx := make([]string, len(c.inj))
					for j, x := range c.inj {
						kx[j] = strings.SplitN(x, ":", 2)[0]
					}
					a0 := strings.SplitN(c.a, ":", 2)[0]
					sig := fmt.Sprintf("%s:not-linearizable:%s-tx%d||%s", c.be, a0, c.tx, strings.Join(kx, "+"))
					theGate.report(run, sig, fmt.Sprintf("after %v (+store re-instantiated): %s with %v executed at its transaction boundary %d: %s", c.hist, c.a, c.inj, c.tx, bad),
						replayDoc{Space: c.space, History: append(append([]string{}, c.hist...), c.a), Inject: &injectDoc{Be: c.be, Ops: c.inj, Tx: c.tx}}, nil)
				}
			}
		}()
	}
	wg.Wait()
	return res
}

// runInjected is the replay path of an interleaved case: the prefix has already been
// executed on w (both backends, narrated); the case itself is re-run from scratch on
// single-backend instances exactly as the explorer did.
func runInjected(sp Space, hist []string, last string, inj injectDoc, rep reporter, logf func(string, ...any)) {
	say := func(f string, a ...any) {
		if logf != nil {
			logf(f, a...)
		}
	}
	c := ilCase{be: inj.Be, space: sp, hist: hist, a: last, inj: inj.Ops, tx: inj.Tx}
	if c.be == "" {
		c.be = "kv"
	}
	say("interleaved step on %s: store re-instantiated, then %s with %v executed by another thread right before its transaction #%d", c.be, last, c.inj, c.tx)
	ans, fin, reached, err := injectedRun(c.be, sp, hist, last, c.inj, c.tx)
	if err != nil {
		say("harness error: %v", err)
		return
	}
	say("   answers (op, then injected ops): [%s]", strings.Join(ans, " | "))
	say("   final report: %s", fin)
	if !reached {
		say("   the operation had no transaction #%d: nothing was injected", c.tx)
		return
	}
	okAny := false
	var tried []string
	for i, ord := range ordersFor(last, c.inj) {
		sa, sf, err := sequentialRun(c.be, sp, hist, i, last, c.inj)
		if err != nil {
			say("harness error: %v", err)
			return
		}
		match := strings.Join(sa, " | ") == strings.Join(ans, " | ") && sf == fin
		say("   sequential order %v: answers [%s] final %s  => %s", ord, strings.Join(sa, " | "), sf, map[bool]string{true: "EXPLAINS IT", false: "differs"}[match])
		okAny = okAny || match
		tried = append(tried, fmt.Sprintf("order %v -> [%s] {%s}", ord, strings.Join(sa, " | "), sf))
	}
	if !okAny {
		kx := make([]string, len(c.inj))
		for j, x := range c.inj {
			kx[j] = strings.SplitN(x, ":", 2)[0]
		}
		a0 := strings.SplitN(last, ":", 2)[0]
		sig := fmt.Sprintf("%s:not-linearizable:%s-tx%d||%s", c.be, a0, c.tx, strings.Join(kx, "+"))
		say("   !! %s", sig)
		rep(sig, fmt.Sprintf("interleaved execution answered [%s] final {%s}; no sequential order explains it: %s", strings.Join(ans, " | "), fin, strings.Join(tried, " ;; ")),
			append(append([]string{}, hist...), last), nil)
	}
}
