package c16

// Status-class family: every delete / re-initiation / payment-level-fail operation
// variant x every reachable payment status class, KV and SQL in lock-step.
//
// The depth-bounded spaces reach the "mixed" status classes of the documented truth
// table (a payment-level failure reason next to a settled or an in-flight attempt, a
// failed attempt next to a settled one, ...) only at their last BFS level, which is the
// level a deadline on a loaded machine cuts first; the operations whose decision
// depends on the status (DeletePayments x 4 option pairs, DeletePayment x 2,
// DeleteFailedAttempts, InitPayment, Fail) were then never executed in those classes.
// This family starts them from a precomputed set of representative states instead:
//
//   * representative states: for the "full" payment every row of the 16-row truth
//     table over (in-flight?, settled?, htlc-failed?, payment-level reason?) - built
//     constructively from up to three MPP shards, one per flag - with the payment-level
//     Fail recorded either before or after the settle (both orders, they store the same
//     report but are different write histories), plus "absent"; crossed with a partner
//     payment on the other hash in one of its own classes (quick: absent, in flight,
//     succeeded, failed; thorough: all 11 one-attempt classes incl. the mixed ones) and,
//     in the thorough tier, with the roles of the two hashes swapped.
//   * a representative state is entered by the macro letter "goto:<k>", enabled in the
//     empty state only, which executes the k-th construction history through World.Do:
//     every step of it is judged by all clauses like any other operation.
//   * behind the macro letter the ordinary letters of the status-dependent operations
//     are explored to LetterDepth (quick 1, thorough 2); every distinct state gets the
//     restart probe and, if configured, the QueryPayments option matrix.
//
// Nothing here is an oracle: the verdicts are those of World.Do (reference ledger,
// truth table, absorbing statuses, delall-count, KV == SQL).

import (
	"fmt"
	"strconv"
	"strings"

	"github.com/lightningnetwork/lnd/verifmc/seqmc"
)

// fullClassHistories lists the construction histories of every status class of a
// payment on hash h with the attempt-id tokens ids[0..2] (in flight, settled, failed).
func fullClassHistories(h string, ids [3]uint64) [][]string {
	out := [][]string{nil} // absent
	seen := map[string]bool{"": true}
	for mask := 0; mask < 8; mask++ {
		infl, sett, hf := mask&1 != 0, mask&2 != 0, mask&4 != 0
		for _, reason := range []string{"none", "early", "late"} {
			hist := []string{"init:" + h}
			if hf {
				hist = append(hist, fmt.Sprintf("reg:%s:%d:H:m", h, ids[2]), fmt.Sprintf("failatt:%s:%d", h, ids[2]))
			}
			if infl {
				hist = append(hist, fmt.Sprintf("reg:%s:%d:H:m", h, ids[0]))
			}
			if sett {
				hist = append(hist, fmt.Sprintf("reg:%s:%d:H:m", h, ids[1]))
			}
			if reason == "early" {
				hist = append(hist, "fail:"+h+":0")
			}
			if sett {
				hist = append(hist, fmt.Sprintf("settle:%s:%d", h, ids[1]))
			}
			if reason == "late" {
				hist = append(hist, "fail:"+h+":0")
			}
			k := strings.Join(hist, " ")
			if !seen[k] {
				seen[k] = true
				out = append(out, hist)
			}
		}
	}
	return out
}

// partnerClassHistories lists the classes of a one-attempt payment on hash h (attempt
// id token id, full amount, no MPP record).
func partnerClassHistories(h string, id uint64, all bool) [][]string {
	reg := fmt.Sprintf("reg:%s:%d:V:n", h, id)
	settle := fmt.Sprintf("settle:%s:%d", h, id)
	failatt := fmt.Sprintf("failatt:%s:%d", h, id)
	ini, fail := "init:"+h, "fail:"+h+":0"
	if !all {
		return [][]string{
			nil,
			{ini, reg},
			{ini, reg, settle},
			{ini, reg, failatt, fail},
		}
	}
	return [][]string{
		nil,
		{ini},
		{ini, fail},
		{ini, reg},
		{ini, reg, fail},
		{ini, reg, settle},
		{ini, reg, fail, settle},
		{ini, reg, settle, fail},
		{ini, reg, failatt},
		{ini, reg, fail, failatt},
		{ini, reg, failatt, fail},
	}
}

// classSeeds returns the construction histories of the representative states of a
// status-class space.
func classSeeds(mode string) [][]string {
	var out [][]string
	if mode == "" {
		return nil
	}
	cross := func(full, partner [][]string) {
		for _, f := range full {
			for _, p := range partner {
				if len(f)+len(p) == 0 {
					continue
				}
				out = append(out, append(append([]string{}, f...), p...))
			}
		}
	}
	all := mode == "thorough"
	cross(fullClassHistories("h0", [3]uint64{1, 2, 3}), partnerClassHistories("h1", 4, all))
	if all {
		cross(fullClassHistories("h1", [3]uint64{1, 2, 3}), partnerClassHistories("h0", 4, all))
	}
	return out
}

// classAlphabet: the macro letters first, then the status-dependent operations.
func (s Space) classAlphabet() []string {
	var a []string
	for k := range classSeeds(s.Classes) {
		a = append(a, "goto:"+strconv.Itoa(k))
	}
	hs := s.hashesSorted()
	for _, d := range s.DelAll {
		a = append(a, fmt.Sprintf("delall:%d:%d", d[0], d[1]))
	}
	for _, h := range hs {
		a = append(a, "dfa:"+h, "delfa:"+h, "del:"+h)
	}
	for _, h := range hs {
		a = append(a, "init:"+h)
	}
	for _, h := range hs {
		for _, r := range s.Reasons {
			a = append(a, fmt.Sprintf("fail:%s:%d", h, r))
		}
	}
	return a
}

// classWorld adds the macro letters to a World.
//
// Same key => same futures still holds: a macro letter is enabled iff the canonical
// key equals the key of the empty store (a function of the key); everywhere else it is
// a no-op that touches neither store.
type classWorld struct {
	*World
	seeds    [][]string
	emptyKey string
}

func newClassWorld(w *World, mode string) *classWorld {
	return &classWorld{World: w, seeds: classSeeds(mode), emptyKey: w.Key()}
}

func gotoIndex(raw string) (int, bool) {
	if !strings.HasPrefix(raw, "goto:") {
		return 0, false
	}
	k, err := strconv.Atoi(raw[len("goto:"):])
	return k, err == nil
}

func (c *classWorld) Do(raw string) error {
	k, ok := gotoIndex(raw)
	if !ok {
		return c.World.Do(raw)
	}
	if k < 0 || k >= len(c.seeds) {
		return fmt.Errorf("bad macro letter %q", raw)
	}
	if c.World.Key() != c.emptyKey {
		return nil
	}
	for _, op := range c.seeds[k] {
		if c.World.dead != "" {
			break
		}
		if err := c.World.Do(op); err != nil {
			return err
		}
	}
	return nil
}

// Replay expands a leading macro letter (a macro letter anywhere else is a no-op and
// never part of a shortest history).
func (c *classWorld) Replay(hist []string) error {
	var flat []string
	for i, raw := range hist {
		if k, ok := gotoIndex(raw); ok {
			if i == 0 && k >= 0 && k < len(c.seeds) {
				flat = append(flat, c.seeds[k]...)
			}
			continue
		}
		flat = append(flat, raw)
	}
	return c.World.Replay(flat)
}

var _ seqmc.Replayer = (*classWorld)(nil)

func worldOf(s seqmc.Sys) *World {
	if c, ok := s.(*classWorld); ok {
		return c.World
	}
	return s.(*World)
}

// classCell names the status class of every payment of the ledger: status, and the
// flags of the truth table (i = in flight, s = settled, f = failed attempt, R = reason).
func classCell(w *World) string {
	var parts []string
	for h := 0; h < w.nh; h++ {
		p := &w.mdl[0].pay[h]
		if !p.exists {
			parts = append(parts, "absent")
			continue
		}
		i, s, f := p.flags()
		fl := ""
		for _, x := range []struct {
			on bool
			c  string
		}{{i, "i"}, {s, "s"}, {f, "f"}, {p.reason >= 0, "R"}} {
			if x.on {
				fl += x.c
			}
		}
		parts = append(parts, statusName(p.status())+"("+fl+")")
	}
	return strings.Join(parts, "/")
}
