// C16: an outgoing payment is never paid twice nor beyond its amount; status truthful.
//
// Exhaustive bounded enumeration of payment-store operation sequences on the real
// paymentsdb.KVStore (bbolt) and paymentsdb.SQLStore (sqlite) in lock-step
// (engine seqmc), every step judged by the reference ledger / status table / KV-SQL
// differential of oracle_test.go; transaction accounting (crashdb counting mode) shows
// which operations are a single atomic transaction, the others are interleaved at
// transaction granularity (interleave_test.go).
package c16

import (
	"encoding/json"
	"fmt"
	"os"
	"runtime/pprof"
	"sort"
	"strconv"
	"strings"
	"sync"
	"syscall"
	"testing"
	"time"

	"github.com/lightningnetwork/lnd/verifmc/evid"
	"github.com/lightningnetwork/lnd/verifmc/seqmc"
)

func removeAll(p string) { _ = os.RemoveAll(p) }

// Space is one bounded exploration: an alphabet and a depth.
type Space struct {
	Name    string              `json:"name"`
	RegIDs  map[string][]uint64 `json:"reg_ids"` // hash -> attempt ids usable by reg
	ResIDs  map[string][]uint64 `json:"res_ids"` // hash -> attempt ids usable by settle/failatt
	Amts    []string            `json:"amts"`
	Kinds   []string            `json:"kinds"`
	Reasons []int               `json:"reasons"`
	DelAll  [][2]int            `json:"delall"`
	Reopen  bool                `json:"reopen"`
	Query   bool                `json:"query"`
	Depth   int                 `json:"depth"`
	// SQLCfg names the query configuration of the SQLStore ("" = default, "tiny" =
	// one item per page and per IN-batch, "batch1" = pages of two, batches of one);
	// NoIL keeps the space out of the transaction-boundary pass; NoMig re-instantiates the
	// KVStore with WithNoMigration(true) on reopen; Query2 also observes QueryPayments
	// with IncludeIncomplete=false and one-payment pages (Reversed / IndexOffset).
	SQLCfg string `json:"sql_cfg,omitempty"`
	NoMig  bool   `json:"kv_no_migration,omitempty"`
	Query2 bool   `json:"query2,omitempty"`
	NoIL   bool   `json:"no_interleave,omitempty"`
	// QueryMatrix evaluates the QueryPayments option matrix (matrix_test.go) in every
	// distinct state of the space; Side marks a small space that runs first, on the
	// side budget (so that the large spaces cannot starve it).
	// KV selects the key-value backend under the KVStore: "" = bbolt, "sqlite" = the
	// sqlite-backed kvdb (only in the binary of the kvsqlite target).
	KV          string `json:"kv_backend,omitempty"`
	QueryMatrix bool `json:"query_matrix,omitempty"`
	Side        bool `json:"side,omitempty"`
	// MatrixDepth, if non-zero, limits the matrix to the states whose shortest history
	// has at most that many operations.
	MatrixDepth int `json:"matrix_depth,omitempty"`
	// Classes ("quick" / "thorough") makes the space a status-class space
	// (classes_test.go): macro letters enter precomputed representative states of every
	// status class, behind them the status-dependent operations are explored to
	// Depth-1. Such a space runs first, on a budget of its own.
	Classes string `json:"classes,omitempty"`
}

func (s Space) worldOpts() worldOpts {
	return worldOpts{query: s.Query, nh: len(s.RegIDs), sqlCfg: s.SQLCfg, noMig: s.NoMig, query2: s.Query2, kvKind: s.KV}
}

func (s Space) hashesSorted() []string {
	var hs []string
	for h := range s.RegIDs {
		hs = append(hs, h)
	}
	sort.Strings(hs)
	return hs
}

// Alphabet lists the operations simplest-first.
func (s Space) Alphabet() []string {
	if s.Classes != "" {
		return s.classAlphabet()
	}
	var a []string
	hs := s.hashesSorted()
	for _, h := range hs {
		a = append(a, "init:"+h)
	}
	for _, h := range hs {
		for _, id := range s.RegIDs[h] {
			for _, k := range s.Kinds {
				for _, am := range s.Amts {
					a = append(a, fmt.Sprintf("reg:%s:%d:%s:%s", h, id, am, k))
				}
			}
		}
	}
	for _, h := range hs {
		for _, id := range s.ResIDs[h] {
			a = append(a, fmt.Sprintf("settle:%s:%d", h, id))
		}
	}
	for _, h := range hs {
		for _, id := range s.ResIDs[h] {
			a = append(a, fmt.Sprintf("failatt:%s:%d", h, id))
		}
	}
	for _, h := range hs {
		for _, r := range s.Reasons {
			a = append(a, fmt.Sprintf("fail:%s:%d", h, r))
		}
	}
	for _, h := range hs {
		a = append(a, "dfa:"+h, "delfa:"+h, "del:"+h)
	}
	for _, d := range s.DelAll {
		a = append(a, fmt.Sprintf("delall:%d:%d", d[0], d[1]))
	}
	// Reopen is not a letter: a re-instantiated store reports the same state, so the
	// search would never continue behind it. It is explored as the restart probe that
	// runSpace executes from every distinct state (see OnState there).
	return a
}

func ids(n ...uint64) []uint64 { return n }

func spaces(thorough bool) []Space {
	allDel := [][2]int{{0, 0}, {1, 0}, {0, 1}, {1, 1}}
	if !thorough {
		return []Space{
			{ // status classes x status-dependent operations (classes_test.go)
				Name:   "status-classes",
				RegIDs: map[string][]uint64{"h0": ids(1, 2, 3), "h1": ids(4)}, ResIDs: map[string][]uint64{"h0": ids(1, 2, 3), "h1": ids(4)},
				Amts: []string{"H", "V"}, Kinds: []string{"m", "n"}, Reasons: []int{0},
				DelAll: allDel, Reopen: true, Query: true, Depth: 2,
				NoIL: true, QueryMatrix: true, MatrixDepth: 1, Side: true, Classes: "quick",
			},
			{ // one payment, the full attempt alphabet of the design
				Name:   "single-full",
				RegIDs: map[string][]uint64{"h0": ids(1, 2, 3)}, ResIDs: map[string][]uint64{"h0": ids(1, 2, 3)},
				Amts: []string{"V", "H", "J"}, Kinds: []string{"n", "m", "b"}, Reasons: []int{0},
				DelAll: [][2]int{{0, 0}, {1, 1}}, Reopen: true, Query: true, Depth: 5,
			},
			{ // two payments sharing attempt ids (collisions, isolation, bulk deletes)
				Name:   "pair-shared-ids",
				RegIDs: map[string][]uint64{"h0": ids(1, 2), "h1": ids(1, 2)}, ResIDs: map[string][]uint64{"h0": ids(1, 2), "h1": ids(1, 2)},
				Amts: []string{"V", "H"}, Kinds: []string{"n", "m"}, Reasons: []int{0},
				DelAll: allDel, Reopen: true, Query: true, Depth: 5,
			},
			{ // MPP / blinded record consistency; two different failure reasons
				Name:   "single-records",
				RegIDs: map[string][]uint64{"h0": ids(1, 2)}, ResIDs: map[string][]uint64{"h0": ids(1, 2)},
				Amts: []string{"H"}, Kinds: []string{"n", "m", "t", "a", "b", "c", "z", "x"}, Reasons: []int{1, 5},
				Depth: 5,
			},
			{ // non-default store options: SQL pages / IN-batches of one item (two
				// payments, two attempts, two hops each span several), KVStore
				// re-instantiated with NoMigration, further QueryPayments options
				Name:   "pair-tiny-pages",
				RegIDs: map[string][]uint64{"h0": ids(1, 2), "h1": ids(3)}, ResIDs: map[string][]uint64{"h0": ids(1, 2), "h1": ids(3)},
				Amts: []string{"H"}, Kinds: []string{"m"}, Reasons: []int{0},
				DelAll: allDel, Reopen: true, Query: true, Depth: 5,
				SQLCfg: "tiny", NoMig: true, Query2: true, NoIL: true, QueryMatrix: true, MatrixDepth: 3, Side: true,
			},
			{ // pages of two / IN-batches of one: the page is exactly full with the two
				// payments, their shared data is loaded in two batches
				Name:   "pair-batch1-page2",
				RegIDs: map[string][]uint64{"h0": ids(1, 2), "h1": ids(3)}, ResIDs: map[string][]uint64{"h0": ids(1), "h1": ids(3)},
				Amts: []string{"H"}, Kinds: []string{"m"}, Reasons: []int{0},
				DelAll: [][2]int{{0, 0}, {1, 1}}, Query: true, Depth: 4,
				SQLCfg: "batch1", Query2: true, NoIL: true, QueryMatrix: true, Side: true,
			},
			{ // the other route shapes and every optional persisted field: one-hop
				// routes, AMP shards (AMP record, own payment hash, hop / route level
				// custom records, metadata, first-hop amount), three-hop blinded paths;
				// SQL shared data loaded in IN-batches of one item (per hop, per record)
				Name:   "single-rich",
				RegIDs: map[string][]uint64{"h0": ids(1, 2)}, ResIDs: map[string][]uint64{"h0": ids(1, 2)},
				Amts: []string{"H", "V"}, Kinds: []string{"S", "A", "B"}, Reasons: []int{0},
				DelAll: [][2]int{{0, 1}}, Reopen: true, Query: true, Depth: 4,
				SQLCfg: "tiny", NoIL: true, Side: true,
			},
		}
	}
	// ordered so that the largest space runs last (a deadline then caps only it)
	return []Space{
		{ // status classes x status-dependent operations, default SQL configuration
			Name:   "status-classes",
			RegIDs: map[string][]uint64{"h0": ids(1, 2, 3, 4), "h1": ids(1, 2, 3, 4)}, ResIDs: map[string][]uint64{"h0": ids(1, 2, 3, 4), "h1": ids(1, 2, 3, 4)},
			Amts: []string{"H", "V"}, Kinds: []string{"m", "n"}, Reasons: []int{0, 1},
			DelAll: allDel, Reopen: true, Query: true, Depth: 3,
			NoIL: true, QueryMatrix: true, MatrixDepth: 1, Side: true, Classes: "thorough",
		},
		{ // the same on SQL pages / IN-batches of one item, KVStore without migration
			Name:   "status-classes-tiny",
			RegIDs: map[string][]uint64{"h0": ids(1, 2, 3, 4), "h1": ids(1, 2, 3, 4)}, ResIDs: map[string][]uint64{"h0": ids(1, 2, 3, 4), "h1": ids(1, 2, 3, 4)},
			Amts: []string{"H", "V"}, Kinds: []string{"m", "n"}, Reasons: []int{0},
			DelAll: allDel, Reopen: true, Query: true, Depth: 2,
			SQLCfg: "tiny", NoMig: true, Query2: true, NoIL: true, Side: true, Classes: "thorough",
		},
		{
			Name:   "pair-batch1-page2",
			RegIDs: map[string][]uint64{"h0": ids(1, 2), "h1": ids(3)}, ResIDs: map[string][]uint64{"h0": ids(1, 2), "h1": ids(3)},
			Amts: []string{"H"}, Kinds: []string{"m"}, Reasons: []int{0},
			DelAll: allDel, Reopen: true, Query: true, Depth: 6,
			SQLCfg: "batch1", NoMig: true, Query2: true, NoIL: true, QueryMatrix: true, Side: true,
		},
		{
			Name:   "single-rich",
			RegIDs: map[string][]uint64{"h0": ids(1, 2, 3)}, ResIDs: map[string][]uint64{"h0": ids(1, 2, 3)},
			Amts: []string{"H", "V"}, Kinds: []string{"S", "A", "B", "m"}, Reasons: []int{0},
			DelAll: [][2]int{{0, 1}, {0, 0}}, Reopen: true, Query: true, Depth: 5,
			SQLCfg: "tiny", NoIL: true, Side: true,
		},
		{ // the rich kinds on two payments, default SQL query configuration
			Name:   "pair-rich",
			RegIDs: map[string][]uint64{"h0": ids(1, 2), "h1": ids(3)}, ResIDs: map[string][]uint64{"h0": ids(1, 2), "h1": ids(3)},
			Amts: []string{"H"}, Kinds: []string{"A", "B"}, Reasons: []int{0},
			DelAll: [][2]int{{0, 1}, {0, 0}}, Reopen: true, Query: true, Depth: 5,
			NoIL: true, QueryMatrix: true, Side: true,
		},
		{
			Name:   "pair-tiny-pages",
			RegIDs: map[string][]uint64{"h0": ids(1, 2), "h1": ids(3)}, ResIDs: map[string][]uint64{"h0": ids(1, 2), "h1": ids(3)},
			Amts: []string{"H", "V"}, Kinds: []string{"m"}, Reasons: []int{0},
			DelAll: allDel, Reopen: true, Query: true, Depth: 6,
			SQLCfg: "tiny", NoMig: true, Query2: true, NoIL: true, QueryMatrix: true, Side: true,
		},
		{
			Name:   "single-records",
			RegIDs: map[string][]uint64{"h0": ids(1, 2, 3)}, ResIDs: map[string][]uint64{"h0": ids(1, 2, 3)},
			Amts: []string{"H", "J"}, Kinds: []string{"n", "m", "t", "a", "b", "c", "z", "x"}, Reasons: []int{1, 5},
			Depth: 6,
		},
		{
			Name:   "pair-shared-ids",
			RegIDs: map[string][]uint64{"h0": ids(1, 2), "h1": ids(1, 2)}, ResIDs: map[string][]uint64{"h0": ids(1, 2), "h1": ids(1, 2)},
			Amts: []string{"V", "H"}, Kinds: []string{"n", "m"}, Reasons: []int{0},
			DelAll: allDel, Reopen: true, Query: true, Depth: 7,
		},
		{
			Name:   "pair-disjoint-ids",
			RegIDs: map[string][]uint64{"h0": ids(1, 2), "h1": ids(3, 4)}, ResIDs: map[string][]uint64{"h0": ids(1, 2, 3), "h1": ids(1, 3, 4)},
			Amts: []string{"V", "H", "J"}, Kinds: []string{"n", "m"}, Reasons: []int{0},
			DelAll: allDel, Query: true, Depth: 6,
		},
		{
			Name:   "single-full",
			RegIDs: map[string][]uint64{"h0": ids(1, 2, 3)}, ResIDs: map[string][]uint64{"h0": ids(1, 2, 3)},
			Amts: []string{"V", "H", "J"}, Kinds: []string{"n", "m", "t", "b"}, Reasons: []int{0, 1},
			DelAll: allDel, Reopen: true, Query: true, Depth: 7,
		},
	}
}

// replayDoc is the replay artefact of a violation.
type replayDoc struct {
	Space   Space    `json:"space"`
	History []string `json:"history"`
	// Inject, if set, reproduces a transaction-boundary interleaving: while the last
	// operation of History runs on the KV store, Inject.Op is executed by "another
	// thread" right before the store's Inject.Tx-th write transaction.
	Inject *injectDoc `json:"inject,omitempty"`
	// Conc, if set, is a free-running concurrent case.
	Conc *concDoc `json:"conc,omitempty"`
}

type injectDoc struct {
	Be  string   `json:"backend"`
	Ops []string `json:"ops"`
	Tx  int64    `json:"tx"`
}

// gate is the determinism gate in front of run.Violation: a violation is reported
// only if its recorded history reproduces the same signature on 3 fresh worlds.
type gate struct {
	mu      sync.Mutex
	seen    map[string]bool
	nondet  []string
	listAll bool
}

var theGate = &gate{seen: map[string]bool{}, listAll: os.Getenv("C16_SIGS") != ""}

func (g *gate) report(run *evid.Run, sig, what string, doc replayDoc, full []string) {
	g.mu.Lock()
	if g.seen[sig] {
		g.mu.Unlock()
		return
	}
	g.seen[sig] = true
	g.mu.Unlock()
	if g.listAll {
		extra := ""
		if doc.Inject != nil {
			extra = fmt.Sprintf(" inject=%+v", *doc.Inject)
		}
		fmt.Printf("INFO SIG %s :: %v%s\n", sig, doc.History, extra)
	}
	if strings.HasPrefix(sig, "panic:") || doc.Conc != nil {
		run.Violation(sig, what, doc)
		return
	}
	reproduces := func(d replayDoc) bool {
		got := map[string]bool{}
		collect := func(s, _ string, _, _ []string) { got[s] = true }
		replayWith(d, collect, nil)
		return got[sig]
	}
	if !reproduces(doc) && full != nil && len(full) > len(doc.History) {
		// the shortest history (self-loops dropped) does not reproduce it: fall back
		// to the operations actually executed on the instance
		doc.History = full
		what += "  [full history: " + strings.Join(full, " ") + "]"
	}
	for i := 0; i < 3; i++ {
		if !reproduces(doc) {
			g.mu.Lock()
			g.nondet = append(g.nondet, fmt.Sprintf("%s did not reproduce on replay %d of %v", sig, i+1, doc.History))
			g.mu.Unlock()
			fmt.Printf("INFO nondeterminism: %s did not reproduce on replay %d\n", sig, i+1)
			return
		}
	}
	run.Violation(sig, what, doc)
}

type spaceResult struct {
	res  seqmc.Result
	wall float64
	ntri int64
}

func runSpace(run *evid.Run, sp Space, st *Stats, pool *sqlPool, deadline time.Time, workers int, nontrivial *int64, mu *sync.Mutex) spaceResult {
	t0 := time.Now()
	rep := func(sig, what string, hist, full []string) {
		theGate.report(run, sig, what, replayDoc{Space: sp, History: hist}, full)
	}
	var ntri int64
	res := seqmc.Run(seqmc.Options{
		New: func(worker int) (seqmc.Sys, error) {
			wo := sp.worldOpts()
			wo.pool, wo.worker, wo.rep, wo.st = pool, worker, rep, st
			w, err := newWorld(wo)
			if err != nil {
				return nil, err
			}
			if sp.Classes != "" {
				return newClassWorld(w, sp.Classes), nil
			}
			return w, nil
		},
		Alphabet:     sp.Alphabet(),
		NoFastReplay: os.Getenv("C16_NOFASTREPLAY") != "",
		MaxDepth:     sp.Depth,
		Workers:      workers,
		Deadline:     deadline,
		Stop:         func() bool { return !theGate.listAll && run.Violations() >= 8 },
		Expandable:   func(key string) bool { return !strings.HasPrefix(key, "DEAD:") },
		OnState: func(s seqmc.Sys, hist []string) {
			w := worldOf(s)
			if w.dead != "" {
				return
			}
			if sp.Classes != "" && len(hist) == 1 {
				if _, ok := gotoIndex(hist[0]); ok {
					st.clause("class-cell:" + classCell(w))
				}
			}
			if !sp.NoIL {
				explored.add(sp.Name, hist, 4)
			}
			for h := range w.cur[0].pay {
				if w.cur[0].pay[h].Exists && len(w.cur[0].pay[h].HTLCs) > 0 {
					mu.Lock()
					ntri++
					mu.Unlock()
					break
				}
			}
			// QueryPayments option matrix (read-only; matrix_test.go)
			if sp.QueryMatrix && (sp.MatrixDepth == 0 || len(hist) <= sp.MatrixDepth) {
				w.queryMatrix()
				if w.dead != "" {
					return
				}
			}
			// Restart probe. A re-instantiated store reports the same state, so the
			// canonical key cannot tell a cold store object from a warm one and the
			// search never continues *behind* a `reopen`. The only in-memory state of
			// the stores is the KVStore's payment-sequence allocator, and it is
			// consumed by InitPayment only; so from every distinct state the suffix
			// `reopen; init:hA; reopen; init:hB` (hash order alternating with the
			// depth) is executed on the live instance and judged by the same clauses:
			// every InitPayment outcome x every state x cold store, across one and
			// two restarts. (The instance is discarded after OnState.)
			if sp.Reopen {
				hs := sp.hashesSorted()
				if len(hist)%2 == 1 {
					for i, j := 0, len(hs)-1; i < j; i, j = i+1, j-1 {
						hs[i], hs[j] = hs[j], hs[i]
					}
				}
				for _, h := range hs {
					if w.dead != "" {
						break
					}
					_ = w.Do("reopen")
					if w.dead != "" {
						break
					}
					_ = w.Do("init:" + h)
					st.clause("restart-probe")
				}
			}
		},
	}, func(hist []string, v any) {
		theGate.report(run, "panic:"+firstLine(fmt.Sprint(v)), fmt.Sprintf("panic while executing %v: %v", hist, v), replayDoc{Space: sp, History: hist}, nil)
	})
	mu.Lock()
	*nontrivial += ntri
	mu.Unlock()
	return spaceResult{res: res, wall: time.Since(t0).Seconds(), ntri: ntri}
}

func cpuSeconds() float64 {
	var ru syscall.Rusage
	if err := syscall.Getrusage(syscall.RUSAGE_SELF, &ru); err != nil {
		return 0
	}
	return float64(ru.Utime.Sec+ru.Stime.Sec) + float64(ru.Utime.Usec+ru.Stime.Usec)/1e6
}

func firstLine(s string) string {
	if i := strings.IndexByte(s, '\n'); i >= 0 {
		s = s[:i]
	}
	if len(s) > 120 {
		s = s[:120]
	}
	return s
}

func envInt(name string, def int) int {
	if s := os.Getenv(name); s != "" {
		if n, err := strconv.Atoi(s); err == nil {
			return n
		}
	}
	return def
}

func TestC16(t *testing.T) {
	run := evid.Start("C16", "model_checking")
	if rp := os.Getenv("VERIF_REPLAY"); rp != "" {
		os.Exit(replayFile(run, rp, false, false))
	}
	// separate budgets: the sequential exploration, then the determinism re-check and
	// the transaction-boundary pass get their own (deadlines only stop exploration)
	// (the small "side" spaces run first on a budget of their own: on a loaded machine
	// the large spaces use up theirs, and the side spaces must not be starved)
	budget, ilBudget, sideBudget, classBudget := 120*time.Second, 40*time.Second, 45*time.Second, 40*time.Second
	if run.Thorough() {
		budget, ilBudget, sideBudget, classBudget = 14*time.Minute, 150*time.Second, 5*time.Minute, 4*time.Minute
	}
	if n := envInt("C16_CLASS_BUDGET_S", 0); n > 0 {
		classBudget = time.Duration(n) * time.Second
	}
	if n := envInt("VERIF_BUDGET_S", 0); n > 0 {
		budget = time.Duration(n) * time.Second
	}
	if n := envInt("C16_SIDE_BUDGET_S", 0); n > 0 {
		sideBudget = time.Duration(n) * time.Second
	}
	var sideDeadline time.Time // of the side spaces: set when the first of them starts
	var deadline time.Time     // of the main spaces: set when the first of them starts
	if pf := os.Getenv("C16_CPUPROFILE"); pf != "" {
		if f, err := os.Create(pf); err == nil {
			_ = pprof.StartCPUProfile(f)
			stopProfile = func() { pprof.StopCPUProfile(); _ = f.Close() }
		}
	}
	workers := envInt("C16_WORKERS", 0)
	st := newStats()
	pool := newSQLPool()
	defer pool.closeAll()

	sps := spaces(run.Thorough())
	if d := envInt("C16_DEPTH", 0); d > 0 {
		for i := range sps {
			sps[i].Depth = d
		}
	}
	if only := os.Getenv("C16_SPACE"); only != "" {
		var f []Space
		for _, s := range sps {
			if s.Name == only {
				f = append(f, s)
			}
		}
		sps = f
	}

	var (
		mu         sync.Mutex
		nontrivial int64
		agg        seqmc.Result
		perSpace   []map[string]any
		caps       = []string{}
		samples    []any
	)
	agg.Exhaustive = true
	// side spaces first (in the listed order), then the main spaces
	ordered := make([]Space, 0, len(sps))
	for _, sp := range sps {
		if sp.Classes != "" {
			ordered = append(ordered, sp)
		}
	}
	for _, sp := range sps {
		if sp.Side && sp.Classes == "" {
			ordered = append(ordered, sp)
		}
	}
	for _, sp := range sps {
		if !sp.Side && sp.Classes == "" {
			ordered = append(ordered, sp)
		}
	}
	for _, sp := range ordered {
		if sideDeadline.IsZero() && sp.Classes == "" {
			sideDeadline = time.Now().Add(sideBudget)
		}
		dl := sideDeadline
		if sp.Classes != "" {
			// every status-class space gets its own budget
			dl = time.Now().Add(classBudget)
		} else if !sp.Side {
			if deadline.IsZero() {
				deadline = time.Now().Add(budget)
			}
			dl = deadline
		}
		if time.Now().After(dl) {
			caps = append(caps, "deadline before space "+sp.Name)
			continue
		}
		cpu0 := cpuSeconds()
		r := runSpace(run, sp, st, pool, dl, workers, &nontrivial, &mu)
		cpu := cpuSeconds() - cpu0
		agg.States += r.res.States
		agg.Transitions += r.res.Transitions
		agg.SelfLoops += r.res.SelfLoops
		agg.Replays += r.res.Replays
		agg.ReplaySteps += r.res.ReplaySteps
		agg.ReplayMismatches += r.res.ReplayMismatches
		if !r.res.Exhaustive {
			caps = append(caps, r.res.CapHit+" in space "+sp.Name)
		}
		perSpace = append(perSpace, map[string]any{
			"representative_states": len(classSeeds(sp.Classes)),
			"space": sp.Name, "alphabet_size": len(sp.Alphabet()), "depth_bound": sp.Depth,
			"states": r.res.States, "states_per_depth": r.res.PerDepth, "transitions": r.res.Transitions,
			"self_loops": r.res.SelfLoops, "fresh_instances": r.res.Replays, "unexpanded_states": r.res.Unexpanded,
			"states_with_attempts": r.ntri, "exhaustive": r.res.Exhaustive, "wall_s": r.wall, "cpu_s": cpu,
		})
		for _, h := range r.res.SampleHist {
			if len(samples) < 6 {
				samples = append(samples, map[string]any{"space": sp.Name, "history": h})
			}
		}
		fmt.Printf("INFO space %-18s |A|=%d depth<=%d: %d states, %d transitions, %.1fs wall, %.1fs cpu%s\n", sp.Name, len(sp.Alphabet()), sp.Depth,
			r.res.States, r.res.Transitions, r.wall, cpu, capNote(r.res))
	}

	// determinism re-check: the smallest completed space again, on *fresh* sqlite
	// databases (no pool): identical state and transition counts are required.
	recheck := map[string]any{"done": false}
	tPhase := time.Now()
	if run.Violations() == 0 && len(sps) > 0 {
		small := sps[len(sps)-1]
		for _, name := range []string{"single-records", "pair-batch1-page2"} {
			for _, c := range sps {
				if c.Name == name {
					small = c
				}
			}
		}
		if d := envInt("C16_RECHECK_DEPTH", 0); d > 0 {
			small.Depth = d
		} else if small.Depth > 4 {
			small.Depth = 4
		}
		st2 := newStats()
		var nt2 int64
		a := runSpace(run, small, st2, pool, time.Time{}, workers, &nt2, &mu)
		b := runSpace(run, small, st2, nil, time.Time{}, workers, &nt2, &mu)
		same := a.res.States == b.res.States && a.res.Transitions == b.res.Transitions && a.res.SelfLoops == b.res.SelfLoops
		recheck = map[string]any{"done": true, "space": small.Name, "depth": small.Depth,
			"pooled_sqlite": map[string]any{"states": a.res.States, "transitions": a.res.Transitions, "self_loops": a.res.SelfLoops},
			"fresh_sqlite":  map[string]any{"states": b.res.States, "transitions": b.res.Transitions, "self_loops": b.res.SelfLoops},
			"identical":     same}
		agg.Replays += a.res.Replays + b.res.Replays
		if !same {
			caps = append(caps, "nondeterminism_detected in recheck of "+small.Name)
		}
	}
	if agg.ReplayMismatches > 0 {
		caps = append(caps, "nondeterminism_detected (replayed history reached another key)")
	}
	theGate.mu.Lock()
	for _, n := range theGate.nondet {
		caps = append(caps, "nondeterminism_detected: "+n)
	}
	theGate.mu.Unlock()

	fmt.Printf("INFO determinism re-check: %.1fs wall\n", time.Since(tPhase).Seconds())
	tPhase = time.Now()

	// transaction-boundary interleavings of the multi-transaction operations
	il := runInterleavings(run, sps, st, pool, time.Now().Add(ilBudget), workers)
	fmt.Printf("INFO tx-boundary pass: %d cases on %d base states, %d store instances, %.1fs wall\n", il.Cases, il.StatesUsed, il.Executions, time.Since(tPhase).Seconds())
	if !il.Exhaustive {
		caps = append(caps, "tx-boundary pass: "+il.Cap)
	}

	st.mu.Lock()
	outcomes := map[string]int64{}
	classes := map[string]int64{}
	for k, v := range st.Outcomes {
		outcomes[k] = v
		f := strings.Split(k, ":")
		classes[f[0]+":"+f[1]+":"+f[len(f)-1]] += v
	}
	txTable := map[string]any{}
	multi := []string{}
	for k, m := range st.TxTable {
		txTable[k] = m
		for c := range m {
			var w, r int64
			fmt.Sscanf(c, "w=%d,r=%d", &w, &r)
			if w+r > 1 {
				multi = append(multi, k+" "+c)
			}
		}
	}
	sort.Strings(multi)
	refused := map[string]int64{}
	for k, v := range st.Refused {
		refused[k] = v
	}
	clauses := map[string]int64{}
	for k, v := range st.Clauses {
		clauses[k] = v
	}
	opsKV, opsSQL := st.OpsKV, st.OpsSQL
	st.mu.Unlock()

	if len(samples) == 0 {
		samples = append(samples, map[string]any{"note": "no history of length >= 3 explored"})
	}
	cov := map[string]any{
		"states":                        agg.States,
		"transitions":                   agg.Transitions,
		"traces_validated_against_impl": agg.Replays + il.Executions,
		"samples":                       samples,
		"evaluations":                   opsKV + opsSQL,
		"distinct_nontrivial":           nontrivial,
		"rule": "state = canonical report of the read interface (FetchPayment per hash, FetchInFlightPayments, QueryPayments) of the real KVStore, identical on the real SQLStore; " +
			"transition = one PaymentControl/PaymentWriter call executed on both stores in lock-step, every alphabet operation in every state of depth < bound (BFS, shortest histories); " +
			"from every distinct state additionally the restart probe (store re-instantiated, InitPayment of each hash, twice); " +
			"every transition runs: admission clauses against the reference ledger, the transcribed 16-row status table on every reported payment, absorbing-status clauses, refused-op-changes-nothing, ledger==report (incl. the digests of all persisted details), returned==stored, in-flight/query listings, KV==SQL (outcome, error class, returned payment, state); " +
			"in query_matrix spaces every distinct state additionally gets the QueryPayments option matrix; " +
			"evaluations = store operations executed (both backends, incl. replayed prefixes); distinct_nontrivial = distinct canonical states in which a payment with at least one attempt exists",
		"exhaustive":                     len(caps) == 0,
		"caps_hit":                       caps,
		"per_space":                      perSpace,
		"self_loop_transitions":          agg.SelfLoops,
		"fresh_instances":                agg.Replays,
		"replay_steps_on_impl":           agg.ReplaySteps,
		"determinism_recheck":            recheck,
		"outcome_classes":                classes,
		"distinct_outcome_classes":       len(classes),
		"distinct_outcomes_by_situation": len(outcomes),
		"clauses_exercised":              clauses,
		"admissible_ops_refused":         refused,
		"tx_per_operation":               txTable,
		"multi_transaction_ops":          multi,
		"tx_boundary_interleavings":      il.Coverage(),
	}
	run.Assumptions = append(run.Assumptions,
		"universe: 2 payment hashes with different creation info (h0: 1000 msat with payment request, created at T; h1: 2^32+1000 msat, blank payment request, two first-hop custom records, created at T+10.5s), a re-initiation carries another amount and a creation time 3 s later than the record it replaces (1000<->600, 2^32+1000<->1000); attempt ids {0, 2, 2^32+2, 4}; attempt amounts {V, V/2, V/2+1} of the payment's current amount V; two-hop routes with distinct per-hop fields, final-hop records {none, MPP consistent/total-mismatch/address-mismatch, blinded consistent/total-mismatch/missing-total/with-MPP}; in the 'rich' spaces additionally one-hop routes, AMP shards (AMP + MPP record, own payment hash, hop-level custom records on both hops incl. an empty value, metadata, route-level first-hop custom records and first-hop amount) and three-hop blinded paths (introduction node, blinded intermediate hop, total on the final hop); resolution details differ per attempt id (HTLC failure reasons 0..3, failure source index 0..3, with and without a wire failure message); failure reasons {0}, {1,5}; histories up to the per-space depth bound",
		"compared per payment: amount, status, failure reason, derived state, per attempt id / amounts / final-hop record kind / resolution, and digests of everything else the stores persist (creation time at microsecond resolution, payment request, first-hop records; session key, attempt time and hash, every route and hop field; preimage, resolution times, HTLC failure reason / source index / wire message); not varied: LegacyPayload hops, attempts without a hash, legacy duplicate payments",
		"store options: SQL query configuration {default (pages 100 / batches 250), pages 1 / batches 1, pages 2 / batches 1} (the non-default ones in their own two-payment spaces), KVStore re-instantiated with and without WithNoMigration; QueryPayments observed with {IncludeIncomplete, CountTotal, MaxPayments 100} everywhere and with {complete only}, {Reversed, MaxPayments 1}, {IndexOffset=first, MaxPayments 1} in the two-payment option spaces; in the spaces marked query_matrix every distinct state additionally gets the option matrix Reversed x IncludeIncomplete x MaxPayments{100,1} x IndexOffset{0, s-1, s, s+1 per listed index s} and the creation-date filters {start, end, start=end} x {t-1, t, t+1 per listed creation second t}, all with CountTotal, judged by a reference pagination over the store's own full listing; the KVStore additionally runs on the sqlite-backed kvdb in the kvsqlite target; not explored: legacy duplicate-payment buckets of the KV store, OmitHops, Postgres, etcd/postgres kvdb backends, exhaustion of a 1000-number sequence block",
		"SQL backend = sqlite (Postgres not available offline); KV backend = bbolt behind crashdb (kvdb.Batch degrades to Update; the free-running target uses raw bbolt and the real Batch path)",
		"operations that are a single database transaction (measured, see tx_per_operation) are atomic, so their interleavings are the enumerated sequences; multi-transaction operations are interleaved at transaction granularity; concurrent RegisterAttempt on one hash is a documented caller obligation and outside the contract",
		"states in which a violation was reported are not expanded further",
		"sqlite databases are reused per worker after DELETE FROM payments (cascade); the determinism re-check compares against fresh databases")
	stopProfile()
	if code := run.Finish(cov); code != 0 {
		os.Exit(code)
	}
}

var stopProfile = func() {}

func capNote(r seqmc.Result) string {
	if r.Exhaustive {
		return ""
	}
	return " (NOT exhaustive: " + r.CapHit + ")"
}

// replayFile re-runs one replay artefact, narrating every step.
func replayFile(run *evid.Run, path string, concTarget, kvTarget bool) int {
	b, err := os.ReadFile(path)
	if err != nil {
		fmt.Printf("INFO cannot read replay: %v\n", err)
		return 2
	}
	var doc struct {
		Signature string    `json:"signature"`
		Replay    replayDoc `json:"replay"`
	}
	if err := json.Unmarshal(b, &doc); err != nil {
		fmt.Printf("INFO cannot parse replay: %v\n", err)
		return 2
	}
	n := 0
	switch {
	case (doc.Replay.Space.KV != "") != kvTarget:
		// cases on the sqlite-backed kvdb are replayed by the "kvsqlite" target (the only
		// binary that contains that backend), all others by the "seq" / "conc" targets
		fmt.Printf("INFO %s: not a case of this target, skipped here\n", path)
	case (doc.Replay.Conc != nil) != concTarget:
		// sequential / interleaved cases are replayed by the "seq" target, free-running
		// concurrent cases by the "conc" target (bin/check runs both binaries)
		fmt.Printf("INFO %s: not a case of this target, skipped here\n", path)
	case doc.Replay.Conc != nil:
		fmt.Printf("INFO replaying %s (recorded signature: %s)\n", path, doc.Signature)
		n = replayConc(run, doc.Replay)
	default:
		fmt.Printf("INFO replaying %s (recorded signature: %s)\n", path, doc.Signature)
		n = replaySeq(run, doc.Replay, true)
	}
	return run.Finish(map[string]any{"evaluations": n, "distinct_nontrivial": 2, "states": 1, "transitions": n + 1,
		"traces_validated_against_impl": 1, "samples": []any{path}, "rule": "replay of one recorded case", "exhaustive": false, "caps_hit": []string{"replay only"}})
}

// replaySeq executes a (possibly injected) sequential history on fresh databases.
func replaySeq(run *evid.Run, doc replayDoc, narrate bool) int {
	logf := func(f string, a ...any) { fmt.Printf("INFO "+f+"\n", a...) }
	rep := func(sig, what string, _, _ []string) { run.Violation(sig, what, doc) }
	return replayWith(doc, rep, logf)
}

func replayWith(doc replayDoc, rep reporter, logf func(string, ...any)) int {
	narrate := logf != nil
	wo := doc.Space.worldOpts()
	wo.rep, wo.logf = rep, logf
	w, err := newWorld(wo)
	if err != nil {
		fmt.Printf("INFO cannot build world: %v\n", err)
		return 0
	}
	defer w.Close()
	for i, a := range doc.History {
		if narrate {
			fmt.Printf("INFO step %d\n", i+1)
		}
		if doc.Inject != nil && i == len(doc.History)-1 {
			runInjected(doc.Space, doc.History[:i], a, *doc.Inject, rep, logf)
			continue
		}
		if err := w.Do(a); err != nil {
			fmt.Printf("INFO bad step %q: %v\n", a, err)
			return i
		}
	}
	if doc.Space.QueryMatrix && doc.Inject == nil {
		if narrate {
			fmt.Printf("INFO QueryPayments option matrix in the final state\n")
		}
		w.queryMatrix()
	}
	if narrate {
		fmt.Printf("INFO final key: %s\n", w.Key())
	}
	return len(doc.History)
}
