// C16 oracle: a reference ledger written from the property statement, the
// scenario-independent clauses evaluated after every operation on each backend,
// and the KV/SQL differential.
package c16

import (
	"fmt"
	"sort"
	"strings"
	"sync"

	paymentsdb "github.com/lightningnetwork/lnd/payments/db"
)

// ---------------------------------------------------------------------------
// reference ledger (one per backend, driven by that backend's own answers)

type mAtt struct {
	id    uint64
	amt   int64
	kind  string
	total int64 // total of the MPP / blinded record
	res   int
	dig   string // attemptDigest of the attempt info handed to RegisterAttempt
	rdig  string // digest of the settle / fail info the attempt was resolved with
}

type mPay struct {
	exists bool
	value  int64  // amount of the payment (of its latest initiation)
	info   string // creationDigest of the creation info of its latest initiation
	atts   []mAtt // sorted by id
	reason int    // -1 none
}

type model struct {
	nh  int
	pay [nHashes]mPay
}

func newModel(nh int) *model {
	m := &model{nh: nh}
	for i := range m.pay {
		m.pay[i].reason = -1
	}
	return m
}

func (p *mPay) find(id uint64) int {
	for i := range p.atts {
		if p.atts[i].id == id {
			return i
		}
	}
	return -1
}

func (p *mPay) flags() (infl, sett, hf bool) {
	for _, a := range p.atts {
		switch a.res {
		case resInFlight:
			infl = true
		case resSettled:
			sett = true
		case resFailed:
			hf = true
		}
	}
	return
}

func (p *mPay) status() int {
	i, s, f := p.flags()
	return tableStatus(i, s, f, p.reason >= 0)
}

func (p *mPay) sent() int64 {
	var s int64
	for _, a := range p.atts {
		if a.res != resFailed {
			s += a.amt
		}
	}
	return s
}

func kindString(k string, total int64) string {
	ki := kinds[k]
	switch {
	case ki.blinded && ki.mpp:
		return fmt.Sprintf("blinded(%d)+mpp", total)
	case ki.blinded:
		return fmt.Sprintf("blinded(%d)", total)
	case ki.mpp:
		ad := addrA
		if ki.addr == 'B' {
			ad = addrB
		}
		return fmt.Sprintf("mpp(%d,%x)", total, ad[:1])
	}
	return "no-mpp"
}

// expect renders what a truthful store must report for the ledger entry.
func (p *mPay) expect() pproj {
	if !p.exists {
		return pproj{}
	}
	out := pproj{Exists: true, Value: p.value, Info: p.info, Reason: p.reason, HashOK: true}
	var sent, fees int64
	for _, a := range p.atts {
		out.HTLCs = append(out.HTLCs, aproj{ID: a.id, Amt: a.amt, Total: a.amt + 7, Kind: kindString(a.kind, a.total), Res: a.res, Dig: a.dig, RDig: a.rdig})
		if a.res == resInFlight {
			out.NInFl++
		}
		if a.res == resSettled {
			out.HasSett = true
		}
		if a.res != resFailed {
			sent += a.amt
			fees += 7
		}
	}
	out.Status = p.status()
	out.Remain = p.value - sent
	out.Fees = fees
	out.PFailed = p.reason >= 0
	return out
}

// regIllegal lists, in the order of the property statement, why admitting the
// attempt would violate the contract. Empty = admissible.
func regIllegal(p *mPay, o op) []string {
	var why []string
	if p.reason >= 0 {
		why = append(why, "payment-failed")
	}
	_, sett, _ := p.flags()
	if sett {
		why = append(why, "has-settled")
	}
	if p.sent()+o.amt > p.value {
		why = append(why, "overpay")
	}
	// documented shard consistency (verifyAttempt contract; anchors.mechanism)
	ki := kinds[o.akind]
	if ki.blinded && o.total == 0 {
		why = append(why, "blinded-missing-total")
	}
	if ki.blinded && ki.mpp {
		why = append(why, "blinded-with-mpp")
	}
	for _, a := range p.atts {
		if a.res != resInFlight {
			continue
		}
		fk := kinds[a.kind]
		switch {
		case ki.blinded != fk.blinded:
			why = append(why, "mixed-blinded")
		case ki.blinded:
			if o.total != a.total {
				why = append(why, "blinded-total-mismatch")
			}
		case ki.mpp != fk.mpp:
			why = append(why, "mpp-vs-nonmpp")
		case ki.mpp:
			if ki.addr != fk.addr {
				why = append(why, "mpp-addr-mismatch")
			}
			if o.total != a.total {
				why = append(why, "mpp-total-mismatch")
			}
		}
	}
	if !ki.blinded && !ki.mpp && o.amt != p.value {
		why = append(why, "nonmpp-amount-mismatch")
	}
	// de-duplicate, keep order
	seen := map[string]bool{}
	out := why[:0]
	for _, w := range why {
		if !seen[w] {
			seen[w] = true
			out = append(out, w)
		}
	}
	return out
}

// apply is the ledger transition for an operation the store admitted (ok). It returns
// the number of payments the documented effect of DeletePayments removes.
func (m *model) apply(o op, ok bool) int {
	if !ok || o.kind == "reopen" {
		return 0
	}
	dropFailed := func(p *mPay) {
		keep := p.atts[:0]
		for _, a := range p.atts {
			if a.res != resFailed {
				keep = append(keep, a)
			}
		}
		p.atts = keep
	}
	if o.kind == "delall" {
		n := 0
		for h := range m.pay {
			p := &m.pay[h]
			if !p.exists {
				continue
			}
			st := paymentsdb.PaymentStatus(p.status())
			if st == paymentsdb.StatusInFlight {
				continue
			}
			if o.fo && st != paymentsdb.StatusFailed {
				continue
			}
			if o.fho {
				dropFailed(p)
				continue
			}
			*p = mPay{reason: -1}
			n++
		}
		return n
	}
	p := &m.pay[o.h]
	switch o.kind {
	case "init":
		*p = mPay{exists: true, value: o.val, info: creationDigest(creationInfoFor(o.h, o.val)), reason: -1}
	case "reg":
		if p.exists && p.find(o.id) < 0 {
			p.atts = append(p.atts, mAtt{id: o.id, amt: o.amt, kind: o.akind, total: o.total, res: resInFlight,
				dig: attemptDigest(attemptFor(o.h, o.tok, o.amt, o.akind, o.total))})
			sort.Slice(p.atts, func(a, b int) bool { return p.atts[a].id < p.atts[b].id })
		}
	case "settle", "failatt":
		if p.exists {
			if idx := p.find(o.id); idx >= 0 && p.atts[idx].res == resInFlight {
				if o.kind == "settle" {
					p.atts[idx].res = resSettled
					p.atts[idx].rdig = settleDigest(settleInfoFor(o.h, o.tok))
				} else {
					p.atts[idx].res = resFailed
					p.atts[idx].rdig = failDigest(failInfoFor(o.h, o.tok))
				}
			}
		}
	case "fail":
		if p.exists {
			p.reason = o.reason
		}
	case "del":
		*p = mPay{reason: -1}
	case "delfa", "dfa":
		if p.exists {
			dropFailed(p)
		}
	}
	return 0
}

// situation classifies the operation against the ledger *before* it runs. It is part
// of every differential signature so that a finding names a class of histories.
func situation(o op, m *model) string {
	if o.h < 0 {
		return "any"
	}
	p := &m.pay[o.h]
	st := "absent"
	if p.exists {
		st = "status-" + statusName(p.status())
	}
	otherHas := func(id uint64) bool {
		for i := range m.pay {
			if i != o.h && m.pay[i].exists && m.pay[i].find(id) >= 0 {
				return true
			}
		}
		return false
	}
	switch o.kind {
	case "reg":
		if !p.exists {
			return "unknown-payment"
		}
		if i := p.find(o.id); i >= 0 {
			return "dup-id-same-payment(" + resName(p.atts[i].res) + ")"
		}
		if otherHas(o.id) {
			return "id-used-by-other-payment"
		}
		if why := regIllegal(p, o); len(why) > 0 {
			return "illegal(" + strings.Join(why, "+") + ")"
		}
		return "legal"
	case "settle", "failatt":
		if !p.exists {
			if otherHas(o.id) {
				return "unknown-payment+attempt-of-other-payment"
			}
			return "unknown-payment"
		}
		if i := p.find(o.id); i >= 0 {
			return "attempt-" + resName(p.atts[i].res) + "/" + st
		}
		if otherHas(o.id) {
			return "attempt-of-other-payment/" + st
		}
		return "unknown-attempt/" + st
	}
	return st
}

// ---------------------------------------------------------------------------
// statistics shared by all worlds of a run

type Stats struct {
	mu       sync.Mutex
	Outcomes map[string]int64            // "<backend>:<op>:<situation>:<class>"
	TxTable  map[string]map[string]int64 // "<backend>:<op>" -> "w=<n>,r=<n>" -> count
	Refused  map[string]int64            // admissible operations refused (liveness, not a verdict)
	Clauses  map[string]int64            // clause -> times evaluated non-vacuously
	OpsKV    int64
	OpsSQL   int64
}

func newStats() *Stats {
	return &Stats{Outcomes: map[string]int64{}, TxTable: map[string]map[string]int64{}, Refused: map[string]int64{}, Clauses: map[string]int64{}}
}

func (s *Stats) outcome(k string) {
	s.mu.Lock()
	s.Outcomes[k]++
	s.mu.Unlock()
}

func (s *Stats) clause(k string) {
	s.mu.Lock()
	s.Clauses[k]++
	s.mu.Unlock()
}

func (s *Stats) refused(k string) {
	s.mu.Lock()
	s.Refused[k]++
	s.mu.Unlock()
}

func (s *Stats) tx(be, opk string, w, r int64) {
	s.mu.Lock()
	m := s.TxTable[be+":"+opk]
	if m == nil {
		m = map[string]int64{}
		s.TxTable[be+":"+opk] = m
	}
	m[fmt.Sprintf("w=%d,r=%d", w, r)]++
	s.mu.Unlock()
}

// ---------------------------------------------------------------------------
// the lock-step world

// reporter receives a violation with the shortest history (self-loops dropped) and
// the full list of operations actually executed on the instance.
type reporter func(sig, what string, hist, full []string)

type World struct {
	be       [2]*backend // 0 = kv, 1 = sql
	mdl      [2]*model
	cur      [2]obsT
	dead     string
	hist     []string
	rep      reporter
	st       *Stats
	logf     func(format string, a ...any) // replay narration (nil during exploration)
	pool     *sqlPool
	worker   int
	query    bool
	nh       int
	full     []string // every operation actually executed on this instance
	stepCats map[string]bool
}

type worldOpts struct {
	pool     *sqlPool // nil = fresh sqlite database per world
	worker   int
	rep      reporter
	st       *Stats
	logf     func(string, ...any)
	unwrapKV bool // use the raw bbolt backend (real kvdb.Batch path)
	kvKind   string // "" = bbolt, "sqlite" = sqlite-backed kvdb (see newKVBackend)
	query    bool // also observe QueryPayments
	nh       int  // number of payment hashes of the space (default 2)
	sqlCfg   string // SQL query configuration (see queryCfg)
	noMig    bool   // KV: re-instantiate with WithNoMigration(true)
	query2   bool   // observe further QueryPayments options
}

func newWorld(o worldOpts) (*World, error) {
	w := &World{rep: o.rep, st: o.st, logf: o.logf, pool: o.pool, worker: o.worker, query: o.query, nh: o.nh}
	if w.nh <= 0 || w.nh > nHashes {
		w.nh = nHashes
	}
	if w.st == nil {
		w.st = newStats()
	}
	kv, err := newKVBackend(!o.unwrapKV, o.kvKind)
	if err != nil {
		return nil, err
	}
	kv.noMig, kv.query2 = o.noMig, o.query2
	w.be[0] = kv
	if o.noMig {
		// the database was initialised by an earlier (migrating) instance; the store
		// object under test is opened WithNoMigration(true) from the start
		if err := kv.reopen(); err != nil {
			w.closeKV()
			return nil, err
		}
	}
	var h *sqlHandle
	if o.pool != nil {
		h, err = o.pool.get(o.worker)
	} else {
		h, err = openFreshSQL()
	}
	if err != nil {
		w.closeKV()
		return nil, err
	}
	sq, err := newSQLBackend(h, o.sqlCfg)
	if err != nil {
		w.closeKV()
		h.close()
		return nil, err
	}
	sq.query2 = o.query2
	w.be[1] = sq
	for i := range w.be {
		w.mdl[i] = newModel(w.nh)
		w.cur[i] = w.be[i].observe(w.nh, -1, true, w.query, nil)
	}
	return w, nil
}

func (w *World) closeKV() {
	if w.be[0] != nil {
		_ = w.be[0].bolt.Close()
		removeAll(w.be[0].dir)
	}
}

// Close releases both databases (the sqlite one goes back to the worker's pool).
func (w *World) Close() {
	w.closeKV()
	if w.be[1] != nil && w.be[1].sq != nil {
		if w.pool != nil {
			w.pool.put(w.worker, w.be[1].sq)
		} else {
			w.be[1].sq.close()
		}
		w.be[1].sq = nil
	}
}

// Key is the canonical state.
//
// Same key => same futures: the key is the complete report of the read interface of
// the KV store (FetchPayment of every hash of the universe, FetchInFlightPayments,
// QueryPayments) — in a non-dead world the SQL store's report is identical (checked
// after every operation, a difference kills the world). Everything a later operation
// of either store reads is in that report: creation info (value), every attempt
// with amounts, MPP/blinded records and resolution, the failure reason, the index
// listing. The arguments of the next operations are functions of the report, too: the
// amount an InitPayment carries (nextValue of the reported amount) and the attempt
// amounts / record totals (fractions of the reported amount). Dropped: sequence
// numbers / row ids (only order listings; the listing order itself is in the key),
// timestamps, session keys, onion blobs, preimage and failure details (constants of
// the universe, never read by a decision), and the KVStore's in-memory sequence
// allocator. The allocator is the one piece of state a restart rebuilds: whether it is
// cold or warm is NOT in the key, therefore `reopen` is not an alphabet letter (the
// search would stop behind it); instead every distinct state gets the restart probe
// of runSpace (`reopen; init:hA; reopen; init:hB` judged by all clauses), which covers
// the only consumer of that state (InitPayment) on a cold allocator in every state.
// A world in which a violation was reported is "dead": it is never expanded.
func (w *World) Key() string {
	if w.dead != "" {
		return "DEAD:" + w.dead
	}
	return w.cur[0].stateString()
}

func (w *World) violate(sig, what string) { w.report(sig, what, true) }

// soft reports a finding that leaves both stores in the same, consistent state (both
// refused the operation); the world stays explorable.
func (w *World) soft(sig, what string) { w.report(sig, what, false) }

// report forwards the first finding of each category (kv / sql / diff) raised by one
// operation: later clauses of the same category on the same step are consequences of
// the first one (clauses are ordered from the most specific to the most general).
func (w *World) report(sig, what string, kill bool) {
	if kill && w.dead == "" {
		w.dead = sig
	}
	cat := sig
	if i := strings.IndexByte(sig, ':'); i > 0 {
		cat = sig[:i]
	}
	if w.stepCats == nil {
		w.stepCats = map[string]bool{}
	}
	if w.stepCats[cat] {
		if w.logf != nil {
			w.logf("   (also) %s: %s", sig, what)
		}
		return
	}
	w.stepCats[cat] = true
	if w.logf != nil {
		w.logf("   !! %s: %s", sig, what)
	}
	if w.rep != nil {
		w.rep(sig, what+"  [history: "+strings.Join(w.hist, " ")+"]", append([]string{}, w.hist...), append([]string{}, w.full...))
	}
}

// Do executes one operation on both backends and runs every oracle clause.
func (w *World) Do(raw string) error {
	o, err := parseOp(raw)
	if err != nil {
		return err
	}
	if o.h >= w.nh {
		return fmt.Errorf("op %q names a hash outside the space", raw)
	}
	if o.needsValue() {
		// amounts relative to the payment's current amount: taken from the reference
		// ledger (identical to what the stores report in a world that is not dead)
		o = o.resolve(w.mdl[0].pay[o.h].exists, w.mdl[0].pay[o.h].value)
	}
	w.hist = append(w.hist, raw)
	w.full = append(w.full, raw)
	w.stepCats = nil
	preKey := w.Key()
	defer func() {
		// an operation that left the canonical state unchanged is dropped from the
		// recorded history: reported histories stay shortest (the 3x confirmation
		// replay of every violation guards this shortcut)
		if w.dead == "" && w.Key() == preKey {
			w.hist = w.hist[:len(w.hist)-1]
		}
	}()
	sit := situation(o, w.mdl[0])
	if w.logf != nil {
		switch o.kind {
		case "init":
			w.logf("op %-16s situation=%s  (amount %d)", raw, sit, o.val)
		case "reg":
			w.logf("op %-16s situation=%s  (attempt id %d, amount %d, record total %d)", raw, sit, o.id, o.amt, o.total)
		default:
			w.logf("op %-16s situation=%s", raw, sit)
		}
	}
	var res [2]result
	var post [2]obsT
	for i, b := range w.be {
		pre := w.cur[i]
		if o.kind == "reopen" {
			if err := b.reopen(); err != nil {
				w.violate(b.name+":reopen-failed", err.Error())
			}
			res[i] = result{ok: true, class: "ok"}
		} else {
			res[i] = b.exec(o)
		}
		// listings are re-read whenever the backend admitted the operation
		// (payments other than the target are re-read, too, when it was admitted)
		only := -1
		if !res[i].ok && o.h >= 0 {
			only = o.h
		}
		post[i] = b.observe(w.nh, only, res[i].ok, w.query, &pre)
		if i == 0 {
			w.st.mu.Lock()
			w.st.OpsKV++
			w.st.mu.Unlock()
		} else {
			w.st.mu.Lock()
			w.st.OpsSQL++
			w.st.mu.Unlock()
		}
		w.st.tx(b.name, o.kind, res[i].txW, res[i].txR)
		w.st.outcome(b.name + ":" + o.kind + ":" + situation(o, w.mdl[i]) + ":" + res[i].class)
		if w.logf != nil {
			w.logf("   %-3s -> %s%s  (tx w=%d r=%d)", b.name, res[i].class, errSuffix(res[i]), res[i].txW, res[i].txR)
			w.logf("   %-3s state: %s", b.name, post[i].stateString())
		}
		w.check(i, o, pre, res[i], post[i])
		w.cur[i] = post[i]
	}
	w.diff(o, sit, res, post)
	return nil
}

// Replay re-establishes a state whose history has already been explored (and judged):
// the operations are executed on both stores and the ledgers advanced, without the
// per-step observations and clauses; one full observation at the end. seqmc compares
// the resulting key with the recorded one.
func (w *World) Replay(hist []string) error {
	for _, raw := range hist {
		o, err := parseOp(raw)
		if err != nil {
			return err
		}
		if o.h >= w.nh {
			return fmt.Errorf("op %q names a hash outside the space", raw)
		}
		if o.needsValue() {
			o = o.resolve(w.mdl[0].pay[o.h].exists, w.mdl[0].pay[o.h].value)
		}
		w.hist = append(w.hist, raw)
		w.full = append(w.full, raw)
		for i, b := range w.be {
			if o.kind == "reopen" {
				if err := b.reopen(); err != nil {
					return err
				}
				continue
			}
			r := b.exec(o)
			w.mdl[i].apply(o, r.ok)
			w.st.mu.Lock()
			if i == 0 {
				w.st.OpsKV++
			} else {
				w.st.OpsSQL++
			}
			w.st.mu.Unlock()
		}
	}
	for i, b := range w.be {
		w.cur[i] = b.observe(w.nh, -1, true, w.query, nil)
	}
	return nil
}

func errSuffix(r result) string {
	if r.ok {
		return ""
	}
	return " (" + r.text + ")"
}

// check evaluates the per-backend clauses and advances that backend's ledger.
func (w *World) check(i int, o op, pre obsT, r result, post obsT) {
	bn := w.be[i].name
	m := w.mdl[i]
	v := func(sig, what string) { w.violate(bn+":"+sig, what) }

	// (1) every reported payment obeys the documented status table and derived state
	for h := range post.pay {
		if sig, what := checkProj(post.pay[h]); sig != "" {
			v(sig+":fetch", fmt.Sprintf("FetchPayment(h%d) after %s: %s", h, o.raw, what))
		}
		if post.pay[h].Exists {
			w.st.clause("status-table")
		}
	}
	if r.pay != nil {
		if sig, what := checkProj(*r.pay); sig != "" {
			v(sig+":returned", fmt.Sprintf("payment returned by %s: %s", o.raw, what))
		}
	}
	for h, p := range post.inflProj {
		if sig, what := checkProj(p); sig != "" {
			v(sig+":inflight-listing", fmt.Sprintf("FetchInFlightPayments entry h%d after %s: %s", h, o.raw, what))
		}
	}

	// (2) succeeded is absorbing; failed is left only by explicit re-initiation
	//     (or by an explicit deletion of the record)
	for h := range post.pay {
		if !pre.pay[h].Exists {
			continue
		}
		explicitDelete := (o.kind == "del" && o.h == h && r.ok) || (o.kind == "delall" && r.ok && !o.fho)
		switch paymentsdb.PaymentStatus(pre.pay[h].Status) {
		case paymentsdb.StatusSucceeded:
			w.st.clause("succeeded-absorbing")
			if !post.pay[h].Exists {
				if !explicitDelete {
					v("succeeded-payment-vanished:"+o.kind, fmt.Sprintf("h%d was Succeeded before %s and is gone after it", h, o.raw))
				}
			} else if post.pay[h].Status != pre.pay[h].Status {
				v("succeeded-changed-status:"+o.kind, fmt.Sprintf("h%d was Succeeded before %s, now %s", h, o.raw, post.pay[h]))
			}
		case paymentsdb.StatusFailed:
			w.st.clause("failed-only-reinit")
			if !post.pay[h].Exists {
				if !explicitDelete {
					v("failed-payment-vanished:"+o.kind, fmt.Sprintf("h%d was Failed before %s and is gone after it", h, o.raw))
				}
			} else if post.pay[h].Status != pre.pay[h].Status {
				reinit := o.kind == "init" && o.h == h && r.ok && post.pay[h].Status == int(paymentsdb.StatusInitiated)
				if !reinit {
					v("failed-changed-status:"+o.kind, fmt.Sprintf("h%d was Failed before %s, now %s", h, o.raw, post.pay[h]))
				}
			}
		}
	}

	// (3) admission clauses against the ledger *before* the operation, then the
	//     ledger transition
	if o.kind != "reopen" && o.kind != "delall" {
		p := &m.pay[o.h]
		if !r.ok {
			switch {
			case o.kind == "reg" && p.exists && p.find(o.id) < 0 && len(regIllegal(p, o)) == 0:
				w.st.refused(bn + ":reg:" + r.class)
			case o.kind == "init" && (!p.exists || p.status() == int(paymentsdb.StatusFailed)):
				w.st.refused(bn + ":init:" + r.class)
			case (o.kind == "settle" || o.kind == "failatt") && p.exists && p.find(o.id) >= 0 && p.atts[p.find(o.id)].res == resInFlight:
				w.st.refused(bn + ":" + o.kind + ":" + r.class)
			case o.kind == "fail" && p.exists:
				w.st.refused(bn + ":fail:" + r.class)
			case (o.kind == "del" || o.kind == "delfa" || o.kind == "dfa") && p.exists && p.status() != int(paymentsdb.StatusInFlight):
				w.st.refused(bn + ":" + o.kind + ":" + r.class)
			}
		} else {
			switch o.kind {
			case "init":
				w.st.clause("init-gate")
				if p.exists && p.status() != int(paymentsdb.StatusFailed) {
					v("reinit-admitted:"+statusName(p.status()), fmt.Sprintf("InitPayment(h%d) admitted while the payment is %s: %s", o.h, statusName(p.status()), pre.pay[o.h]))
				}
			case "reg":
				w.st.clause("register-gate")
				switch {
				case !p.exists:
					v("register-admitted:unknown-payment", fmt.Sprintf("%s admitted for a payment that does not exist", o.raw))
				case p.find(o.id) >= 0:
					a := p.atts[p.find(o.id)]
					v("register-admitted:duplicate-attempt-id("+resName(a.res)+")",
						fmt.Sprintf("%s admitted although attempt id %d is already recorded for this payment (%d msat, %s): the earlier HTLC is no longer accounted for; before: %s; after: %s",
							o.raw, o.id, a.amt, resName(a.res), pre.pay[o.h], post.pay[o.h]))
				default:
					for _, why := range regIllegal(p, o) {
						switch why {
						case "overpay":
							v("register-admitted:overpay", fmt.Sprintf("%s admitted: settled+in-flight %d + %d > payment amount %d; before: %s", o.raw, p.sent(), o.amt, p.value, pre.pay[o.h]))
						case "has-settled":
							v("register-admitted:after-settle", fmt.Sprintf("%s admitted although an attempt has settled; before: %s", o.raw, pre.pay[o.h]))
						case "payment-failed":
							v("register-admitted:after-fail", fmt.Sprintf("%s admitted although the payment has been failed; before: %s", o.raw, pre.pay[o.h]))
						default:
							v("register-admitted:inconsistent-shard("+why+")", fmt.Sprintf("%s admitted although it is inconsistent with the in-flight shards (%s); before: %s", o.raw, why, pre.pay[o.h]))
						}
					}
				}
			case "settle", "failatt":
				w.st.clause("resolve-gate")
				idx := -1
				if p.exists {
					idx = p.find(o.id)
				}
				switch {
				case idx < 0:
					v("resolve-admitted:"+situation(o, m), fmt.Sprintf("%s admitted although attempt %d is not an attempt of payment h%d", o.raw, o.id, o.h))
				case p.atts[idx].res != resInFlight:
					v("resolve-admitted:attempt-"+resName(p.atts[idx].res), fmt.Sprintf("%s admitted although the attempt is already %s; before: %s", o.raw, resName(p.atts[idx].res), pre.pay[o.h]))
				}
			case "fail":
				if !p.exists {
					v("fail-admitted:absent", fmt.Sprintf("%s admitted for a payment that does not exist", o.raw))
				}
			case "del":
				if p.exists {
					w.st.clause("delete-gate")
					if infl, _, _ := p.flags(); infl {
						v("delete-admitted:attempts-in-flight", fmt.Sprintf("%s admitted while attempts are in flight (the hash becomes re-initiable: double payment); before: %s", o.raw, pre.pay[o.h]))
					}
				}
			}
		}
	}
	if n := m.apply(o, r.ok); o.kind == "delall" && r.ok && r.n != n {
		v("delall-count", fmt.Sprintf("%s returned %d, documented effect deletes %d payments", o.raw, r.n, n))
	}

	// (4) the store reports exactly the ledger (refused operations change nothing,
	//     admitted ones have exactly their documented effect, other payments are
	//     untouched)
	for h := range post.pay {
		want := m.pay[h].expect()
		got := post.pay[h]
		if want.Exists != got.Exists || (want.Exists && want.String() != got.String()) {
			tag := "state-mismatch"
			switch {
			case !r.ok:
				tag = "refused-op-mutated-state"
			case h != o.h && o.h >= 0:
				tag = "other-payment-changed"
			}
			what := fmt.Sprintf("after %s (%s) h%d reports {%s}, ledger says {%s}", o.raw, r.class, h, got, want)
			if dd := digestDiff(got, want); dd != "" {
				// only persisted details differ: name the class of detail in the signature
				tag = "persisted-details-mismatch"
				what += "  [" + dd + "]"
			}
			v(tag+":"+o.kind, what)
		}
	}
	// (5) the payment handed back to the caller is the stored one
	if r.ok && r.pay != nil && o.h >= 0 {
		w.st.clause("returned-payment")
		if r.pay.String() != post.pay[o.h].String() {
			v("returned-payment-differs:"+o.kind, fmt.Sprintf("%s returned {%s} but FetchPayment reports {%s}", o.raw, r.pay, post.pay[o.h]))
		}
	}
	// (6) FetchInFlightPayments lists every payment with in-flight attempts, no
	//     terminated one, and reports each like FetchPayment
	if post.inflErr != "" {
		v("inflight-listing-error", "FetchInFlightPayments failed after "+o.raw+":"+post.inflErr)
	}
	listed := map[int]bool{}
	for _, h := range post.inflight {
		listed[h] = true
	}
	for h := range post.pay {
		if !post.pay[h].Exists {
			if listed[h] {
				v("inflight-listing:ghost", fmt.Sprintf("FetchInFlightPayments lists h%d which FetchPayment does not know (after %s)", h, o.raw))
			}
			continue
		}
		st := paymentsdb.PaymentStatus(post.pay[h].Status)
		switch {
		case post.pay[h].NInFl > 0 && !listed[h]:
			v("inflight-listing:missing", fmt.Sprintf("h%d has in-flight attempts but is not listed by FetchInFlightPayments (after %s): %s", h, o.raw, post.pay[h]))
		case (st == paymentsdb.StatusSucceeded || st == paymentsdb.StatusFailed) && listed[h]:
			v("inflight-listing:terminated-listed", fmt.Sprintf("h%d is %s but listed by FetchInFlightPayments (after %s)", h, statusName(int(st)), o.raw))
		case listed[h] && post.inflProj[h].String() != post.pay[h].String():
			v("inflight-listing:differs", fmt.Sprintf("FetchInFlightPayments reports h%d as {%s}, FetchPayment as {%s}", h, post.inflProj[h], post.pay[h]))
		}
	}
	if listed[-1] {
		v("inflight-listing:unknown-hash", "FetchInFlightPayments lists a payment outside the universe after "+o.raw)
	}
	// (7) QueryPayments lists exactly the existing payments, each like FetchPayment
	if w.query {
		if post.qErr != "" {
			v("query-listing-error", "QueryPayments failed after "+o.raw+":"+post.qErr)
		} else {
			ql := map[int]bool{}
			for _, h := range post.query {
				if ql[h] {
					v("query-listing:duplicate", fmt.Sprintf("QueryPayments lists h%d twice after %s", h, o.raw))
				}
				ql[h] = true
			}
			n := 0
			for h := range post.pay {
				if post.pay[h].Exists {
					n++
				}
				switch {
				case post.pay[h].Exists != ql[h]:
					v("query-listing:set", fmt.Sprintf("QueryPayments listed=%v but FetchPayment exists=%v for h%d after %s", ql[h], post.pay[h].Exists, h, o.raw))
				case ql[h] && post.qProj[h].String() != post.pay[h].String():
					v("query-listing:differs", fmt.Sprintf("QueryPayments reports h%d as {%s}, FetchPayment as {%s}", h, post.qProj[h], post.pay[h]))
				}
			}
			if post.qTotal != n {
				v("query-listing:total", fmt.Sprintf("QueryPayments TotalCount=%d, %d payments exist (after %s)", post.qTotal, n, o.raw))
			}
			// (7b) the same listing through other query options: complete payments
			//      only = exactly the Succeeded ones, in listing order; one payment per
			//      call from the end / after the first = the last / second of the
			//      full listing
			if post.q2 {
				w.st.clause("query-options")
				var succ, last, second []int
				for _, h := range post.query {
					if h >= 0 && post.pay[h].Exists && post.pay[h].Status == int(paymentsdb.StatusSucceeded) {
						succ = append(succ, h)
					}
				}
				if k := len(post.query); k > 0 {
					last = []int{post.query[k-1]}
					if k > 1 {
						second = []int{post.query[1]}
					}
				}
				switch {
				case post.q2Err != "":
					v("query-options-error", "QueryPayments failed after "+o.raw+":"+post.q2Err)
				case fmt.Sprint(post.qSucc) != fmt.Sprint(succ):
					v("query-options:complete-only", fmt.Sprintf("QueryPayments(IncludeIncomplete=false) lists %v, the Succeeded payments are %v (after %s)", post.qSucc, succ, o.raw))
				case fmt.Sprint(post.qLast) != fmt.Sprint(last):
					v("query-options:reversed-page", fmt.Sprintf("QueryPayments(Reversed, MaxPayments=1) lists %v, the full listing is %v (after %s)", post.qLast, post.query, o.raw))
				case fmt.Sprint(post.qSecond) != fmt.Sprint(second):
					v("query-options:offset-page", fmt.Sprintf("QueryPayments(IndexOffset=first, MaxPayments=1) lists %v, the full listing is %v (after %s)", post.qSecond, post.query, o.raw))
				}
			}
		}
	}
}

// diff is the KV/SQL differential: same answer class, same returned payment, same
// reported state, for every history.
func (w *World) diff(o op, sit string, r [2]result, post [2]obsT) {
	w.st.clause("kv-sql-differential")
	okS := func(b bool) string {
		if b {
			return "ok"
		}
		return "err"
	}
	switch {
	case r[0].ok != r[1].ok:
		w.violate(fmt.Sprintf("diff:outcome:%s:%s:kv=%s:sql=%s", o.kind, sit, okS(r[0].ok), okS(r[1].ok)),
			fmt.Sprintf("%s in situation %q: KV answered %s%s, SQL answered %s%s", o.raw, sit, r[0].class, errSuffix(r[0]), r[1].class, errSuffix(r[1])))
	case r[0].class != r[1].class:
		w.soft(fmt.Sprintf("diff:errclass:%s:%s:kv=%s:sql=%s", o.kind, sit, r[0].class, r[1].class),
			fmt.Sprintf("%s in situation %q refused by both with different error classes: KV %s%s, SQL %s%s", o.raw, sit, r[0].class, errSuffix(r[0]), r[1].class, errSuffix(r[1])))
	}
	if r[0].ok && r[1].ok {
		switch {
		case (r[0].pay == nil) != (r[1].pay == nil):
			w.violate("diff:returned:"+o.kind+":"+sit, fmt.Sprintf("%s: only one backend returned a payment", o.raw))
		case r[0].pay != nil && r[0].pay.String() != r[1].pay.String():
			w.violate("diff:returned:"+o.kind+":"+sit, fmt.Sprintf("%s returned KV {%s} / SQL {%s}", o.raw, r[0].pay, r[1].pay))
		}
		if r[0].n != r[1].n {
			w.violate("diff:count:"+o.kind, fmt.Sprintf("%s returned KV %d / SQL %d", o.raw, r[0].n, r[1].n))
		}
	}
	for h := range post[0].pay {
		a, b := post[0].pay[h], post[1].pay[h]
		if a.String() != b.String() {
			what := fmt.Sprintf("after %s h%d is KV {%s} / SQL {%s}", o.raw, h, a, b)
			tag := "diff:state:"
			if dd := digestDiff(a, b); dd != "" {
				tag = "diff:persisted-details:"
				what += "  [KV = reported, SQL = expected: " + dd + "]"
			}
			w.violate(tag+o.kind+":"+sit, what)
		}
	}
	if fmt.Sprint(post[0].inflight) != fmt.Sprint(post[1].inflight) {
		w.violate("diff:inflight-listing:"+o.kind, fmt.Sprintf("after %s FetchInFlightPayments lists KV %v / SQL %v", o.raw, post[0].inflight, post[1].inflight))
	}
	if w.query && (fmt.Sprint(post[0].query) != fmt.Sprint(post[1].query) || post[0].qTotal != post[1].qTotal) {
		w.violate("diff:query-listing:"+o.kind, fmt.Sprintf("after %s QueryPayments lists KV %v/%d / SQL %v/%d", o.raw, post[0].query, post[0].qTotal, post[1].query, post[1].qTotal))
	}
}
