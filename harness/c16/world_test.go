// C16 world: one real paymentsdb.KVStore (bbolt, wrapped by crashdb for transaction
// accounting) and one real paymentsdb.SQLStore (sqlite, TransactionExecutor wrapped
// for transaction accounting) driven in lock-step by the same operation, each judged
// against its own reference ledger (written from the property statement) and against
// each other.
package c16

import (
	"bytes"
	"context"
	"crypto/sha256"
	"database/sql"
	"errors"
	"fmt"
	"os"
	"path/filepath"
	"sort"
	"strconv"
	"strings"
	"sync"
	"sync/atomic"
	"time"

	"github.com/btcsuite/btcd/btcec/v2"
	"github.com/btcsuite/btcwallet/walletdb"
	"github.com/lightningnetwork/lnd/kvdb"
	"github.com/lightningnetwork/lnd/lntypes"
	"github.com/lightningnetwork/lnd/lnwire"
	paymentsdb "github.com/lightningnetwork/lnd/payments/db"
	"github.com/lightningnetwork/lnd/record"
	"github.com/lightningnetwork/lnd/routing/route"
	"github.com/lightningnetwork/lnd/sqldb"
	"github.com/lightningnetwork/lnd/tlv"
	"github.com/lightningnetwork/lnd/verifmc/crashdb"
)

// ---------------------------------------------------------------------------
// fixed universe

const (
	payValue = int64(1000) // base value of h0, msat
	nHashes  = 2
)

// payVar is the creation info of one payment hash. The two hashes differ in every
// creation field the stores persist: h0 is a small invoice payment, h1 a keysend-like
// payment (blank payment request, first-hop custom records) whose amount and half
// amount lie above 2^32 / 2^31. A re-initiation (InitPayment of a failed payment)
// carries a *different* amount than the record it replaces (base <-> alt), so that a
// store that keeps anything of the old record is seen.
type payVar struct {
	base, alt int64
	payReq    []byte
	custom    lnwire.CustomRecords
	// ctimeOff is the creation time (offset from baseTime) of an initiation with the
	// base amount; one with the alt amount is altTimeShift later. The two hashes are
	// created 10.5 s apart (h1 off a full second), so that the creation-date filters
	// of QueryPayments separate them and see a sub-second part.
	ctimeOff time.Duration
}

const altTimeShift = 3 * time.Second

var payVars = [nHashes]payVar{
	{base: payValue, alt: 600, payReq: []byte("lnverif")},
	{base: 1<<32 + 1000, alt: 1000, payReq: nil,
		custom:   lnwire.CustomRecords{65637: []byte{0xC1, 0x6}, 65639: []byte{0x7}},
		ctimeOff: 10*time.Second + 500*time.Millisecond},
}

// ctimeFor is the creation time an InitPayment of hash h with amount val carries (a
// function of the amount, which the canonical key covers).
func ctimeFor(h int, val int64) time.Time {
	t := baseTime.Add(payVars[h].ctimeOff)
	if val == payVars[h].alt {
		t = t.Add(altTimeShift)
	}
	return t
}

// creationInfoFor is the creation info of an InitPayment of hash h with amount val.
func creationInfoFor(h int, val int64) *paymentsdb.PaymentCreationInfo {
	return &paymentsdb.PaymentCreationInfo{
		PaymentIdentifier:     hashes[h],
		Value:                 lnwire.MilliSatoshi(val),
		CreationTime:          ctimeFor(h, val),
		PaymentRequest:        payVars[h].payReq,
		FirstHopCustomRecords: payVars[h].custom,
	}
}

// nextValue is the amount the next InitPayment of hash h carries: a function of what
// the store currently reports for h (so that it is covered by the canonical key).
func nextValue(h int, exists bool, cur int64) int64 {
	if exists && cur == payVars[h].base {
		return payVars[h].alt
	}
	return payVars[h].base
}

// realID maps the attempt-id token of an operation to the attempt id used on the
// stores: the zero id, a plain one, and one above 2^32 whose low 32 bits equal the
// plain one.
func realID(tok uint64) uint64 {
	switch tok {
	case 1:
		return 0
	case 3:
		return 1<<32 + 2
	}
	return tok
}

var (
	hashes    [nHashes]lntypes.Hash
	preimages [nHashes]lntypes.Preimage
	srcVertex route.Vertex
	srcPub    *btcec.PublicKey
	midVertex route.Vertex
	mid2Vertex route.Vertex
	addrA     = [32]byte{0xA1, 0xA1}
	addrB     = [32]byte{0xB2, 0xB2}
	baseTime  = time.Unix(1_700_000_000, 0).UTC()

	amtToks = map[string]bool{"V": true, "H": true, "J": true}
)

// amtOf resolves an amount token against the payment's current amount.
func amtOf(tok string, val int64) int64 {
	switch tok {
	case "V":
		return val
	case "H":
		return val / 2
	}
	return val/2 + 1
}

func init() {
	for i := range hashes {
		preimages[i] = sha256.Sum256([]byte(fmt.Sprintf("verif-c16-preimage-%d", i)))
		hashes[i] = sha256.Sum256(preimages[i][:])
	}
	k := sha256.Sum256([]byte("verif-c16-source-key"))
	priv, pub := btcec.PrivKeyFromBytes(k[:])
	_ = priv
	srcPub = pub
	srcVertex = route.NewVertex(pub)
	k2 := sha256.Sum256([]byte("verif-c16-intermediate-key"))
	_, pub2 := btcec.PrivKeyFromBytes(k2[:])
	midVertex = route.NewVertex(pub2)
	k3 := sha256.Sum256([]byte("verif-c16-intermediate-key-2"))
	_, pub3 := btcec.PrivKeyFromBytes(k3[:])
	mid2Vertex = route.NewVertex(pub3)
}

// attempt kinds (final-hop records):
//
//	n  no MPP record (single shot)            m  MPP(total=V, addr=A)        (consistent)
//	t  MPP(total=2V, addr=A)  (total mismatch) a  MPP(total=V, addr=B)        (address mismatch)
//	b  blinded, total=V                        c  blinded, total=2V           (total mismatch)
//	z  blinded, total=0 (missing)              x  blinded + MPP record        (forbidden)
//
// and three kinds that are n / m / b for the admission rules but exercise the other
// route shapes and every optional field the stores persist (shape):
//
//	S  single shot over a ONE-hop route (direct peer: the first hop is the final hop)
//	A  AMP shard: MPP(total=V, addr=A) + AMP record (root share, set id, child index),
//	   per-attempt payment hash different from the payment identifier, hop-level custom
//	   records on both hops (one with an empty value), metadata, route-level first-hop
//	   custom records and first-hop amount
//	B  blinded PATH of three hops: introduction node (blinding point + encrypted data, no
//	   amount / time lock), blinded intermediate hop, blinded final hop carrying total=V
//
// V is the amount of the payment at the time of the registration (mult * V).
type kindInfo struct {
	blinded  bool
	mpp      bool
	mult     int64
	addr     byte
	describe string
	shape    string // "" = two plain hops; "single", "amp", "blindpath"
}

var kinds = map[string]kindInfo{
	"n": {describe: "no-mpp"},
	"m": {mpp: true, mult: 1, addr: 'A', describe: "mpp(V,A)"},
	"t": {mpp: true, mult: 2, addr: 'A', describe: "mpp(2V,A)"},
	"a": {mpp: true, mult: 1, addr: 'B', describe: "mpp(V,B)"},
	"b": {blinded: true, mult: 1, describe: "blinded(V)"},
	"c": {blinded: true, mult: 2, describe: "blinded(2V)"},
	"z": {blinded: true, mult: 0, describe: "blinded(0)"},
	"x": {blinded: true, mpp: true, mult: 1, addr: 'A', describe: "blinded+mpp"},
	"S": {describe: "no-mpp, one hop", shape: "single"},
	"A": {mpp: true, mult: 1, addr: 'A', describe: "amp shard with all optional fields", shape: "amp"},
	"B": {blinded: true, mult: 1, describe: "blinded path of three hops", shape: "blindpath"},
}

var (
	attemptCache sync.Map // key -> *paymentsdb.HTLCAttemptInfo
)

// attemptFor builds (once) the real HTLCAttemptInfo for (hash, id token, amount, kind,
// record total). The session key is a function of (hash, id): the SQL schema requires
// session keys to be unique, lnd draws a fresh random key per attempt.
//
// The default route has two hops whose fields all differ (amount, channel, time lock,
// key); only the final hop carries the MPP / blinded records: what the stores account
// for is the *final* hop's amount and records. The shapes of kinds S, A, B are described
// at the kinds table. Every route pays 7 msat of fees (TotalAmount = amount + 7).
func attemptFor(h int, tok uint64, amt int64, kind string, total int64) *paymentsdb.HTLCAttemptInfo {
	key := fmt.Sprintf("%d:%d:%d:%s:%d", h, tok, amt, kind, total)
	if v, ok := attemptCache.Load(key); ok {
		return v.(*paymentsdb.HTLCAttemptInfo)
	}
	ki := kinds[kind]
	first := &route.Hop{
		PubKeyBytes:      midVertex,
		ChannelID:        uint64(9000 + tok),
		OutgoingTimeLock: 150,
		AmtToForward:     lnwire.MilliSatoshi(amt + 3),
	}
	hop := &route.Hop{
		PubKeyBytes:      srcVertex,
		ChannelID:        uint64(7000 + tok),
		OutgoingTimeLock: 144,
		AmtToForward:     lnwire.MilliSatoshi(amt),
	}
	if ki.mpp {
		ad := addrA
		if ki.addr == 'B' {
			ad = addrB
		}
		hop.MPP = record.NewMPP(lnwire.MilliSatoshi(total), ad)
	}
	if ki.blinded {
		hop.EncryptedData = []byte{1, 2, 3, byte(tok)}
		hop.BlindingPoint = srcPub
		hop.TotalAmtMsat = lnwire.MilliSatoshi(total)
	}
	rt := route.Route{
		TotalTimeLock: 200,
		TotalAmount:   lnwire.MilliSatoshi(amt + 7), // 7 msat of fees
		SourcePubKey:  srcVertex,
		Hops:          []*route.Hop{first, hop},
	}
	hh := hashes[h]
	switch ki.shape {
	case "single":
		hop.ChannelID = uint64(9000 + tok)
		rt.Hops = []*route.Hop{hop}
	case "amp":
		var root, set [32]byte
		root = sha256.Sum256([]byte(fmt.Sprintf("verif-c16-amp-root-%d-%d", h, tok)))
		set = hashes[h] // the payment identifier of an AMP payment is its set id
		hop.AMP = record.NewAMP(root, set, uint32(100+tok))
		hop.Metadata = []byte{0xEE, byte(tok)}
		hop.CustomRecords = record.CustomSet{65541: []byte{9, 9, byte(tok)}}
		first.CustomRecords = record.CustomSet{65536 + tok: []byte{1, 2}, 70001: []byte{}}
		rt.FirstHopAmount = tlv.NewRecordT[tlv.TlvType0](tlv.NewBigSizeT(lnwire.MilliSatoshi(amt + 11)))
		rt.FirstHopWireCustomRecords = lnwire.CustomRecords{65550: []byte{7, byte(tok)}, 65551: []byte{8, 8}}
		// every AMP shard pays to its own hash
		hh = sha256.Sum256([]byte(fmt.Sprintf("verif-c16-amp-child-%d-%d", h, tok)))
	case "blindpath":
		// the blinded part starts at the introduction node: no amount / time lock /
		// next channel for the blinded hops that are not the final one
		first.AmtToForward, first.OutgoingTimeLock = 0, 0
		first.EncryptedData = []byte{0xB1, byte(tok)}
		first.BlindingPoint = srcPub
		mid := &route.Hop{PubKeyBytes: mid2Vertex, EncryptedData: []byte{0xB2, byte(tok), 0xB2}}
		hop.ChannelID = 0
		hop.BlindingPoint = nil
		hop.EncryptedData = []byte{0xB3, byte(tok)}
		rt.Hops = []*route.Hop{first, mid, hop}
	}
	sk := sha256.Sum256([]byte(fmt.Sprintf("verif-c16-session-%d-%d", h, tok)))
	priv, _ := btcec.PrivKeyFromBytes(sk[:])
	att, err := paymentsdb.NewHtlcAttempt(realID(tok), priv, rt, baseTime.Add(time.Duration(tok)*time.Second), &hh)
	if err != nil {
		panic(fmt.Sprintf("harness: cannot build attempt %s: %v", key, err))
	}
	info := &att.HTLCAttemptInfo
	v, _ := attemptCache.LoadOrStore(key, info)
	return v.(*paymentsdb.HTLCAttemptInfo)
}

// settleInfoFor / failInfoFor are the resolution details an attempt id token is
// resolved with: they differ per token in every field the stores persist (the zero
// failure reason, a wire failure message, non-zero failure source indexes).
func settleInfoFor(h int, tok uint64) *paymentsdb.HTLCSettleInfo {
	return &paymentsdb.HTLCSettleInfo{
		Preimage: preimages[h], SettleTime: baseTime.Add(2*time.Minute + time.Duration(tok)*time.Second),
	}
}

func failInfoFor(h int, tok uint64) *paymentsdb.HTLCFailInfo {
	f := &paymentsdb.HTLCFailInfo{FailTime: baseTime.Add(time.Minute + time.Duration(tok)*time.Second)}
	switch tok {
	case 1:
		f.Reason, f.FailureSourceIndex = paymentsdb.HTLCFailUnknown, 0
	case 2:
		f.Reason, f.FailureSourceIndex = paymentsdb.HTLCFailMessage, 2
		f.Message = lnwire.NewFailIncorrectDetails(lnwire.MilliSatoshi(1234+h), 77)
	case 3:
		f.Reason, f.FailureSourceIndex = paymentsdb.HTLCFailUnreadable, 1
	default:
		f.Reason, f.FailureSourceIndex = paymentsdb.HTLCFailInternal, 3
	}
	return f
}

// ---------------------------------------------------------------------------
// digests: canonical renderings of everything the stores persist about a payment's
// creation, an attempt and its resolution. The same function renders what is handed to
// the store (the ledger's expectation) and what the store hands back.

func shortHash(s string) string {
	d := sha256.Sum256([]byte(s))
	return fmt.Sprintf("%x", d[:5])
}

func recordsString(m map[uint64][]byte) string {
	ks := make([]uint64, 0, len(m))
	for k := range m {
		ks = append(ks, k)
	}
	sort.Slice(ks, func(i, j int) bool { return ks[i] < ks[j] })
	var b strings.Builder
	b.WriteByte('{')
	for _, k := range ks {
		fmt.Fprintf(&b, "%d=%x;", k, m[k])
	}
	b.WriteByte('}')
	return b.String()
}

func creationDigest(c *paymentsdb.PaymentCreationInfo) string {
	if c == nil {
		return "noinfo"
	}
	return fmt.Sprintf("t=%d req=%x rec=%s", c.CreationTime.UnixMicro(), c.PaymentRequest, recordsString(c.FirstHopCustomRecords))
}

func attemptDigest(a *paymentsdb.HTLCAttemptInfo) string {
	var b strings.Builder
	hash := "nil"
	if a.Hash != nil {
		hash = fmt.Sprintf("%x", a.Hash[:])
	}
	r := &a.Route
	fmt.Fprintf(&b, "sk=%x at=%d hash=%s ttl=%d tot=%d src=%x fha=%d fhr=%s hops=%d", a.SessionKey().Serialize(), a.AttemptTime.UnixMicro(), hash,
		r.TotalTimeLock, r.TotalAmount, r.SourcePubKey[:4], r.FirstHopAmount.Val.Int(), recordsString(r.FirstHopWireCustomRecords), len(r.Hops))
	for i, h := range r.Hops {
		fmt.Fprintf(&b, " [%d pk=%x ch=%d tl=%d amt=%d leg=%v", i, h.PubKeyBytes[:4], h.ChannelID, h.OutgoingTimeLock, h.AmtToForward, h.LegacyPayload)
		if h.MPP != nil {
			ad := h.MPP.PaymentAddr()
			fmt.Fprintf(&b, " mpp=%d/%x", h.MPP.TotalMsat(), ad[:])
		}
		if h.AMP != nil {
			rs, si := h.AMP.RootShare(), h.AMP.SetID()
			fmt.Fprintf(&b, " amp=%x/%x/%d", rs[:], si[:], h.AMP.ChildIndex())
		}
		if len(h.Metadata) != 0 {
			fmt.Fprintf(&b, " meta=%x", h.Metadata)
		}
		if len(h.EncryptedData) != 0 {
			fmt.Fprintf(&b, " enc=%x", h.EncryptedData)
		}
		if h.BlindingPoint != nil {
			fmt.Fprintf(&b, " bp=%x", h.BlindingPoint.SerializeCompressed())
		}
		if h.TotalAmtMsat != 0 {
			fmt.Fprintf(&b, " total=%d", h.TotalAmtMsat)
		}
		if len(h.CustomRecords) != 0 {
			fmt.Fprintf(&b, " rec=%s", recordsString(h.CustomRecords))
		}
		b.WriteByte(']')
	}
	return b.String()
}

func settleDigest(s *paymentsdb.HTLCSettleInfo) string {
	return fmt.Sprintf("settle pre=%x t=%d", s.Preimage[:], s.SettleTime.UnixMicro())
}

func failDigest(f *paymentsdb.HTLCFailInfo) string {
	msg := "none"
	if f.Message != nil {
		var mb bytes.Buffer
		if err := lnwire.EncodeFailureMessage(&mb, f.Message, 0); err != nil {
			msg = "unencodable:" + err.Error()
		} else {
			msg = fmt.Sprintf("%x", mb.Bytes())
		}
	}
	return fmt.Sprintf("fail t=%d reason=%d src=%d msg=%s", f.FailTime.UnixMicro(), f.Reason, f.FailureSourceIndex, msg)
}

// ---------------------------------------------------------------------------
// operations

type op struct {
	kind   string // init reg settle failatt fail del delfa dfa delall reopen
	h      int
	id     uint64 // real attempt id
	tok    uint64 // attempt id token of the alphabet
	amt    int64  // reg: resolved amount (see resolve)
	total  int64  // reg: resolved total of the MPP / blinded record
	val    int64  // init: resolved payment amount
	amtTok string
	akind  string
	reason int
	fo     bool
	fho    bool
	raw    string
}

// resolve fills in the amounts that depend on the payment's current amount: the
// amount an InitPayment carries (nextValue) and the attempt amount / record total of a
// RegisterAttempt (relative to the payment's amount; the base amount if the payment
// does not exist - such a registration is refused anyway).
func (o op) resolve(exists bool, cur int64) op {
	switch o.kind {
	case "init":
		o.val = nextValue(o.h, exists, cur)
	case "reg":
		v := cur
		if !exists {
			v = payVars[o.h].base
		}
		o.amt = amtOf(o.amtTok, v)
		o.total = kinds[o.akind].mult * v
	}
	return o
}

func (o op) needsValue() bool { return o.kind == "init" || o.kind == "reg" }

func parseOp(s string) (op, error) {
	f := strings.Split(s, ":")
	o := op{kind: f[0], raw: s, h: -1}
	bad := func() (op, error) { return o, fmt.Errorf("bad op %q", s) }
	hidx := func(t string) bool {
		if len(t) != 2 || t[0] != 'h' {
			return false
		}
		n := int(t[1] - '0')
		if n < 0 || n >= nHashes {
			return false
		}
		o.h = n
		return true
	}
	switch o.kind {
	case "init", "del", "delfa", "dfa":
		if len(f) != 2 || !hidx(f[1]) {
			return bad()
		}
	case "reg":
		if len(f) != 5 || !hidx(f[1]) {
			return bad()
		}
		id, err := strconv.ParseUint(f[2], 10, 64)
		ok := amtToks[f[3]]
		_, ok2 := kinds[f[4]]
		if err != nil || !ok || !ok2 {
			return bad()
		}
		o.tok, o.id, o.amtTok, o.akind = id, realID(id), f[3], f[4]
	case "settle", "failatt":
		if len(f) != 3 || !hidx(f[1]) {
			return bad()
		}
		id, err := strconv.ParseUint(f[2], 10, 64)
		if err != nil {
			return bad()
		}
		o.tok, o.id = id, realID(id)
	case "fail":
		if len(f) != 3 || !hidx(f[1]) {
			return bad()
		}
		r, err := strconv.Atoi(f[2])
		if err != nil {
			return bad()
		}
		o.reason = r
	case "delall":
		if len(f) != 3 {
			return bad()
		}
		o.fo, o.fho = f[1] == "1", f[2] == "1"
	case "reopen":
		if len(f) != 1 {
			return bad()
		}
	default:
		return bad()
	}
	return o, nil
}

// ---------------------------------------------------------------------------
// error classes (exported sentinels only)

var sentinels = []struct {
	name string
	err  error
}{
	{"ErrAlreadyPaid", paymentsdb.ErrAlreadyPaid},
	{"ErrPaymentInFlight", paymentsdb.ErrPaymentInFlight},
	{"ErrPaymentExists", paymentsdb.ErrPaymentExists},
	{"ErrPaymentInternal", paymentsdb.ErrPaymentInternal},
	{"ErrPaymentNotInitiated", paymentsdb.ErrPaymentNotInitiated},
	{"ErrPaymentAlreadySucceeded", paymentsdb.ErrPaymentAlreadySucceeded},
	{"ErrPaymentAlreadyFailed", paymentsdb.ErrPaymentAlreadyFailed},
	{"ErrUnknownPaymentStatus", paymentsdb.ErrUnknownPaymentStatus},
	{"ErrPaymentTerminal", paymentsdb.ErrPaymentTerminal},
	{"ErrAttemptAlreadySettled", paymentsdb.ErrAttemptAlreadySettled},
	{"ErrAttemptAlreadyFailed", paymentsdb.ErrAttemptAlreadyFailed},
	{"ErrValueMismatch", paymentsdb.ErrValueMismatch},
	{"ErrValueExceedsAmt", paymentsdb.ErrValueExceedsAmt},
	{"ErrNonMPPayment", paymentsdb.ErrNonMPPayment},
	{"ErrMPPayment", paymentsdb.ErrMPPayment},
	{"ErrMPPRecordInBlindedPayment", paymentsdb.ErrMPPRecordInBlindedPayment},
	{"ErrBlindedPaymentTotalAmountMismatch", paymentsdb.ErrBlindedPaymentTotalAmountMismatch},
	{"ErrMixedBlindedAndNonBlindedPayments", paymentsdb.ErrMixedBlindedAndNonBlindedPayments},
	{"ErrBlindedPaymentMissingTotalAmount", paymentsdb.ErrBlindedPaymentMissingTotalAmount},
	{"ErrMPPPaymentAddrMismatch", paymentsdb.ErrMPPPaymentAddrMismatch},
	{"ErrMPPTotalAmountMismatch", paymentsdb.ErrMPPTotalAmountMismatch},
	{"ErrPaymentPendingSettled", paymentsdb.ErrPaymentPendingSettled},
	{"ErrPaymentPendingFailed", paymentsdb.ErrPaymentPendingFailed},
	{"ErrSentExceedsTotal", paymentsdb.ErrSentExceedsTotal},
	{"ErrNoAttemptInfo", paymentsdb.ErrNoAttemptInfo},
}

func classOf(err error) string {
	if err == nil {
		return "ok"
	}
	for _, s := range sentinels {
		if errors.Is(err, s.err) {
			return s.name
		}
	}
	return "other"
}

// ---------------------------------------------------------------------------
// projections of what the store reports

const (
	resInFlight = 0
	resSettled  = 1
	resFailed   = 2
)

type aproj struct {
	ID    uint64
	Amt   int64 // receiver amount
	Total int64 // route total amount
	Kind  string
	Res   int
	Dig   string // attemptDigest: everything persisted about the attempt
	RDig  string // settleDigest / failDigest of the resolution ("" while in flight)
}

type pproj struct {
	Exists  bool
	Err     string // error class of FetchPayment when !Exists
	Value   int64
	Info    string // creationDigest
	HTLCs   []aproj
	Reason  int // -1 = none
	Status  int
	NInFl   int
	Remain  int64
	Fees    int64
	HasSett bool
	PFailed bool
	NoState bool
	HashOK  bool
}

func kindOfHop(h *route.Hop) string {
	if h == nil {
		return "nohop"
	}
	bl := len(h.EncryptedData) != 0
	switch {
	case bl && h.MPP != nil:
		return fmt.Sprintf("blinded(%d)+mpp", h.TotalAmtMsat)
	case bl:
		return fmt.Sprintf("blinded(%d)", h.TotalAmtMsat)
	case h.MPP != nil:
		ad := h.MPP.PaymentAddr()
		return fmt.Sprintf("mpp(%d,%x)", h.MPP.TotalMsat(), ad[:1])
	default:
		return "no-mpp"
	}
}

func projOf(p *paymentsdb.MPPayment, want lntypes.Hash) pproj {
	out := pproj{Exists: true, Reason: -1}
	if p.Info != nil {
		out.Value = int64(p.Info.Value)
		out.HashOK = p.Info.PaymentIdentifier == want
	}
	out.Info = creationDigest(p.Info)
	for i := range p.HTLCs {
		h := &p.HTLCs[i]
		a := aproj{ID: h.AttemptID, Amt: int64(h.Route.ReceiverAmt()), Total: int64(h.Route.TotalAmount),
			Kind: kindOfHop(h.Route.FinalHop()), Dig: attemptDigest(&h.HTLCAttemptInfo)}
		switch {
		case h.Settle != nil && h.Failure != nil:
			a.Res = 3 // both: corrupt
			a.RDig = settleDigest(h.Settle) + " + " + failDigest(h.Failure)
		case h.Settle != nil:
			a.Res = resSettled
			a.RDig = settleDigest(h.Settle)
		case h.Failure != nil:
			a.Res = resFailed
			a.RDig = failDigest(h.Failure)
		}
		out.HTLCs = append(out.HTLCs, a)
	}
	sort.Slice(out.HTLCs, func(i, j int) bool { return out.HTLCs[i].ID < out.HTLCs[j].ID })
	if p.FailureReason != nil {
		out.Reason = int(*p.FailureReason)
	}
	out.Status = int(p.Status)
	if p.State == nil {
		out.NoState = true
	} else {
		out.NInFl = p.State.NumAttemptsInFlight
		out.Remain = int64(p.State.RemainingAmt)
		out.Fees = int64(p.State.FeesPaid)
		out.HasSett = p.State.HasSettledHTLC
		out.PFailed = p.State.PaymentFailed
	}
	return out
}

func (p pproj) String() string {
	if !p.Exists {
		return "absent(" + p.Err + ")"
	}
	var b strings.Builder
	// the digests (creation info, attempt, resolution details) enter as short hashes;
	// Detail() renders them in full for messages
	fmt.Fprintf(&b, "v=%d i=%s st=%s r=%d [", p.Value, shortHash(p.Info), statusName(p.Status), p.Reason)
	for i, a := range p.HTLCs {
		if i > 0 {
			b.WriteByte(' ')
		}
		fmt.Fprintf(&b, "%d:%d/%d:%s:%s#%s", a.ID, a.Amt, a.Total, a.Kind, resName(a.Res), shortHash(a.Dig+"|"+a.RDig))
	}
	// State.PaymentFailed is documented as "marked as failed with a reason" but is
	// derived through TerminalInfo, which hides the reason once an attempt settled;
	// the property does not cover that field, so the combination is not compared.
	pf := fmt.Sprint(p.PFailed)
	if p.HasSett && p.Reason >= 0 {
		pf = "*"
	}
	fmt.Fprintf(&b, "] infl=%d rem=%d fees=%d sett=%v pf=%s", p.NInFl, p.Remain, p.Fees, p.HasSett, pf)
	if p.NoState {
		b.WriteString(" NOSTATE")
	}
	if !p.HashOK {
		b.WriteString(" WRONGHASH")
	}
	return b.String()
}

// Detail renders the full digests behind the short hashes of String.
func (p pproj) Detail() string {
	if !p.Exists {
		return ""
	}
	var b strings.Builder
	fmt.Fprintf(&b, "creation{%s}", p.Info)
	for _, a := range p.HTLCs {
		fmt.Fprintf(&b, " attempt %d{%s}{%s}", a.ID, a.Dig, a.RDig)
	}
	return b.String()
}

// stripped is the projection without the digests.
func (p pproj) stripped() pproj {
	q := p
	q.Info = ""
	q.HTLCs = append([]aproj{}, p.HTLCs...)
	for i := range q.HTLCs {
		q.HTLCs[i].Dig, q.HTLCs[i].RDig = "", ""
	}
	return q
}

// digestDiff names what differs between two projections whose String differ only in
// the digests (empty if something else differs, or nothing).
func digestDiff(got, want pproj) string {
	if !got.Exists || !want.Exists || got.stripped().String() != want.stripped().String() {
		return ""
	}
	var out []string
	if got.Info != want.Info {
		out = append(out, fmt.Sprintf("creation info: reported {%s}, expected {%s}", got.Info, want.Info))
	}
	if len(got.HTLCs) == len(want.HTLCs) {
		for i := range got.HTLCs {
			if got.HTLCs[i].Dig != want.HTLCs[i].Dig {
				out = append(out, fmt.Sprintf("attempt %d: reported {%s}, expected {%s}", got.HTLCs[i].ID, got.HTLCs[i].Dig, want.HTLCs[i].Dig))
			}
			if got.HTLCs[i].RDig != want.HTLCs[i].RDig {
				out = append(out, fmt.Sprintf("resolution of attempt %d: reported {%s}, expected {%s}", got.HTLCs[i].ID, got.HTLCs[i].RDig, want.HTLCs[i].RDig))
			}
		}
	}
	return strings.Join(out, "; ")
}

func statusName(s int) string {
	switch paymentsdb.PaymentStatus(s) {
	case paymentsdb.StatusInitiated:
		return "Initiated"
	case paymentsdb.StatusInFlight:
		return "InFlight"
	case paymentsdb.StatusSucceeded:
		return "Succeeded"
	case paymentsdb.StatusFailed:
		return "Failed"
	}
	return fmt.Sprintf("Unknown(%d)", s)
}

func resName(r int) string {
	return [...]string{"inflight", "settled", "failed", "settled+failed"}[r]
}

// truthTable is the documented 16-row table of payment_status.go, transcribed row
// by row (not derived from the switch statement in the code).
//
//	index bit 3 = inflight, bit 2 = settled, bit 1 = htlc failed, bit 0 = payment failed
var truthTable = [16]paymentsdb.PaymentStatus{
	0b1111: paymentsdb.StatusInFlight,
	0b1110: paymentsdb.StatusInFlight,
	0b1101: paymentsdb.StatusInFlight,
	0b1100: paymentsdb.StatusInFlight,
	0b1011: paymentsdb.StatusInFlight,
	0b1010: paymentsdb.StatusInFlight,
	0b1001: paymentsdb.StatusInFlight,
	0b1000: paymentsdb.StatusInFlight,
	0b0111: paymentsdb.StatusSucceeded,
	0b0110: paymentsdb.StatusSucceeded,
	0b0101: paymentsdb.StatusSucceeded,
	0b0100: paymentsdb.StatusSucceeded,
	0b0011: paymentsdb.StatusFailed,
	0b0010: paymentsdb.StatusInFlight,
	0b0001: paymentsdb.StatusFailed,
	0b0000: paymentsdb.StatusInitiated,
}

func tableStatus(inflight, settled, htlcFailed, payFailed bool) int {
	i := 0
	if inflight {
		i |= 8
	}
	if settled {
		i |= 4
	}
	if htlcFailed {
		i |= 2
	}
	if payFailed {
		i |= 1
	}
	return int(truthTable[i])
}

// checkProj validates one reported payment against the documented status function
// and the documented derived state, using only the payment's own fields.
func checkProj(p pproj) (sig, what string) {
	if !p.Exists {
		return "", ""
	}
	var infl, sett, hf bool
	var sent, fees int64
	n := 0
	for _, a := range p.HTLCs {
		switch a.Res {
		case resInFlight:
			infl = true
			n++
		case resSettled:
			sett = true
		case resFailed:
			hf = true
		default:
			return "attempt-settled-and-failed", fmt.Sprintf("attempt %d is reported both settled and failed: %s", a.ID, p)
		}
		if a.Res != resFailed {
			sent += a.Amt
			fees += a.Total - a.Amt
		}
	}
	want := tableStatus(infl, sett, hf, p.Reason >= 0)
	if p.Status != want {
		row := fmt.Sprintf("inflight=%v settled=%v htlcfailed=%v paymentfailed=%v", infl, sett, hf, p.Reason >= 0)
		if sett && p.Status == int(paymentsdb.StatusFailed) {
			return "status-failed-with-settled-attempt", fmt.Sprintf("payment with a settled attempt reported Failed (%s): %s", row, p)
		}
		return fmt.Sprintf("status-table:%s-reported-%s", statusName(want), statusName(p.Status)),
			fmt.Sprintf("reported status %s, documented table row (%s) says %s: %s", statusName(p.Status), row, statusName(want), p)
	}
	if sent > p.Value {
		return "reported-sent-exceeds-amount", fmt.Sprintf("settled+in-flight %d > payment amount %d: %s", sent, p.Value, p)
	}
	if p.NoState {
		return "state-missing", "payment reported without derived State: " + p.String()
	}
	pfWrong := p.PFailed != (p.Reason >= 0) && !(sett && p.Reason >= 0)
	if p.NInFl != n || p.Remain != p.Value-sent || p.Fees != fees || p.HasSett != sett || pfWrong {
		return "derived-state-wrong", fmt.Sprintf("derived state disagrees with attempts (want inflight=%d remaining=%d fees=%d settled=%v failed=%v): %s",
			n, p.Value-sent, fees, sett, p.Reason >= 0, p)
	}
	if !p.HashOK {
		return "wrong-payment-returned", "payment returned for another hash: " + p.String()
	}
	return "", ""
}

// obsT is everything the store reports after an operation.
type obsT struct {
	nh       int
	listed   bool // the listings were read for this observation (not carried over)
	pay      [nHashes]pproj
	inflight []int // hash indexes listed by FetchInFlightPayments, sorted
	inflProj map[int]pproj
	inflErr  string
	query    []int // hash indexes in listing order
	qProj    map[int]pproj
	qTotal   int
	qErr     string
	// further QueryPayments options (backend.query2): only complete payments; one
	// payment per call from the end (Reversed) and after the first (IndexOffset)
	q2      bool
	qSucc   []int
	qLast   []int
	qSecond []int
	q2Err   string
}

func (o *obsT) stateString() string {
	var b strings.Builder
	for i := 0; i < o.nh; i++ {
		fmt.Fprintf(&b, "h%d{%s} ", i, o.pay[i])
	}
	fmt.Fprintf(&b, "infl=%v%s q=%v/%d%s", o.inflight, o.inflErr, o.query, o.qTotal, o.qErr)
	return b.String()
}

// ---------------------------------------------------------------------------
// backends

type txCount struct{ w, r int64 }

type backend struct {
	name string
	db   paymentsdb.DB
	// begun counts transactions begun (write, read where observable).
	begun func() txCount

	// KV side
	bolt kvdb.Backend
	cdb  *crashdb.DB
	dir  string
	kvW  atomic.Int64
	kvR  atomic.Int64
	// txHook, if set, runs before every transaction the store begins (after it
	// has been counted): the scheduling point of the interleaving pass.
	txHook func(readOnly bool)

	kvStoreBackend kvdb.Backend
	// noMig: re-instantiate the KVStore with WithNoMigration(true) (the buckets
	// exist: the option must make no difference)
	noMig bool
	// query2: observe further QueryPayments options (see obsT)
	query2 bool

	// SQL side
	sq     *sqlHandle
	cq     *countingExec
	sqlCfg string // "" = sqldb.DefaultSQLiteConfig(), see queryCfg
}

// queryCfg maps the name of an SQL query configuration to the configuration: the
// default one (batches of 250 ids, pages of 100 rows: with two payments never more
// than one page / batch), "tiny" (every page and every IN-batch holds one item: two
// payments span two pages, the attempts / hops of one payment several batches) and
// "batch1" (pages of two, IN-batches of one: a page is exactly full with two payments
// and their ids are split over two batches of one shared-data load).
func queryCfg(name string) *sqldb.QueryConfig {
	switch name {
	case "tiny":
		return &sqldb.QueryConfig{MaxBatchSize: 1, MaxPageSize: 1}
	case "batch1":
		return &sqldb.QueryConfig{MaxBatchSize: 1, MaxPageSize: 2}
	}
	return sqldb.DefaultSQLiteConfig()
}

// current reports whether the store knows hash h and with which amount (used to
// resolve amount tokens where no reference ledger exists).
func (b *backend) current(h int) (bool, int64) {
	p, err := b.db.FetchPayment(bg, hashes[h])
	if err != nil || p == nil || p.Info == nil {
		return false, 0
	}
	return true, int64(p.Info.Value)
}

// resolveOn resolves the amount tokens of o against what the store reports now.
func (b *backend) resolveOn(o op) op {
	if !o.needsValue() {
		return o
	}
	ex, v := b.current(o.h)
	return o.resolve(ex, v)
}

// countingExec wraps the real TransactionExecutor: it counts transactions and
// offers a scheduling point before each one.
type countingExec struct {
	paymentsdb.BatchedSQLQueries
	w, r   atomic.Int64
	before func(readOnly bool)
}

func (c *countingExec) ExecTx(ctx context.Context, o sqldb.TxOptions,
	body func(paymentsdb.SQLQueries) error, reset func()) error {

	if o.ReadOnly() {
		c.r.Add(1)
	} else {
		c.w.Add(1)
	}
	if c.before != nil {
		c.before(o.ReadOnly())
	}
	return c.BatchedSQLQueries.ExecTx(ctx, o, body, reset)
}

// sqlHandle is one migrated sqlite database.
type sqlHandle struct {
	store *sqldb.SqliteStore
	path  string
	dir   string
}

var (
	sqlTemplateOnce sync.Once
	sqlTemplatePath string
	sqlTemplateErr  error
	scratchSeq      atomic.Int64
)

func scratchRoot() string {
	d := os.Getenv("VERIF_SCRATCH")
	if d == "" {
		d = os.TempDir()
	}
	return d
}

func newScratchDir(prefix string) (string, error) {
	d := filepath.Join(scratchRoot(), fmt.Sprintf("%s-%d-%d", prefix, os.Getpid(), scratchSeq.Add(1)))
	return d, os.MkdirAll(d, 0o755)
}

// sqlTemplate creates one fully migrated sqlite file; fresh databases are byte copies
// of it (running the 14 migrations costs ~100x more than a payment operation).
func sqlTemplate() (string, error) {
	sqlTemplateOnce.Do(func() {
		dir, err := newScratchDir("c16-sqltpl")
		if err != nil {
			sqlTemplateErr = err
			return
		}
		p := filepath.Join(dir, "tpl.db")
		st, err := sqldb.NewSqliteStore(&sqldb.SqliteConfig{SkipMigrations: false}, p)
		if err != nil {
			sqlTemplateErr = err
			return
		}
		if err := st.ApplyAllMigrations(context.Background(), sqldb.GetMigrations()); err != nil {
			sqlTemplateErr = err
			return
		}
		// fold the WAL back into the main file so that a plain copy is complete
		if _, err := st.DB.Exec("PRAGMA wal_checkpoint(TRUNCATE)"); err != nil {
			sqlTemplateErr = err
			return
		}
		if err := st.DB.Close(); err != nil {
			sqlTemplateErr = err
			return
		}
		sqlTemplatePath = p
	})
	return sqlTemplatePath, sqlTemplateErr
}

func openFreshSQL() (*sqlHandle, error) {
	tpl, err := sqlTemplate()
	if err != nil {
		return nil, err
	}
	dir, err := newScratchDir("c16-sql")
	if err != nil {
		return nil, err
	}
	b, err := os.ReadFile(tpl)
	if err != nil {
		return nil, err
	}
	p := filepath.Join(dir, "p.db")
	if err := os.WriteFile(p, b, 0o600); err != nil {
		return nil, err
	}
	st, err := sqldb.NewSqliteStore(&sqldb.SqliteConfig{SkipMigrations: true}, p)
	if err != nil {
		return nil, err
	}
	return &sqlHandle{store: st, path: p, dir: dir}, nil
}

func (h *sqlHandle) close() {
	_ = h.store.DB.Close()
	_ = os.RemoveAll(h.dir)
}

// reset empties the payment tables (ON DELETE CASCADE removes attempts, hops,
// resolutions, records). rowids are plain INTEGER PRIMARY KEYs (no AUTOINCREMENT), so
// an emptied table numbers from 1 again: the database is logically a fresh one.
func (h *sqlHandle) reset() error {
	for _, q := range []string{"DELETE FROM payments"} {
		if _, err := h.store.DB.Exec(q); err != nil {
			return err
		}
	}
	var n int
	for _, t := range []string{"payments", "payment_htlc_attempts", "payment_htlc_attempt_resolutions", "payment_route_hops", "payment_intents"} {
		if err := h.store.DB.QueryRow("SELECT COUNT(*) FROM " + t).Scan(&n); err != nil {
			return err
		}
		if n != 0 {
			return fmt.Errorf("reset: table %s still has %d rows", t, n)
		}
	}
	return nil
}

// sqlPool keeps one reusable database per worker.
type sqlPool struct {
	mu   sync.Mutex
	free map[int]*sqlHandle
	all  []*sqlHandle
}

func newSQLPool() *sqlPool { return &sqlPool{free: map[int]*sqlHandle{}} }

func (p *sqlPool) get(worker int) (*sqlHandle, error) {
	p.mu.Lock()
	h := p.free[worker]
	delete(p.free, worker)
	p.mu.Unlock()
	if h != nil {
		if err := h.reset(); err != nil {
			h.close()
			return nil, err
		}
		return h, nil
	}
	h, err := openFreshSQL()
	if err != nil {
		return nil, err
	}
	p.mu.Lock()
	p.all = append(p.all, h)
	p.mu.Unlock()
	return h, nil
}

func (p *sqlPool) put(worker int, h *sqlHandle) {
	p.mu.Lock()
	if old := p.free[worker]; old != nil && old != h {
		// should not happen: one world per worker at a time
		defer old.close()
	}
	p.free[worker] = h
	p.mu.Unlock()
}

func (p *sqlPool) closeAll() {
	p.mu.Lock()
	defer p.mu.Unlock()
	for _, h := range p.all {
		h.close()
	}
	p.all, p.free = nil, map[int]*sqlHandle{}
}

// newKVBackend opens a fresh key-value database and a KVStore on it. kind "" is bbolt
// (lnd's default), kind "sqlite" the sqlite-backed kvdb (kvdb/sqlbase: the key-value
// model emulated on one SQL table; what a node with db.backend=sqlite and non-native
// payments runs on). The latter only exists in binaries built with -tags kvdb_sqlite.
func newKVBackend(wrap bool, kind string) (*backend, error) {
	dir, err := newScratchDir("c16-kv")
	if err != nil {
		return nil, err
	}
	var bolt kvdb.Backend
	switch kind {
	case "":
		bolt, err = kvdb.GetBoltBackend(&kvdb.BoltBackendConfig{
			DBPath: dir, DBFileName: "payments.db", NoFreelistSync: true,
			AutoCompact: false, AutoCompactMinAge: kvdb.DefaultBoltAutoCompactMinAge,
			DBTimeout: kvdb.DefaultDBTimeout,
		})
	case "sqlite":
		if !kvdb.SqliteBackend {
			err = fmt.Errorf("this binary was built without -tags kvdb_sqlite")
		} else {
			bolt, err = kvdb.StartSqliteTestBackend(dir, "paymentskv.sqlite", "paymentskv")
		}
	default:
		err = fmt.Errorf("unknown kv backend kind %q", kind)
	}
	if err != nil {
		removeAll(dir)
		return nil, err
	}
	b := &backend{name: "kv", bolt: bolt, dir: dir}
	var be kvdb.Backend = bolt
	if wrap {
		b.cdb = crashdb.New(bolt)
		b.cdb.Before = func() {
			b.kvW.Add(1)
			if b.txHook != nil {
				b.txHook(false)
			}
		}
		be = &readHookDB{DB: b.cdb, b: b}
	}
	st, err := paymentsdb.NewKVStore(be)
	if err != nil {
		_ = bolt.Close()
		return nil, err
	}
	b.db = st
	b.kvStoreBackend = be
	b.begun = func() txCount { return txCount{w: b.kvW.Load(), r: b.kvR.Load()} }
	return b, nil
}

// readHookDB adds a counting scheduling point in front of read transactions to the
// crashdb wrapper (which has one in front of write transactions).
type readHookDB struct {
	*crashdb.DB
	b *backend
}

func (d *readHookDB) pre() {
	d.b.kvR.Add(1)
	if d.b.txHook != nil {
		d.b.txHook(true)
	}
}

func (d *readHookDB) View(f func(tx walletdb.ReadTx) error, reset func()) error {
	d.pre()
	return d.DB.View(f, reset)
}

func (d *readHookDB) BeginReadTx() (walletdb.ReadTx, error) {
	d.pre()
	return d.DB.BeginReadTx()
}

func (b *backend) kvBackend() kvdb.Backend {
	if b.kvStoreBackend != nil {
		return b.kvStoreBackend
	}
	return b.bolt
}

func newSQLBackend(h *sqlHandle, cfg string) (*backend, error) {
	b := &backend{name: "sql", sq: h, sqlCfg: cfg}
	base := h.store.BaseDB
	exec := sqldb.NewTransactionExecutor(base, func(tx *sql.Tx) paymentsdb.SQLQueries {
		return base.WithTx(tx)
	})
	b.cq = &countingExec{BatchedSQLQueries: exec}
	st, err := paymentsdb.NewSQLStore(&paymentsdb.SQLStoreConfig{QueryCfg: queryCfg(cfg)}, b.cq)
	if err != nil {
		return nil, err
	}
	b.db = st
	b.begun = func() txCount { return txCount{w: b.cq.w.Load(), r: b.cq.r.Load()} }
	return b, nil
}

// reopen re-instantiates the store object over the same database ("the payment
// subsystem restarted"): all in-memory state of the store is dropped.
func (b *backend) reopen() error {
	if b.name == "kv" {
		var opts []paymentsdb.OptionModifier
		if b.noMig {
			opts = append(opts, paymentsdb.WithNoMigration(true))
		}
		st, err := paymentsdb.NewKVStore(b.kvBackend(), opts...)
		if err != nil {
			return err
		}
		b.db = st
		return nil
	}
	st, err := paymentsdb.NewSQLStore(&paymentsdb.SQLStoreConfig{QueryCfg: queryCfg(b.sqlCfg)}, b.cq)
	if err != nil {
		return err
	}
	b.db = st
	return nil
}

// ---------------------------------------------------------------------------
// executing one operation on one backend

type result struct {
	ok    bool
	class string
	text  string
	pay   *pproj // payment returned by the call, if any
	n     int    // DeletePayments count
	txW   int64  // write transactions begun by the call
	txR   int64
}

var bg = context.Background()

func (b *backend) exec(o op) (r result) {
	t0 := b.begun()
	var (
		err error
		p   *paymentsdb.MPPayment
	)
	switch o.kind {
	case "init":
		if o.val == 0 {
			panic("exec: unresolved " + o.raw)
		}
		err = b.db.InitPayment(bg, hashes[o.h], creationInfoFor(o.h, o.val))
	case "reg":
		if o.amt == 0 {
			panic("exec: unresolved " + o.raw)
		}
		p, err = b.db.RegisterAttempt(bg, hashes[o.h], attemptFor(o.h, o.tok, o.amt, o.akind, o.total))
	case "settle":
		p, err = b.db.SettleAttempt(bg, hashes[o.h], o.id, settleInfoFor(o.h, o.tok))
	case "failatt":
		p, err = b.db.FailAttempt(bg, hashes[o.h], o.id, failInfoFor(o.h, o.tok))
	case "fail":
		p, err = b.db.Fail(bg, hashes[o.h], paymentsdb.FailureReason(o.reason))
	case "del":
		err = b.db.DeletePayment(bg, hashes[o.h], false)
	case "delfa":
		err = b.db.DeletePayment(bg, hashes[o.h], true)
	case "dfa":
		err = b.db.DeleteFailedAttempts(bg, hashes[o.h])
	case "delall":
		r.n, err = b.db.DeletePayments(bg, o.fo, o.fho)
	default:
		panic("exec: " + o.raw)
	}
	t1 := b.begun()
	r.txW, r.txR = t1.w-t0.w, t1.r-t0.r
	r.ok = err == nil
	r.class = classOf(err)
	if err != nil {
		r.text = err.Error()
	}
	if p != nil && o.h >= 0 {
		pp := projOf(p, hashes[o.h])
		r.pay = &pp
	}
	return r
}

func hashIndex(h lntypes.Hash) int {
	for i := range hashes {
		if hashes[i] == h {
			return i
		}
	}
	return -1
}

// observe reads the store back through the read interface: FetchPayment of every
// hash of the space (only the target hash after a refused operation); the two listings (FetchInFlightPayments, QueryPayments)
// when listings is set, otherwise they are carried over from prev.
func (b *backend) observe(nh, only int, listings, withQuery bool, prev *obsT) obsT {
	o := obsT{nh: nh}
	for i := 0; i < nh; i++ {
		if only >= 0 && i != only && prev != nil {
			// a refused operation: the other payments are carried over
			o.pay[i] = prev.pay[i]
			continue
		}
		p, err := b.db.FetchPayment(bg, hashes[i])
		if err != nil {
			o.pay[i] = pproj{Err: classOf(err)}
			if o.pay[i].Err == "other" {
				o.pay[i].Err = "other:" + err.Error()
			}
			continue
		}
		o.pay[i] = projOf(p, hashes[i])
	}
	if !listings {
		if prev != nil {
			o.inflight, o.inflProj, o.inflErr = prev.inflight, prev.inflProj, prev.inflErr
			o.query, o.qProj, o.qTotal, o.qErr = prev.query, prev.qProj, prev.qTotal, prev.qErr
			o.q2, o.qSucc, o.qLast, o.qSecond, o.q2Err = prev.q2, prev.qSucc, prev.qLast, prev.qSecond, prev.q2Err
		}
		return o
	}
	o.listed = true
	lst, err := b.db.FetchInFlightPayments(bg)
	if err != nil {
		o.inflErr = " ERR:" + classOf(err) + ":" + err.Error()
	}
	o.inflProj = map[int]pproj{}
	for _, p := range lst {
		hi := -1
		if p.Info != nil {
			hi = hashIndex(p.Info.PaymentIdentifier)
		}
		o.inflight = append(o.inflight, hi)
		if hi >= 0 {
			o.inflProj[hi] = projOf(p, hashes[hi])
		}
	}
	sort.Ints(o.inflight)
	if withQuery {
		resp, err := b.db.QueryPayments(bg, paymentsdb.Query{MaxPayments: 100, IncludeIncomplete: true, CountTotal: true})
		if err != nil {
			o.qErr = " ERR:" + classOf(err) + ":" + err.Error()
		}
		o.qProj = map[int]pproj{}
		for _, p := range resp.Payments {
			hi := -1
			if p.Info != nil {
				hi = hashIndex(p.Info.PaymentIdentifier)
			}
			o.query = append(o.query, hi)
			if hi >= 0 {
				o.qProj[hi] = projOf(p, hashes[hi])
			}
		}
		o.qTotal = int(resp.TotalCount)
		if b.query2 && err == nil {
			o.q2 = true
			idx := func(q paymentsdb.Query) []int {
				r, err := b.db.QueryPayments(bg, q)
				if err != nil {
					o.q2Err += " ERR:" + classOf(err) + ":" + err.Error()
					return nil
				}
				var out []int
				for _, p := range r.Payments {
					hi := -1
					if p.Info != nil {
						hi = hashIndex(p.Info.PaymentIdentifier)
					}
					if hi >= 0 && projOf(p, hashes[hi]).String() != o.qProj[hi].String() {
						hi = -2 // reported differently than by the full listing
					}
					out = append(out, hi)
				}
				return out
			}
			o.qSucc = idx(paymentsdb.Query{MaxPayments: 100})
			o.qLast = idx(paymentsdb.Query{MaxPayments: 1, IncludeIncomplete: true, Reversed: true})
			if len(resp.Payments) > 0 {
				o.qSecond = idx(paymentsdb.Query{MaxPayments: 1, IncludeIncomplete: true, IndexOffset: resp.FirstIndexOffset})
			}
		}
	}
	return o
}
