// C16, KVStore on the sqlite-backed kvdb (target "kvsqlite", built with -tags kvdb_sqlite).
//
// The KVStore is written against the kvdb interface; lnd ships three implementations
// of it (bbolt, etcd, and the SQL-table emulation kvdb/sqlbase used for sqlite /
// postgres). The other targets run it on bbolt. This target runs the same lock-step
// exploration (same ledger, same clauses, same differential against the native
// SQLStore, restart probe, QueryPayments option matrix) with the KVStore on the sqlite
// kvdb: the code paths that differ are kvdb.Batch (plain serialised Update with retries
// instead of bbolt's batching), the ExtendedRBucket fast paths (ForAll in the
// CountTotal branch of QueryPayments, Prefetch), bucket sequences and nested-bucket
// deletion as emulated by sqlbase.
package c16

import (
	"fmt"
	"os"
	"sync"
	"testing"
	"time"

	"github.com/lightningnetwork/lnd/kvdb"
	"github.com/lightningnetwork/lnd/verifmc/evid"
	"github.com/lightningnetwork/lnd/verifmc/seqmc"
)

func kvSqliteSpaces(thorough bool) []Space {
	allDel := [][2]int{{0, 0}, {1, 0}, {0, 1}, {1, 1}}
	if !thorough {
		return []Space{
			{ // two payments: listings, bulk deletes, sequence numbers across restarts
				Name:   "kvsqlite-pair",
				RegIDs: map[string][]uint64{"h0": ids(1, 2), "h1": ids(3)}, ResIDs: map[string][]uint64{"h0": ids(1, 2), "h1": ids(3)},
				Amts: []string{"H"}, Kinds: []string{"m"}, Reasons: []int{0},
				DelAll: allDel, Reopen: true, Query: true, Depth: 4,
				KV: "sqlite", Query2: true, NoIL: true, QueryMatrix: true, MatrixDepth: 3,
			},
		}
	}
	return []Space{
		{
			Name:   "kvsqlite-pair",
			RegIDs: map[string][]uint64{"h0": ids(1, 2), "h1": ids(3)}, ResIDs: map[string][]uint64{"h0": ids(1, 2), "h1": ids(3)},
			Amts: []string{"H", "V"}, Kinds: []string{"m"}, Reasons: []int{0},
			DelAll: allDel, Reopen: true, Query: true, Depth: 6,
			KV: "sqlite", NoMig: true, Query2: true, NoIL: true, QueryMatrix: true,
		},
		{
			Name:   "kvsqlite-single",
			RegIDs: map[string][]uint64{"h0": ids(1, 2, 3)}, ResIDs: map[string][]uint64{"h0": ids(1, 2, 3)},
			Amts: []string{"V", "H", "J"}, Kinds: []string{"n", "m", "b", "A", "B"}, Reasons: []int{0, 1},
			DelAll: [][2]int{{0, 0}, {1, 1}}, Reopen: true, Query: true, Depth: 5,
			KV: "sqlite", NoIL: true,
		},
	}
}

func TestC16KVSqlite(t *testing.T) {
	run := evid.Start("C16", "model_checking")
	if rp := os.Getenv("VERIF_REPLAY"); rp != "" {
		os.Exit(replayFile(run, rp, false, true))
	}
	if !kvdb.SqliteBackend {
		fmt.Println("INFO kvsqlite target: binary built without -tags kvdb_sqlite")
		os.Exit(2)
	}
	budget := 30 * time.Second
	if run.Thorough() {
		budget = 3 * time.Minute
	}
	if n := envInt("VERIF_BUDGET_S", 0); n > 0 {
		budget = time.Duration(n) * time.Second
	}
	deadline := time.Now().Add(budget)
	st := newStats()
	pool := newSQLPool()
	defer pool.closeAll()
	var (
		mu         sync.Mutex
		nontrivial int64
		agg        seqmc.Result
		perSpace   []map[string]any
		caps       = []string{}
		samples    []any
	)
	for _, sp := range kvSqliteSpaces(run.Thorough()) {
		if time.Now().After(deadline) {
			caps = append(caps, "deadline before space "+sp.Name)
			continue
		}
		r := runSpace(run, sp, st, pool, deadline, envInt("C16_WORKERS", 0), &nontrivial, &mu)
		agg.States += r.res.States
		agg.Transitions += r.res.Transitions
		agg.Replays += r.res.Replays
		agg.ReplayMismatches += r.res.ReplayMismatches
		if !r.res.Exhaustive {
			caps = append(caps, r.res.CapHit+" in space "+sp.Name)
		}
		perSpace = append(perSpace, map[string]any{
			"space": sp.Name, "alphabet_size": len(sp.Alphabet()), "depth_bound": sp.Depth, "kv_backend": "kvdb-sqlite",
			"states": r.res.States, "states_per_depth": r.res.PerDepth, "transitions": r.res.Transitions,
			"fresh_instances": r.res.Replays, "exhaustive": r.res.Exhaustive, "wall_s": r.wall,
		})
		for _, h := range r.res.SampleHist {
			if len(samples) < 3 {
				samples = append(samples, map[string]any{"space": sp.Name, "history": h})
			}
		}
		fmt.Printf("INFO space %-18s |A|=%d depth<=%d (KVStore on sqlite kvdb): %d states, %d transitions, %.1fs wall%s\n", sp.Name, len(sp.Alphabet()), sp.Depth,
			r.res.States, r.res.Transitions, r.wall, capNote(r.res))
	}
	if agg.ReplayMismatches > 0 {
		caps = append(caps, "nondeterminism_detected (replayed history reached another key)")
	}
	if len(samples) == 0 {
		samples = append(samples, map[string]any{"note": "no history of length >= 3 explored"})
	}
	st.mu.Lock()
	clauses := map[string]int64{}
	for k, v := range st.Clauses {
		clauses[k] = v
	}
	ops := st.OpsKV + st.OpsSQL
	st.mu.Unlock()
	cov := map[string]any{
		"states": agg.States, "transitions": agg.Transitions, "traces_validated_against_impl": agg.Replays,
		"samples": samples, "evaluations": ops, "distinct_nontrivial": nontrivial,
		"exhaustive": len(caps) == 0,
		"kv_on_sqlite_kvdb_target": map[string]any{"per_space": perSpace, "clauses_exercised": clauses},
	}
	if len(caps) > 0 {
		cov["caps_hit"] = caps
	}
	run.Assumptions = append(run.Assumptions,
		"kvsqlite target: the KVStore additionally runs on the sqlite-backed kvdb (kvdb/sqlbase) in small two-payment / one-payment spaces, in lock-step with the native SQLStore; the etcd and postgres kvdb backends are not available offline")
	if code := run.Finish(cov); code != 0 {
		os.Exit(code)
	}
}
