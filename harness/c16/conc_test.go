// C16, free-running concurrency target.
//
// The sequential exploration (c16_test.go) decides the property for every operation
// order; that it also covers concurrent callers rests on "one operation = one atomic
// database transaction" (measured) plus the transaction-boundary pass. This target
// validates that argument on the running code: for every explored state of a small
// space (up to a depth bound) and every set of 2 (3, 4) operations of its alphabet
// that the interface allows to be concurrent, the operations are issued by that many
// goroutines released together, against the real KVStore on *raw* bbolt (the real
// kvdb.Batch path, which coalesces concurrent callers into one transaction and
// re-runs closures) and against the real SQLStore on sqlite (BEGIN IMMEDIATE, busy
// retries). The answers and the final report must equal those of some sequential
// order of the same operations (linearizability, brute force over all orders on the
// implementation). The goroutine schedule is whatever the Go runtime produces (the
// same binary is also built with -race in the thorough tier); the verdict does not
// depend on it: any schedule must be explained by a sequential order.
// Concurrent RegisterAttempt calls for one payment hash are a documented caller
// obligation and are not issued.
package c16

import (
	"fmt"
	"os"
	"sort"
	"strings"
	"sync"
	"sync/atomic"
	"testing"
	"time"

	"github.com/lightningnetwork/lnd/verifmc/evid"
)

type concDoc struct {
	Ops []string `json:"ops"` // issued concurrently, one goroutine each
	Be  string   `json:"backend"`
}

func concSpace(thorough bool) Space {
	return Space{
		Name:   "conc-small",
		RegIDs: map[string][]uint64{"h0": ids(1, 2), "h1": ids(3)}, ResIDs: map[string][]uint64{"h0": ids(1, 2), "h1": ids(3)},
		Amts: []string{"H", "V"}, Kinds: []string{"m"}, Reasons: []int{0},
		DelAll: [][2]int{{0, 0}, {1, 1}}, Query: true, Depth: 3,
	}
}

func hashOf(op string) string {
	f := strings.Split(op, ":")
	if len(f) > 1 && strings.HasPrefix(f[1], "h") {
		return f[1]
	}
	return "*"
}

// allowedTogether applies the interface contract: no two RegisterAttempt calls for
// the same hash at the same time.
func allowedTogether(ops []string) bool {
	regs := map[string]int{}
	for _, o := range ops {
		if strings.HasPrefix(o, "reg:") {
			regs[hashOf(o)]++
			if regs[hashOf(o)] > 1 {
				return false
			}
		}
	}
	return true
}

// interesting keeps the sets in which the operations can conflict: same hash, a bulk
// operation, or several InitPayment (sequence allocator).
func interesting(ops []string) bool {
	hs := map[string]bool{}
	inits := 0
	for _, o := range ops {
		hs[hashOf(o)] = true
		if strings.HasPrefix(o, "init:") {
			inits++
		}
	}
	return len(hs) == 1 || hs["*"] || inits >= 2
}

func multisets(alpha []string, k int) [][]string {
	var out [][]string
	var rec func(start int, cur []string)
	rec = func(start int, cur []string) {
		if len(cur) == k {
			out = append(out, append([]string{}, cur...))
			return
		}
		for i := start; i < len(alpha); i++ {
			rec(i, append(cur, alpha[i]))
		}
	}
	rec(0, nil)
	return out
}

func permutations(ops []string) [][]string {
	var out [][]string
	seen := map[string]bool{}
	var rec func(cur []string, used []bool)
	rec = func(cur []string, used []bool) {
		if len(cur) == len(ops) {
			k := strings.Join(cur, " ")
			if !seen[k] {
				seen[k] = true
				out = append(out, append([]string{}, cur...))
			}
			return
		}
		for i := range ops {
			if !used[i] {
				used[i] = true
				rec(append(cur, ops[i]), used)
				used[i] = false
			}
		}
	}
	rec(nil, make([]bool, len(ops)))
	return out
}

func isInfra(r result) bool {
	t := strings.ToLower(r.text)
	return strings.Contains(t, "sqlite_busy") || strings.Contains(t, "database is locked") ||
		strings.Contains(t, "serialization") || strings.Contains(t, "database table is locked")
}

// outcome is the canonical (order-free) rendering of answers + final report.
func outcomeString(ops []string, rs []result, final string) string {
	by := map[string][]string{}
	for i, o := range ops {
		by[o] = append(by[o], resString(rs[i]))
	}
	var keys []string
	for k := range by {
		keys = append(keys, k)
	}
	sort.Strings(keys)
	var b strings.Builder
	for _, k := range keys {
		sort.Strings(by[k])
		fmt.Fprintf(&b, "%s=>[%s] ", k, strings.Join(by[k], ", "))
	}
	b.WriteString("final{" + final + "}")
	return b.String()
}

func newConcBackend(be string, sp Space) (*oneBackend, error) {
	if be == "kv" {
		b, err := newKVBackend(false, sp.KV) // raw bbolt: real kvdb.Batch
		if err != nil {
			return nil, err
		}
		return &oneBackend{b: b, nh: len(sp.RegIDs)}, nil
	}
	return newOneBackend("sql", sp)
}

// concurrentRun issues ops concurrently after the prefix.
func concurrentRun(be string, sp Space, hist, ops []string) (rs []result, final string, infra bool, err error) {
	o, err := newConcBackend(be, sp)
	if err != nil {
		return nil, "", false, err
	}
	defer o.close()
	if _, err := o.run(hist); err != nil {
		return nil, "", false, err
	}
	// the calls are fixed before they are released (amount tokens resolved in the
	// base state); the sequential orders execute the same calls
	parsed, err := o.resolveAll(ops)
	if err != nil {
		return nil, "", false, err
	}
	rs = make([]result, len(ops))
	var wg, ready sync.WaitGroup
	start := make(chan struct{})
	var pan atomic.Value
	for i := range parsed {
		wg.Add(1)
		ready.Add(1)
		go func(i int) {
			defer wg.Done()
			defer func() {
				if v := recover(); v != nil {
					pan.Store(fmt.Sprint(v))
				}
			}()
			ready.Done()
			<-start
			rs[i] = o.b.exec(parsed[i])
		}(i)
	}
	ready.Wait()
	close(start)
	wg.Wait()
	if v := pan.Load(); v != nil {
		return nil, "", false, fmt.Errorf("panic: %v", v)
	}
	for _, r := range rs {
		if !r.ok && isInfra(r) {
			infra = true
		}
	}
	return rs, o.final(), infra, nil
}

func seqRun(be string, sp Space, hist, order []string) ([]result, string, error) {
	o, err := newOneBackend(be, sp)
	if err != nil {
		return nil, "", err
	}
	defer o.close()
	if _, err := o.run(hist); err != nil {
		return nil, "", err
	}
	ops, err := o.resolveAll(order)
	if err != nil {
		return nil, "", err
	}
	rs, err := o.runOps(ops)
	if err != nil {
		return nil, "", err
	}
	return rs, o.final(), nil
}

type concStats struct {
	Cases, Linearizable, Inconclusive, Execs int64
	ByPerm                                   map[string]int64
	Outcomes                                 map[string]bool
	mu                                       sync.Mutex
}

// checkConc returns a description if the concurrent outcome is not linearizable.
func checkConc(be string, sp Space, hist, ops []string, cs *concStats) (bad string, err error) {
	rs, fin, infra, err := concurrentRun(be, sp, hist, ops)
	atomic.AddInt64(&cs.Execs, 1)
	if err != nil {
		if strings.HasPrefix(err.Error(), "panic:") {
			return "panic inside the store under concurrency: " + err.Error(), nil
		}
		return "", err
	}
	if infra {
		atomic.AddInt64(&cs.Inconclusive, 1)
		return "", nil
	}
	got := outcomeString(ops, rs, fin)
	var tried []string
	for i, perm := range permutations(ops) {
		srs, sfin, err := seqRun(be, sp, hist, perm)
		atomic.AddInt64(&cs.Execs, 1)
		if err != nil {
			return "", err
		}
		want := outcomeString(perm, srs, sfin)
		if want == got {
			cs.mu.Lock()
			cs.ByPerm[fmt.Sprintf("order#%d", i)]++
			cs.Outcomes[strings.SplitN(got, "final{", 2)[0]] = true
			cs.mu.Unlock()
			atomic.AddInt64(&cs.Linearizable, 1)
			return "", nil
		}
		tried = append(tried, fmt.Sprintf("%v -> %s", perm, want))
	}
	return fmt.Sprintf("concurrent execution produced %s; no sequential order of the same calls does: %s", got, strings.Join(tried, " ;; ")), nil
}

func TestC16Conc(t *testing.T) {
	run := evid.Start("C16", "model_checking")
	if rp := os.Getenv("VERIF_REPLAY"); rp != "" {
		os.Exit(replayFile(run, rp, true, false))
	}
	budget := 45 * time.Second
	if run.Thorough() {
		budget = 5 * time.Minute
	}
	if n := envInt("VERIF_BUDGET_S", 0); n > 0 {
		budget = time.Duration(n) * time.Second
	}
	deadline := time.Now().Add(budget)
	sp := concSpace(run.Thorough())
	baseDepth, maxK := 2, 2
	if run.Thorough() {
		baseDepth, maxK = 3, 3
	}
	baseDepth = envInt("C16_CONC_DEPTH", baseDepth)
	maxK = envInt("C16_CONC_K", maxK)
	sp.Depth = baseDepth

	// the base states: sequential exploration of the small space (oracles on)
	st := newStats()
	pool := newSQLPool()
	var mu sync.Mutex
	var nt int64
	r := runSpace(run, sp, st, pool, deadline, 0, &nt, &mu)
	pool.closeAll()
	explored.mu.Lock()
	bases := append([][]string{}, explored.m[sp.Name]...)
	explored.mu.Unlock()
	sort.Slice(bases, func(i, j int) bool { return strings.Join(bases[i], " ") < strings.Join(bases[j], " ") })

	alpha := sp.Alphabet()
	type ccase struct {
		hist, ops []string
	}
	var cases []ccase
	for k := 2; k <= maxK; k++ {
		for _, ops := range multisets(alpha, k) {
			if !allowedTogether(ops) || !interesting(ops) {
				continue
			}
			for _, h := range bases {
				// larger sets only on shallower states
				if len(h) > baseDepth-(k-2) {
					continue
				}
				cases = append(cases, ccase{hist: h, ops: ops})
			}
		}
	}
	cs := &concStats{ByPerm: map[string]int64{}, Outcomes: map[string]bool{}}
	samples := evid.NewSamples(4)
	var (
		idx     int64 = -1
		wg      sync.WaitGroup
		capHit  atomic.Value
		workers = envInt("C16_WORKERS", 8)
	)
	for wk := 0; wk < workers; wk++ {
		wg.Add(1)
		go func() {
			defer wg.Done()
			for {
				i := int(atomic.AddInt64(&idx, 1))
				if i >= len(cases) || run.Violations() >= 5 {
					return
				}
				if time.Now().After(deadline) {
					capHit.Store("deadline")
					return
				}
				c := cases[i]
				atomic.AddInt64(&cs.Cases, 1)
				for _, be := range []string{"kv", "sql"} {
					bad, err := checkConc(be, sp, c.hist, c.ops, cs)
					if err != nil {
						run.Violation("harness:conc-error", fmt.Sprintf("%v || %v on %s: %v", c.hist, c.ops, be, err), nil)
						continue
					}
					if bad == "" {
						continue
					}
					// determinism gate for a schedule-dependent case: the outcome must be
					// non-linearizable again on re-execution (any schedule must be
					// explained), 3 times.
					again := 0
					for j := 0; j < 3; j++ {
						if b2, _ := checkConc(be, sp, c.hist, c.ops, cs); b2 != "" {
							again++
						}
					}
					kinds := make([]string, len(c.ops))
					for j, o := range c.ops {
						kinds[j] = strings.SplitN(o, ":", 2)[0]
					}
					sig := fmt.Sprintf("%s:concurrent-not-linearizable:%s", be, strings.Join(kinds, "||"))
					what := fmt.Sprintf("after %v, concurrent calls %v on %s: %s (reproduced on %d of 3 re-executions)", c.hist, c.ops, be, bad, again)
					theGate.report(run, sig, what, replayDoc{Space: sp, History: c.hist, Conc: &concDoc{Ops: c.ops, Be: be}}, nil)
				}
				samples.Add(map[string]any{"prefix": c.hist, "concurrent": c.ops})
			}
		}()
	}
	wg.Wait()
	caps := []string{}
	if v := capHit.Load(); v != nil {
		caps = append(caps, "conc target: "+v.(string))
	}
	if !r.res.Exhaustive {
		caps = append(caps, "conc base exploration: "+r.res.CapHit)
	}
	concKey := "concurrent_target"
	if raceEnabled {
		concKey = "concurrent_target_race_build"
	}
	cov := map[string]any{
		"evaluations": cs.Execs,
		"samples":     samples.List(),
		"exhaustive":  len(caps) == 0,
		concKey: map[string]any{
			"base_space": sp.Name, "alphabet_size": len(alpha), "base_states": len(bases), "base_state_depth_bound": baseDepth,
			"max_concurrent_calls": maxK, "cases": cs.Cases, "backend_executions_linearizable": cs.Linearizable,
			"inconclusive_busy_timeout": cs.Inconclusive, "store_instances": cs.Execs, "explained_by_order": cs.ByPerm,
			"distinct_answer_vectors": len(cs.Outcomes), "race_detector": raceEnabled,
		},
	}
	if len(caps) > 0 {
		cov["caps_hit"] = caps
	}
	run.Assumptions = append(run.Assumptions,
		"free-running target: goroutine schedules are produced by the Go runtime, not enumerated; its verdict (every observed outcome is explained by a sequential order) is schedule-independent; enumeration of orders is done by the sequential target")
	if code := run.Finish(cov); code != 0 {
		os.Exit(code)
	}
}

// replayConc re-executes a concurrent case (narrated).
func replayConc(run *evid.Run, doc replayDoc) int {
	sp := doc.Space
	be := doc.Conc.Be
	fmt.Printf("INFO concurrent case on %s: prefix %v, then %v issued by %d goroutines at once\n", be, doc.History, doc.Conc.Ops, len(doc.Conc.Ops))
	cs := &concStats{ByPerm: map[string]int64{}, Outcomes: map[string]bool{}}
	bad := 0
	for i := 0; i < 5; i++ {
		rs, fin, infra, err := concurrentRun(be, sp, doc.History, doc.Conc.Ops)
		if err != nil {
			fmt.Printf("INFO run %d: error %v\n", i+1, err)
			if strings.HasPrefix(err.Error(), "panic:") {
				bad++
			}
			continue
		}
		fmt.Printf("INFO run %d: %s%s\n", i+1, outcomeString(doc.Conc.Ops, rs, fin), map[bool]string{true: " (busy/locked: inconclusive)", false: ""}[infra])
	}
	for _, perm := range permutations(doc.Conc.Ops) {
		srs, sfin, err := seqRun(be, sp, doc.History, perm)
		if err == nil {
			fmt.Printf("INFO sequential %v: %s\n", perm, outcomeString(perm, srs, sfin))
		}
	}
	for i := 0; i < 3; i++ {
		b, err := checkConc(be, sp, doc.History, doc.Conc.Ops, cs)
		if err == nil && b != "" {
			bad++
			fmt.Printf("INFO    !! not linearizable: %s\n", b)
		}
	}
	if bad > 0 {
		kinds := make([]string, len(doc.Conc.Ops))
		for j, o := range doc.Conc.Ops {
			kinds[j] = strings.SplitN(o, ":", 2)[0]
		}
		run.Violation(fmt.Sprintf("%s:concurrent-not-linearizable:%s", be, strings.Join(kinds, "||")), "reproduced on replay", doc)
	}
	return len(doc.History) + len(doc.Conc.Ops)
}
