// QueryPayments option matrix.
//
// The sequential exploration observes QueryPayments with one fixed query (and three
// further ones in the option spaces). This family evaluates, once per distinct
// canonical state of a space that asks for it (Space.QueryMatrix), the whole matrix of
// query options against a reference pagination written from the documentation of
// paymentsdb.Query:
//
//	IndexOffset is exclusive; forwards the listing starts at the next higher index,
//	reversed it ends at the next lower one, 0 = from the start / from the end;
//	MaxPayments caps the number of returned payments; IncludeIncomplete=false keeps
//	only succeeded payments; CreationDateStart / CreationDateEnd (Unix seconds, 0 =
//	unset) keep the payments created at or after / at or before that second; the
//	response is in ascending order and First/LastIndexOffset are the indexes of its
//	first / last payment; with CountTotal (set on every query of the matrix)
//	TotalCount is the number of payments stored, whatever the filters and the page.
//
// The reference is computed from the store's own full listing (sequence number,
// creation time, status of every payment), so it is independent of the history that
// led to the state. Enumerated per state and per backend:
//
//	page family:  Reversed x IncludeIncomplete x MaxPayments{100,1} x
//	              IndexOffset{0, s-1, s, s+1 for every listed sequence number s}
//	date family:  (forward, reversed with MaxPayments 100; forward with MaxPayments 1) x
//	              (start | end | start=end) x {t-1, t, t+1 for every listed creation second t}
//
// and the answers of the two backends are compared query by query (same position in
// the matrix; offsets are symbolic, "s-1 of the first payment", because the backends
// number payments differently).
package c16

import (
	"fmt"
	"strings"

	paymentsdb "github.com/lightningnetwork/lnd/payments/db"
)

type qrow struct {
	h    int
	seq  uint64
	sec  int64 // creation time, Unix seconds (rounded down)
	sub  bool  // the creation time has a sub-second part
	succ bool
	str  string
}

type mquery struct {
	q     paymentsdb.Query
	class string // page | dates
	desc  string // symbolic description (identical on both backends)
	tag   string // class of the query for signatures
	// cmp: the query means the same on both backends (offset 0 or exactly the index
	// of a listed payment; the backends number payments differently and leave
	// different gaps, so "index+1" may or may not be another payment's index)
	cmp bool
}

func matrixQueries(rows []qrow) []mquery {
	var out []mquery
	type offv struct {
		v    uint64
		desc string
		cmp  bool
	}
	offs := []offv{{0, "0", true}}
	for i, r := range rows {
		if r.seq > 1 {
			offs = append(offs, offv{r.seq - 1, fmt.Sprintf("seq(#%d)-1", i), false})
		}
		offs = append(offs, offv{r.seq, fmt.Sprintf("seq(#%d)", i), true}, offv{r.seq + 1, fmt.Sprintf("seq(#%d)+1", i), false})
	}
	for _, rev := range []bool{false, true} {
		for _, inc := range []bool{true, false} {
			for _, max := range []uint64{100, 1} {
				for _, o := range offs {
					out = append(out, mquery{
						q:     paymentsdb.Query{IndexOffset: o.v, MaxPayments: max, Reversed: rev, IncludeIncomplete: inc, CountTotal: true},
						class: "page", cmp: o.cmp, tag: map[bool]string{false: "forward", true: "reversed"}[rev],
						desc: fmt.Sprintf("{IndexOffset=%s MaxPayments=%d Reversed=%v IncludeIncomplete=%v}", o.desc, max, rev, inc),
					})
				}
			}
		}
	}
	for _, rm := range []struct {
		rev bool
		max uint64
	}{{false, 100}, {true, 100}, {false, 1}} {
		rev, max := rm.rev, rm.max
		{
			for i, r := range rows {
				for d := int64(-1); d <= 1; d++ {
					t := r.sec + d
					for _, v := range []struct {
						s, e int64
						n    string
					}{{t, 0, "Start"}, {0, t, "End"}, {t, t, "Start=End"}} {
						v.n = fmt.Sprintf("%s=created%+d", v.n, d)
						tag := v.n
						v.n = fmt.Sprintf("%s (second %d of payment #%d)", v.n, t, i)
						out = append(out, mquery{
							q:     paymentsdb.Query{MaxPayments: max, Reversed: rev, IncludeIncomplete: true, CountTotal: true, CreationDateStart: v.s, CreationDateEnd: v.e},
							class: "dates", cmp: true, tag: tag,
							desc: fmt.Sprintf("{%s MaxPayments=%d Reversed=%v IncludeIncomplete=true}", v.n, max, rev),
						})
					}
				}
			}
		}
	}
	return out
}

// refQuery is the documented answer to q over the full listing rows (ascending).
func refQuery(rows []qrow, q paymentsdb.Query) []qrow {
	var cand []qrow
	for _, r := range rows {
		switch {
		case !q.Reversed && r.seq <= q.IndexOffset:
			continue
		case q.Reversed && q.IndexOffset != 0 && r.seq >= q.IndexOffset:
			continue
		case !q.IncludeIncomplete && !r.succ:
			continue
		case q.CreationDateStart != 0 && r.sec < q.CreationDateStart:
			continue
		case q.CreationDateEnd != 0 && r.sec > q.CreationDateEnd:
			continue
		}
		cand = append(cand, r)
	}
	if uint64(len(cand)) > q.MaxPayments {
		if q.Reversed {
			cand = cand[uint64(len(cand))-q.MaxPayments:]
		} else {
			cand = cand[:q.MaxPayments]
		}
	}
	return cand
}

type manswer struct {
	hs  []int
	err string
}

// listDelta classifies how a listing deviates from the expected one: payments
// missing, extra payments, or another difference (order, duplicates); sub reports
// whether every payment concerned was created off a full second.
func listDelta(rows []qrow, got, want []int) (kind string, sub bool) {
	in := func(l []int, h int) bool {
		for _, x := range l {
			if x == h {
				return true
			}
		}
		return false
	}
	var missing, extra []int
	for _, h := range want {
		if !in(got, h) {
			missing = append(missing, h)
		}
	}
	for _, h := range got {
		if !in(want, h) {
			extra = append(extra, h)
		}
	}
	switch {
	case len(missing) > 0 && len(extra) == 0:
		kind = "missing"
	case len(extra) > 0 && len(missing) == 0:
		kind = "extra"
	default:
		return "other", false
	}
	sub = true
	for _, h := range append(missing, extra...) {
		for _, r := range rows {
			if r.h == h && !r.sub {
				sub = false
			}
		}
	}
	return kind, sub
}

// queryMatrix evaluates the matrix in the current state (per backend against the
// reference, then backend against backend). The queries are read-only: a finding does
// not end the exploration of the state. Signatures name the class of query and of
// deviation, not the query.
func (w *World) queryMatrix() {
	if w.dead != "" {
		return
	}
	// one finding per backend and class of query (page forward / reversed, each date
	// filter): the uncapped query (MaxPayments=100) of a class comes first and names the
	// deviation; the capped ones of the same class deviate as a consequence
	seen := map[string]bool{}
	report := func(sig, what string) {
		f := strings.Split(sig, ":")
		group := sig
		if len(f) >= 4 {
			group = strings.Join(f[:4], ":")
		}
		if seen[group] {
			if w.logf != nil {
				w.logf("   (also) %s: %s", sig, what)
			}
			return
		}
		seen[group] = true
		if w.logf != nil {
			w.logf("   !! %s: %s", sig, what)
		}
		if w.rep != nil {
			w.rep(sig, fmt.Sprintf("%s  [history: %v, then the QueryPayments option matrix]", what, w.hist), append([]string{}, w.hist...), append([]string{}, w.full...))
		}
	}
	var answers [2][]manswer
	var descs [2][]mquery
	var rows0 []qrow
	for i, b := range w.be {
		resp, err := b.db.QueryPayments(bg, paymentsdb.Query{MaxPayments: 100, IncludeIncomplete: true, CountTotal: true})
		if err != nil {
			report(b.name+":query-matrix:error", "QueryPayments (full listing) failed: "+err.Error())
			return
		}
		var rows []qrow
		for _, p := range resp.Payments {
			hi := -1
			if p.Info != nil {
				hi = hashIndex(p.Info.PaymentIdentifier)
			}
			if hi < 0 {
				report(b.name+":query-matrix:error", "full listing contains a payment outside the universe")
				return
			}
			rows = append(rows, qrow{h: hi, seq: p.SequenceNum, sec: p.Info.CreationTime.Unix(), sub: p.Info.CreationTime.Nanosecond() != 0,
				succ: p.Status == paymentsdb.StatusSucceeded, str: projOf(p, hashes[hi]).String()})
		}
		for k := 1; k < len(rows); k++ {
			if rows[k].seq <= rows[k-1].seq {
				report(b.name+":query-matrix:order", fmt.Sprintf("the full listing is not in ascending index order: %d after %d", rows[k].seq, rows[k-1].seq))
				return
			}
		}
		if i == 0 {
			rows0 = rows
		}
		mq := matrixQueries(rows)
		descs[i] = mq
		if w.logf != nil {
			w.logf("   %-3s full listing %s: %d queries", b.name, rowsString(rows), len(mq))
		}
		for _, m := range mq {
			w.st.clause("query-matrix:" + m.class)
			r, err := b.db.QueryPayments(bg, m.q)
			if err != nil {
				answers[i] = append(answers[i], manswer{err: classOf(err)})
				report(b.name+":query-matrix:"+m.class+":error", fmt.Sprintf("QueryPayments%s failed: %v", m.desc, err))
				continue
			}
			want := refQuery(rows, m.q)
			var got, wantH []int
			bad := ""
			for k, p := range r.Payments {
				hi := -1
				if p.Info != nil {
					hi = hashIndex(p.Info.PaymentIdentifier)
				}
				got = append(got, hi)
				if k < len(want) && hi == want[k].h && projOf(p, hashes[hi]).String() != want[k].str {
					bad = fmt.Sprintf("h%d is reported differently than by the full listing", hi)
				}
			}
			for _, r := range want {
				wantH = append(wantH, r.h)
			}
			answers[i] = append(answers[i], manswer{hs: got})
			var wf, wl uint64
			if len(want) > 0 {
				wf, wl = want[0].seq, want[len(want)-1].seq
			}
			switch {
			case fmt.Sprint(got) != fmt.Sprint(wantH):
				kind, sub := listDelta(rows, got, wantH)
				sig := fmt.Sprintf("%s:query-matrix:%s:%s:%s", b.name, m.class, m.tag, kind)
				if sub && m.class == "dates" {
					sig += ":created-off-a-full-second"
				}
				report(sig, fmt.Sprintf("QueryPayments%s (actual query %+v) lists payments %v, the documented answer over the full listing %s is %v",
					m.desc, m.q, got, rowsString(rows), wantH))
			case bad != "":
				report(b.name+":query-matrix:"+m.class+":payment-differs", fmt.Sprintf("QueryPayments%s: %s", m.desc, bad))
			case r.TotalCount != uint64(len(rows)):
				report(b.name+":query-matrix:"+m.class+":total-count", fmt.Sprintf("QueryPayments%s (CountTotal) returned TotalCount %d, the database holds %d payments (the count is documented as independent of the query's filters and page)",
					m.desc, r.TotalCount, len(rows)))
			case r.FirstIndexOffset != wf || r.LastIndexOffset != wl:
				report(b.name+":query-matrix:"+m.class+":index-offsets", fmt.Sprintf("QueryPayments%s returned First/LastIndexOffset %d/%d, its payments have indexes %d/%d",
					m.desc, r.FirstIndexOffset, r.LastIndexOffset, wf, wl))
			}
		}
	}
	// backend against backend (queries that mean the same on both)
	if len(descs[0]) == len(descs[1]) {
		for k := range descs[0] {
			a, b := descs[0][k], descs[1][k]
			if a.desc != b.desc || !a.cmp || !b.cmp || k >= len(answers[0]) || k >= len(answers[1]) {
				continue
			}
			if fmt.Sprint(answers[0][k]) != fmt.Sprint(answers[1][k]) {
				kind, sub := listDelta(rows0, answers[1][k].hs, answers[0][k].hs)
				sig := fmt.Sprintf("diff:query-matrix:%s:%s:sql-%s", a.class, a.tag, kind)
				if sub && a.class == "dates" {
					sig += ":created-off-a-full-second"
				}
				report(sig, fmt.Sprintf("QueryPayments%s: KV (query %+v) lists %v%s, SQL (query %+v) lists %v%s; full listing %s",
					a.desc, a.q, answers[0][k].hs, answers[0][k].err, b.q, answers[1][k].hs, answers[1][k].err, rowsString(rows0)))
			}
		}
	}
}

func rowsString(rows []qrow) string {
	s := "["
	for i, r := range rows {
		if i > 0 {
			s += " "
		}
		sub := ""
		if r.sub {
			sub = ".x"
		}
		s += fmt.Sprintf("h%d(index %d, created %d%s, succeeded=%v)", r.h, r.seq, r.sec, sub, r.succ)
	}
	return s + "]"
}
