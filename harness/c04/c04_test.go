// C04: every revoked counterparty commitment can be fully punished from persisted data.
//
// In-package contractcourt harness riding on the two-peer channel world of
// engine/chanmc. Histories are explored on the real LightningChannel state
// machines (explore.Run over a wrapper world whose canonical key additionally
// carries the digest of every commitment either party ever held). Along every
// history the harness plays the *cheater*: whenever a party holds a new local
// commitment it snapshots what that party could broadcast for that height (signed
// commitment tx, signed second-level HTLC txs, success txs with the preimage). As
// soon as the peer (the *victim*) has processed the revocation of a height, and again
// after every reload and at the end of the history for all revoked heights, the
// victim must - from what it has persisted - recognise the revoked tx and build a
// justice transaction every input of which the Bitcoin script interpreter accepts
// against the real outputs of the cheater's transaction(s).
//
// Unexported identifiers relied on: newRetributionInfo, retributionInfo,
// breachedOutput (fields outpoint, witnessType, signDesc), (*BreachArbitrator).createJusticeTx,
// justiceTxVariants/justiceTxCtx fields, updateBreachInfo, spend.
package contractcourt

import (
	"bytes"
	"crypto/sha256"
	"encoding/hex"
	"encoding/json"
	"errors"
	"fmt"
	"os"
	"path/filepath"
	"runtime"
	"sort"
	"strconv"
	"strings"
	"sync"
	"sync/atomic"
	"testing"
	"time"

	"github.com/btcsuite/btcd/address/v2"
	"github.com/btcsuite/btcd/btcec/v2"
	"github.com/btcsuite/btcd/btcutil/v2"
	"github.com/btcsuite/btcd/chainhash/v2"
	"github.com/btcsuite/btcd/txscript/v2"
	"github.com/btcsuite/btcd/wire/v2"
	"github.com/lightningnetwork/lnd/chainntnfs"
	"github.com/lightningnetwork/lnd/channeldb"
	"github.com/lightningnetwork/lnd/chanstate"
	"github.com/lightningnetwork/lnd/fn/v2"
	"github.com/lightningnetwork/lnd/input"
	"github.com/lightningnetwork/lnd/kvdb"
	lnmock "github.com/lightningnetwork/lnd/lntest/mock"
	"github.com/lightningnetwork/lnd/lnwallet"
	"github.com/lightningnetwork/lnd/lnwallet/chainfee"
	"github.com/lightningnetwork/lnd/verifmc/chanmc"
	"github.com/lightningnetwork/lnd/verifmc/evid"
	"github.com/lightningnetwork/lnd/verifmc/explore"
)

const (
	c04BreachHeight = 400_000 // below the lease thaw height (500000) of the fixture
	c04AnchorSat    = 330
)

// c04Space is one exploration job.
type c04Space struct {
	P chanmc.Params `json:"params"`
	// NoAmt: the victim's (both parties') channeldb runs with
	// OptionNoRevLogAmtData(true), i.e. balances are not stored in the
	// revocation log.
	NoAmt bool `json:"no_amt"`
	// Dev is the deviation bound around the eager schedule (<0: all interleavings).
	Dev int `json:"dev"`
	// Loads is the load-point alphabet of the second-handle (chain watcher)
	// family: "write" = a handle is loaded at every distinct durable state of the
	// victim's database; "tail" (the bounded variant) = at world creation, after
	// every reload and whenever the victim has stored a new revocation (the points
	// at which "revoked before/after the handle was loaded" changes).
	Loads string `json:"loads,omitempty"`
}

func (s *c04Space) name() string {
	// Params.Name() omits the balance knobs; the name keys the check
	// de-duplication, so it must separate every distinct world.
	return fmt.Sprintf("%s/grossA=%d/reserve=%d/cap=%d/fee=%d/noamt=%v/dev=%d/loads=%s", s.P.Name(), s.P.GrossA, s.P.ReserveSat, s.P.CapacitySat, s.P.FeePerKw, s.NoAmt, s.Dev, s.Loads)
}

// c04Second is one second-level transaction the cheater can broadcast.
type c04Second struct {
	tx       *wire.MsgTx
	htlcOut  wire.OutPoint // the commitment output it spends
	incoming bool          // success tx (cheater received the HTLC)
}

// c04Snap is everything the cheater can broadcast for one of its heights.
type c04Snap struct {
	height  uint64
	tx      *wire.MsgTx
	signed  bool
	selfIdx int // cheater's own to-local output index according to its own resolution (-1 unknown)
	// the commitment owner's own and its peer's balance on this commitment (sat)
	localSat, remoteSat int64
	second              []c04Second
}

type c04Harness struct {
	run     *evid.Run
	stats   chanmc.Stats
	samples *evid.Samples
	classes *evid.Counter
	wtypes  *evid.Counter
	outcome *evid.Counter
	lattice *evid.Counter // commitment-level outputs within 1 sat of the owner's dust limit

	done sync.Map // check de-duplication: (space, history prefix, kind)

	retributions   atomic.Int64
	missingAsSpec  atomic.Int64
	hintChecks     atomic.Int64
	justiceTxs     atomic.Int64
	inputsExecuted atomic.Int64
	secondLevel    atomic.Int64
	secondShifted  atomic.Int64
	lifeDepth      int  // object-lifetime family: events per sequence
	lifeDeep       bool // ... with single-input spend notifications
	lifeSeqs       atomic.Int64
	lifeCreates    atomic.Int64
	lifeEvents     atomic.Int64
	lifeClasses    *evid.Counter
	cheaterTxs     atomic.Int64
	storeTrips     atomic.Int64
	heightsChecked atomic.Int64
	reloadRechecks atomic.Int64
	skippedReplay  atomic.Int64
	nondet         atomic.Int64

	handlesLoaded        atomic.Int64
	watchRolledBack      atomic.Int64
	watchSkippedTerminal atomic.Int64
	watcherRuns          atomic.Int64
	watchOutcome         *evid.Counter
	watchCells           *evid.Counter // (type, victim role, handle age relative to the revocation, check time) with a dispatched breach

	vmu     sync.Mutex
	handled map[string]bool

	stores  []*c04Store
	storeRR atomic.Int64

	// memo: justice verification is a pure function of (victim keys, breached
	// outputs as handed to the breach arbitrator, the cheater's transactions);
	// identical inputs that already passed are not signed and executed again.
	memo       sync.Map
	snapCache  sync.Map
	snapshots  atomic.Int64
	memoHits   atomic.Int64
	memoMisses atomic.Int64
}

type c04Store struct {
	mu    sync.Mutex
	store *RetributionStore
}

// c04World wraps the chanmc world with the cheater/victim bookkeeping.
type c04World struct {
	*chanmc.World
	h       *c04Harness
	sp      *c04Space
	snaps   [2]map[uint64]*c04Snap
	digest  [2][]string
	checked [2]uint64
	alt     [2]*channeldb.DB
	brar    [2]*BreachArbitrator
	// brarLife: the arbitrators of the object-lifetime family. Same signer and
	// sweep script, fee estimate at the relay floor: fee estimation is not part of
	// the property, and at the floor every non-dust output pays for its own sweep,
	// so a sequence that leaves one small second-level output alone never makes
	// createJusticeTx fail for a fee reason (at the 12 500 sat/kw of brar it does:
	// "transaction output has negative value").
	brarLife [2]*BreachArbitrator
	reloads int
	// second handles (the chain watcher's): one per distinct durable state the
	// victim's DB went through, loaded when that state was current
	watchDB    [2]*channeldb.DB
	handles    [2][]*c04Handle
	handleAt   [2]int64 // victim's durable-write counter at the last load
	handleTail [2]uint64
	handleRel  [2]int // reload count at the last load
	devs       int    // steps of the history that were not the eager default
	// modes
	verbose bool      // replay: print INFO lines
	force   bool      // ignore check de-duplication
	collect *[]string // confirmation replays: collect signatures instead of reporting
	atTerm  bool
	raised  [][2]string // (signature, what) raised so far on this world
}

func (h *c04Harness) newWorld(sp *c04Space) (*c04World, error) {
	cw := &c04World{h: h, sp: sp}
	report := func(sig, what string, hist []string, p chanmc.Params) {
		cw.raise(p.Type+":"+sig, what)
	}
	w, err := chanmc.New(sp.P, report, &h.stats)
	if err != nil {
		return nil, err
	}
	cw.World = w
	for i := 0; i < 2; i++ {
		cw.snaps[i] = map[uint64]*c04Snap{}
	}
	if sp.NoAmt {
		// Same backend, second channeldb handle opened the way lnd does with
		// --db.no-rev-log-amt-data; every channel object persists through it.
		for i := 0; i < 2; i++ {
			alt, err := channeldb.CreateWithBackend(
				w.CrashDB(i), channeldb.OptionNoRevLogAmtData(true),
			)
			if err != nil {
				w.Close()
				return nil, fmt.Errorf("alt channeldb: %w", err)
			}
			cw.alt[i] = alt
			w.Chan(i).State().Db = alt.ChannelStateDB()
		}
		w.Hooks.OnReload = func(w *chanmc.World, p int) {
			w.Chan(p).State().Db = cw.alt[p].ChannelStateDB()
		}
	}
	for v := 0; v < 4; v++ {
		fee, v := chainfee.SatPerKWeight(12500), v
		dst := &cw.brar[v%2]
		if v >= 2 {
			fee, v, dst = chainfee.FeePerKwFloor, v-2, &cw.brarLife[v-2]
		}
		*dst = NewBreachArbitrator(&BreachConfig{
			CloseLink: func(*wire.OutPoint, ChannelCloseType) {},
			Estimator: chainfee.NewStaticEstimator(fee, 0),
			GenSweepScript: func() fn.Result[lnwallet.AddrWithKey] {
				return fn.Ok(lnwallet.AddrWithKey{
					DeliveryAddress: append([]byte{0x00, 0x14}, bytes.Repeat([]byte{0x42}, 20)...),
				})
			},
			Signer:             w.Signer(v),
			PublishTransaction: func(*wire.MsgTx, string) error { return nil },
		})
	}
	cw.snapshot()
	cw.loadHandles()
	return cw, nil
}

// ---- explore.World ----------------------------------------------------------

// Key: the chanmc key (same key => same futures of the two state machines, argued
// there) extended with the ordered txids of every commitment either party has held.
// The C04 checks that a future step performs depend on (a) the live state machines
// (chanmc key), (b) the cheater's snapshots - functions of the commitments held,
// i.e. of their txids (signatures/nonces do not enter any oracle: second-level
// outputs and txids are witness-independent), and (c) the victim's revocation log,
// which is written from exactly those commitments. (d) the number of heights already
// checked is a function of the victim's remote tail height, part of the chanmc key.
//
// (e) NOT in the key: which second handles (chain watcher family) were loaded along
// the way. A watcher delivery is a function of (handle = decode of the victim's
// database at the load point, database at delivery, revoked tx), i.e. of a PAIR of
// states; the family judges the pairs (load point, delivery point) that lie on the
// history by which the explorer reaches each state - all pairs in the eager
// (dev=0) spaces, the pairs on the first-found history elsewhere. Carrying the
// load points in the key makes every re-converging interleaving a separate state
// for good (measured: the quick tier no longer finishes), so this is a stated
// bound of the family, not a soundness assumption of the other clauses (their
// verdicts do not read the handles).
func (c *c04World) Key() string {
	return c.World.Key() + "|A:" + strings.Join(c.digest[0], ",") + "|B:" + strings.Join(c.digest[1], ",")
}

func (c *c04World) Do(a string) error {
	if en := c.World.Enabled(); len(en) > 0 && en[0] != a {
		c.devs++
	}
	if err := c.World.Do(a); err != nil {
		return err
	}
	c.after(a)
	return nil
}

func (c *c04World) Terminal() {
	c.World.Terminal()
	c.atTerm = true
	c.recheck("terminal")
}

// ---- violations --------------------------------------------------------------

func (c *c04World) replayDoc() map[string]any {
	return map[string]any{"space": c.sp, "history": c.Hist(), "terminal": c.atTerm}
}

// raise routes a violation: print (replay mode), collect (confirmation replays)
// or confirm-then-report (exploration).
func (c *c04World) raise(sig, what string) {
	c.raised = append(c.raised, [2]string{sig, what})
	switch {
	case c.collect != nil:
		*c.collect = append(*c.collect, sig)
	case c.verbose:
		fmt.Printf("INFO   !! %s: %s\n", sig, what)
		c.h.run.Violation(sig, what, c.replayDoc())
	default:
		c.h.candidate(c, sig, what)
	}
}

func (c *c04World) violate(clause, detail, what string) {
	c.raise(c.sp.P.Type+":"+clause+":"+detail, what)
}

// candidate applies the determinism gate: the history is replayed three times on
// fresh worlds; the violation is reported only if every replay raises the same
// signature.
func (h *c04Harness) candidate(c *c04World, sig, what string) {
	h.vmu.Lock()
	if h.handled[sig] {
		h.vmu.Unlock()
		return
	}
	h.handled[sig] = true
	h.vmu.Unlock()
	hist := c.Hist()
	for n := 0; n < 3; n++ {
		var got []string
		if err := h.replayHistory(c.sp, hist, c.atTerm, false, &got); err != nil {
			h.nondet.Add(1)
			fmt.Printf("INFO nondeterminism: confirmation replay of %q failed: %v\n", sig, err)
			return
		}
		found := false
		for _, g := range got {
			if g == sig {
				found = true
			}
		}
		if !found {
			h.nondet.Add(1)
			fmt.Printf("INFO nondeterminism: %q not reproduced by confirmation replay %d\n", sig, n)
			return
		}
	}
	fmt.Printf("INFO confirmed (3 replays) violation signature: %s\n", sig)
	h.run.Violation(sig, what, c.replayDoc())
}

// replayHistory is the explorer-free reproduction: fresh world, recorded steps.
func (h *c04Harness) replayHistory(sp *c04Space, hist []string, terminal, verbose bool, collect *[]string) (err error) {
	defer func() {
		if v := recover(); v != nil {
			if collect != nil {
				*collect = append(*collect, sp.P.Type+":panic")
				err = nil
				return
			}
			if verbose {
				// replay mode: a panic inside lnd is the violation being reproduced
				fmt.Printf("INFO   !! panic inside lnd: %v\n", v)
				h.run.Violation(sp.P.Type+":panic", fmt.Sprintf("panic inside lnd: %v", v),
					map[string]any{"space": sp, "history": hist, "terminal": terminal})
				err = nil
				return
			}
			err = fmt.Errorf("panic: %v", v)
		}
	}()
	w, err := h.newWorld(sp)
	if err != nil {
		return err
	}
	defer w.Close()
	w.verbose, w.force, w.collect = verbose, true, collect
	if verbose {
		fmt.Printf("INFO replaying %d steps on %s\n", len(hist), sp.name())
	}
	for i, a := range hist {
		if verbose {
			fmt.Printf("INFO step %d: %s   (enabled: %v)\n", i, a, w.Enabled())
		}
		if err := w.Do(a); err != nil {
			return fmt.Errorf("step %d (%s): %w", i, a, err)
		}
	}
	if terminal || len(w.Enabled()) == 0 {
		if verbose {
			fmt.Printf("INFO end of history: re-checking every revoked height\n")
		}
		w.Terminal()
	}
	return nil
}

// ---- cheater side -------------------------------------------------------------

// snapshot records, for each party, what it could broadcast for a local
// commitment height it holds for the first time.
func (c *c04World) snapshot() {
	for i := 0; i < 2; i++ {
		st := c.Chan(i).State()
		lc := st.LocalCommitment
		h := lc.CommitHeight
		if _, ok := c.snaps[i][h]; ok {
			continue
		}
		// A snapshot is a function of (channel type, party, commitment): keys and
		// funding are fixed, the txid fixes every output, and nothing below
		// depends on signature bytes. Each distinct commitment is force-closed once.
		ckey := fmt.Sprintf("%s|%d|%v", c.sp.P.Type, i, lc.CommitTx.TxHash())
		if cs, ok := c.h.snapCache.Load(ckey); ok && !c.force {
			s := cs.(*c04Snap)
			c.snaps[i][h] = s
			id := s.tx.TxHash()
			c.digest[i] = append(c.digest[i], hex.EncodeToString(id[:6]))
			continue
		}
		s := &c04Snap{height: h, selfIdx: -1,
			localSat: int64(lc.LocalBalance.ToSatoshis()), remoteSat: int64(lc.RemoteBalance.ToSatoshis())}
		if h == 0 {
			// The fixture's height-0 commitment carries a fake CommitSig; the
			// unsigned transaction has the real outputs, which is all the
			// victim-side oracles look at.
			s.tx = lc.CommitTx.Copy()
		} else {
			sum, err := c.Chan(i).ForceClose()
			if err != nil {
				c.violate("harness-cheater-forceclose", "h>0", fmt.Sprintf("party %d could not produce its own signed commitment at height %d: %v", i, h, err))
				s.tx = lc.CommitTx.Copy()
			} else {
				s.tx = sum.CloseTx.Copy()
				s.signed = true
				sum.ContractResolutions.WhenSome(func(r lnwallet.ContractResolutions) {
					if r.CommitResolution != nil {
						s.selfIdx = int(r.CommitResolution.SelfOutPoint.Index)
					}
					if r.HtlcResolutions == nil {
						return
					}
					for _, o := range r.HtlcResolutions.OutgoingHTLCs {
						if o.SignedTimeoutTx == nil {
							continue
						}
						t := o.SignedTimeoutTx.Copy()
						s.second = append(s.second, c04Second{tx: t, htlcOut: t.TxIn[0].PreviousOutPoint})
					}
					for _, in := range r.HtlcResolutions.IncomingHTLCs {
						if in.SignedSuccessTx == nil {
							continue
						}
						t := in.SignedSuccessTx.Copy()
						op := t.TxIn[0].PreviousOutPoint
						// insert the preimage the way the incoming contest
						// resolver does
						for _, hh := range lc.Htlcs {
							if hh.Incoming && hh.OutputIndex == int32(op.Index) {
								if pre, ok := c.PreimageFor(hh.RHash); ok {
									idx := 3
									if txscript.IsPayToTaproot(t.TxOut[0].PkScript) {
										idx = 2
									}
									if idx < len(t.TxIn[0].Witness) {
										t.TxIn[0].Witness[idx] = append([]byte{}, pre[:]...)
									}
								}
							}
						}
						s.second = append(s.second, c04Second{tx: t, htlcOut: op, incoming: true})
					}
				})
			}
		}
		c.snaps[i][h] = s
		c.h.snapshots.Add(1)
		if !c.force {
			c.h.snapCache.Store(ckey, s)
		}
		id := s.tx.TxHash()
		c.digest[i] = append(c.digest[i], hex.EncodeToString(id[:6]))
	}
}

// ---- victim side --------------------------------------------------------------

func (c *c04World) firstTime(kind string) bool {
	if c.force {
		return true
	}
	sum := sha256.Sum256([]byte(c.sp.name() + "\x00" + strings.Join(c.Hist(), ",") + "\x00" + kind))
	_, loaded := c.h.done.LoadOrStore(sum, struct{}{})
	if loaded {
		c.h.skippedReplay.Add(1)
	}
	return !loaded
}

// after runs after every transition.
func (c *c04World) after(a string) {
	c.snapshot()
	reload := a == "cut" || strings.HasPrefix(a, "crash")
	if reload {
		c.reloads++
	}
	c.loadHandles()
	if reload {
		c.recheck("reload")
		return
	}
	for v := 0; v < 2; v++ {
		tail := c.Chan(v).State().RemoteCommitment.CommitHeight
		if tail <= c.checked[v] {
			continue
		}
		if c.firstTime(fmt.Sprintf("rev%d", v)) {
			if disk := c.persisted(v); disk != nil {
				for h := c.checked[v]; h < tail; h++ {
					c.checkHeight(v, h, "on-revoke", disk)
				}
			}
		}
		c.checked[v] = tail
	}
}

// recheck evaluates every revoked height again (after a reload / at the end).
func (c *c04World) recheck(when string) {
	if !c.firstTime(when) {
		for v := 0; v < 2; v++ {
			c.checked[v] = c.Chan(v).State().RemoteCommitment.CommitHeight
		}
		return
	}
	for v := 0; v < 2; v++ {
		tail := c.Chan(v).State().RemoteCommitment.CommitHeight
		disk := c.persisted(v)
		if disk == nil {
			continue
		}
		for h := uint64(0); h < tail; h++ {
			c.checkHeight(v, h, when, disk)
			if when == "reload" {
				c.h.reloadRechecks.Add(1)
			}
		}
		c.checked[v] = tail
	}
}

func (c *c04World) role(v int) string {
	if c.Opener() == v {
		return "victim=opener"
	}
	return "victim=acceptor"
}

// fetchPersisted loads the victim's channel from disk (nothing from memory).
func (c *c04World) fetchPersisted(v int) (*chanstate.OpenChannel, error) {
	db := c.DB(v)
	if c.alt[v] != nil {
		db = c.alt[v]
	}
	chans, err := db.ChannelStateDB().FetchOpenChannels(c.Keys(1 - v)[0].PubKey())
	if err != nil {
		return nil, err
	}
	if len(chans) != 1 {
		return nil, fmt.Errorf("%d channels on disk", len(chans))
	}
	return chans[0], nil
}

// persisted fetches the victim's channel from disk, reporting a failure.
func (c *c04World) persisted(v int) *chanstate.OpenChannel {
	disk, err := c.fetchPersisted(v)
	if err != nil {
		c.violate("persisted-state-unreadable", c.role(v), fmt.Sprintf("victim %d: %v", v, err))
		return nil
	}
	return disk
}

func (c *c04World) checkHeight(v int, h uint64, when string, disk *chanstate.OpenChannel) {
	s := c.snaps[1-v][h]
	if s == nil {
		c.violate("harness-missing-snapshot", c.role(v), fmt.Sprintf("victim %d holds a revocation for height %d that the harness never saw the peer hold", v, h))
		return
	}
	c.h.heightsChecked.Add(1)
	// dust lattice accounting: how far is each commitment-level output of this
	// revoked tx from the commitment owner's dust limit, and is it on the tx?
	{
		dust := c.Dust(1 - v)
		nonAnchor := 0
		for _, o := range s.tx.TxOut {
			if !(c.ChanType().HasAnchors() && o.Value == c04AnchorSat) {
				nonAnchor++
			}
		}
		for _, x := range []struct {
			name string
			sat  int64
		}{{"to_local(cheater)", s.localSat}, {"to_remote(victim)", s.remoteSat}} {
			if d := x.sat - dust; d >= -1 && d <= 1 {
				c.h.lattice.Add(fmt.Sprintf("%s|victim%c,%s|%s|dust%+d|commit-level-outputs=%d", c.sp.P.Type, rune(65+v), c.role(v)[7:], x.name, d, nonAnchor))
			}
		}
	}
	if c.verbose {
		fmt.Printf("INFO   check victim=%c revoked height %d (%s): revoked tx %v, %d outputs, %d second-level txs\n", 'A'+v, h, when, s.tx.TxHash(), len(s.tx.TxOut), len(s.second))
	}
	fresh := c.evalOne(v, h, s, disk, s.tx, "disk+spendtx", true)
	c.evalOne(v, h, s, disk, nil, "disk+nil", false)
	live := c.Chan(v).State()
	c.evalOne(v, h, s, live, s.tx, "live+spendtx", false)
	c.evalOne(v, h, s, live, nil, "live+nil", false)
	c.watchHeight(v, h, s, when, fresh)
}

func c04Obfuscator(st *chanstate.OpenChannel) [lnwallet.StateHintSize]byte {
	// as newChainWatcher derives it
	if st.IsInitiator {
		return lnwallet.DeriveStateHintObfuscator(
			st.LocalChanCfg.PaymentBasePoint.PubKey, st.RemoteChanCfg.PaymentBasePoint.PubKey,
		)
	}
	return lnwallet.DeriveStateHintObfuscator(
		st.RemoteChanCfg.PaymentBasePoint.PubKey, st.LocalChanCfg.PaymentBasePoint.PubKey,
	)
}

func c04CopyOutputs(in []breachedOutput) []breachedOutput {
	out := make([]breachedOutput, len(in))
	for i := range in {
		out[i] = in[i]
		if in[i].signDesc.Output != nil {
			o := *in[i].signDesc.Output
			o.PkScript = append([]byte{}, o.PkScript...)
			out[i].signDesc.Output = &o
		}
		out[i].signDesc.WitnessScript = append([]byte{}, in[i].signDesc.WitnessScript...)
		out[i].witnessFunc = nil
	}
	return out
}

// c04OutsDigest covers every field of the breached outputs that enters the
// justice transaction or its witnesses.
func c04OutsDigest(outs []breachedOutput) string {
	var b strings.Builder
	for i := range outs {
		o := &outs[i]
		sd := &o.signDesc
		fmt.Fprintf(&b, "[%d %v %v %d|", o.amt, o.outpoint, o.witnessType, o.confHeight)
		if sd.KeyDesc.PubKey != nil {
			fmt.Fprintf(&b, "k%x", sd.KeyDesc.PubKey.SerializeCompressed())
		}
		fmt.Fprintf(&b, " %v st%x ", sd.KeyDesc.KeyLocator, sd.SingleTweak)
		if sd.DoubleTweak != nil {
			fmt.Fprintf(&b, "dt%x", sd.DoubleTweak.Serialize())
		}
		fmt.Fprintf(&b, " tt%x ws%x sm%v ht%v cb%x ii%d", sd.TapTweak, sd.WitnessScript, sd.SignMethod, sd.HashType, sd.ControlBlock, sd.InputIndex)
		if sd.Output != nil {
			fmt.Fprintf(&b, " o%d:%x", sd.Output.Value, sd.Output.PkScript)
		}
		fmt.Fprintf(&b, " 2s%x 2t%x rb%v]", o.secondLevelWitnessScript, o.secondLevelTapTweak, o.resolutionBlob.IsSome())
	}
	return b.String()
}

// memoKey identifies one justice verification job.
func (c *c04World) memoKey(v int, s *c04Snap, outs []breachedOutput, full bool, src string) [32]byte {
	var b strings.Builder
	fmt.Fprintf(&b, "%s|%d|%v|%s|%v|", c.sp.P.Type, v, full, src, s.tx.TxHash())
	for _, sl := range s.second {
		fmt.Fprintf(&b, "%v,", sl.tx.TxHash())
	}
	b.WriteString(c04OutsDigest(outs))
	return sha256.Sum256([]byte(b.String()))
}

// evalOne is one (victim, height, state source, spendTx) evaluation. It returns
// the retribution it judged (nil if none was built).
func (c *c04World) evalOne(v int, h uint64, s *c04Snap, st *chanstate.OpenChannel, spendTx *wire.MsgTx, variant string, full bool) *lnwallet.BreachRetribution {
	role := c.role(v)
	real := s.tx

	// (1) the broadcast tx is recognised as height h.
	c.h.hintChecks.Add(1)
	if got := lnwallet.GetStateNumHint(real, c04Obfuscator(st)); got != h {
		c.violate("state-hint", role, fmt.Sprintf("GetStateNumHint of the counterparty's commitment at height %d decodes to %d (%s)", h, got, variant))
	}

	// (2) retribution from persisted data.
	c.h.retributions.Add(1)
	br, err := lnwallet.NewBreachRetribution(
		st, h, c04BreachHeight, spendTx, fn.None[lnwallet.AuxLeafStore](), fn.None[lnwallet.AuxContractResolver](),
	)
	src := "spendtx"
	if spendTx == nil {
		src = "nil"
	}
	if spendTx == nil && c.sp.NoAmt {
		if !errors.Is(err, lnwallet.ErrRevLogDataMissing) {
			c.violate("missing-amount-data-not-reported", role, fmt.Sprintf("height %d, no spend tx, amounts not stored: expected ErrRevLogDataMissing, got br=%v err=%v", h, br != nil, err))
		} else {
			c.h.missingAsSpec.Add(1)
			c.h.outcome.Add("ErrRevLogDataMissing (as specified)")
		}
		return nil
	}
	if err != nil {
		c.violate("retribution-failed", role+":spend="+src, fmt.Sprintf("NewBreachRetribution(height %d, %s) on a revoked height failed: %v", h, variant, err))
		c.h.outcome.Add("retribution error")
		return nil
	}
	c.evalBr(v, h, s, st.FundingOutpoint, br, src, variant, full)
	return br
}

// evalBr judges one retribution against the cheater's real transactions:
// clauses (2b)-(5) of the oracle.
func (c *c04World) evalBr(v int, h uint64, s *c04Snap, chanPoint wire.OutPoint, br *lnwallet.BreachRetribution, src, variant string, full bool) {
	role := c.role(v)
	real := s.tx
	txid := real.TxHash()
	if c.verbose {
		fmt.Printf("INFO     %s: state hint -> %d, NewBreachRetribution ok (own to-remote=%v, revoked to-local=%v, %d HTLC retributions)\n",
			variant, h, br.LocalOutputSignDesc != nil, br.RemoteOutputSignDesc != nil, len(br.HtlcRetributions))
	}
	if br.BreachTxHash != txid {
		c.violate("breach-txid", role, fmt.Sprintf("height %d (%s): retribution names tx %v but the revoked commitment is %v (chain watcher would not treat it as a breach)", h, variant, br.BreachTxHash, txid))
	}
	if br.RevokedStateNum != h || br.BreachHeight != c04BreachHeight {
		c.violate("retribution-meta", role, fmt.Sprintf("height %d (%s): RevokedStateNum=%d BreachHeight=%d", h, variant, br.RevokedStateNum, br.BreachHeight))
	}

	// (3) recorded outpoints / amounts / scripts against the real transaction.
	chk := func(name string, op wire.OutPoint, sd *input.SignDescriptor) {
		if op.Hash != txid || int(op.Index) >= len(real.TxOut) {
			c.violate("recorded-outpoint", role+":"+name+":spend="+src, fmt.Sprintf("height %d (%s): %s outpoint %v is not an output of the revoked tx %v (%d outputs)", h, variant, name, op, txid, len(real.TxOut)))
			return
		}
		o := real.TxOut[op.Index]
		if o.Value != sd.Output.Value {
			c.violate("recorded-amount", role+":"+name+":spend="+src, fmt.Sprintf("height %d (%s): %s output #%d is worth %d sat on the revoked tx, retribution says %d", h, variant, name, op.Index, o.Value, sd.Output.Value))
		}
		if !bytes.Equal(o.PkScript, sd.Output.PkScript) {
			c.violate("recorded-script", role+":"+name+":spend="+src, fmt.Sprintf("height %d (%s): %s output #%d: pkScript %x on the revoked tx, retribution rebuilt %x", h, variant, name, op.Index, o.PkScript, sd.Output.PkScript))
		}
	}
	if br.LocalOutputSignDesc != nil {
		chk("to-remote(own)", br.LocalOutpoint, br.LocalOutputSignDesc)
	}
	if br.RemoteOutputSignDesc != nil {
		chk("to-local(revoked)", br.RemoteOutpoint, br.RemoteOutputSignDesc)
		if s.selfIdx >= 0 && int(br.RemoteOutpoint.Index) != s.selfIdx {
			c.violate("recorded-their-index", role+":spend="+src, fmt.Sprintf("height %d (%s): victim recorded the cheater's to-local at #%d, the cheater's own resolution has it at #%d", h, variant, br.RemoteOutpoint.Index, s.selfIdx))
		}
	}
	nin, nout := 0, 0
	for i := range br.HtlcRetributions {
		hr := &br.HtlcRetributions[i]
		name := "htlc-offered-by-cheater"
		if !hr.IsIncoming {
			// "incoming" is from the victim's view: false = victim offered it,
			// the cheater accepted it.
			name = "htlc-accepted-by-cheater"
			nout++
		} else {
			nin++
		}
		chk(name, hr.OutPoint, &hr.SignDesc)
	}

	// (4) justice transactions, every input run through the script interpreter
	// against the REAL outputs.
	ri := newRetributionInfo(&chanPoint, br)
	class := fmt.Sprintf("%s|%s|own=%v|their=%v|offered=%d|accepted=%d|outs=%d|spend=%s|amt=%v|reloaded=%v|src=%s",
		c.sp.P.Type, role, br.LocalOutputSignDesc != nil, br.RemoteOutputSignDesc != nil, nin, nout, len(real.TxOut), src, !c.sp.NoAmt, c.reloads > 0, variant[:4])
	mk := c.memoKey(v, s, ri.breachedOutputs, full, src)
	if prevRes, ok := c.h.memo.Load(mk); ok && !c.force {
		c.h.memoHits.Add(1)
		c.h.classes.Add(class)
		c.h.outcome.Add("justice identical to one already built and executed")
		// same inputs, same verdicts: re-raise what that job raised
		for _, r := range prevRes.([][2]string) {
			c.raise(r[0], r[1])
		}
		return
	}
	c.h.memoMisses.Add(1)
	raisedBefore := len(c.raised)
	defer func() {
		c.h.memo.Store(mk, append([][2]string{}, c.raised[raisedBefore:]...))
	}()
	if full {
		ri = c.storeRoundTrip(ri, role, h)
		if ri == nil {
			return
		}
	}
	prev := map[wire.OutPoint]*wire.TxOut{}
	for i, o := range real.TxOut {
		prev[wire.OutPoint{Hash: txid, Index: uint32(i)}] = o
	}
	want := map[wire.OutPoint]bool{}
	anchors := 0
	for i, o := range real.TxOut {
		if c.ChanType().HasAnchors() && o.Value == c04AnchorSat {
			anchors++
			continue
		}
		want[wire.OutPoint{Hash: txid, Index: uint32(i)}] = true
	}
	if anchors > 2 {
		c.violate("harness-anchor-count", role, fmt.Sprintf("%d outputs of 330 sat on the revoked tx", anchors))
	}
	base := c04CopyOutputs(ri.breachedOutputs)
	c.justice(v, h, role, "commit-level:spend="+src, variant, c04CopyOutputs(base), prev, want)
	c.h.classes.Add(class)
	c.h.outcome.Add("justice built and executed")
	if nin+nout > 0 && len(s.second) > 0 && h >= 2 {
		c.h.samples.Add(map[string]any{"space": c.sp.name(), "history": c.Hist(), "victim": string(rune('A' + v)), "revoked_height": h,
			"variant": variant, "revoked_txid": txid.String(), "outputs": len(real.TxOut), "htlc_retributions": len(br.HtlcRetributions),
			"cheater_second_level_txs": len(s.second), "witness_types": c04WitnessTypes(ri.breachedOutputs)})
	}

	if !full {
		return
	}
	// (5) the cheater advances HTLCs to the second level first.
	for k := range s.second {
		c.secondLevel(v, h, role, s, base, prev, want, []int{k}, false)
		if c.ChanType().HasAnchors() {
			c.secondLevel(v, h, role, s, base, prev, want, []int{k}, true)
		}
	}
	if len(s.second) >= 2 {
		all := make([]int, len(s.second))
		for k := range all {
			all[k] = k
		}
		c.secondLevel(v, h, role, s, base, prev, want, all, false)
	}
	// (6) the same retribution object across the breach arbitrator's whole
	// publish / wait-for-spend / re-create loop.
	c.lifetime(v, h, role, s, base, prev, want)
}

// ---- second handles: the chain watcher's own OpenChannel ------------------------
//
// In lnd the chain watcher of a channel holds its own *OpenChannel, loaded once
// (ChainArbitrator.Start: FetchAllOpenChannels; WatchNewChannel), while the link
// advances the channel through another instance. Family: for EVERY distinct
// durable state the victim's DB goes through along a history, a handle is loaded
// while that state is current ("load point"). Whenever a revoked height is
// judged (on revocation, after every reload, at the end of the history) the
// spend of the funding output by that revoked commitment is delivered to a real
// chainWatcher (handleCommitSpend: newChainSet -> known local/remote state ->
// handlePossibleBreach -> dispatchContractBreach) running on an untouched copy of
// EACH handle loaded so far. Oracle (differential, no expected values): the
// watcher must hand exactly one BreachRetribution to the breach arbitrator and
// it must equal (every field that enters a justice transaction) the retribution
// built from a fresh load, which clauses (2)-(5) judge with the script
// interpreter; a retribution that differs is itself judged by (2)-(5).

// c04Handle is one load point.
type c04Handle struct {
	at   int    // history length at which it was loaded
	tail uint64 // heights below this were already revoked when it was loaded
	st   *chanstate.OpenChannel
}

var errC04Rollback = errors.New("c04: watcher write rolled back")

// c04RollbackDB is the kvdb backend the watcher's handles persist through: reads
// go to the victim's real database; a write transaction is executed for real and
// then rolled back (the watcher marks the channel borked when it dispatches a
// breach; the explored history must not see that). The caller is told the write
// succeeded.
type c04RollbackDB struct {
	kvdb.Backend
	rolledBack *atomic.Int64
}

func (d *c04RollbackDB) Update(f func(tx kvdb.RwTx) error, reset func()) error {
	err := d.Backend.Update(func(tx kvdb.RwTx) error {
		if err := f(tx); err != nil {
			return err
		}
		return errC04Rollback
	}, reset)
	if errors.Is(err, errC04Rollback) {
		d.rolledBack.Add(1)
		return nil
	}
	return err
}

func (d *c04RollbackDB) BeginReadWriteTx() (kvdb.RwTx, error) {
	tx, err := d.Backend.BeginReadWriteTx()
	if err != nil {
		return nil, err
	}
	return &c04RollbackTx{RwTx: tx, d: d}, nil
}

type c04RollbackTx struct {
	kvdb.RwTx
	d *c04RollbackDB
}

func (t *c04RollbackTx) Commit() error {
	t.d.rolledBack.Add(1)
	return t.RwTx.Rollback()
}

// c04WatchStore forwards everything to the real ChannelStateDB. The only call
// it observes is the data-loss commit-point poll: a watcher that reaches it has
// classified the spend as "state unknown to us" and would poll forever
// (wall-clock back-off); the harness records that and closes the watcher's quit
// channel so that the call returns.
type c04WatchStore struct {
	chanstate.Store
	onDLP func()
}

func (s *c04WatchStore) FetchChannelDataLossCommitPoint(ch *chanstate.OpenChannel) (*btcec.PublicKey, error) {
	if s.onDLP != nil {
		s.onDLP()
	}
	return s.Store.FetchChannelDataLossCommitPoint(ch)
}

// loadHandles loads a new handle for each party whose database performed a
// durable write since the last load (equal disk => equal handle, so the load
// points enumerated are exactly the distinct durable states).
func (c *c04World) loadHandles() {
	for v := 0; v < 2; v++ {
		n := c.CrashDB(v).Commits()
		if len(c.handles[v]) > 0 && n == c.handleAt[v] {
			continue
		}
		if c.sp.Loads != "write" && len(c.handles[v]) > 0 && c.reloads == c.handleRel[v] &&
			c.Chan(v).State().RemoteCommitment.CommitHeight == c.handleTail[v] {
			// bounded alphabet: no reload and no new revocation since the last load
			continue
		}
		if c.watchDB[v] == nil {
			db, err := channeldb.CreateWithBackend(
				&c04RollbackDB{Backend: c.CrashDB(v), rolledBack: &c.h.watchRolledBack}, channeldb.OptionNoMigration(true),
				channeldb.OptionNoRevLogAmtData(c.sp.NoAmt),
			)
			if err != nil {
				c.violate("harness-watch-db", c.role(v), fmt.Sprintf("second channeldb handle: %v", err))
				return
			}
			c.watchDB[v] = db
		}
		// as ChainArbitrator.Start does
		chans, err := c.watchDB[v].ChannelStateDB().FetchAllOpenChannels()
		if err != nil || len(chans) != 1 {
			c.violate("persisted-state-unreadable", c.role(v), fmt.Sprintf("victim %d: FetchAllOpenChannels: %d channels, %v", v, len(chans), err))
			continue
		}
		c.handleAt[v] = n
		c.handleTail[v] = c.Chan(v).State().RemoteCommitment.CommitHeight
		c.handleRel[v] = c.reloads
		c.handles[v] = append(c.handles[v], &c04Handle{at: len(c.Hist()), tail: chans[0].RemoteCommitment.CommitHeight, st: chans[0]})
		c.h.handlesLoaded.Add(1)
	}
}

// c04BrDigest covers every field of a retribution that enters a justice
// transaction or decides whether the spend is treated as a breach.
func c04BrDigest(chanPoint wire.OutPoint, br *lnwallet.BreachRetribution) string {
	ri := newRetributionInfo(&chanPoint, br)
	return fmt.Sprintf("%v|%d|%d|%v|%v|%d|%d|%s", br.BreachTxHash, br.RevokedStateNum, br.BreachHeight, br.ChainHash, br.ChanType,
		br.LocalDelay, br.RemoteDelay, c04OutsDigest(ri.breachedOutputs))
}

// c04WatchOutcome is what one chain watcher did with one spend.
type c04WatchOutcome struct {
	err      error
	panicked any
	brs      []*lnwallet.BreachRetribution
	events   string // which subscriber events were sent
	breachEv *BreachCloseInfo
	dlp      bool
}

// runWatcher delivers the spend of the funding output by tx to a real chain
// watcher whose channel handle is an untouched copy of hd.
func (c *c04World) runWatcher(v int, hd *c04Handle, tx *wire.MsgTx) (out c04WatchOutcome) {
	st := hd.st.Copy()
	var cw *chainWatcher
	var once sync.Once
	st.Db = &c04WatchStore{Store: hd.st.Db, onDLP: func() {
		out.dlp = true
		once.Do(func() {
			if cw != nil {
				close(cw.quit)
			}
		})
	}}
	defer func() {
		if p := recover(); p != nil {
			out.panicked = p
		}
	}()
	var err error
	cw, err = newChainWatcher(chainWatcherConfig{
		chanState: st,
		notifier:  &lnmock.ChainNotifier{SpendChan: make(chan *chainntnfs.SpendDetail, 1), ConfChan: make(chan *chainntnfs.TxConfirmation, 1)},
		signer:    c.Signer(v),
		contractBreach: func(r *lnwallet.BreachRetribution) error {
			out.brs = append(out.brs, r)
			return nil
		},
		isOurAddr:           func(address.Address) bool { return false },
		extractStateNumHint: lnwallet.GetStateNumHint,
		chanCloseConfs:      fn.Some(uint32(1)),
	})
	if err != nil {
		out.err = fmt.Errorf("newChainWatcher: %w", err)
		return out
	}
	sub := cw.SubscribeChannelEvents()
	txid := tx.TxHash()
	op := st.FundingOutpoint
	out.err = cw.handleCommitSpend(&chainntnfs.SpendDetail{
		SpentOutPoint: &op, SpenderTxHash: &txid, SpendingTx: tx, SpenderInputIndex: 0, SpendingHeight: c04BreachHeight,
	})
	var ev []string
	select {
	case b := <-sub.ContractBreach:
		out.breachEv = b
		ev = append(ev, "contract-breach")
	default:
	}
	select {
	case <-sub.RemoteUnilateralClosure:
		ev = append(ev, "remote-unilateral-close")
	default:
	}
	select {
	case <-sub.LocalUnilateralClosure:
		ev = append(ev, "local-unilateral-close")
	default:
	}
	select {
	case <-sub.CooperativeClosure:
		ev = append(ev, "cooperative-close")
	default:
	}
	if out.dlp {
		ev = append(ev, "data-loss-recovery")
	}
	if len(ev) == 0 {
		ev = []string{"no-event"}
	}
	out.events = strings.Join(ev, "+")
	return out
}

// watchHeight is the second-handle family for one revoked height: every handle
// loaded so far, each in a chain watcher of its own.
func (c *c04World) watchHeight(v int, h uint64, s *c04Snap, when string, fresh *lnwallet.BreachRetribution) {
	if fresh == nil || len(c.handles[v]) == 0 {
		// no reference retribution: already reported by clause (2)
		return
	}
	if when == "terminal" && c.sp.Loads != "write" && c.devs > 0 {
		// bounded variant: the delivery "at the end of the history" is made on
		// the eager history of each space only (deliveries right after the
		// revocation and after every reload are made on every history)
		c.h.watchSkippedTerminal.Add(1)
		return
	}
	role := c.role(v)
	txid := s.tx.TxHash()
	ref := c04BrDigest(c.handles[v][0].st.FundingOutpoint, fresh)
	now := len(c.Hist())
	for _, hd := range c.handles[v] {
		rel := "revoked-after-handle-load"
		switch {
		case hd.at == now:
			rel = "handle-loaded-now"
		case h < hd.tail:
			rel = "revoked-before-handle-load"
		}
		c.h.watcherRuns.Add(1)
		out := c.runWatcher(v, hd, s.tx)
		cell := fmt.Sprintf("%s|%s|%s|%s", c.sp.P.Type, role, rel, when)
		desc := fmt.Sprintf("victim %c, revoked height %d (tx %v), chain watcher handle loaded after step %d (remote tail %d then), spend delivered after step %d (%s)",
			'A'+v, h, txid, hd.at, hd.tail, now, when)
		switch {
		case out.panicked != nil:
			c.h.watchOutcome.Add("panic")
			c.violate("watcher-panic", role+":"+rel, fmt.Sprintf("%s: chain watcher panicked: %v", desc, out.panicked))
			continue
		case len(out.brs) == 0:
			how := out.events
			if out.err != nil {
				how = "error"
			}
			c.h.watchOutcome.Add("breach NOT dispatched: " + how)
			c.violate("watcher-breach-not-recognised", role+":"+rel+":"+how, fmt.Sprintf("%s: the chain watcher did not hand a breach retribution to the breach arbitrator although a fresh load of the persisted state builds one; handleCommitSpend err=%v, subscriber events: %s", desc, out.err, out.events))
			continue
		case len(out.brs) > 1:
			c.violate("watcher-breach-dispatched-twice", role+":"+rel, fmt.Sprintf("%s: %d retributions dispatched", desc, len(out.brs)))
		}
		if out.err != nil {
			c.violate("watcher-breach-dispatch-error", role+":"+rel, fmt.Sprintf("%s: retribution handed over but handleCommitSpend failed: %v (events: %s)", desc, out.err, out.events))
		}
		if out.breachEv != nil && out.breachEv.CommitHash != txid {
			c.violate("watcher-breach-event-txid", role+":"+rel, fmt.Sprintf("%s: BreachCloseInfo names %v", desc, out.breachEv.CommitHash))
		}
		got := c04BrDigest(hd.st.FundingOutpoint, out.brs[0])
		if got == ref {
			c.h.watchOutcome.Add("breach dispatched (" + out.events + "), retribution identical to the fresh-load one")
			c.h.watchCells.Add(cell)
			if c.verbose {
				fmt.Printf("INFO     watcher handle@%d (%s): breach dispatched, retribution identical to fresh load\n", hd.at, rel)
			}
			continue
		}
		// differs from the reference: judge it on its own merits
		c.h.watchOutcome.Add("breach dispatched (" + out.events + "), retribution differs from the fresh-load one: judged separately")
		c.h.watchCells.Add(cell)
		if c.verbose {
			fmt.Printf("INFO     watcher handle@%d (%s): retribution differs from fresh load, judging it\n", hd.at, rel)
		}
		c.evalBr(v, h, s, hd.st.FundingOutpoint, out.brs[0], "spendtx", "wtch+handle:"+rel, true)
	}
}

// storeRoundTrip persists the retribution the way the breach arbitrator does
// and reads it back (a restart between breach detection and justice).
func (c *c04World) storeRoundTrip(ri *retributionInfo, role string, h uint64) *retributionInfo {
	if len(c.h.stores) == 0 {
		return ri
	}
	hh := c.h.stores[int(c.h.storeRR.Add(1))%len(c.h.stores)]
	hh.mu.Lock()
	defer hh.mu.Unlock()
	c.h.storeTrips.Add(1)
	if err := hh.store.Add(ri); err != nil {
		c.violate("retribution-store-add", role, fmt.Sprintf("height %d: %v", h, err))
		return nil
	}
	var back *retributionInfo
	err := hh.store.ForAll(func(r *retributionInfo) error {
		if r.chanPoint == ri.chanPoint {
			back = r
		}
		return nil
	}, func() { back = nil })
	_ = hh.store.Remove(&ri.chanPoint)
	if err != nil || back == nil {
		c.violate("retribution-store-read", role, fmt.Sprintf("height %d: stored retribution could not be read back: %v", h, err))
		return nil
	}
	if len(back.breachedOutputs) != len(ri.breachedOutputs) {
		c.violate("retribution-store-read", role, fmt.Sprintf("height %d: %d outputs stored, %d read back", h, len(ri.breachedOutputs), len(back.breachedOutputs)))
		return nil
	}
	return back
}

// secondLevel: the listed second-level txs of the cheater confirm before
// justice; the breach arbitrator converts and sweeps the second-level outputs.
func (c *c04World) secondLevel(v int, h uint64, role string, s *c04Snap, base []breachedOutput,
	prev map[wire.OutPoint]*wire.TxOut, want map[wire.OutPoint]bool, which []int, shifted bool) {

	outs := c04CopyOutputs(base)
	ri := &retributionInfo{commitHash: s.tx.TxHash(), breachHeight: c04BreachHeight, breachedOutputs: outs}
	prev2 := map[wire.OutPoint]*wire.TxOut{}
	for k, o := range prev {
		prev2[k] = o
	}
	want2 := map[wire.OutPoint]bool{}
	for k := range want {
		want2[k] = true
	}
	var spends []spend
	label := "second-level"
	for _, k := range which {
		sl := s.second[k]
		dir := "timeout"
		if sl.incoming {
			dir = "success"
		}
		t := sl.tx
		inIdx := uint32(0)
		if shifted {
			// anchor channels sign second-level txs SINGLE|ANYONECANPAY: the
			// cheater may put its fee input/change output first, the HTLC
			// pair then sits at index 1.
			label = "second-level-shifted"
			t = sl.tx.Copy()
			fee := wire.NewTxIn(&wire.OutPoint{Hash: chainhash.Hash{0xfe}, Index: 3}, nil, nil)
			t.TxIn = append([]*wire.TxIn{fee}, t.TxIn...)
			t.TxOut = append([]*wire.TxOut{wire.NewTxOut(5000, append([]byte{0x00, 0x14}, bytes.Repeat([]byte{0x17}, 20)...))}, t.TxOut...)
			inIdx = 1
			c.h.secondShifted.Add(1)
		} else if s.signed {
			// the cheater's own second-level tx must be valid, otherwise it
			// could not have advanced the HTLC.
			c.h.cheaterTxs.Add(1)
			if o, ok := prev[sl.htlcOut]; !ok {
				c.violate("harness-second-level-prevout", role, fmt.Sprintf("height %d: second-level tx spends %v which is not on the commitment", h, sl.htlcOut))
			} else if err := c04Exec(t, 0, map[wire.OutPoint]*wire.TxOut{sl.htlcOut: o}); err != nil {
				c.violate("cheater-second-level-invalid("+c04ErrClass(err)+")", role+":"+dir, fmt.Sprintf("height %d: the cheater's own %s tx does not validate against its commitment output %v: %v", h, dir, sl.htlcOut, err))
			}
		}
		idx := -1
		for i := range outs {
			if outs[i].outpoint == sl.htlcOut {
				idx = i
			}
		}
		if idx < 0 {
			c.violate("htlc-output-not-in-retribution", role+":"+dir, fmt.Sprintf("height %d: HTLC output %v of the revoked tx (cheater has a %s tx for it) has no breached output", h, sl.htlcOut, dir))
			return
		}
		th := t.TxHash()
		op := sl.htlcOut
		spends = append(spends, spend{index: idx, detail: &chainntnfs.SpendDetail{
			SpentOutPoint: &op, SpenderTxHash: &th, SpendingTx: t, SpenderInputIndex: inIdx, SpendingHeight: c04BreachHeight + 1,
		}})
		newOp := wire.OutPoint{Hash: th, Index: inIdx}
		for oi, o := range t.TxOut {
			prev2[wire.OutPoint{Hash: th, Index: uint32(oi)}] = o
		}
		delete(want2, sl.htlcOut)
		want2[newOp] = true
		label += ":" + dir
	}
	updateBreachInfo(ri, spends)
	c.h.secondLevel.Add(int64(len(which)))
	c.justice(v, h, role, label, label, ri.breachedOutputs, prev2, want2)
}

// ---- object-lifetime family: one retributionInfo, many createJusticeTx calls -----
//
// exactRetribution keeps ONE retributionInfo alive per breach: it builds the
// justice transactions (createJusticeTx signs through the breachedOutput objects),
// waits for any breached output to be spent, folds the spends into the SAME object
// (updateBreachInfo: convert an HTLC output to the second level in place, drop
// outputs that were swept and compact the slice by value copy) and builds the
// justice transactions AGAIN from it - as often as spends arrive. Whatever the
// objects carry from one call to the next (witness generators, sign descriptors
// handed out by pointer, prev-output fetchers, slots of the compacted slice) is
// state of the computation. Family: every SEQUENCE of spend events, up to a depth
// bound, applied to one object with a createJusticeTx call between any two events
// (as exactRetribution does), and the transactions built after the last event are
// judged by the script interpreter like a single-shot construction.
//
// Event alphabet at a state (enabledness from a UTXO model of the cheater's
// transactions, not from lnd's bookkeeping):
//   conv:k         the cheater's k-th second-level tx confirms (its HTLC output is unspent)
//   own:<variant>  one of the victim's OWN justice transactions built by the LAST
//                  createJusticeTx call confirms, all its inputs reported in one
//                  batch: commit / htlcs / second:i / all
//   own1:j         (deep alphabet) only input j of the last spend-all is reported
//                  (spend notifications of one transaction may arrive one by one)
// Oracle (scenario independent): after every sequence the spend-all variant claims
// exactly the unspent non-anchor outputs of the cheater's transactions (none left
// out, none already spent), every input of every variant spends an existing,
// unspent output and is accepted by txscript against that real output; once
// everything is swept the object holds no outputs.

func (c *c04World) lifetime(v int, h uint64, role string, s *c04Snap, base []breachedOutput,
	prev map[wire.OutPoint]*wire.TxOut, want map[wire.OutPoint]bool) {

	depth := c.h.lifeDepth
	if depth <= 0 {
		return
	}
	stack := [][]string{{}}
	for len(stack) > 0 {
		seq := stack[len(stack)-1]
		stack = stack[:len(stack)-1]
		before := len(c.raised)
		en := c.lifeRun(v, h, role, s, base, prev, want, seq)
		if len(c.raised) > before || len(seq) >= depth {
			// a defective state is reported once, not through all its extensions
			continue
		}
		for i := len(en) - 1; i >= 0; i-- {
			stack = append(stack, append(append([]string{}, seq...), en[i]))
		}
	}
}

// lifeVariant returns the named variant of a justice tx set.
func lifeVariant(txs *justiceTxVariants, name string) *justiceTxCtx {
	switch {
	case txs == nil:
		return nil
	case name == "all":
		return txs.spendAll
	case name == "commit":
		return txs.spendCommitOuts
	case name == "htlcs":
		return txs.spendHTLCs
	case strings.HasPrefix(name, "second:"):
		i, err := strconv.Atoi(name[len("second:"):])
		if err == nil && i < len(txs.spendSecondLevelHTLCs) {
			return txs.spendSecondLevelHTLCs[i]
		}
	}
	return nil
}

// lifeRun executes one event sequence on a fresh retribution object (prefix
// states were judged when the prefix was the sequence; here every step is
// executed and the final state is judged). It returns the events enabled in the
// final state.
func (c *c04World) lifeRun(v int, h uint64, role string, s *c04Snap, base []breachedOutput,
	prev map[wire.OutPoint]*wire.TxOut, want map[wire.OutPoint]bool, seq []string) []string {

	ri := &retributionInfo{commitHash: s.tx.TxHash(), breachHeight: c04BreachHeight, breachedOutputs: c04CopyOutputs(base)}
	prev2 := make(map[wire.OutPoint]*wire.TxOut, len(prev)+4)
	for k, o := range prev {
		prev2[k] = o
	}
	want2 := make(map[wire.OutPoint]bool, len(want))
	for k := range want {
		want2[k] = true
	}
	spent := map[wire.OutPoint]bool{}
	kinds := []string{"create"}
	c.h.lifeSeqs.Add(1)

	create := func() *justiceTxVariants {
		c.h.lifeCreates.Add(1)
		txs, err := c.brarLife[v].createJusticeTx(ri.breachedOutputs)
		if err != nil || txs == nil || txs.spendAll == nil {
			c.violate("justice-tx-not-built", role+":life:"+strings.Join(kinds, ">"), fmt.Sprintf("height %d: createJusticeTx on the live retribution after %v failed: %v", h, seq, err))
			return nil
		}
		return txs
	}
	find := func(op wire.OutPoint) int {
		for i := range ri.breachedOutputs {
			if ri.breachedOutputs[i].outpoint == op {
				return i
			}
		}
		return -1
	}
	txs := create()
	if txs == nil {
		return nil
	}
	for _, ev := range seq {
		var spends []spend
		switch {
		case strings.HasPrefix(ev, "conv:"):
			k, _ := strconv.Atoi(ev[5:])
			sl := s.second[k]
			idx := find(sl.htlcOut)
			if idx < 0 {
				c.violate("harness-life-event", role, fmt.Sprintf("height %d: %s of %v: HTLC output %v not in the live retribution", h, ev, seq, sl.htlcOut))
				return nil
			}
			th := sl.tx.TxHash()
			op := sl.htlcOut
			spends = append(spends, spend{index: idx, detail: &chainntnfs.SpendDetail{
				SpentOutPoint: &op, SpenderTxHash: &th, SpendingTx: sl.tx, SpenderInputIndex: 0, SpendingHeight: c04BreachHeight + 1,
			}})
			for oi, o := range sl.tx.TxOut {
				prev2[wire.OutPoint{Hash: th, Index: uint32(oi)}] = o
			}
			spent[op] = true
			delete(want2, op)
			want2[wire.OutPoint{Hash: th, Index: 0}] = true
			if sl.incoming {
				kinds = append(kinds, "conv-success")
			} else {
				kinds = append(kinds, "conv-timeout")
			}
		case strings.HasPrefix(ev, "own:"), strings.HasPrefix(ev, "own1:"):
			name, only := ev[4:], -1
			if strings.HasPrefix(ev, "own1:") {
				name = "all"
				only, _ = strconv.Atoi(ev[5:])
			}
			jt := lifeVariant(txs, name)
			if jt == nil || jt.justiceTx == nil {
				c.violate("harness-life-event", role, fmt.Sprintf("height %d: %s of %v: no such justice tx", h, ev, seq))
				return nil
			}
			tx := jt.justiceTx
			th := tx.TxHash()
			kind := "swept-" + strings.TrimRight(name, ":0123456789")
			for i, in := range tx.TxIn {
				if only >= 0 && i != only {
					continue
				}
				idx := find(in.PreviousOutPoint)
				if idx < 0 {
					continue // judged as a defect when this tx was built
				}
				if only >= 0 {
					kind = fmt.Sprintf("swept-one(%v)", ri.breachedOutputs[idx].witnessType)
				}
				op := in.PreviousOutPoint
				spends = append(spends, spend{index: idx, detail: &chainntnfs.SpendDetail{
					SpentOutPoint: &op, SpenderTxHash: &th, SpendingTx: tx, SpenderInputIndex: uint32(i), SpendingHeight: c04BreachHeight + 2,
				}})
				spent[op] = true
				delete(want2, op)
			}
			kinds = append(kinds, kind)
		default:
			c.violate("harness-life-event", role, fmt.Sprintf("unknown event %q", ev))
			return nil
		}
		c.h.lifeEvents.Add(1)
		updateBreachInfo(ri, spends)
		if len(ri.breachedOutputs) == 0 {
			txs = nil
			break
		}
		if txs = create(); txs == nil {
			return nil
		}
	}
	short := "life:" + strings.Join(kinds, ">")
	label := fmt.Sprintf("one retribution object: create, then %v each followed by a re-creation", seq)
	c.h.lifeClasses.Add(c.sp.P.Type + "|" + short)
	if txs == nil {
		// everything the object held was reported swept
		if len(want2) > 0 {
			var missing []string
			for op := range want2 {
				missing = append(missing, fmt.Sprintf("%v(%d sat)", op, prev2[op].Value))
			}
			sort.Strings(missing)
			c.violate("output-not-punished", role+":"+short, fmt.Sprintf("height %d (%s): the retribution holds no outputs any more but these are unspent: %v", h, label, missing))
		}
		if c.verbose {
			fmt.Printf("INFO     lifetime %v: nothing left to sweep\n", seq)
		}
		return nil
	}
	c.judgeTxs(v, h, role, short, label, ri.breachedOutputs, txs, prev2, want2, spent)
	if c.verbose {
		fmt.Printf("INFO     lifetime %v: %d outputs live, judged\n", seq, len(ri.breachedOutputs))
	}

	// events enabled now
	var en []string
	for k, sl := range s.second {
		if !spent[sl.htlcOut] && find(sl.htlcOut) >= 0 {
			en = append(en, fmt.Sprintf("conv:%d", k))
		}
	}
	names := []string{"commit", "htlcs"}
	for i := range txs.spendSecondLevelHTLCs {
		names = append(names, fmt.Sprintf("second:%d", i))
	}
	names = append(names, "all")
	for _, n := range names {
		if jt := lifeVariant(txs, n); jt != nil && jt.justiceTx != nil {
			en = append(en, "own:"+n)
		}
	}
	if c.h.lifeDeep && len(txs.spendAll.justiceTx.TxIn) > 1 {
		for i := range txs.spendAll.justiceTx.TxIn {
			en = append(en, fmt.Sprintf("own1:%d", i))
		}
	}
	return en
}

func c04WitnessTypes(outs []breachedOutput) []string {
	var o []string
	for i := range outs {
		o = append(o, fmt.Sprint(outs[i].witnessType))
	}
	return o
}

// c04ErrClass is the interpreter's error code (part of violation signatures, so
// that a listed finding on one input never hides a different failure of the
// same input).
func c04ErrClass(err error) string {
	var se txscript.Error
	if errors.As(err, &se) {
		return se.ErrorCode.String()
	}
	return "other"
}

// c04Exec runs the script interpreter on input i of tx against the given real
// previous outputs.
func c04Exec(tx *wire.MsgTx, i int, prev map[wire.OutPoint]*wire.TxOut) error {
	cp := make(map[wire.OutPoint]*wire.TxOut, len(prev)+1)
	for k, o := range prev {
		cp[k] = o
	}
	fetcher := txscript.NewMultiPrevOutFetcher(cp) // the fetcher keeps the map it is given
	po, ok := prev[tx.TxIn[i].PreviousOutPoint]
	if !ok {
		return fmt.Errorf("input spends %v which does not exist", tx.TxIn[i].PreviousOutPoint)
	}
	// every input's prevout must be known for taproot sighashes
	for _, in := range tx.TxIn {
		if _, ok := prev[in.PreviousOutPoint]; !ok {
			fetcher.AddPrevOut(in.PreviousOutPoint, wire.NewTxOut(5000, []byte{0x51}))
		}
	}
	hc := txscript.NewTxSigHashes(tx, fetcher)
	vm, err := txscript.NewEngine(po.PkScript, tx, i, txscript.StandardVerifyFlags, nil, hc, po.Value, fetcher)
	if err != nil {
		return err
	}
	return vm.Execute()
}

// justice builds the breach arbitrator's justice transactions for the outputs
// and judges every input.
func (c *c04World) justice(v int, h uint64, role, short, label string, outs []breachedOutput,
	prev map[wire.OutPoint]*wire.TxOut, want map[wire.OutPoint]bool) {

	txs, err := c.brar[v].createJusticeTx(outs)
	if err != nil || txs == nil || txs.spendAll == nil {
		c.violate("justice-tx-not-built", role+":"+label, fmt.Sprintf("height %d: createJusticeTx failed: %v", h, err))
		return
	}
	c.judgeTxs(v, h, role, short, label, outs, txs, prev, want, nil)
}

// judgeTxs judges one set of justice transaction variants: every input of every
// variant is executed against the real outputs; the spend-all variant must claim
// every unspent non-anchor output; with a UTXO model (spent != nil) no variant may
// spend an output that is already spent.
func (c *c04World) judgeTxs(v int, h uint64, role, short, label string, outs []breachedOutput, txs *justiceTxVariants,
	prev map[wire.OutPoint]*wire.TxOut, want map[wire.OutPoint]bool, spent map[wire.OutPoint]bool) {

	wt := map[wire.OutPoint]string{}
	for i := range outs {
		wt[outs[i].outpoint] = fmt.Sprint(outs[i].witnessType)
	}
	type named struct {
		n string
		t *justiceTxCtx
	}
	list := []named{{"spendAll", txs.spendAll}, {"spendCommitOuts", txs.spendCommitOuts}, {"spendHTLCs", txs.spendHTLCs}}
	for i, t := range txs.spendSecondLevelHTLCs {
		list = append(list, named{fmt.Sprintf("spendSecondLevel%d", i), t})
	}
	for _, nt := range list {
		if nt.t == nil || nt.t.justiceTx == nil {
			continue
		}
		c.h.justiceTxs.Add(1)
		tx := nt.t.justiceTx
		name := strings.TrimRight(nt.n, "0123456789")
		for i, in := range tx.TxIn {
			w := wt[in.PreviousOutPoint]
			if _, ok := prev[in.PreviousOutPoint]; !ok {
				c.violate("justice-spends-nonexistent-output", role+":"+w+":"+name+":"+short, fmt.Sprintf("height %d (%s): %s input %d (%s) spends %v, which is not an output of the cheater's transactions", h, label, nt.n, i, w, in.PreviousOutPoint))
				continue
			}
			if spent[in.PreviousOutPoint] {
				c.violate("justice-spends-already-spent-output", role+":"+w+":"+name+":"+short, fmt.Sprintf("height %d (%s): %s input %d (%s) spends %v, which an earlier confirmed transaction of this history already spent", h, label, nt.n, i, w, in.PreviousOutPoint))
				continue
			}
			c.h.inputsExecuted.Add(1)
			c.h.wtypes.Add(w)
			if err := c04Exec(tx, i, prev); err != nil {
				c.violate("justice-script-invalid("+c04ErrClass(err)+")", role+":"+w+":"+name+":"+short, fmt.Sprintf("height %d (%s): %s input %d (%s, outpoint %v, sequence %d, tx locktime %d) is rejected by the script interpreter against the real output: %v", h, label, nt.n, i, w, in.PreviousOutPoint, in.Sequence, tx.LockTime, err))
			} else if c.verbose {
				fmt.Printf("INFO       ok %s input %d %s %v\n", nt.n, i, w, in.PreviousOutPoint)
			}
		}
	}
	// completeness: the spend-all justice tx claims every non-anchor output.
	got := map[wire.OutPoint]bool{}
	for _, in := range txs.spendAll.justiceTx.TxIn {
		if got[in.PreviousOutPoint] {
			c.violate("justice-double-input", role+":"+short, fmt.Sprintf("height %d (%s): outpoint %v appears twice", h, label, in.PreviousOutPoint))
		}
		got[in.PreviousOutPoint] = true
	}
	var missing []string
	for op := range want {
		if !got[op] {
			missing = append(missing, fmt.Sprintf("%v(%d sat)", op, prev[op].Value))
		}
	}
	if len(missing) > 0 {
		sort.Strings(missing)
		c.violate("output-not-punished", role+":"+short, fmt.Sprintf("height %d (%s): the justice tx leaves non-dust outputs of the cheater's transaction(s) unclaimed: %v", h, label, missing))
	}
}

// ---- spaces ---------------------------------------------------------------------

func c04sat(s int64, extraMsat uint64) uint64 { return uint64(s)*1000 + extraMsat }

// c04Spaces: the spaces of one tier. Load-point alphabet of the second-handle
// family: quick = bounded ("tail") everywhere except the two full-interleaving
// spaces, which load at every durable write; thorough = every durable write (and
// end-of-history deliveries on every history) in all spaces explored with a
// deviation bound of 0 or 1 (reloads at every point, in-sync double reloads, the
// lopsided and dust-lattice worlds, all 7 types and both openers), bounded in the
// deviation-2 and full-interleaving spaces.
func c04Spaces(thorough bool) []*c04Space {
	out := c04SpacesBase(thorough)
	for _, sp := range out {
		switch {
		case thorough && sp.Dev >= 0 && sp.Dev <= 1, !thorough && sp.Dev < 0:
			sp.Loads = "write"
		default:
			sp.Loads = "tail"
		}
	}
	return out
}

func c04SpacesBase(thorough bool) []*c04Space {
	var out []*c04Space
	add := func(p chanmc.Params, noAmt bool, dev int) {
		out = append(out, &c04Space{P: p, NoAmt: noAmt, Dev: dev})
	}
	// quick: which (type, opener) pairs get the deviation-1 neighbourhood of the
	// eager schedule instead of the eager schedule alone
	dev1Big := map[string]bool{"tweakless/B": true, "zerofee/A": true, "taprootfinal/A": true}
	dev1Edge := map[string]bool{"legacy/A": true, "anchors/B": true, "lease/B": true, "taproot/B": true}
	for ti, typ := range chanmc.AllTypes {
		th := chanmc.Thresholds(typ, 6000, 200, 1300)
		for _, openerB := range []bool{false, true} {
			to := typ + "/" + string(rune('A'+c04b2i(openerB)))
			// big: three non-dust HTLCs, two of them an equal hash/amount/expiry
			// pair, both directions, settle and fail.
			big := []chanmc.Intent{
				{By: 0, Amt: c04sat(30000, 0), Fate: "settle", Dup: 1}, {By: 0, Amt: c04sat(30000, 0), Fate: "fail", Dup: 1},
				{By: 1, Amt: c04sat(41000, 777), Fate: "settle"},
			}
			// edge: amounts on the dust thresholds (output on one commitment only /
			// exactly non-dust), a fee update that moves the thresholds.
			edge := []chanmc.Intent{
				{By: 0, Amt: c04sat(th[0], 0), Fate: "settle"},     // non-dust on A's commitment only
				{By: 1, Amt: c04sat(th[2]-1, 999), Fate: "settle"}, // dust on B's, non-dust on A's commitment
				{By: 1, Amt: c04sat(th[2], 1), Fate: "fail"},       // exactly non-dust everywhere
			}
			noAmt := (ti+c04b2i(openerB))%2 == 1
			if thorough {
				add(chanmc.Params{Type: typ, OpenerB: openerB, Script: big}, noAmt, 2)
				add(chanmc.Params{Type: typ, OpenerB: openerB, Script: edge, Fees: []int64{7000}}, !noAmt, 2)
				add(chanmc.Params{Type: typ, OpenerB: openerB, Script: big[1:], MaxCuts: 1}, !noAmt, 2)
				add(chanmc.Params{Type: typ, OpenerB: openerB, Script: big, MaxCuts: 2, CutOnlyInSync: true}, noAmt, 1)
				add(chanmc.Params{Type: typ, OpenerB: openerB, Script: edge, Fees: []int64{7000}, MaxCuts: 1}, noAmt, 1)
				continue
			}
			add(chanmc.Params{Type: typ, OpenerB: openerB, Script: big}, noAmt, c04b2i(dev1Big[to]))
			add(chanmc.Params{Type: typ, OpenerB: openerB, Script: edge, Fees: []int64{7000}}, !noAmt, c04b2i(dev1Edge[to]))
			// reloads: a cut at every point of the eager schedule
			if openerB == (ti%2 == 1) {
				add(chanmc.Params{Type: typ, OpenerB: openerB, Script: big[1:], MaxCuts: 1}, ti%3 == 0, 1)
			}
		}
	}
	// lopsided channel: A starts with 150 sat (below both dust limits), so the
	// revoked commitments lack the cheater's to-local (cheater A) or the victim's
	// own to-remote (victim A) until B's payments to A settle.
	lop := []string{"legacy", "anchors", "taprootfinal"}
	if thorough {
		lop = chanmc.AllTypes
	}
	for ti, typ := range lop {
		add(chanmc.Params{Type: typ, OpenerB: true, GrossA: 150, Script: []chanmc.Intent{
			{By: 1, Amt: c04sat(900, 0) + c04sat(chanmc.Thresholds(typ, 6000, 200, 1300)[2], 0), Fate: "settle"},
			{By: 1, Amt: c04sat(41000, 1), Fate: "settle"},
		}}, ti%2 == 1, c04b2i(thorough))
	}
	// balance lattice: revoked commitments on which the cheater's to_local or the
	// victim's to_remote is worth dust-1 (trimmed), dust, dust+1 of the commitment
	// owner's dust limit. The poor party T holds exactly that balance from height 0
	// on (the opener's gross share is solved from the commit fee and anchors); the
	// rich party offers one dust HTLC that is failed back, which revokes heights
	// 0..2 on both sides without moving T's balance.
	for ti, typ := range chanmc.AllTypes {
		ct := chanmc.ChanTypes[typ]
		fee := int64(chainfee.SatPerKWeight(6000).FeeForWeight(lnwallet.CommitWeight(ct)))
		if ct.HasAnchors() {
			fee += 2 * c04AnchorSat
		}
		const capSat, dustA, dustB = int64(10 * 100_000_000), int64(200), int64(1300)
		n := 0
		for _, openerB := range []bool{false, true} {
			for poor := 0; poor < 2; poor++ {
				for _, ref := range []int64{dustA, dustB} {
					for _, delta := range []int64{-1, 0, 1} {
						gross := ref + delta
						if poor == c04b2i(openerB) {
							gross += fee // the opener pays commit fee and anchors
						}
						grossA := gross
						if poor == 1 {
							grossA = capSat - gross
						}
						n++
						noAmt := (ti+n)%2 == 0
						p := chanmc.Params{Type: typ, OpenerB: openerB, CapacitySat: capSat, GrossA: grossA, ReserveSat: 1,
							DustA: dustA, DustB: dustB, FeePerKw: 6000,
							Script: []chanmc.Intent{{By: 1 - poor, Amt: c04sat(100, 0), Fate: "fail"}}}
						add(p, noAmt, c04b2i(thorough))
						if thorough {
							add(p, !noAmt, 0)
						}
					}
				}
			}
		}
	}
	// all interleavings of small scripts
	if !thorough {
		for ti, to := range []string{"tweakless/A", "taprootfinal/B"} {
			typ, openerB := strings.Split(to, "/")[0], strings.HasSuffix(to, "/B")
			th := chanmc.Thresholds(typ, 6000, 200, 1300)
			add(chanmc.Params{Type: typ, OpenerB: openerB, Fees: []int64{7000}, Script: []chanmc.Intent{
				{By: 1 - c04b2i(openerB), Amt: c04sat(th[0]+th[2], 0), Fate: "settle"},
			}}, ti%2 == 1, -1)
		}
		return out
	}
	for ti, typ := range chanmc.AllTypes {
		th := chanmc.Thresholds(typ, 6000, 200, 1300)
		for _, openerB := range []bool{false, true} {
			add(chanmc.Params{Type: typ, OpenerB: openerB, Script: []chanmc.Intent{
				{By: 0, Amt: c04sat(th[1], 0), Fate: "settle"}, {By: 1, Amt: c04sat(th[2]+5, 500), Fate: "fail"},
			}}, ti%2 == 0, -1)
			add(chanmc.Params{Type: typ, OpenerB: openerB, Fees: []int64{7000}, MaxCuts: 1, Script: []chanmc.Intent{
				{By: 1 - c04b2i(openerB), Amt: c04sat(th[0]+th[2], 0), Fate: "settle"},
			}}, ti%2 == 1, -1)
		}
	}
	return out
}

func c04b2i(b bool) int {
	if b {
		return 1
	}
	return 0
}

// ---- driver ---------------------------------------------------------------------

func TestC04(t *testing.T) {
	run := evid.Start("C04", "exploration")
	h := &c04Harness{run: run, samples: evid.NewSamples(6), classes: evid.NewCounter(), wtypes: evid.NewCounter(),
		outcome: evid.NewCounter(), lattice: evid.NewCounter(), handled: map[string]bool{},
		watchOutcome: evid.NewCounter(), watchCells: evid.NewCounter(), lifeClasses: evid.NewCounter(), lifeDepth: 2}
	if run.Thorough() {
		h.lifeDepth, h.lifeDeep = 3, true
	}
	if s := os.Getenv("VERIF_C04_LIFE_DEPTH"); s != "" {
		if n, err := strconv.Atoi(s); err == nil {
			h.lifeDepth = n
		}
	}
	// one retribution store (bbolt) for the persist-and-read-back step
	dir := os.Getenv("VERIF_SCRATCH")
	if dir == "" {
		dir = t.TempDir()
	}
	for i := 0; i < 16; i++ {
		sdir := filepath.Join(dir, fmt.Sprintf("c04store%d", i))
		_ = os.MkdirAll(sdir, 0o755)
		be, err := kvdb.GetBoltBackend(&kvdb.BoltBackendConfig{DBPath: sdir, DBFileName: "ret.db", NoFreelistSync: true,
			AutoCompactMinAge: kvdb.DefaultBoltAutoCompactMinAge, DBTimeout: kvdb.DefaultDBTimeout})
		if err != nil {
			t.Fatalf("retribution store: %v", err)
		}
		defer be.Close()
		h.stores = append(h.stores, &c04Store{store: NewRetributionStore(be)})
	}

	if rp := os.Getenv("VERIF_REPLAY"); rp != "" {
		b, err := os.ReadFile(rp)
		if err != nil {
			t.Fatalf("replay: %v", err)
		}
		var doc struct {
			Replay struct {
				Space    c04Space `json:"space"`
				History  []string `json:"history"`
				Terminal bool     `json:"terminal"`
			} `json:"replay"`
		}
		if err := json.Unmarshal(b, &doc); err != nil {
			t.Fatalf("replay: %v", err)
		}
		if err := h.replayHistory(&doc.Replay.Space, doc.Replay.History, doc.Replay.Terminal, true, nil); err != nil {
			t.Fatalf("replay: %v", err)
		}
		os.Exit(run.Finish(map[string]any{"evaluations": h.retributions.Load(), "distinct_nontrivial": h.classes.Distinct(),
			"rule": "replay of one recorded history", "samples": []any{rp}, "script_inputs_executed": h.inputsExecuted.Load()}))
	}

	budget := 170 * time.Second
	if run.Thorough() {
		budget = 27 * time.Minute
	}
	if s := os.Getenv("VERIF_BUDGET_S"); s != "" {
		if n, err := strconv.Atoi(s); err == nil {
			budget = time.Duration(n) * time.Second
		}
	}
	deadline := time.Now().Add(budget)
	spaces := c04Spaces(run.Thorough())
	// VERIF_SEED only rotates the order in which spaces are explored.
	if n := run.Seed(); n > 0 && len(spaces) > 0 {
		k := n % len(spaces)
		spaces = append(spaces[k:], spaces[:k]...)
	}
	var (
		states, transitions, replays, terminals int64
		complete                                int
		caps                                    []string
		perSpace                                []map[string]any
		recheck                                 map[string]any
	)
	explore1 := func(sp *c04Space, workers int) explore.Result {
		return explore.Run(explore.Options{
			New: func() (explore.World, error) {
				w, err := h.newWorld(sp)
				if err != nil {
					return nil, err
				}
				return w, nil
			},
			MaxDeviations: sp.Dev, Deadline: deadline, Workers: workers,
			Stop: func() bool { return run.Violations() >= 4 },
		}, func(hist []string, v any) {
			run.Violation(sp.P.Type+":panic", fmt.Sprintf("panic inside lnd: %v", v), map[string]any{"space": sp, "history": hist})
		})
	}
	// Spaces are explored concurrently (most are deviation-bounded and offer
	// little internal parallelism); full-interleaving spaces go first.
	order := make([]*c04Space, 0, len(spaces))
	for _, sp := range spaces {
		if sp.Dev < 0 {
			order = append(order, sp)
		}
	}
	for _, sp := range spaces {
		if sp.Dev >= 0 {
			order = append(order, sp)
		}
	}
	// Among the bounded spaces the small ones go first (work assignment only):
	// when the deadline cuts a run short on a loaded machine it then cuts into the
	// late deviations of a few large spaces instead of dropping whole small spaces
	// (the 168 dust-lattice cells are one space each).
	c04cost := func(sp *c04Space) int {
		if sp.Dev < 0 {
			return -1
		}
		return (len(sp.P.Script) + len(sp.P.Fees)) * (1 + 2*sp.Dev) * (1 + sp.P.MaxCuts)
	}
	sort.SliceStable(order, func(i, j int) bool {
		a, b := c04cost(order[i]), c04cost(order[j])
		if (a <= 3) != (b <= 3) || a <= 3 {
			return a < b
		}
		return a > b // the large ones: longest first (shorter makespan)
	})
	var (
		amu  sync.Mutex
		wg   sync.WaitGroup
		next atomic.Int64
	)
	pool := runtime.GOMAXPROCS(0)
	if pool > len(order) {
		pool = len(order)
	}
	for g := 0; g < pool; g++ {
		wg.Add(1)
		go func() {
			defer wg.Done()
			for {
				i := int(next.Add(1)) - 1
				if i >= len(order) {
					return
				}
				sp := order[i]
				if time.Now().After(deadline) {
					amu.Lock()
					caps = append(caps, "deadline before "+sp.name())
					amu.Unlock()
					continue
				}
				t0 := time.Now()
				workers := 2
				if sp.Dev < 0 {
					workers = 6
				}
				res := explore1(sp, workers)
				amu.Lock()
				states += res.States
				transitions += res.Transitions
				replays += res.Replays
				terminals += res.Terminals
				if res.Exhaustive {
					complete++
				} else {
					caps = append(caps, res.CapHit+" in "+sp.name())
				}
				perSpace = append(perSpace, map[string]any{"space": sp.name(), "states": res.States, "transitions": res.Transitions,
					"terminal_histories": res.Terminals, "max_depth": res.MaxDepth, "exhaustive": res.Exhaustive, "wall_s": time.Since(t0).Seconds()})
				amu.Unlock()
			}
		}()
	}
	wg.Wait()
	sort.Slice(perSpace, func(i, j int) bool { return perSpace[i]["space"].(string) < perSpace[j]["space"].(string) })
	sort.Strings(caps)
	// Determinism re-check: one completed space explored again must give
	// identical counts (hidden state outside the key would show up here). A
	// full-interleaving space is preferred: there states and transitions are both
	// schedule-independent. Under a deviation bound only the state set is (a state
	// first met with more deviations is re-expanded when met with fewer, so the
	// number of transitions depends on worker timing); there states are compared.
	for pass := 0; pass < 2 && recheck == nil && run.Violations() == 0; pass++ {
		for _, ps := range perSpace {
			if ps["exhaustive"] != true || ps["states"].(int64) > 3000 || ps["states"].(int64) < 40 || time.Now().After(deadline) {
				continue
			}
			var sp *c04Space
			for _, s := range spaces {
				if s.name() == ps["space"] {
					sp = s
				}
			}
			if sp == nil || (pass == 0 && sp.Dev >= 0) {
				continue
			}
			res := explore1(sp, 0)
			same := res.States == ps["states"].(int64)
			if sp.Dev < 0 {
				same = same && res.Transitions == ps["transitions"].(int64)
			}
			recheck = map[string]any{"space": sp.name(), "states_first": ps["states"], "states_second": res.States,
				"transitions_first": ps["transitions"], "transitions_second": res.Transitions, "identical": same}
			if res.Exhaustive && !same {
				caps = append(caps, "nondeterminism_detected in "+sp.name())
			}
			break
		}
	}
	if h.nondet.Load() > 0 {
		caps = append(caps, "nondeterminism_detected (violation candidate not reproduced)")
	}
	cov := map[string]any{
		"evaluations":         h.retributions.Load(),
		"distinct_nontrivial": h.classes.Distinct(),
		"rule": "evaluation = one NewBreachRetribution(victim state, revoked height, spendTx|nil) on a real two-peer history, followed (when it succeeds) by newRetributionInfo -> createJusticeTx and txscript.Engine.Execute on every input of every justice tx variant against the real outputs of the cheater's snapshotted transactions; " +
			"distinct_nontrivial = distinct classes (channel type, victim role, #offered/#accepted HTLC outputs, #outputs, spendTx given, amounts stored, reloaded, disk/live state) in which a justice transaction was built and executed",
		"samples":                                         h.samples.List(),
		"exhaustive":                                      len(caps) == 0,
		"caps_hit":                                        caps,
		"spaces":                                          len(spaces),
		"spaces_completed":                                complete,
		"states":                                          states,
		"transitions":                                     transitions,
		"histories_replayed_on_impl":                      replays,
		"terminal_histories":                              terminals,
		"revoked_heights_checked":                         h.heightsChecked.Load(),
		"revoked_heights_rechecked_on_reload":             h.reloadRechecks.Load(),
		"state_hint_checks":                               h.hintChecks.Load(),
		"err_rev_log_data_missing_as_spec":                h.missingAsSpec.Load(),
		"justice_txs_built":                               h.justiceTxs.Load(),
		"script_inputs_executed":                          h.inputsExecuted.Load(),
		"script_inputs_by_witness_type":                   h.wtypes.Map(),
		"second_level_conversions":                        h.secondLevel.Load(),
		"second_level_shifted_index":                      h.secondShifted.Load(),
		"cheater_second_level_txs_validated":              h.cheaterTxs.Load(),
		"retribution_store_round_trips":                   h.storeTrips.Load(),
		"lifetime_event_depth":                            h.lifeDepth,
		"lifetime_single_input_notifications":             h.lifeDeep,
		"lifetime_sequences_judged":                       h.lifeSeqs.Load(),
		"lifetime_create_justice_tx_calls":                h.lifeCreates.Load(),
		"lifetime_events_applied":                         h.lifeEvents.Load(),
		"lifetime_sequence_classes_hit":                   h.lifeClasses.Distinct(),
		"lifetime_sequence_classes":                       h.lifeClasses.Map(),
		"checks_skipped_on_replayed_prefix":               h.skippedReplay.Load(),
		"cheater_snapshots_distinct":                      h.snapshots.Load(),
		"justice_verifications_distinct":                  h.memoMisses.Load(),
		"justice_verifications_memoized":                  h.memoHits.Load(),
		"outcome_classes":                                 h.outcome.Map(),
		"dust_lattice_cells_hit":                          h.lattice.Distinct(),
		"dust_lattice_cells":                              h.lattice.Map(),
		"per_space":                                       perSpace,
		"determinism_recheck":                             recheck,
		"reloads":                                         h.stats.Reloads.Load(),
		"watcher_handles_loaded":                          h.handlesLoaded.Load(),
		"watcher_spends_delivered":                        h.watcherRuns.Load(),
		"watcher_writes_rolled_back":                      h.watchRolledBack.Load(),
		"watcher_end_of_history_deliveries_outside_bound": h.watchSkippedTerminal.Load(),
		"watcher_outcome_classes":                         h.watchOutcome.Map(),
		"watcher_cells_hit":                               h.watchCells.Distinct(),
		"watcher_cells":                                   h.watchCells.Map(),
		"signatures_verified_by_peer":                     h.stats.SigsVerified.Load(),
	}
	run.Assumptions = append(run.Assumptions,
		"histories: scripts of at most 3 HTLCs, one fee update, at most 2 reconnects; amounts on the dust thresholds; custom (aux-leaf) channels outside the alphabet",
		"height 0 is judged on the unsigned commitment (fixture has no real height-0 signature); only outputs matter to the victim-side oracles",
		"fee/weight estimation of the justice tx and BIP68 confirmation depth are not judged; only script validity, outpoints and amounts",
		"second-handle family: the chain watcher is driven through handleCommitSpend (what closeObserver calls once the spend has its confirmations); the confirmation/reorg state machine in front of it is not part of this property. The watcher's handles persist through a second channeldb handle on the victim's backend whose write transactions are executed and rolled back (the watcher's MarkBorked must not leak into the explored history); each delivery runs on OpenChannel.Copy() of the handle as loaded",
		"second-handle family, load-point alphabet: every distinct durable state of the victim's database ('loads=write' spaces) or world creation + every reload + every newly stored revocation ('loads=tail' spaces); delivery times: right after the revocation and after every reload on every explored history, at the end of the history on every history ('loads=write') or on the eager history of the space ('loads=tail'). Load points and delivery points are taken on the history by which the explorer reaches a state (the handles are not part of the canonical key)",
		"object-lifetime family: per distinct (victim, revoked commitment, retribution) job one retributionInfo object is driven through every sequence of at most lifetime_event_depth spend events (cheater's second-level tx k confirms; one of the victim's own justice tx variants built by the last createJusticeTx confirms, reported as one batch; thorough: single inputs of the last spend-all reported alone) with a createJusticeTx call before the first and after every event; enabledness and the expected input set come from a UTXO model of the cheater's transactions; second-level txs unshifted (index 0) in this family",
		"noRevLogAmtData worlds: both parties persist through a second channeldb handle on the same backend opened with OptionNoRevLogAmtData(true)")
	if code := run.Finish(cov); code != 0 {
		os.Exit(code)
	}
}

var _ = btcutil.Amount(0)
