// C12 harness, part 5: the chain watcher in front of the arbitrator ("pipe" spaces).
//
// The lattice spaces (c12_test.go) hand the arbitrator a synthetic CommitSet and
// synthetic resolutions. Here both come from the code that produces them in lnd:
// every reachable state of a small two-peer channel world (engine chanmc: real
// LightningChannels and channel databases, all interleavings of a short script) is
// taken from one party's point of view, and for each of the commitments that may
// confirm (own, peer's current, peer's pending) the stored commitment transaction is
// given to a real chainWatcher as the spend of the funding output
// (handleCommitSpend -> newChainSet, handleKnown{Local,Remote}State,
// dispatch{Local,Remote}ForceClose -> lnwallet close summaries). The event the
// watcher emits is then processed by an (un-started) ChannelArbitrator through
// handleLocalForceCloseEvent / handleRemoteForceCloseEvent, the functions the
// attendant goroutine calls.
//
// Oracles:
//   - differential, on the watcher: the event kind, ConfCommitKey and the three HTLC
//     sets of the CommitSet must be those of the commitment that was spent / of the
//     channel state read directly from the database;
//   - the spec function of spec_test.go (sentences 2 and 3 of C12), on a cell whose
//     HTLC table (membership, dust-ness, ids, expiries) is read off the three
//     commitments.
//   - family pipe/confirmed-tx (pipesum_test.go): the event and the resolutions the
//     close-event handler logs for the arbitrator are exactly those of the
//     transaction that confirmed (outpoints, scripts, values, expiries, level), for
//     every relation between the peer's current and pending commitment the channel
//     worlds reach (add, remove, dust<->output through a fee update, re-indexed
//     outputs, fee only), counted per class and party.
//
// The pipe spaces run before the lattice spaces under their own budget.
package contractcourt

import (
	"encoding/json"
	"fmt"
	"os"
	"reflect"
	"sort"
	"strings"
	"sync"
	"sync/atomic"
	"time"

	"github.com/btcsuite/btcd/chainhash/v2"
	"github.com/lightningnetwork/lnd/channeldb"
	"github.com/lightningnetwork/lnd/lntypes"
	"github.com/lightningnetwork/lnd/verifmc/chanmc"
	"github.com/lightningnetwork/lnd/verifmc/evid"
)

// c12PipeCase is one execution on a channel-world state (the replay artefact
// together with the world's parameters and history).
type c12PipeCase struct {
	Party int    `json:"party"` // whose node: 0 = A, 1 = B
	Pre   string `json:"pre"`   // none | user | chain (block at the first cutoff of an offered HTLC)
	Conf  string `json:"conf"`  // local | remote | pending
	// Known: bit k set = the node knows the preimage of HTLC k of the table
	// (offered first, ascending ids).
	Known uint32 `json:"known"`
	// Families pipe/observer and pipe/coop (pipeobs_test.go); zero values = the direct
	// handleCommitSpend call with one of the three commitments.
	//   Conf may also be "coop-final" / "coop-rbf": a cooperative close with input
	//   sequence wire.MaxTxInSequenceNum / mempool.MaxRBFSequence.
	//   Confs > 0: the started watcher (closeObserver) with chanCloseConfs = Confs.
	//   Rival: a spend detected BEFORE the one that confirms: local | remote | pending |
	//   coop-rbf | same (the confirming transaction itself, reported twice).
	//   Reorg: the rival is re-orged out (negative confirmation) before the confirming
	//   spend is detected; false: the later spend replaces it directly.
	//   ViaBeat: the spend that confirms is found by a block beat (handleBlockbeat ->
	//   checkFundingSpend) instead of the spend case of the observer's select.
	Confs   uint32 `json:"confs,omitempty"`
	Rival   string `json:"rival,omitempty"`
	Reorg   bool   `json:"reorg,omitempty"`
	ViaBeat bool   `json:"via_beat,omitempty"`
}

type c12PipeReplay struct {
	Params  chanmc.Params `json:"params"`
	History []string      `json:"history"`
	Pipe    c12PipeCase   `json:"pipe"`
}

const (
	c12PipeDelta = 5
	c12PipeH0    = 100 // below every cutoff (chanmc expiries start at 144)
)

// pipeCell reads the HTLC table of party i off the three commitments.
func pipeCell(w *chanmc.World, pc c12PipeCase) (c12Cell, error) {
	st := w.Chan(pc.Party).State()
	tip, err := st.RemoteCommitChainTip()
	if err != nil && err != channeldb.ErrNoPendingCommit {
		return c12Cell{}, err
	}
	real := &c12Real{
		sets: map[HtlcSetKey][]channeldb.HTLC{
			LocalHtlcSet:  st.LocalCommitment.Htlcs,
			RemoteHtlcSet: st.RemoteCommitment.Htlcs,
		},
		commit: map[HtlcSetKey]chainhash.Hash{
			LocalHtlcSet:  st.LocalCommitment.CommitTx.TxHash(),
			RemoteHtlcSet: st.RemoteCommitment.CommitTx.TxHash(),
		},
		chanState: st,
	}
	cell := c12Cell{DOut: c12PipeDelta, DIn: c12PipeDelta, GracePassed: true, Startup: true, real: real}
	if tip != nil {
		cell.HasPending = true
		real.sets[RemotePendingHtlcSet] = tip.Commitment.Htlcs
		real.commit[RemotePendingHtlcSet] = tip.Commitment.CommitTx.TxHash()
	}
	type key struct {
		in bool
		id uint64
	}
	idx := map[key]int{}
	var keys []key
	for _, k := range []HtlcSetKey{LocalHtlcSet, RemoteHtlcSet, RemotePendingHtlcSet} {
		for _, h := range real.sets[k] {
			kk := key{h.Incoming, h.HtlcIndex}
			if _, ok := idx[kk]; !ok {
				idx[kk] = 0
				keys = append(keys, kk)
			}
		}
	}
	sort.Slice(keys, func(a, b int) bool {
		if keys[a].in != keys[b].in {
			return !keys[a].in
		}
		return keys[a].id < keys[b].id
	})
	for n, kk := range keys {
		idx[kk] = n
	}
	cell.HTLCs = make([]c12HTLC, len(keys))
	real.out = make([][3]int32, len(keys))
	real.hashes = make([]lntypes.Hash, len(keys))
	real.preimages = make([]*lntypes.Preimage, len(keys))
	for n := range real.out {
		real.out[n] = [3]int32{-1, -1, -1}
	}
	for ci, k := range []HtlcSetKey{LocalHtlcSet, RemoteHtlcSet, RemotePendingHtlcSet} {
		for _, h := range real.sets[k] {
			n := idx[key{h.Incoming, h.HtlcIndex}]
			x := &cell.HTLCs[n]
			x.In, x.Idx, x.Exp, x.Fwd = h.Incoming, h.HtlcIndex, h.RefundTimeout, true
			p := int8(c12Dust)
			if h.OutputIndex >= 0 {
				p = c12Output
			}
			switch ci {
			case 0:
				x.L = p
			case 1:
				x.R = p
			default:
				x.P = p
			}
			real.out[n][ci] = h.OutputIndex
			real.hashes[n] = h.RHash
			if pre, ok := w.PreimageFor(h.RHash); ok {
				pp := lntypes.Preimage(pre)
				real.preimages[n] = &pp
			}
		}
	}
	for n := range cell.HTLCs {
		if pc.Known&(1<<uint(n)) != 0 && real.preimages[n] != nil {
			cell.HTLCs[n].Pre = c12PreBcn
		}
	}
	return cell, nil
}

// runPipe executes one case on the live channel world w (read-only for the world).
func runPipe(w *chanmc.World, typ string, pc c12PipeCase, info func(string, ...any)) (res c12DispResult, obs c12Obs, viols []c12Viol, cell c12Cell) {
	replaying := info != nil
	if info == nil {
		info = func(string, ...any) {}
	}
	bad := func(clause, format string, a ...any) {
		viols = append(viols, c12Viol{
			Sig:  fmt.Sprintf("pipe/%s/conf=%s/type=%s%s", clause, pc.Conf, typ, pc.tag()),
			What: fmt.Sprintf(format, a...),
		})
	}
	cell, err := pipeCell(w, pc)
	if err != nil {
		bad("harness", "cannot read the channel state: %v", err)
		return
	}
	sc := c12Scenario{Kind: "disp", Pre: pc.Pre, Conf: pc.Conf, H0: c12PipeH0}
	for k, h := range cell.HTLCs {
		info("HTLC #%d: %s idx=%d expiry=%d outputs(local,remote,pending)=%v", k, h.desc(cell.HasPending), h.Idx, h.Exp, cell.real.out[k])
	}
	var key HtlcSetKey
	if !pc.coop() {
		key, _ = confKey(pc.Conf)
	}
	if pc.Conf == "pending" && !cell.HasPending {
		res.Skipped = "no-pending-commitment"
		return
	}

	cw := newC12World(cell, info)
	defer cw.close()
	defer func() {
		if v := recover(); v != nil {
			viols = append(viols, c12Viol{Sig: "pipe/panic", What: fmt.Sprintf("panic: %v", v)})
		}
	}()

	hc := uint32(c12PipeH0)
	switch pc.Pre {
	case "user":
		cw.advance(hc, userTrigger, nil)
		hc++
	case "chain":
		// the first height at which sentence 1 demands a close for an offered HTLC
		h0 := uint32(0)
		for _, x := range cell.HTLCs {
			if !x.In && !c12Known(x.Pre) && x.L != c12Absent && (h0 == 0 || x.Exp-c12PipeDelta < h0) {
				h0 = x.Exp - c12PipeDelta
			}
		}
		if h0 == 0 {
			res.Skipped = "no-offered-htlc-to-expire"
			return
		}
		sc.H0, hc = h0, h0
		cw.advance(hc, chainTrigger, nil)
		if cw.snapshot().ForceCloses == 0 {
			bad("no-force-close-by-cutoff", "block %d is at the cutoff of an offered HTLC on our commitment but ForceCloseChan was not called", hc)
			return
		}
		hc++
	}

	// --- the chain watcher ---
	st := cell.real.chanState
	tx, confirmed, ownerDust, have := pipeTx(st, pc.Conf)
	if !have {
		res.Skipped = "no-such-transaction"
		return
	}
	txid := tx.TxHash()
	evs, ok := pipeDeliver(w, st, pc, tx, hc, replaying, info, bad)
	if !ok {
		if len(viols) == 0 {
			res.Skipped = "variant-not-applicable"
		}
		return
	}
	var (
		local  *LocalUnilateralCloseInfo
		remote *RemoteUnilateralCloseInfo
		cs     *CommitSet
		kind   = "none"
	)
	if len(evs) > 1 {
		bad("duplicate-event", "the %s transaction confirmed once but the chain watcher dispatched %d close events (%q, %q, ...)", pc.Conf, len(evs), evs[0].kind, evs[1].kind)
		return
	}
	if len(evs) == 1 {
		kind, local, remote = evs[0].kind, evs[0].local, evs[0].remote
		switch {
		case local != nil:
			cs = &local.CommitSet
		case remote != nil:
			cs = &remote.CommitSet
		}
	}
	want := "remote"
	switch {
	case pc.Conf == "local":
		want = "local"
	case pc.coop():
		want = "coop"
	}
	if kind != want {
		bad("wrong-event", "the %s transaction confirmed but the chain watcher dispatched a %q close event", pc.Conf, kind)
		return
	}
	if pc.coop() {
		// pipe/coop: the event names the transaction; the arbitrator has nothing to
		// resolve (a cooperative close is none of the three commitments).
		ci := evs[0].coop
		if ci == nil || ci.ChannelCloseSummary == nil || ci.ClosingTXID != txid || ci.ChanPoint != st.FundingOutpoint ||
			ci.CloseType != channeldb.CooperativeClose {

			bad("event-for-other-commitment", "the cooperative close %v confirmed but the event's summary names another transaction / channel / close type", txid)
			return
		}
		cw.setPhase(1)
		err := cw.arb.handleCoopCloseEvent(ci)
		info("cooperative close event handled -> %v err=%v", cw.arb.state, err)
		obs = cw.snapshot()
		obs.States = append(obs.States, cw.arb.state.String())
		if err != nil || len(obs.Errors) > 0 {
			bad("coop-error", "handling the cooperative close event failed: %v %v", err, obs.Errors)
		}
		if st := cw.arb.state; st != StateFullyResolved {
			bad("arbitrator-stuck", "after the cooperative close event the arbitrator is in %v", st)
		}
		if len(obs.Resolvers) > 0 {
			bad("coop-resolver", "a cooperative close has no commitment outputs, but %d resolver(s) were created", len(obs.Resolvers))
		}
		res.Classes = []string{fmt.Sprintf("coop|%s|htlcs=%d|state=%v", pc.Conf, len(cell.HTLCs), cw.arb.state)}
		return
	}
	if got := cs.ConfCommitKey.UnwrapOr(HtlcSetKey{IsPending: true}); cs.ConfCommitKey.IsNone() || got != key {
		bad("wrong-conf-key", "the %s commitment confirmed but CommitSet.ConfCommitKey is %v (set: %v)", pc.Conf, got, cs.ConfCommitKey.IsSome())
		return
	}
	for _, k := range []HtlcSetKey{LocalHtlcSet, RemoteHtlcSet, RemotePendingHtlcSet} {
		exp, have := cell.real.sets[k]
		got, ok := cs.HtlcSets[k]
		if ok != have || !sameHtlcs(exp, got) {
			bad("commit-set-differs", "CommitSet.HtlcSets[%v] differs from the channel's %v commitment: present=%v/%v got %d want %d HTLCs", k, k, ok, have, len(got), len(exp))
			return
		}
	}
	// the event describes the transaction that was spent
	switch {
	case local != nil:
		if local.CloseTx == nil || local.CloseTx.TxHash() != txid {
			bad("event-for-other-commitment", "our commitment %v confirmed but the local close event carries another close transaction", txid)
		}
	default:
		if remote.SpenderTxHash == nil || *remote.SpenderTxHash != txid {
			bad("event-for-other-commitment", "the %s commitment %v confirmed but the event's spender hash differs", pc.Conf, txid)
		}
		if rc := remote.RemoteCommit; rc.CommitTx == nil || rc.CommitTx.TxHash() != txid || rc.CommitHeight != confirmed.CommitHeight {
			h := "nil"
			if rc.CommitTx != nil {
				h = rc.CommitTx.TxHash().String()
			}
			bad("event-for-other-commitment", "the peer's %s commitment %v (height %d) confirmed but the close summary's RemoteCommit is %s (height %d)",
				pc.Conf, txid, confirmed.CommitHeight, h, rc.CommitHeight)
		}
	}

	// --- the arbitrator ---
	cw.setPhase(1)
	if local != nil {
		err = cw.arb.handleLocalForceCloseEvent(local)
	} else {
		err = cw.arb.handleRemoteForceCloseEvent(remote)
	}
	cw.mu.Lock()
	cw.obs.States = append(cw.obs.States, cw.arb.state.String())
	if err != nil {
		cw.obs.Errors = append(cw.obs.Errors, fmt.Sprintf("close event handler: %v", err))
	}
	cw.mu.Unlock()
	info("close event handled -> %v err=%v", cw.arb.state, err)
	// --- the resolutions handed to the arbitrator vs the confirmed transaction ---
	cw.log.mu.Lock()
	logged := cw.log.res
	cw.log.mu.Unlock()
	if err == nil {
		nr := judgeResolutions(tx, cell.real.sets[key], logged, pc.Conf == "local",
			confirmed.LocalBalance.ToSatoshis() >= ownerDust, bad)
		info("logged resolutions: %d HTLC resolution(s) judged against the %d outputs of %v", nr, len(tx.TxOut), txid)
	}
	obs = cw.snapshot()
	if st := cw.arb.state; st != StateWaitingFullResolution && st != StateFullyResolved {
		bad("arbitrator-stuck", "after the close event the arbitrator is in %v", st)
	}
	var jv []c12Viol
	res.Classes, jv = judgeDisp(&cell, sc, &obs)
	viols = append(viols, jv...)
	return
}

func sameHtlcs(a, b []channeldb.HTLC) bool {
	if len(a) != len(b) {
		return false
	}
	for i := range a {
		x, y := a[i], b[i]
		if x.Incoming != y.Incoming || x.HtlcIndex != y.HtlcIndex || x.OutputIndex != y.OutputIndex ||
			x.RHash != y.RHash || x.Amt != y.Amt || x.RefundTimeout != y.RefundTimeout || x.LogIndex != y.LogIndex ||
			!reflect.DeepEqual(x.OnionBlob, y.OnionBlob) {
			return false
		}
	}
	return true
}

type c12PipeStats struct {
	states, execs, nontrivial, skipped, viol atomic.Int64
	obsExecs, coopExecs                      atomic.Int64
}

// c12PipeSpaces explores the channel worlds and runs every pipe case on every
// distinct state. Returns coverage numbers; violations go to run.
func c12PipeSpaces(run *evid.Run, thorough bool, deadline time.Time, spaceInfo *[]map[string]any, capsHit *[]string,
	coarse map[string]int, fine map[string]int, samples interface{ Add(any) }, count func(sig string)) (execs, nontrivial int64) {

	var (
		ps    c12PipeStats
		mu    sync.Mutex
		gated = map[string]bool{}
		nSamp int
		pres  = []string{"none", "user"}
		// views: (state, party) pairs per relation between the peer's current and
		// pending commitment; viewsBy: the same per channel type.
		views   = map[string]int{}
		viewsBy = map[string]int{}
		knowns  = func(n int) []uint32 { return []uint32{0, 1<<uint(n) - 1} }
	)
	if thorough {
		pres = []string{"none", "user", "chain"}
		knowns = func(n int) []uint32 {
			var out []uint32
			for m := uint32(0); m < 1<<uint(n); m++ {
				out = append(out, m)
			}
			return out
		}
	}
	// reduced (worlds added for the confirmed-tx family): quick: no go-to-chain step
	// before the confirmation; thorough: {none, user} and preimage knowledge {none,
	// all} (the product with block-triggered closes and every knowledge assignment is
	// the lattice spaces' and the first worlds' business).
	onStateFor := func(params chanmc.Params, reduced, obsFull bool) func(w *chanmc.World) {
		pres, knowns := pres, knowns
		if reduced {
			pres = []string{"none"}
			if thorough {
				pres = []string{"none", "user"}
			}
			knowns = func(n int) []uint32 { return []uint32{0, 1<<uint(n) - 1} }
		}
		return func(w *chanmc.World) {
			ps.states.Add(1)
			for party := 0; party < 2; party++ {
				st := w.Chan(party).State()
				var pend *channeldb.ChannelCommitment
				if tip, err := st.RemoteCommitChainTip(); err == nil && tip != nil {
					pend = &tip.Commitment
				}
				diff := pendingDiffClasses(&st.RemoteCommitment, pend)
				mu.Lock()
				for _, d := range diff {
					views[d]++
					viewsBy[fmt.Sprintf("%s|party=%c|%s", params.Type, 'A'+party, d)]++
					views[fmt.Sprintf("%s@%c", d, 'A'+party)]++
				}
				mu.Unlock()
				n := map[string]bool{}
				for _, h := range st.LocalCommitment.Htlcs {
					n[fmt.Sprintf("%v/%d", h.Incoming, h.HtlcIndex)] = true
				}
				for _, h := range st.RemoteCommitment.Htlcs {
					n[fmt.Sprintf("%v/%d", h.Incoming, h.HtlcIndex)] = true
				}
				if tip, err := st.RemoteCommitChainTip(); err == nil && tip != nil {
					for _, h := range tip.Commitment.Htlcs {
						n[fmt.Sprintf("%v/%d", h.Incoming, h.HtlcIndex)] = true
					}
				}
				runCase := func(pc c12PipeCase) {
					res, obs, viols, cell := runPipe(w, params.Type, pc, nil)
					if res.Skipped != "" {
						ps.skipped.Add(1)
						return
					}
					ps.execs.Add(1)
					if len(obs.Msgs)+len(obs.Finals)+len(obs.Resolvers) > 0 {
						ps.nontrivial.Add(1)
					}
					mu.Lock()
					for _, c := range res.Classes {
						fine["pipe|"+c]++
					}
					coarse[fmt.Sprintf("pipe|%s|conf=%s|htlcs=%d|resolvers=%d|fails=%d|finals=%d", params.Type, pc.Conf+pc.tag(),
						len(cell.HTLCs), len(obs.Resolvers), len(obs.Msgs), len(obs.Finals))]++
					for _, d := range diff {
						coarse[fmt.Sprintf("pipe-pending-diff|%s|conf=%s", d, pc.Conf)]++
					}
					if nSamp < 2 && len(obs.Resolvers) > 0 && len(obs.Msgs) > 0 {
						nSamp++
						samples.Add(map[string]any{"pipe": pc, "params": params, "history": w.Hist(), "observations": obs, "classes": res.Classes})
					}
					mu.Unlock()
					if len(viols) == 0 {
						return
					}
					ps.viol.Add(1)
					for _, v := range viols {
						count(v.Sig)
						mu.Lock()
						dup := gated[v.Sig]
						gated[v.Sig] = true
						mu.Unlock()
						if dup {
							continue
						}
						rp := c12PipeReplay{Params: params, History: w.Hist(), Pipe: pc}
						if v.MapOrder {
							run.Violation(v.Sig, v.What+" [outcome depends on Go map iteration order inside lnd; may not reproduce on every replay]", rp)
							continue
						}
						// determinism gate on the same live world
						same := true
						for i := 0; i < 2 && same; i++ {
							_, o2, v2, _ := runPipe(w, params.Type, pc, nil)
							found := false
							for _, x := range v2 {
								if x.Sig == v.Sig {
									found = true
								}
							}
							if !found || (o2.canon() != obs.canon() && !cell.mapOrderSensitive()) {
								same = false
							}
						}
						if !same {
							fmt.Printf("INFO nondeterministic pipe observation (not reported): %s\n", v.Sig)
							mu.Lock()
							delete(gated, v.Sig)
							mu.Unlock()
							continue
						}
						run.Violation(v.Sig, v.What, rp)
					}
				}
				for _, pre := range pres {
					for _, conf := range []string{"local", "remote", "pending"} {
						for _, kn := range knowns(len(n)) {
							if len(n) == 0 && kn != 0 {
								continue
							}
							runCase(c12PipeCase{Party: party, Pre: pre, Conf: conf, Known: kn})
						}
					}
				}
				// families pipe/coop and pipe/observer (pipeobs_test.go)
				for _, pc := range c12ObserverCases(party, pend != nil, obsFull) {
					if pc.Confs > 0 {
						ps.obsExecs.Add(1)
					} else {
						ps.coopExecs.Add(1)
					}
					runCase(pc)
				}
			}
		}
	}

	spaces, fullCases := c12PipeWorlds(thorough)
	for i := range spaces {
		// The whole observer product runs on the first world of the tier (quick: tweakless,
		// one HTLC per direction; thorough: one all-types world per channel type, opener A); the other
		// worlds get the reduced set (see c12ObserverCases).
		obsFull := i == 0 || (thorough && !fullCases[spaces[i].P.Name()] && len(spaces[i].P.Fees) == 0 && len(spaces[i].P.Script) == 2 && !spaces[i].P.OpenerB)
		spaces[i].OnState = onStateFor(spaces[i].P, !fullCases[spaces[i].P.Name()], obsFull)
	}
	t0 := time.Now()
	sub := evid.Start("C12x", "exploration") // violations of the channel world itself are C01's business
	agg := chanmc.RunSpaces(sub, spaces, deadline, 0)
	// The engine's determinism re-check compares the state AND the transition count of
	// two explorations of one space. Under a deviation bound the set of states is a
	// fixpoint (every state reachable with <= Dev deviations, whatever the order), but
	// the number of transitions is not: a state first reached on a path with more
	// deviations is expanded again when a worker reaches it with fewer. Hidden state
	// outside the canonical key would show in the state count, so only that is held
	// against the run; the two counts are kept in the evidence.
	var caps []string
	for _, c := range agg.Caps {
		if strings.HasPrefix(c, "nondeterminism_detected") && agg.Recheck != nil &&
			fmt.Sprint(agg.Recheck["states_first"]) == fmt.Sprint(agg.Recheck["states_second"]) {
			continue
		}
		caps = append(caps, c)
	}
	agg.Caps = caps
	si := map[string]any{
		"space":          "pipe (chanmc state -> chainWatcher.handleCommitSpend -> arbitrator close-event handler)",
		"channel_states": agg.States, "channel_transitions": agg.Transitions, "worlds": len(spaces),
		"executions": ps.execs.Load(), "skipped": ps.skipped.Load(), "violating_executions": ps.viol.Load(),
		"complete": len(agg.Caps) == 0, "wall_s": time.Since(t0).Seconds(),
		"pending_diff_views": views, "pending_diff_views_by_type": viewsBy,
		"determinism_recheck": agg.Recheck, "per_world": agg.PerSpace,
		"observer_cases": ps.obsExecs.Load(), "coop_direct_cases": ps.coopExecs.Load(),
	}
	fmt.Printf("INFO pipe/observer: %d cases through the started watcher (closeObserver: confs x rival x replaced/re-orged), pipe/coop: %d direct cooperative-close cases\n",
		ps.obsExecs.Load(), ps.coopExecs.Load())
	var vl []string
	for _, d := range append([]string{"none"}, c12PendingDiffAll...) {
		vl = append(vl, fmt.Sprintf("%s=%d(A:%d,B:%d)", d, views[d], views[d+"@A"], views[d+"@B"]))
	}
	fmt.Printf("INFO pipe/confirmed-tx: (state,party) views by relation of the peer's pending to its current commitment: %s\n", strings.Join(vl, " "))
	if len(agg.Caps) == 0 {
		for _, d := range c12PendingDiffAll {
			if (views[d+"@A"] == 0 || views[d+"@B"] == 0) && d != "same" {
				fmt.Printf("INFO pipe/confirmed-tx: EMPTY CLASS %q - not reached from both parties' point of view\n", d)
				*capsHit = append(*capsHit, "pipe spaces: pending-diff class "+d+" not reached from both parties' point of view")
			}
		}
	}
	*spaceInfo = append(*spaceInfo, si)
	fmt.Printf("INFO space %-28s channel-states=%d executions=%d complete=%v wall=%.1fs\n", "pipe/chain-watcher",
		agg.States, ps.execs.Load(), len(agg.Caps) == 0, time.Since(t0).Seconds())
	if len(agg.Caps) > 0 {
		*capsHit = append(*capsHit, fmt.Sprintf("pipe spaces: %v", agg.Caps))
	}
	return ps.execs.Load(), ps.nontrivial.Load()
}

// c12ReplayPipe re-runs one pipe case: the channel world is rebuilt from its
// parameters and history, then the case is executed with every step printed.
func c12ReplayPipe(run *evid.Run, b []byte) error {
	var f struct {
		Replay c12PipeReplay `json:"replay"`
	}
	if err := json.Unmarshal(b, &f); err != nil {
		return err
	}
	info := func(format string, a ...any) { fmt.Printf("INFO "+format+"\n", a...) }
	report := func(sig, what string, hist []string, p chanmc.Params) {
		info("channel world reports %s: %s", sig, what)
	}
	w, err := chanmc.New(f.Replay.Params, report, nil)
	if err != nil {
		return err
	}
	defer w.Close()
	info("rebuilding the channel world %s: %d steps", f.Replay.Params.Name(), len(f.Replay.History))
	for i, a := range f.Replay.History {
		info("step %d: %s", i, a)
		if err := w.Do(a); err != nil {
			return fmt.Errorf("step %d (%s): %w", i, a, err)
		}
	}
	pc := f.Replay.Pipe
	info("pipe case: party=%d pre=%s conf=%s known=%b", pc.Party, pc.Pre, pc.Conf, pc.Known)
	res, obs, viols, _ := runPipe(w, f.Replay.Params.Type, pc, info)
	for _, c := range res.Classes {
		info("outcome: %s", c)
	}
	ob, _ := json.Marshal(obs)
	info("observations: %s", ob)
	for _, v := range viols {
		run.Violation(v.Sig, v.What, f.Replay)
	}
	return nil
}

func init() { _ = os.Getenv }
