// C12 harness, part 6: the close summary against the transaction that confirmed
// (family "pipe/confirmed-tx").
//
// Sentence 2 of C12 speaks about "every HTLC with an output on" the commitment that
// confirmed. Between the chain watcher and the arbitrator that commitment is
// represented twice: by CommitSet.ConfCommitKey / HtlcSets (what is classified) and
// by the ContractResolutions (what the resolvers are built from). The lattice spaces
// synthesise both consistently; the pipe spaces take both from the real chainWatcher.
// This file adds the clause that ties the second representation to the transaction
// itself, for each of the three commitments of every reachable channel state:
//
//	the resolutions the close-event handler logs for the arbitrator are exactly those
//	of the confirmed transaction: every HTLC entry of the confirmed commitment that has
//	an output gets one resolution of its own direction whose HTLC outpoint is
//	(confirmed txid, entry.OutputIndex), whose spend data is for the script / value /
//	expiry really sitting at that output, and whose level (direct claim on the peer's
//	commitment, second-level transaction on our own) is the one the commitment owner
//	implies; no resolution addresses anything else; the to-self and anchor resolutions
//	point at outputs of the confirmed transaction with matching script and value and
//	never at an HTLC output; the event describes the transaction that was spent.
//
// Every fact used is read off the confirmed transaction and the channeldb.HTLC
// entries of the confirmed commitment (OutputIndex, Amt, RefundTimeout, Incoming),
// never off lnd's own close-summary code.
//
// The second half of the file is the alphabet: which relations between the peer's
// current and its pending (un-revoked) commitment the channel worlds reach, counted
// per class so that an empty class is visible in the evidence.
package contractcourt

import (
	"bytes"
	"crypto/sha256"
	"fmt"
	"sort"

	"github.com/btcsuite/btcd/wire/v2"
	"github.com/lightningnetwork/lnd/channeldb"
	"github.com/lightningnetwork/lnd/input"
	"github.com/lightningnetwork/lnd/verifmc/chanmc"
)

func c12SameOut(sd *wire.TxOut, o *wire.TxOut) bool {
	return sd != nil && o != nil && sd.Value == o.Value && bytes.Equal(sd.PkScript, o.PkScript)
}

// c12WitnessScriptFits: for a P2WSH output the last witness element of a spend is
// the witness script and must hash to the output's program. Other output kinds
// (taproot) are not judged by this clause.
func c12WitnessScriptFits(w wire.TxWitness, o *wire.TxOut) bool {
	if len(o.PkScript) != 34 || o.PkScript[0] != 0x00 || o.PkScript[1] != 0x20 {
		return true
	}
	if len(w) == 0 {
		return false
	}
	h := sha256.Sum256(w[len(w)-1])
	return bytes.Equal(h[:], o.PkScript[2:])
}

// c12HtlcRes is the direction-independent view of one HTLC resolution.
type c12HtlcRes struct {
	in      bool
	point   wire.OutPoint
	second  *wire.MsgTx
	details *input.SignDetails
	sweep   input.SignDescriptor
	expiry  uint32 // outgoing only
}

// judgeResolutions is the clause described in the file comment. ownCommit: the
// confirmed commitment is ours (second-level transactions), else the peer's.
func judgeResolutions(tx *wire.MsgTx, entries []channeldb.HTLC, res *ContractResolutions, ownCommit bool,
	mustHaveSelf bool, bad func(clause, format string, a ...any)) (nRes int) {

	txid := tx.TxHash()
	if res == nil {
		bad("no-resolutions-logged", "the close event was handled but no ContractResolutions were logged")
		return 0
	}
	if res.CommitHash != txid {
		bad("resolutions-for-other-tx", "ContractResolutions.CommitHash is %v, the confirmed transaction is %v", res.CommitHash, txid)
	}
	want := map[uint32]*channeldb.HTLC{}
	for i := range entries {
		e := &entries[i]
		if e.OutputIndex < 0 {
			continue
		}
		if int(e.OutputIndex) >= len(tx.TxOut) || tx.TxOut[e.OutputIndex].Value != int64(e.Amt.ToSatoshis()) {
			// the stored commitment is not self-consistent: C01's business, but
			// nothing below would mean anything.
			bad("commitment-entry-not-on-tx", "HTLC entry (incoming=%v id=%d) claims output %d of the confirmed commitment, which has %d outputs / another value",
				e.Incoming, e.HtlcIndex, e.OutputIndex, len(tx.TxOut))
			return 0
		}
		if _, dup := want[uint32(e.OutputIndex)]; dup {
			bad("commitment-entry-not-on-tx", "two HTLC entries claim output %d", e.OutputIndex)
			return 0
		}
		want[uint32(e.OutputIndex)] = e
	}
	var all []c12HtlcRes
	for i := range res.HtlcResolutions.OutgoingHTLCs {
		r := &res.HtlcResolutions.OutgoingHTLCs[i]
		all = append(all, c12HtlcRes{in: false, point: r.HtlcPoint(), second: r.SignedTimeoutTx, details: r.SignDetails,
			sweep: r.SweepSignDesc, expiry: r.Expiry})
	}
	for i := range res.HtlcResolutions.IncomingHTLCs {
		r := &res.HtlcResolutions.IncomingHTLCs[i]
		all = append(all, c12HtlcRes{in: true, point: r.HtlcPoint(), second: r.SignedSuccessTx, details: r.SignDetails,
			sweep: r.SweepSignDesc})
	}
	seen := map[uint32]int{}
	for _, r := range all {
		dir := "outgoing"
		if r.in {
			dir = "incoming"
		}
		e, ok := want[r.point.Index]
		if r.point.Hash != txid || !ok {
			bad("resolution-without-output", "an %s HTLC resolution addresses %v, which is not an HTLC output of the confirmed commitment %v", dir, r.point, txid)
			continue
		}
		seen[r.point.Index]++
		if seen[r.point.Index] > 1 {
			bad("resolution-duplicate", "output %d of the confirmed commitment has %d HTLC resolutions", r.point.Index, seen[r.point.Index])
			continue
		}
		out := tx.TxOut[r.point.Index]
		if e.Incoming != r.in {
			bad("resolution-wrong-direction", "output %d carries HTLC incoming=%v id=%d but got an %s resolution", r.point.Index, e.Incoming, e.HtlcIndex, dir)
			continue
		}
		if !r.in && r.expiry != e.RefundTimeout {
			bad("resolution-for-another-htlc/expiry", "the outgoing resolution for output %d has expiry %d, the HTLC there (id %d) expires at %d",
				r.point.Index, r.expiry, e.HtlcIndex, e.RefundTimeout)
		}
		switch {
		case !ownCommit:
			if r.second != nil {
				bad("resolution-wrong-level", "the peer's commitment confirmed but the resolution for output %d carries a second-level transaction", r.point.Index)
				break
			}
			// direct claim: the sign descriptor must be for what sits at the output
			if !c12SameOut(r.sweep.Output, out) {
				v, l := int64(-1), -1
				if r.sweep.Output != nil {
					v, l = r.sweep.Output.Value, len(r.sweep.Output.PkScript)
				}
				bad("resolution-for-another-script", "the %s resolution for output %d of the confirmed commitment (HTLC id %d, %d sat) signs for another script/value (%d sat, %d-byte script; same script: %v)",
					dir, r.point.Index, e.HtlcIndex, out.Value, v, l, r.sweep.Output != nil && bytes.Equal(r.sweep.Output.PkScript, out.PkScript))
			}
		default:
			if r.second == nil {
				bad("resolution-wrong-level", "our own commitment confirmed but the resolution for output %d has no second-level transaction", r.point.Index)
				break
			}
			if len(r.second.TxIn) != 1 {
				bad("resolution-for-another-script", "second-level transaction for output %d has %d inputs", r.point.Index, len(r.second.TxIn))
				break
			}
			if !r.in && r.second.LockTime != e.RefundTimeout {
				bad("resolution-for-another-htlc/expiry", "the timeout transaction for output %d has lock time %d, the HTLC there (id %d) expires at %d",
					r.point.Index, r.second.LockTime, e.HtlcIndex, e.RefundTimeout)
			}
			if r.details != nil && !c12SameOut(r.details.SignDesc.Output, out) {
				bad("resolution-for-another-script", "the sign details of the second-level transaction for output %d are for another script/value", r.point.Index)
			}
			if !c12WitnessScriptFits(r.second.TxIn[0].Witness, out) {
				bad("resolution-for-another-script", "the witness script of the second-level transaction spending output %d does not hash to that output's script", r.point.Index)
			}
		}
	}
	var missing []int
	for idx := range want {
		if seen[idx] == 0 {
			missing = append(missing, int(idx))
		}
	}
	sort.Ints(missing)
	for _, idx := range missing {
		e := want[uint32(idx)]
		bad("resolution-missing", "HTLC incoming=%v id=%d has output %d on the confirmed commitment but the logged resolutions contain none for it (%d outgoing, %d incoming resolutions in total)",
			e.Incoming, e.HtlcIndex, idx, len(res.HtlcResolutions.OutgoingHTLCs), len(res.HtlcResolutions.IncomingHTLCs))
	}

	// the non-HTLC resolutions
	nonHtlc := func(what string, op wire.OutPoint, sd *wire.TxOut) {
		switch {
		case op.Hash != txid || int(op.Index) >= len(tx.TxOut):
			bad("non-htlc-resolution-off-tx", "the %s resolution addresses %v, not an output of the confirmed commitment %v", what, op, txid)
		case want[op.Index] != nil:
			bad("non-htlc-resolution-on-htlc-output", "the %s resolution addresses output %d, which is an HTLC output", what, op.Index)
		case !c12SameOut(sd, tx.TxOut[op.Index]):
			bad("non-htlc-resolution-for-another-script", "the %s resolution for output %d signs for another script/value", what, op.Index)
		}
	}
	if cr := res.CommitResolution; cr != nil {
		nonHtlc("to-self", cr.SelfOutPoint, cr.SelfOutputSignDesc.Output)
	} else if mustHaveSelf {
		bad("to-self-resolution-missing", "our settled balance on the confirmed commitment is above the dust limit but no commit resolution was logged")
	}
	if ar := res.AnchorResolution; ar != nil {
		nonHtlc("anchor", ar.CommitAnchor, ar.AnchorSignDescriptor.Output)
		if cr := res.CommitResolution; cr != nil && cr.SelfOutPoint == ar.CommitAnchor {
			bad("non-htlc-resolution-on-htlc-output", "to-self and anchor resolutions address the same output %d", ar.CommitAnchor.Index)
		}
	}
	return len(all)
}

// ---------------------------------------------------------------------------
// alphabet accounting: relation between the peer's current and pending commitment
// ---------------------------------------------------------------------------

// pendingDiffClasses names every way in which the pending remote commitment of the
// state differs from the current one (from one party's point of view):
//
//	add       an HTLC is on the pending commitment only
//	remove    an HTLC is on the current commitment only
//	dust>out  on both, dust on the current one, an output on the pending one
//	out>dust  on both, the other way round
//	reindex   on both with an output, at different output indexes
//	fee       the fee rate differs
//	same      none of the above (a pending commitment that changes balances only)
//
// "none" = the state has no pending remote commitment.
func pendingDiffClasses(cur *channeldb.ChannelCommitment, pend *channeldb.ChannelCommitment) []string {
	if pend == nil {
		return []string{"none"}
	}
	type k struct {
		in bool
		id uint64
	}
	c := map[k]int32{}
	for _, h := range cur.Htlcs {
		c[k{h.Incoming, h.HtlcIndex}] = h.OutputIndex
	}
	set := map[string]bool{}
	for _, h := range pend.Htlcs {
		o, ok := c[k{h.Incoming, h.HtlcIndex}]
		delete(c, k{h.Incoming, h.HtlcIndex})
		switch {
		case !ok:
			set["add"] = true
		case o < 0 && h.OutputIndex >= 0:
			set["dust>out"] = true
		case o >= 0 && h.OutputIndex < 0:
			set["out>dust"] = true
		case o >= 0 && o != h.OutputIndex:
			set["reindex"] = true
		}
	}
	if len(c) > 0 {
		set["remove"] = true
	}
	if cur.FeePerKw != pend.FeePerKw {
		set["fee"] = true
	}
	if len(set) == 0 {
		return []string{"same"}
	}
	var out []string
	for s := range set {
		out = append(out, s)
	}
	sort.Strings(out)
	return out
}

var c12PendingDiffAll = []string{"add", "remove", "dust>out", "out>dust", "reindex", "fee", "same"}

// ---------------------------------------------------------------------------
// channel worlds of the pipe spaces
// ---------------------------------------------------------------------------

// c12PipeWorlds lists the channel worlds. The crossing rule: every relation of
// pendingDiffClasses must be reached from BOTH parties' point of view where the
// protocol allows it (only the opener sends update_fee, so the opener sees "fee" on
// its pending view when it signs, the other party when it signs next), on a channel
// type with fee-dependent HTLC dust (tweakless/legacy), on an anchor type and on a
// taproot type; legacy is in because only there the to-self script of the peer's
// commitment depends on the per-commitment point of the confirmed commitment.
//
// Dev 1 (one deviation from the eager order) is what makes two HTLCs / an HTLC and a
// fee update overlap: the eager order resolves one before it starts the next.
func c12PipeWorlds(thorough bool) (spaces []chanmc.Space, full map[string]bool) {
	sat := func(s int64) uint64 { return uint64(s) * 1000 }
	th := chanmc.Thresholds("tweakless", 6000, 200, 1300)
	thUp := chanmc.Thresholds("tweakless", 7000, 200, 1300)
	thDn := chanmc.Thresholds("tweakless", 5000, 200, 1300)
	tha := chanmc.Thresholds("anchors", 6000, 200, 1300)
	_ = thUp
	// Amounts straddle the dust thresholds so that dust-ness differs between the two
	// parties' commitments (asymmetric dust limits 200 / 1300 sat).
	if !thorough {
		spaces = []chanmc.Space{
			// (original two worlds: full per-state case set)
			{P: chanmc.Params{Type: "tweakless", Script: []chanmc.Intent{
				{By: 0, Amt: sat(th[1] + 50), Fate: "settle"}, {By: 1, Amt: sat(th[2] + 5), Fate: "fail"},
			}}, Dev: 1},
			// two offered HTLCs overlapping, ascending amounts: the removal of the
			// first moves the second to a lower output index
			{P: chanmc.Params{Type: "anchors", OpenerB: true, Script: []chanmc.Intent{
				{By: 0, Amt: sat(tha[0] + 20), Fate: "fail"}, {By: 0, Amt: sat(tha[1] + 500), Fate: "settle"},
			}}, Dev: 1},
			// descending amounts: the add of the second moves the first to a higher
			// output index (legacy: per-commitment to-self key); the mirrored world
			// (B offers, B opens) is in the thorough tier
			{P: chanmc.Params{Type: "legacy", Script: []chanmc.Intent{
				{By: 0, Amt: sat(9000), Fate: "settle"}, {By: 0, Amt: sat(7000), Fate: "fail"},
			}}, Dev: 1},
			// fee update up while an HTLC is locked in (one world per direction: with one
			// deviation only the first HTLC of the script overlaps the fee update): an
			// output just above the 6000 sat/kw threshold of the peer's commitment becomes
			// dust on the pending one. Opener A sees it when it signs the fee update, B when
			// it signs next.
			{P: chanmc.Params{Type: "tweakless", Fees: []int64{7000}, Script: []chanmc.Intent{
				{By: 0, Amt: sat(th[1] + 50), Fate: "settle"},
			}}, Dev: 1},
			{P: chanmc.Params{Type: "tweakless", Fees: []int64{7000}, Script: []chanmc.Intent{
				{By: 1, Amt: sat(th[3] + 50), Fate: "fail"},
			}}, Dev: 1},
			// fee update down (opener B): dust just below the 6000 thresholds gets an output
			{P: chanmc.Params{Type: "tweakless", OpenerB: true, Fees: []int64{5000}, Script: []chanmc.Intent{
				{By: 0, Amt: sat(thDn[1] + 50), Fate: "fail"},
			}}, Dev: 1},
			{P: chanmc.Params{Type: "tweakless", OpenerB: true, Fees: []int64{5000}, Script: []chanmc.Intent{
				{By: 1, Amt: sat(thDn[3] + 50), Fate: "settle"},
			}}, Dev: 1},
			// taproot: script-path claims, aux-leaf plumbing
			{P: chanmc.Params{Type: "taproot", Script: []chanmc.Intent{
				{By: 1, Amt: sat(2000), Fate: "settle"}, {By: 0, Amt: sat(3000), Fate: "fail"},
			}}, Dev: 1},
		}
		return spaces, map[string]bool{spaces[0].P.Name(): true, spaces[1].P.Name(): true}
	}
	// The cheap all-types worlds come first so that a deadline cap (shared machine) cuts
	// the deep old worlds rather than the breadth of the new family.
	// every channel type: two overlapping HTLCs with descending amounts, offered by A
	// (A opens) / by B (B opens)
	for _, typ := range chanmc.AllTypes {
		for by, openerB := range []bool{false, true} {
			spaces = append(spaces, chanmc.Space{P: chanmc.Params{Type: typ, OpenerB: openerB, Script: []chanmc.Intent{
				{By: by, Amt: sat(9000), Fate: "settle"}, {By: by, Amt: sat(7000), Fate: "fail"},
			}}, Dev: 1})
		}
	}
	deep := []chanmc.Space{
		{P: chanmc.Params{Type: "tweakless", Script: []chanmc.Intent{
			{By: 0, Amt: sat(th[1] + 50), Fate: "settle"}, {By: 1, Amt: sat(th[2] + 5), Fate: "fail"},
		}}, Dev: -1},
		{P: chanmc.Params{Type: "tweakless", Fees: []int64{7000}, Script: []chanmc.Intent{
			{By: 0, Amt: sat(th[0] + 20), Fate: "fail"}, {By: 1, Amt: sat(th[3] + 20), Fate: "settle"},
		}}, Dev: 2},
		{P: chanmc.Params{Type: "anchors", OpenerB: true, Script: []chanmc.Intent{
			{By: 0, Amt: sat(tha[0] + 20), Fate: "fail"}, {By: 0, Amt: sat(tha[1] + 500), Fate: "settle"},
		}}, Dev: 2},
		{P: chanmc.Params{Type: "taproot", Script: []chanmc.Intent{
			{By: 1, Amt: sat(2000), Fate: "settle"}, {By: 0, Amt: sat(3000), Fate: "settle"},
		}}, Dev: 1},
		{P: chanmc.Params{Type: "lease", Script: []chanmc.Intent{
			{By: 0, Amt: sat(3000), Fate: "settle"}, {By: 1, Amt: sat(250), Fate: "fail"},
		}}, Dev: 1},
		// --- family pipe/confirmed-tx, deeper variant ---
		// fee up and down in one world, both openers, Dev 2
		{P: chanmc.Params{Type: "tweakless", Fees: []int64{7000, 5000}, Script: []chanmc.Intent{
			{By: 0, Amt: sat(th[1] + 50), Fate: "settle"}, {By: 1, Amt: sat(thDn[3] + 50), Fate: "fail"},
		}}, Dev: 2},
		{P: chanmc.Params{Type: "legacy", OpenerB: true, Fees: []int64{5000, 7000}, Script: []chanmc.Intent{
			{By: 0, Amt: sat(thDn[1] + 50), Fate: "fail"}, {By: 1, Amt: sat(th[3] + 50), Fate: "settle"},
		}}, Dev: 2},
		// three overlapping HTLCs, amounts neither ascending nor descending
		{P: chanmc.Params{Type: "tweakless", Script: []chanmc.Intent{
			{By: 0, Amt: sat(8000), Fate: "settle"}, {By: 0, Amt: sat(6500), Fate: "fail"}, {By: 1, Amt: sat(7200), Fate: "settle"},
		}}, Dev: 2},
	}
	full = map[string]bool{}
	for _, sp := range deep[:5] {
		full[sp.P.Name()] = true
	}
	return append(spaces, deep...), full
}

func init() { _ = fmt.Sprint }
