// C12 harness, part 4 (thorough tier): cross-check of the membership-pattern table.
//
// Every reachable state of small two-peer channel worlds (engine chanmc: real
// LightningChannels, all interleavings incl. a fee update) is inspected from both
// parties' point of view: for every HTLC on any of {local commitment, remote
// commitment, remote commit-chain tip} the pattern (direction, L, R, P,
// pending-exists) is collected, exactly as chain_watcher.newChainSet would build the
// CommitSet. The observed set must be a subset of c12Patterns (otherwise the
// enumeration misses a reachable cell) and table entries never observed are listed in
// the evidence (cells that may be unreachable).
package contractcourt

import (
	"fmt"
	"sort"
	"sync"
	"time"

	"github.com/lightningnetwork/lnd/channeldb"
	"github.com/lightningnetwork/lnd/verifmc/chanmc"
	"github.com/lightningnetwork/lnd/verifmc/evid"
)

func c12CrossCheckPatterns(run *evid.Run, spaceInfo *[]map[string]any, capsHit *[]string) {
	var (
		mu       sync.Mutex
		observed = map[string]int{}
		dustDiff = map[string]int{}
	)
	key := func(p c12Pat, pending bool) string {
		b := func(x bool, s string) string {
			if x {
				return s
			}
			return "-"
		}
		d := "out"
		if p.In {
			d = "in"
		}
		pp := "x"
		if pending {
			pp = b(p.P, "P")
		}
		return fmt.Sprintf("%s:%s%s%s", d, b(p.L, "L"), b(p.R, "R"), pp)
	}
	onState := func(w *chanmc.World) {
		for i := 0; i < 2; i++ {
			st := w.Chan(i).State()
			tip, err := st.RemoteCommitChainTip()
			pending := err == nil && tip != nil
			type ent struct {
				pat     c12Pat
				dust    [3]bool
				present [3]bool
			}
			m := map[string]*ent{}
			put := func(hs []channeldb.HTLC, which int) {
				for _, h := range hs {
					k := fmt.Sprintf("%v/%d", h.Incoming, h.HtlcIndex)
					e := m[k]
					if e == nil {
						e = &ent{pat: c12Pat{In: h.Incoming}}
						m[k] = e
					}
					e.present[which] = true
					e.dust[which] = h.OutputIndex < 0
				}
			}
			put(st.LocalCommitment.Htlcs, 0)
			put(st.RemoteCommitment.Htlcs, 1)
			if pending {
				put(tip.Commitment.Htlcs, 2)
			}
			mu.Lock()
			for _, e := range m {
				e.pat.L, e.pat.R, e.pat.P = e.present[0], e.present[1], e.present[2]
				observed[key(e.pat, pending)]++
				for a := 0; a < 3; a++ {
					for b := a + 1; b < 3; b++ {
						if e.present[a] && e.present[b] && e.dust[a] != e.dust[b] {
							dustDiff[fmt.Sprintf("%s dust differs %s/%s", key(e.pat, pending), "LRP"[a:a+1], "LRP"[b:b+1])]++
						}
					}
				}
			}
			mu.Unlock()
		}
	}

	// Amounts straddle the dust thresholds of the legacy commitment format so that
	// dust-ness differs between the parties' commitments and across the fee update.
	th := chanmc.Thresholds("tweakless", 6000, 200, 1300)
	sat := func(s int64) uint64 { return uint64(s) * 1000 }
	spaces := []chanmc.Space{
		{P: chanmc.Params{Type: "tweakless", Script: []chanmc.Intent{
			{By: 0, Amt: sat(th[1] + 50), Fate: "settle"}, {By: 1, Amt: sat(th[2] + 5), Fate: "fail"},
		}}, Dev: -1, OnState: onState},
		{P: chanmc.Params{Type: "tweakless", Fees: []int64{7000}, Script: []chanmc.Intent{
			{By: 0, Amt: sat(th[0] + 20), Fate: "fail"}, {By: 1, Amt: sat(th[3] + 20), Fate: "settle"},
		}}, Dev: -1, OnState: onState},
		{P: chanmc.Params{Type: "anchors", OpenerB: true, Fees: []int64{7000}, Script: []chanmc.Intent{
			{By: 1, Amt: sat(2000), Fate: "settle"}, {By: 0, Amt: sat(3000), Fate: "settle"},
		}}, Dev: -1, OnState: onState},
	}
	t0 := time.Now()
	sub := evid.Start("C12x", "exploration") // violations of the channel world itself are C01's business
	agg := chanmc.RunSpaces(sub, spaces, time.Now().Add(6*time.Minute), 0)

	table := map[string]bool{}
	for pending, ps := range c12Patterns {
		for _, p := range ps {
			table[key(p, pending)] = true
		}
	}
	var missing, unobserved []string
	for k := range observed {
		if !table[k] {
			missing = append(missing, k)
		}
	}
	for k := range table {
		if observed[k] == 0 {
			unobserved = append(unobserved, k)
		}
	}
	sort.Strings(missing)
	sort.Strings(unobserved)
	info := map[string]any{
		"space": "pattern cross-check (chanmc)", "states": agg.States, "transitions": agg.Transitions,
		"patterns_observed": observed, "dust_differences_observed": dustDiff,
		"observed_but_not_in_table": missing, "table_entries_not_observed": unobserved,
		"complete": len(agg.Caps) == 0, "wall_s": time.Since(t0).Seconds(),
	}
	*spaceInfo = append(*spaceInfo, info)
	fmt.Printf("INFO pattern cross-check: %d states, %d distinct patterns observed, not in table: %v, table entries not observed: %v\n",
		agg.States, len(observed), missing, unobserved)
	if len(missing) > 0 {
		*capsHit = append(*capsHit, fmt.Sprintf("membership patterns observed in chanmc but not enumerated: %v", missing))
	}
	if len(agg.Caps) > 0 {
		*capsHit = append(*capsHit, "pattern cross-check: "+fmt.Sprint(agg.Caps))
	}
}
