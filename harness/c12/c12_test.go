// C12 harness, part 3: enumeration of the cells, worker pool, evidence, replay.
//
// Reachable membership patterns of ONE HTLC over (local, remote, remote-pending)
// — derivation from the BOLT-2 update discipline as lnd implements it (an update
// enters the *receiver's* commitment when the sender signs, and the *sender's*
// commitment only after the receiver has revoked, i.e. acked it; lnd keeps at most
// one unrevoked remote commitment, the "pending" one):
//
//	offered by us (we add, they remove):
//	  add:    we sign            -> (-,-,P)   only on the pending remote commitment
//	          they revoke        -> (-,R,x)   pending became current; (-,R,P) if we sign again
//	          they sign          -> (L,R,x) / (L,R,P)
//	  remove: they sign w/o it   -> (-,R,x) / (-,R,P)   gone from ours first
//	          we revoke and sign -> (-,R,-)   pending no longer has it
//	          they revoke        -> gone
//	  never:  L without R (their signature covering our add needs their revocation
//	          first), (L,R,-) (we may leave it out of a remote commitment only after
//	          having revoked the local one that still had it).
//	received (they add, we remove):
//	  add:    they sign          -> (L,-,x) / (L,-,-)   pending (if any) predates our ack
//	          we revoke and sign -> (L,-,P)
//	          they revoke        -> (L,R,x) / (L,R,P)
//	  remove: we sign w/o it     -> (L,R,-)
//	          they revoke        -> (L,-,x) / (L,-,-)
//	          they sign          -> gone
//	  never:  R or P without L.
//	("x" = no pending commitment exists.) The thorough tier cross-checks this table
//	against the patterns observed in every reachable state of a chanmc two-peer
//	world (TestC12 section "pattern cross-check").
package contractcourt

import (
	"encoding/json"
	"fmt"
	"os"
	"runtime"
	"sort"
	"strings"
	"sync"
	"sync/atomic"
	"testing"
	"time"

	"github.com/lightningnetwork/lnd/verifmc/evid"
)

type c12Pat struct {
	In      bool
	L, R, P bool
}

// reachable patterns, see the derivation above.
var c12Patterns = map[bool][]c12Pat{
	false: { // no pending remote commitment
		{false, false, true, false}, {false, true, true, false},
		{true, true, false, false}, {true, true, true, false},
	},
	true: { // a pending remote commitment exists
		{false, false, false, true}, {false, false, true, true}, {false, false, true, false}, {false, true, true, true},
		{true, true, false, false}, {true, true, false, true}, {true, true, true, true}, {true, true, true, false},
	},
}

// c12Alphabet controls which per-HTLC variants are enumerated.
type c12Alphabet struct {
	Name        string
	UniformDust bool   // dust-ness identical on every commitment the HTLC is on
	Pre         []int8 // preimage knowledge values
	Fwd         []bool // for offered HTLCs
	ExpClasses  int    // number of expiry classes (meaning depends on the run kind)
	OnlyOutput  bool   // no dust at all (reduced alphabets)
}

type c12Var struct {
	c12HTLC
	E int8 // expiry class
}

func c12Variants(hasPending bool, a c12Alphabet) []c12Var {
	var out []c12Var
	for _, p := range c12Patterns[hasPending] {
		// dust assignments
		var pres [][3]int8
		sets := []bool{p.L, p.R, p.P}
		var rec func(i int, cur [3]int8)
		rec = func(i int, cur [3]int8) {
			if i == 3 {
				pres = append(pres, cur)
				return
			}
			if !sets[i] {
				cur[i] = c12Absent
				rec(i+1, cur)
				return
			}
			for _, v := range []int8{c12Output, c12Dust} {
				if a.OnlyOutput && v == c12Dust {
					continue
				}
				cur[i] = v
				rec(i+1, cur)
			}
		}
		rec(0, [3]int8{})
		for _, pr := range pres {
			if a.UniformDust {
				v := int8(0)
				ok := true
				for _, q := range pr {
					if q == c12Absent {
						continue
					}
					if v == 0 {
						v = q
					} else if v != q {
						ok = false
					}
				}
				if !ok {
					continue
				}
			}
			for _, pre := range a.Pre {
				fwds := a.Fwd
				if p.In {
					fwds = []bool{false}
				}
				for _, f := range fwds {
					for e := 0; e < a.ExpClasses; e++ {
						out = append(out, c12Var{
							c12HTLC: c12HTLC{In: p.In, L: pr[0], R: pr[1], P: pr[2], Pre: pre, Fwd: f},
							E:       int8(e),
						})
					}
				}
			}
		}
	}
	return out
}

// dustConsistent: the dust-ness of same-direction HTLCs must be explainable by one
// threshold per commitment: no two HTLCs a,b and commitments X,Y (both on both) with
// a dust on X, output on Y while b is output on X, dust on Y.
func dustConsistent(hs []c12Var) bool {
	get := func(h c12Var, i int) int8 { return [3]int8{h.L, h.R, h.P}[i] }
	for i := 0; i < len(hs); i++ {
		for j := i + 1; j < len(hs); j++ {
			a, b := hs[i], hs[j]
			if a.In != b.In {
				continue
			}
			for x := 0; x < 3; x++ {
				for y := x + 1; y < 3; y++ {
					ax, ay, bx, by := get(a, x), get(a, y), get(b, x), get(b, y)
					if ax == 0 || ay == 0 || bx == 0 || by == 0 {
						continue
					}
					if ax != ay && bx != by && ax != bx {
						return false
					}
				}
			}
		}
	}
	return true
}

// forEachMultiset enumerates all multisets of size n over vars (indices
// non-decreasing: the arbitrator keys HTLCs by id in maps, so order is immaterial).
func forEachMultiset(vars []c12Var, n int, f func([]c12Var) bool) {
	idx := make([]int, n)
	cur := make([]c12Var, n)
	var rec func(pos, from int) bool
	rec = func(pos, from int) bool {
		if pos == n {
			if !dustConsistent(cur) {
				return true
			}
			return f(cur)
		}
		for i := from; i < len(vars); i++ {
			idx[pos] = i
			cur[pos] = vars[i]
			if !rec(pos+1, i) {
				return false
			}
		}
		return true
	}
	rec(0, 0)
}

type c12Config struct {
	DOut, DIn uint32
	Grace     bool
	// GraceMode: see c12Cell.GraceMode (0 = 1h grace period, uptime per Grace).
	GraceMode int8
}

// c12CellVar: the cell-level audit dimensions of one job (see c12Cell).
type c12CellVar struct {
	Startup, LateFeed, SameHash bool
	Numbering, Extras, Hist     int8
}

// c12ScenSet selects the scenario families of a disposition space.
type c12ScenSet struct {
	Base       bool // {none,chain,user} x confirmations
	BreachCoop bool // also breach and cooperative-close confirmations
	Faults     bool // go-to-chain step x {dataloss, doublespend, mempoolfee, pubfail}
	Restarts   bool // restarts at quiescent points (pre, redeliver, unmarked)
	Deep       bool // thorough: fault x restart products, pre+redeliver
	LateStart  bool // time: ONLY sweeps whose first height is past a cutoff / an expiry
}

// ---------------------------------------------------------------------------
// work plan
// ---------------------------------------------------------------------------

var c12TimeExp = []uint32{100, 104, 109}

const c12H0 = 200

type c12Job struct {
	kind    string // time | disp
	hs      []c12Var
	pending bool
	cfg     c12Config
	cv      c12CellVar
	// scen: scenario families (disp); breach and cooperative-close confirmations
	// are judged for panic/error freedom only.
	scen c12ScenSet
}

type c12Space struct {
	Name    string
	Kind    string
	N       int
	Alpha   c12Alphabet
	Configs []c12Config
	Vars    []c12CellVar
	Scen    c12ScenSet
}

func allConfigs(deltas []uint32) []c12Config {
	var out []c12Config
	for _, o := range deltas {
		for _, i := range deltas {
			for _, g := range []bool{true, false} {
				out = append(out, c12Config{DOut: o, DIn: i, Grace: g})
			}
		}
	}
	return out
}

func (j *c12Job) cell() c12Cell {
	c := c12Cell{HasPending: j.pending, DOut: j.cfg.DOut, DIn: j.cfg.DIn, GracePassed: j.cfg.Grace, Startup: j.cv.Startup,
		GraceMode: j.cfg.GraceMode, Numbering: j.cv.Numbering, Extras: j.cv.Extras, Hist: j.cv.Hist,
		SameHash: j.cv.SameHash, LateFeed: j.cv.LateFeed}
	switch c.GraceMode {
	case 1, 3:
		c.GracePassed = false
	case 2:
		c.GracePassed = true
	}
	for _, v := range j.hs {
		h := v.c12HTLC
		if j.kind == "time" {
			h.Exp = c12TimeExp[v.E]
		} else {
			// class 0: exactly at the broadcast cutoff at H0; class 1: one block
			// before it (at the cutoff at H0+1); class 2: already expired at H0.
			d := j.cfg.DOut
			if h.In {
				d = j.cfg.DIn
			}
			switch v.E {
			case 0:
				h.Exp = c12H0 + d
			case 1:
				h.Exp = c12H0 + d + 1
			default:
				h.Exp = c12H0 - 1
			}
		}
		c.HTLCs = append(c.HTLCs, h)
	}
	c.number()
	return c
}

func timeScenario(c *c12Cell) c12Scenario {
	lo, hi := uint32(1<<31), uint32(0)
	dmax, dmin := c.DOut, c.DOut
	if c.DIn > dmax {
		dmax = c.DIn
	}
	if c.DIn < dmin {
		dmin = c.DIn
	}
	for _, h := range c.HTLCs {
		if l := h.Exp - dmax - 2; l < lo {
			lo = l
		}
		if u := h.Exp - dmin + 1; u > hi {
			hi = u
		}
	}
	return c12Scenario{Kind: "time", Lo: lo, Hi: hi}
}

// lateStartScenarios: the first block the arbitrator sees is already past a cutoff
// (the node was down, or blocks arrived in a burst): for every HTLC the sweep starts
// one block after its cutoff and one block after its expiry. Sentence 1 then demands
// the close at the first delivered height.
func lateStartScenarios(c *c12Cell) []c12Scenario {
	seen := map[uint32]bool{}
	var out []c12Scenario
	for _, h := range c.HTLCs {
		d := c.DOut
		if h.In {
			d = c.DIn
		}
		for _, lo := range []uint32{h.Exp - d + 1, h.Exp + 1} {
			if seen[lo] {
				continue
			}
			seen[lo] = true
			out = append(out, c12Scenario{Kind: "time", Lo: lo, Hi: lo + 1, Start: "late"})
		}
	}
	return out
}

func dispScenarios(c *c12Cell, ss c12ScenSet) []c12Scenario {
	three := []string{"local", "remote"}
	if c.HasPending {
		three = append(three, "pending")
	}
	confs := three
	if ss.BreachCoop {
		confs = append(append([]string{}, three...), "breach", "coop")
	}
	var out []c12Scenario
	if ss.Base {
		for _, pre := range []string{"none", "chain", "user"} {
			for _, cf := range confs {
				out = append(out, c12Scenario{Kind: "disp", Pre: pre, Conf: cf, H0: c12H0})
			}
		}
	}
	faults := []string{"dataloss", "doublespend", "mempoolfee", "pubfail"}
	if ss.Faults {
		for _, f := range faults {
			for _, pre := range []string{"chain", "user"} {
				for _, cf := range three {
					out = append(out, c12Scenario{Kind: "disp", Pre: pre, Conf: cf, H0: c12H0, Fault: f})
				}
			}
		}
	}
	if ss.Restarts {
		if ss.BreachCoop {
			// The close-type -> trigger mapping of a closing channel, for the two
			// close kinds that are judged for panic/error freedom only.
			for _, cf := range []string{"breach", "coop"} {
				out = append(out, c12Scenario{Kind: "disp", Pre: "none", Conf: cf, H0: c12H0, Restart: "redeliver"})
				out = append(out, c12Scenario{Kind: "disp", Pre: "user", Conf: cf, H0: c12H0, Restart: "redeliver"})
			}
		}
		for _, cf := range three {
			for _, pre := range []string{"none", "chain", "user"} {
				out = append(out, c12Scenario{Kind: "disp", Pre: pre, Conf: cf, H0: c12H0, Restart: "redeliver"})
				if pre == "none" {
					continue
				}
				out = append(out, c12Scenario{Kind: "disp", Pre: pre, Conf: cf, H0: c12H0, Restart: "pre"})
				// The data-loss state (StateBroadcastCommit persisted) is the one
				// in which a restart re-executes the broadcast step.
				out = append(out, c12Scenario{Kind: "disp", Pre: pre, Conf: cf, H0: c12H0, Restart: "pre", Fault: "dataloss"})
				out = append(out, c12Scenario{Kind: "disp", Pre: pre, Conf: cf, H0: c12H0, Restart: "redeliver", Fault: "dataloss"})
			}
			out = append(out, c12Scenario{Kind: "disp", Pre: "none", Conf: cf, H0: c12H0, Restart: "unmarked"})
			out = append(out, c12Scenario{Kind: "disp", Pre: "chain", Conf: cf, H0: c12H0, Restart: "unmarked"})
		}
	}
	if ss.Deep {
		for _, cf := range three {
			for _, pre := range []string{"chain", "user"} {
				out = append(out, c12Scenario{Kind: "disp", Pre: pre, Conf: cf, H0: c12H0, Restart: "pre+redeliver"})
				for _, f := range faults {
					out = append(out, c12Scenario{Kind: "disp", Pre: pre, Conf: cf, H0: c12H0, Restart: "pre+redeliver", Fault: f})
					if f != "dataloss" {
						out = append(out, c12Scenario{Kind: "disp", Pre: pre, Conf: cf, H0: c12H0, Restart: "pre", Fault: f})
						out = append(out, c12Scenario{Kind: "disp", Pre: pre, Conf: cf, H0: c12H0, Restart: "redeliver", Fault: f})
					}
				}
			}
		}
	}
	return out
}

type c12Replay struct {
	Cell     c12Cell     `json:"cell"`
	Scenario c12Scenario `json:"scenario"`
}

// ---------------------------------------------------------------------------
// the check
// ---------------------------------------------------------------------------

type c12Stats struct {
	execs, advances, nontrivial    atomic.Int64
	cells, timeExecs, dispExecs    atomic.Int64
	violExecs, nondet, skippedDisp atomic.Int64
	mapOrder                       atomic.Int64
}

func TestC12(t *testing.T) {
	if rp := os.Getenv("VERIF_REPLAY"); rp != "" {
		c12ReplayFile(t, rp)
		return
	}
	run := evid.Start("C12", "exploration")
	thorough := run.Thorough()
	run0 := time.Now()

	budget := 130 * time.Second
	if thorough {
		budget = 24 * time.Minute
	}
	if v := os.Getenv("C12_BUDGET_S"); v != "" {
		var s int
		fmt.Sscan(v, &s)
		budget = time.Duration(s) * time.Second
	}
	// The pipe spaces run FIRST, under a budget of their own (they used to run last on
	// whatever the lattice spaces left over, which on a loaded machine was nothing:
	// the chain-watcher half of the property then went unexplored without a trace
	// other than a missing INFO line). The lattice budget starts when they are done.
	pipeBudget := 100 * time.Second
	if thorough {
		pipeBudget = 9 * time.Minute
	}
	if v := os.Getenv("C12_PIPE_BUDGET_S"); v != "" {
		var s int
		fmt.Sscan(v, &s)
		pipeBudget = time.Duration(s) * time.Second
	}
	var (
		capsHit                   []string
		spaceInfo                 []map[string]any
		pipeExecs, pipeNontrivial int64
		pipeCoarse, pipeFine      = map[string]int{}, map[string]int{}
		pipeSigs                  = evid.NewCounter()
		samples                   = evid.NewSamples(8)
	)
	if o := os.Getenv("C12_ONLY"); o == "" || o == "pipe" {
		pipeExecs, pipeNontrivial = c12PipeSpaces(run, thorough, time.Now().Add(pipeBudget), &spaceInfo, &capsHit,
			pipeCoarse, pipeFine, samples, func(sig string) { pipeSigs.Add(sig) })
	}
	if thorough {
		budget -= time.Since(run0)
	}
	deadline := time.Now().Add(budget)

	full1 := c12Alphabet{Name: "full", Pre: []int8{0, 1, 2}, Fwd: []bool{true, false}}
	full2 := c12Alphabet{Name: "full-2pre", Pre: []int8{0, 1}, Fwd: []bool{true, false}}
	uni := c12Alphabet{Name: "uniform-dust", UniformDust: true, Pre: []int8{0, 1}, Fwd: []bool{true, false}}
	uniOut := c12Alphabet{Name: "outputs only (no dust)", UniformDust: true, OnlyOutput: true, Pre: []int8{0, 1}, Fwd: []bool{true, false}}
	uni3 := c12Alphabet{Name: "uniform-dust-3pre", UniformDust: true, Pre: []int8{0, 1, 2}, Fwd: []bool{true, false}}
	red := c12Alphabet{Name: "reduced(fwd only)", Pre: []int8{0, 1}, Fwd: []bool{true}}
	red4 := c12Alphabet{Name: "reduced(fwd only, no preimage)", Pre: []int8{0}, Fwd: []bool{true}}
	// Audit alphabets: the registry's two further "preimage unknown" answers
	// (3 = invoice without preimage, 4 = ErrNoInvoicesCreated).
	uni5 := c12Alphabet{Name: "uniform-dust-5pre", UniformDust: true, Pre: []int8{0, 1, 2, 3, 4}, Fwd: []bool{true, false}}
	fullReg := c12Alphabet{Name: "full(registry answers 3,4)", Pre: []int8{3, 4}, Fwd: []bool{true, false}}
	fullReg3 := c12Alphabet{Name: "full(pre 1,3,4)", Pre: []int8{1, 3, 4}, Fwd: []bool{true, false}}
	outReg := c12Alphabet{Name: "outputs only, pre 1,3", UniformDust: true, OnlyOutput: true, Pre: []int8{1, 3}, Fwd: []bool{true, false}}
	uniReg := c12Alphabet{Name: "uniform-dust, pre 1,3,4", UniformDust: true, Pre: []int8{1, 3, 4}, Fwd: []bool{true, false}}
	with := func(a c12Alphabet, exp int) c12Alphabet { a.ExpClasses = exp; return a }

	deltas := []uint32{1, 5, 10}
	cfgAll := allConfigs(deltas)
	cfgQ := []c12Config{{DOut: 5, DIn: 5, Grace: true}, {DOut: 1, DIn: 10, Grace: false}}
	cfgT := []c12Config{{DOut: 5, DIn: 5, Grace: true}, {DOut: 1, DIn: 10, Grace: false}, {DOut: 10, DIn: 1, Grace: true},
		{DOut: 5, DIn: 5, Grace: false}, {DOut: 1, DIn: 10, Grace: true}, {DOut: 10, DIn: 1, Grace: false}}
	cfg1 := []c12Config{{DOut: 5, DIn: 5, Grace: true}}
	// Grace-period special values: exact threshold (1), lnd's default 0 (2), 0 at
	// the start instant (3).
	graceCfgs := func(pairs [][2]uint32) []c12Config {
		var out []c12Config
		for _, p := range pairs {
			for _, m := range []int8{1, 2, 3} {
				out = append(out, c12Config{DOut: p[0], DIn: p[1], GraceMode: m})
			}
		}
		return out
	}
	cfgGraceQ := append(graceCfgs([][2]uint32{{5, 5}, {1, 10}, {10, 1}}), cfgQ...)
	var allPairs [][2]uint32
	for _, o := range deltas {
		for _, i := range deltas {
			allPairs = append(allPairs, [2]uint32{o, i})
		}
	}
	cfgGraceT := append(graceCfgs(allPairs), cfgT...)
	cfg2G := []c12Config{{DOut: 5, DIn: 5, Grace: true}, {DOut: 1, DIn: 10, Grace: false}, {DOut: 5, DIn: 5, GraceMode: 2}}

	plain := []c12CellVar{{}}
	feeds2 := []c12CellVar{{}, {Startup: true}}
	base := c12ScenSet{Base: true, BreachCoop: true}
	base3 := c12ScenSet{Base: true}
	varsTime1 := []c12CellVar{{}, {Startup: true}, {LateFeed: true}, {Numbering: 1}, {Numbering: 1, Startup: true}}
	varsDisp1 := []c12CellVar{{LateFeed: true}, {Numbering: 1}, {Extras: 1}, {Hist: 1}, {Hist: 2}, {Hist: 3},
		{Numbering: 1, Extras: 1, Hist: 3, LateFeed: true}}
	// Non-HTLC resolutions x "historical channel not found".
	varsExtrasNoHist := []c12CellVar{{Extras: 1, Hist: 1}, {Extras: 1, Hist: 2}}

	var spaces []c12Space
	if !thorough {
		spaces = []c12Space{
			{Name: "time/1-htlc", Kind: "time", N: 1, Alpha: with(uni3, 3), Configs: cfgAll, Vars: feeds2},
			{Name: "disp/1-htlc", Kind: "disp", N: 1, Alpha: with(full1, 3), Configs: cfgT, Vars: feeds2, Scen: base},
			{Name: "time/2-htlc", Kind: "time", N: 2, Alpha: with(uni, 3), Configs: cfgAll, Vars: plain},
			{Name: "disp/2-htlc", Kind: "disp", N: 2, Alpha: with(full2, 2), Configs: cfgQ, Vars: plain, Scen: base3},
			{Name: "disp/3-htlc", Kind: "disp", N: 3, Alpha: with(red4, 1), Configs: cfg1, Vars: plain, Scen: base3},
			// --- audit dimensions ---
			{Name: "time/1-htlc/special", Kind: "time", N: 1, Alpha: with(uni5, 3), Configs: cfgGraceQ, Vars: varsTime1},
			{Name: "time/1-htlc/late-start", Kind: "time", N: 1, Alpha: with(uni5, 3), Configs: append(append([]c12Config{}, cfgT...), cfg2G[2]),
				Vars: feeds2, Scen: c12ScenSet{LateStart: true}},
			{Name: "time/2-htlc/late-start", Kind: "time", N: 2, Alpha: with(outReg, 2), Configs: cfg2G, Vars: plain,
				Scen: c12ScenSet{LateStart: true}},
			{Name: "disp/1-htlc/registry", Kind: "disp", N: 1, Alpha: with(fullReg, 3), Configs: cfgQ, Vars: plain, Scen: base},
			{Name: "disp/1-htlc/variants", Kind: "disp", N: 1, Alpha: with(full2, 2), Configs: cfgQ, Vars: varsDisp1, Scen: base},
			{Name: "disp/1-htlc/faults+restarts", Kind: "disp", N: 1, Alpha: with(full2, 2), Configs: cfgQ, Vars: plain,
				Scen: c12ScenSet{BreachCoop: true, Faults: true, Restarts: true}},
			{Name: "disp/1-htlc/extras-x-nohist", Kind: "disp", N: 1, Alpha: with(red4, 1), Configs: cfg1, Vars: varsExtrasNoHist, Scen: base},
			{Name: "time/2-htlc/special", Kind: "time", N: 2, Alpha: with(outReg, 2), Configs: cfg2G,
				Vars: []c12CellVar{{}, {SameHash: true}, {LateFeed: true, SameHash: true}}},
			{Name: "disp/2-htlc/variants", Kind: "disp", N: 2, Alpha: with(red, 1), Configs: cfg1,
				Vars: []c12CellVar{{SameHash: true}, {Numbering: 1}}, Scen: base3},
			{Name: "disp/2-htlc/restarts", Kind: "disp", N: 2, Alpha: with(red4, 1), Configs: cfg1, Vars: plain,
				Scen: c12ScenSet{Restarts: true}},
		}
	} else {
		spaces = []c12Space{
			{Name: "time/1-htlc", Kind: "time", N: 1, Alpha: with(uni3, 3), Configs: cfgAll, Vars: feeds2},
			{Name: "disp/1-htlc", Kind: "disp", N: 1, Alpha: with(full1, 3), Configs: cfgAll, Vars: feeds2, Scen: base},
			{Name: "time/2-htlc", Kind: "time", N: 2, Alpha: with(uni3, 3), Configs: cfgAll, Vars: feeds2},
			{Name: "disp/2-htlc", Kind: "disp", N: 2, Alpha: with(full1, 2), Configs: cfgT, Vars: plain, Scen: base},
			{Name: "disp/2-htlc/startup-feed", Kind: "disp", N: 2, Alpha: with(full1, 2), Configs: cfg1, Vars: []c12CellVar{{Startup: true}}, Scen: base},
			{Name: "disp/3-htlc", Kind: "disp", N: 3, Alpha: with(red, 2), Configs: cfg1, Vars: plain, Scen: base3},
			{Name: "time/3-htlc", Kind: "time", N: 3, Alpha: with(uniOut, 3), Configs: cfgAll, Vars: plain},
			{Name: "disp/4-htlc", Kind: "disp", N: 4, Alpha: with(red4, 1), Configs: cfg1, Vars: plain, Scen: base3},
			// --- audit dimensions ---
			{Name: "time/1-htlc/special", Kind: "time", N: 1, Alpha: with(uni5, 3), Configs: cfgGraceT,
				Vars: append(append([]c12CellVar{}, varsTime1...), c12CellVar{Numbering: 1, LateFeed: true})},
			{Name: "time/1-htlc/late-start", Kind: "time", N: 1, Alpha: with(uni5, 3), Configs: cfgGraceT,
				Vars: varsTime1, Scen: c12ScenSet{LateStart: true}},
			{Name: "time/2-htlc/late-start", Kind: "time", N: 2, Alpha: with(uni3, 3), Configs: cfgGraceQ, Vars: feeds2,
				Scen: c12ScenSet{LateStart: true}},
			{Name: "disp/1-htlc/registry", Kind: "disp", N: 1, Alpha: with(fullReg, 3), Configs: cfgT, Vars: feeds2, Scen: base},
			{Name: "disp/1-htlc/variants", Kind: "disp", N: 1, Alpha: with(full1, 3), Configs: cfgQ,
				Vars: append(append([]c12CellVar{}, varsDisp1...), c12CellVar{Numbering: 1, Startup: true},
					c12CellVar{Extras: 1, Hist: 3}), Scen: base},
			{Name: "disp/1-htlc/extras-x-nohist", Kind: "disp", N: 1, Alpha: with(full2, 2), Configs: cfgQ, Vars: varsExtrasNoHist, Scen: base},
			{Name: "disp/1-htlc/faults+restarts", Kind: "disp", N: 1, Alpha: with(full1, 3), Configs: cfgT, Vars: plain,
				Scen: c12ScenSet{BreachCoop: true, Faults: true, Restarts: true, Deep: true}},
			{Name: "disp/1-htlc/faults+restarts/variants", Kind: "disp", N: 1, Alpha: with(full2, 2), Configs: cfgQ,
				Vars: []c12CellVar{{Numbering: 1}, {Extras: 1, Hist: 3}, {LateFeed: true}},
				Scen: c12ScenSet{BreachCoop: true, Faults: true, Restarts: true}},
			{Name: "time/2-htlc/special", Kind: "time", N: 2, Alpha: with(uniReg, 3),
				Configs: append(append([]c12Config{}, cfg2G...), c12Config{DOut: 1, DIn: 10, GraceMode: 3}, c12Config{DOut: 10, DIn: 1, GraceMode: 1}),
				Vars:    []c12CellVar{{}, {SameHash: true}, {LateFeed: true, SameHash: true}, {Numbering: 1}}},
			{Name: "disp/2-htlc/registry", Kind: "disp", N: 2, Alpha: with(fullReg3, 1), Configs: cfg1, Vars: plain, Scen: base3},
			{Name: "disp/2-htlc/variants", Kind: "disp", N: 2, Alpha: with(full2, 1), Configs: cfgQ,
				Vars: []c12CellVar{{SameHash: true}, {Numbering: 1}, {Extras: 1, Hist: 3}, {LateFeed: true}}, Scen: base3},
			{Name: "disp/2-htlc/faults+restarts", Kind: "disp", N: 2, Alpha: with(red, 1), Configs: cfg1, Vars: plain,
				Scen: c12ScenSet{Faults: true, Restarts: true}},
			{Name: "disp/3-htlc/restarts", Kind: "disp", N: 3, Alpha: with(red4, 1), Configs: cfg1,
				Vars: []c12CellVar{{}, {SameHash: true}}, Scen: c12ScenSet{Restarts: true}},
		}
	}
	if only := os.Getenv("C12_ONLY"); only != "" {
		var f []c12Space
		for _, s := range spaces {
			if strings.HasPrefix(s.Name, only) {
				f = append(f, s)
			}
		}
		spaces = f
	}

	var (
		st        c12Stats
		coarseAll = map[string]int{}
		fineAll   = map[string]int{}
		mergeMu   sync.Mutex
		sigCount  = evid.NewCounter()
		dimCount  = map[string]int{} // guarded by mergeMu
		gated     sync.Map
		nondetMu  sync.Mutex
		nondetEx  []any
	)

	report := func(kind string, cell c12Cell, sc c12Scenario, obs c12Obs, viols []c12Viol) {
		if len(viols) == 0 {
			return
		}
		st.violExecs.Add(1)
		for _, v := range viols {
			sigCount.Add(v.Sig)
			if _, dup := gated.LoadOrStore(v.Sig, true); dup {
				continue
			}
			if v.MapOrder {
				// The judged HTLC is on both remote commitments with different
				// dust-ness and not on the local one: lnd merges the two entries
				// in Go map order, so its behaviour for this HTLC legitimately
				// differs between runs. Reported without the determinism gate
				// (the signature carries the -dn / -nd pattern).
				st.mapOrder.Add(1)
				run.Violation(v.Sig, v.What+" [outcome depends on Go map iteration order inside lnd; may not reproduce on every replay]",
					c12Replay{Cell: cell, Scenario: sc})
				continue
			}
			// Determinism gate: the same execution three more times must give
			// identical observations and the same signature again.
			same := true
			for i := 0; i < 3 && same; i++ {
				var o2 c12Obs
				var v2 []c12Viol
				if kind == "time" {
					_, o2, v2 = runTime(cell, sc, nil)
				} else {
					_, o2, v2 = runDisp(cell, sc, nil)
				}
				found := false
				for _, x := range v2 {
					if x.Sig == v.Sig {
						found = true
					}
				}
				if (o2.canon() != obs.canon() && !cell.mapOrderSensitive()) || !found {
					same = false
				}
			}
			if !same {
				n := st.nondet.Add(1)
				nondetMu.Lock()
				if len(nondetEx) < 5 {
					nondetEx = append(nondetEx, map[string]any{"signature": v.Sig, "cell": cell, "scenario": sc})
				}
				nondetMu.Unlock()
				if n <= 3 {
					fmt.Printf("INFO nondeterministic observation (not reported): %s\n", v.Sig)
				}
				gated.Delete(v.Sig)
				continue
			}
			run.Violation(v.Sig, v.What, c12Replay{Cell: cell, Scenario: sc})
		}
	}

	type local struct {
		coarse, fine, dims map[string]int
		samples            int
	}
	exec := func(j *c12Job, lc *local) {
		cell := j.cell()
		st.cells.Add(1)
		dims := cell.vtags()
		for _, h := range cell.HTLCs {
			if h.Pre == c12PreHold || h.Pre == c12PreNoInv {
				dims = append(dims, fmt.Sprintf("registry-answer-%d", h.Pre))
			}
		}
		if j.kind == "time" && j.scen.LateStart {
			for _, sc := range lateStartScenarios(&cell) {
				res, obs, viols := runTime(cell, sc, nil)
				st.execs.Add(1)
				st.timeExecs.Add(1)
				st.advances.Add(int64(len(obs.States)))
				if obs.ForceCloses > 0 {
					st.nontrivial.Add(1)
				}
				lc.dims["time:latestart"]++
				lc.coarse["time|late-start|"+res.Class]++
				lc.fine["time|late-start|"+res.Class+"|off="+fmt.Sprint(res.ClosedAt-res.FirstMust)]++
				report("time", cell, sc, obs, viols)
			}
			return
		}
		if j.kind == "time" {
			sc := timeScenario(&cell)
			res, obs, viols := runTime(cell, sc, nil)
			for _, d := range dims {
				lc.dims["time:"+d]++
			}
			st.execs.Add(1)
			st.timeExecs.Add(1)
			st.advances.Add(int64(len(obs.States)))
			if obs.ForceCloses > 0 {
				st.nontrivial.Add(1)
			}
			lc.coarse["time|"+res.Class]++
			lc.fine["time|"+res.Class+"|off="+fmt.Sprint(res.ClosedAt-res.FirstMust)]++
			if lc.samples < 1 {
				lc.samples++
				samples.Add(map[string]any{"cell": cell, "scenario": sc, "result": res})
			}
			report("time", cell, sc, obs, viols)
			return
		}
		for _, sc := range dispScenarios(&cell, j.scen) {
			res, obs, viols := runDisp(cell, sc, nil)
			st.execs.Add(1)
			st.dispExecs.Add(1)
			for _, d := range dims {
				lc.dims["disp:"+d]++
			}
			if sc.Fault != "" {
				lc.dims["disp:fault="+sc.Fault]++
			}
			if sc.Restart != "" {
				lc.dims["disp:restart="+sc.Restart]++
			}
			st.advances.Add(int64(len(obs.States)))
			if res.Skipped != "" {
				st.skippedDisp.Add(1)
				lc.coarse["disp|skipped:"+res.Skipped]++
				continue
			}
			if len(obs.Msgs)+len(obs.Finals)+len(obs.Resolvers) > 0 {
				st.nontrivial.Add(1)
			}
			for _, c := range res.Classes {
				lc.fine[c]++
				// coarse: drop the scenario prefix and the HTLC descriptor
				if i := strings.Index(c, "|onconf="); i >= 0 {
					dir := "out"
					if strings.Contains(c[:i], "|in:") {
						dir = "in"
					}
					lc.coarse["disp|"+dir+c[i:]]++
				}
			}
			if sc.Pre == "user" && sc.Conf == "remote" && lc.samples < 2 {
				lc.samples++
				samples.Add(map[string]any{"cell": cell, "scenario": sc, "observations": obs, "classes": res.Classes})
			}
			report("disp", cell, sc, obs, viols)
		}
	}

	workers := runtime.GOMAXPROCS(0)
	for _, sp := range spaces {
		t0 := time.Now()
		before := st.execs.Load()
		cellsBefore := st.cells.Load()
		jobs := make(chan *c12Job, 4096)
		var wg sync.WaitGroup
		for i := 0; i < workers; i++ {
			wg.Add(1)
			go func() {
				defer wg.Done()
				lc := &local{coarse: map[string]int{}, fine: map[string]int{}, dims: map[string]int{}}
				for j := range jobs {
					exec(j, lc)
				}
				mergeMu.Lock()
				for k, v := range lc.coarse {
					coarseAll[k] += v
				}
				for k, v := range lc.fine {
					fineAll[k] += v
				}
				for k, v := range lc.dims {
					dimCount[k] += v
				}
				mergeMu.Unlock()
			}()
		}
		complete := true
		for _, pending := range []bool{false, true} {
			vars := c12Variants(pending, sp.Alpha)
			forEachMultiset(vars, sp.N, func(hs []c12Var) bool {
				if time.Now().After(deadline) {
					complete = false
					return false
				}
				cp := append([]c12Var{}, hs...)
				samePre := true
				for _, h := range cp[1:] {
					if h.Pre != cp[0].Pre {
						samePre = false
					}
				}
				for _, cfg := range sp.Configs {
					for _, cv := range sp.Vars {
						if cv.SameHash && !samePre {
							// one hash has one preimage-knowledge value
							continue
						}
						jobs <- &c12Job{kind: sp.Kind, hs: cp, pending: pending, cfg: cfg, cv: cv, scen: sp.Scen}
					}
				}
				return true
			})
		}
		close(jobs)
		wg.Wait()
		if !complete {
			capsHit = append(capsHit, fmt.Sprintf("deadline(%s) during %s", budget, sp.Name))
		}
		si := map[string]any{
			"space": sp.Name, "htlcs": sp.N, "alphabet": sp.Alpha.Name, "configs": len(sp.Configs),
			"feeds": len(sp.Vars), "cells": st.cells.Load() - cellsBefore,
			"executions": st.execs.Load() - before, "complete": complete, "wall_s": time.Since(t0).Seconds(),
		}
		spaceInfo = append(spaceInfo, si)
		fmt.Printf("INFO space %-28s cells=%d executions=%d complete=%v wall=%.1fs\n", sp.Name,
			si["cells"], si["executions"], complete, time.Since(t0).Seconds())
		if !complete {
			break
		}
	}

	for k, v := range pipeCoarse {
		coarseAll[k] += v
	}
	for k, v := range pipeFine {
		fineAll[k] += v
	}
	for k, v := range pipeSigs.Map() {
		for i := 0; i < v; i++ {
			sigCount.Add(k)
		}
	}
	if o := os.Getenv("C12_ONLY"); thorough && (o == "" || o == "xcheck") {
		c12CrossCheckPatterns(run, &spaceInfo, &capsHit)
	}

	run.Assumptions = append(run.Assumptions,
		"the ChannelArbitrator is not started: advanceState is called synchronously with the trigger, height and CommitSet that channelAttendant/handle*CloseEvent would pass; goroutine interleavings inside the arbitrator are out of scope",
		"lattice spaces: ContractResolutions are synthesised: one Incoming/OutgoingHtlcResolution per HTLC with an output on the confirmed commitment (second-level txs only on the local commitment), with and without a commit (to-self) and an anchor resolution; pipe spaces: CommitSet and resolutions are the ones a real chainWatcher (handleCommitSpend) builds for the stored commitment transaction of a live two-peer channel (engine chanmc), handed to handleLocal/RemoteForceCloseEvent",
		"restarts are modelled at quiescent points only (between two calls the attendant goroutine makes; never between a side effect and the state commit of one step - that is C13): a new instance on the same log, start state from the log, progressStateMachineAfterRestart called synchronously; Start()'s own statements (startTimestamp, goroutine launch) and the ShortChanID signal update are not executed",
		"go-to-chain faults are the documented outcomes of ForceCloseChan (ErrForceCloseLocalDataLoss) and PublishTx (ErrDoubleSpend, ErrMempoolFee, other error); log / database write failures are not injected",
		"broadcast deltas are lnd constants (10/10); explored {1,5,10}^2; grace period {1h, 0 (default)} with uptime below / at / above it",
		"launched resolvers park on a silent chain notifier and sweeper; only the arbitrator's own dispositions (before any chain event reaches a resolver) are observed",
		"membership patterns over (local, remote, remote-pending) are restricted to the protocol-reachable ones (table and derivation in c12_test.go); dust-ness of same-direction HTLCs is consistent with one threshold per commitment",
		"breach and cooperative-close confirmations are executed for every cell (panic/error freedom) but sentence 2/3 of the property are judged only for the three valid commitments, as the statement says",
		"lnd iterates Go maps (random order): when an offered HTLC is on both remote commitments with different dust-ness and not on the local one, which entry wins is not controlled; a violation is reported only if 3 re-executions reproduce it",
	)
	outcomes := coarseAll
	keys := make([]string, 0, len(outcomes))
	for k := range outcomes {
		keys = append(keys, k)
	}
	sort.Strings(keys)
	cov := map[string]any{
		"evaluations":                    int(st.execs.Load() + pipeExecs),
		"distinct_nontrivial":            int(st.nontrivial.Load() + pipeNontrivial),
		"pipe_executions":                int(pipeExecs),
		"rule":                           "cells = multisets of per-HTLC variants (direction x reachable membership pattern x dust per commitment x preimage knowledge {none, beacon, invoice, invoice-without-preimage, no-invoices-created} x forwarded x expiry class) x pending-commitment-exists x (delta_out, delta_in, grace period/uptime) x cell dimensions (feed {updates, start-up, late}, numbering {disjoint, zero-based}, non-HTLC resolutions, historical-channel answer, shared payment hash); every cell is run once per scenario (time: ascending block heights around every cutoff; disp: {none,chain,user} x {local,remote,pending,breach,coop} confirmation x go-to-chain fault {none, dataloss, doublespend, mempoolfee, pubfail} x restart {none, pre, redeliver, unmarked}); pipe: every distinct state of the channel worlds x party x {none,user(,chain)} x commitment x preimage knowledge; each (cell, scenario) of a space is enumerated exactly once (the audit spaces overlap the original ones only in their default points); non-trivial = the arbitrator took an observable action (force close, upstream fail, final outcome or resolver)",
		"dimension_executions":           dimCount,
		"samples":                        samples.List(),
		"exhaustive":                     len(capsHit) == 0 && st.nondet.Load() == 0,
		"cells":                          int(st.cells.Load()),
		"timeliness_executions":          int(st.timeExecs.Load()),
		"disposition_executions":         int(st.dispExecs.Load()),
		"disposition_skipped":            int(st.skippedDisp.Load()),
		"advance_state_calls":            int(st.advances.Load()),
		"violating_executions":           int(st.violExecs.Load()),
		"map_order_dependent_signatures": int(st.mapOrder.Load()),
		"violation_signature_hits":       sigCount.Map(),
		"distinct_outcome_classes":       len(fineAll),
		"outcome_classes":                outcomes,
		"spaces":                         spaceInfo,
		"workers":                        workers,
	}
	if len(capsHit) > 0 {
		cov["caps_hit"] = capsHit
	}
	if st.nondet.Load() > 0 {
		cov["nondeterminism_detected"] = int(st.nondet.Load())
		cov["nondeterminism_examples"] = nondetEx
	}
	if code := run.Finish(cov); code != 0 {
		t.Fail()
	}
}

// c12ReplayFile re-runs one (cell, scenario) and prints every step.
func c12ReplayFile(t *testing.T, path string) {
	run := evid.Start("C12", "exploration")
	b, err := os.ReadFile(path)
	if err != nil {
		t.Fatalf("replay: %v", err)
	}
	var probe struct {
		Replay struct {
			Pipe *c12PipeCase `json:"pipe"`
		} `json:"replay"`
	}
	if json.Unmarshal(b, &probe) == nil && probe.Replay.Pipe != nil {
		if err := c12ReplayPipe(run, b); err != nil {
			t.Fatalf("replay: %v", err)
		}
		cov := map[string]any{
			"evaluations": 1, "distinct_nontrivial": 2, "rule": "replay of one recorded pipe execution",
			"samples": []any{probe.Replay}, "exhaustive": false,
		}
		if run.Finish(cov) != 0 {
			t.Fail()
		}
		return
	}
	var f struct {
		Signature string    `json:"signature"`
		Replay    c12Replay `json:"replay"`
	}
	if err := json.Unmarshal(b, &f); err != nil {
		t.Fatalf("replay: %v", err)
	}
	cell, sc := f.Replay.Cell, f.Replay.Scenario
	info := func(format string, a ...any) { fmt.Printf("INFO "+format+"\n", a...) }
	info("replaying %s scenario %+v", sc.Kind, sc)
	info("config: delta_out=%d delta_in=%d grace_passed=%v pending_commit=%v startup_feed=%v",
		cell.DOut, cell.DIn, cell.GracePassed, cell.HasPending, cell.Startup)
	cell.number()
	gr, up := cell.graceAndUptime()
	info("dimensions: grace_period=%v uptime=%v numbering=%d (0: ids from 1, outputs 20+/40+/60+; 1: zero-based) extras=%d hist=%d same_hash=%v late_feed=%v fault=%q restart=%q",
		gr, up, cell.Numbering, cell.Extras, cell.Hist, cell.SameHash, cell.LateFeed, sc.Fault, sc.Restart)
	for k, h := range cell.HTLCs {
		info("HTLC #%d: %s idx=%d expiry=%d (local=%s remote=%s pending=%s; d=dust n=output -=absent)",
			k, h.desc(cell.HasPending), h.Idx, h.Exp, presCh(h.L), presCh(h.R), presCh(h.P))
	}
	var obs c12Obs
	var viols []c12Viol
	if sc.Kind == "time" {
		var res c12TimeResult
		res, obs, viols = runTime(cell, sc, info)
		info("result: %+v", res)
	} else {
		var res c12DispResult
		res, obs, viols = runDisp(cell, sc, info)
		for _, c := range res.Classes {
			info("outcome: %s", c)
		}
	}
	ob, _ := json.Marshal(obs)
	info("observations: %s", ob)
	for _, v := range viols {
		run.Violation(v.Sig, v.What, f.Replay)
	}
	cov := map[string]any{
		"evaluations": 1, "distinct_nontrivial": 2, "rule": "replay of one recorded execution",
		"samples": []any{f.Replay}, "exhaustive": false,
	}
	if run.Finish(cov) != 0 {
		t.Fail()
	}
}
