// C12 harness, part 7: families pipe/observer and pipe/coop (axis audit, see AXES.md).
//
// The pipe spaces used to call chainWatcher.handleCommitSpend directly, with one of the
// three valid commitments. That leaves two things of "the chain watcher's classification
// of the commitment that CONFIRMED" unexplored:
//
//   - pipe/observer: in production the spend reaches handleCommitSpend through the
//     closeObserver goroutine: a state machine (none -> pending -> confirmed) over spend
//     notifications, confirmation notifications of the configured depth, and negative
//     confirmations (re-orgs). Which transaction is classified is decided THERE: the
//     spend that was detected first is not necessarily the one that confirms (our own
//     commitment is broadcast, the peer's confirms; a re-org replaces one commitment by
//     another; the same spend is reported twice). The family starts the real watcher
//     (Start -> closeObserver) on a harness-owned, strictly keyed chain notifier and
//     drives: chanCloseConfs in {1 (fast path), 3 (asynchronous path)} x the commitment
//     that confirms x a rival detected first (each other commitment, the same
//     transaction again, a cooperative close) x {replaced directly, re-orged out first}.
//     The spend that confirms is found either by the spend case of the observer's select
//     or by a block beat (handleBlockbeat -> checkFundingSpend), the two near-identical
//     call sites of processDetectedSpend. Every step is synchronous without timing: a
//     notification is put on the (buffered, as the real notifier's) channel while nothing
//     else is pending, the harness waits until the observer has taken it and then sends a
//     block beat, which the observer (one goroutine) can only acknowledge after it
//     finished the previous step; confirmations go over unbuffered channels. For the
//     block-beat variant the observer is held inside a beat (in the Height() call it
//     makes before handleBlockbeat) while the notifier gets the spend ready.
//     Oracle (scenario independent): no close event before a confirmation of the
//     configured depth was delivered; the watcher holds a live confirmation registration
//     for exactly the transaction it detected last, at the configured depth (the
//     notifier is keyed by txid as the real one is: a confirmation is only ever
//     delivered on the registration of the confirmed transaction); exactly one event
//     after the confirmation, and it is judged by the unchanged pipe oracle (kind,
//     ConfCommitKey, HTLC sets, the event and every logged resolution belong to the
//     transaction that confirmed, then sentence 2/3 on what the arbitrator does).
//   - pipe/coop: a spend of the funding output that is none of the three commitments
//     but a cooperative close, with both input sequence values lnd singles out
//     (wire.MaxTxInSequenceNum: legacy negotiation, mempool.MaxRBFSequence: RBF coop
//     close). It must be classified as a cooperative closure, never as a (data-loss)
//     unilateral close of the peer; the arbitrator then has nothing to resolve.
//
// A liveness cap (c12ObsStuck) only guards the harness against a blocked observer; it is
// far above any scheduling delay and a hit is reported as a violation that must reproduce.
package contractcourt

import (
	"fmt"
	"strings"
	"sync"
	"sync/atomic"
	"time"

	"github.com/btcsuite/btcd/address/v2"
	"github.com/btcsuite/btcd/btcutil/v2"
	"github.com/btcsuite/btcd/chainhash/v2"
	"github.com/btcsuite/btcd/mempool"
	"github.com/btcsuite/btcd/wire/v2"
	"github.com/lightningnetwork/lnd/chainio"
	"github.com/lightningnetwork/lnd/chainntnfs"
	"github.com/lightningnetwork/lnd/channeldb"
	"github.com/lightningnetwork/lnd/chanstate"
	"github.com/lightningnetwork/lnd/fn/v2"
	"github.com/lightningnetwork/lnd/lntest/mock"
	"github.com/lightningnetwork/lnd/lnwallet"
	"github.com/lightningnetwork/lnd/verifmc/chanmc"
	tmock "github.com/stretchr/testify/mock"
)

const c12ObsStuck = 15 * time.Second

// c12StuckSeen: (conf, type-independent case tag) classes for which a blocked watcher was
// already observed: further cases of the class report the same violation at once
// instead of waiting for the liveness cap again (a blocked watcher costs c12ObsStuck of
// wall time per case).
var c12StuckSeen sync.Map

// c12ConfReg is one RegisterConfirmationsNtfn call of the watcher.
type c12ConfReg struct {
	txid      chainhash.Hash
	numConfs  uint32
	conf      chan *chainntnfs.TxConfirmation
	neg       chan int32
	cancelled atomic.Bool
}

// c12Notifier is the harness-owned chain notifier of the observer family. Keyed
// strictly: spends are only registered for the funding outpoint, confirmations are
// delivered only on the registration that names the confirmed txid.
type c12Notifier struct {
	*mock.ChainNotifier
	funding wire.OutPoint

	mu      sync.Mutex
	spends  []chan *chainntnfs.SpendDetail // one per registration; the last one is live
	confs   []*c12ConfReg
	foreign []string
}

func (n *c12Notifier) RegisterSpendNtfn(op *wire.OutPoint, _ []byte, _ uint32) (*chainntnfs.SpendEvent, error) {
	// buffered like the real notifier's: the block-beat path (checkFundingSpend) takes a
	// spend with a non-blocking receive
	ch := make(chan *chainntnfs.SpendDetail, 1)
	n.mu.Lock()
	if op == nil || *op != n.funding {
		n.foreign = append(n.foreign, fmt.Sprintf("RegisterSpendNtfn(%v)", op))
	}
	n.spends = append(n.spends, ch)
	n.mu.Unlock()
	return &chainntnfs.SpendEvent{Spend: ch, Cancel: func() {}}, nil
}

func (n *c12Notifier) RegisterConfirmationsNtfn(txid *chainhash.Hash, _ []byte, numConfs, _ uint32,
	_ ...chainntnfs.NotifierOption) (*chainntnfs.ConfirmationEvent, error) {

	r := &c12ConfReg{txid: *txid, numConfs: numConfs, conf: make(chan *chainntnfs.TxConfirmation), neg: make(chan int32)}
	n.mu.Lock()
	n.confs = append(n.confs, r)
	n.mu.Unlock()
	return &chainntnfs.ConfirmationEvent{
		Confirmed: r.conf, NegativeConf: r.neg,
		Cancel: func() { r.cancelled.Store(true) },
	}, nil
}

func (n *c12Notifier) liveSpend() chan *chainntnfs.SpendDetail {
	n.mu.Lock()
	defer n.mu.Unlock()
	return n.spends[len(n.spends)-1]
}

// liveConf: the latest confirmation registration for txid that was not cancelled.
func (n *c12Notifier) liveConf(txid chainhash.Hash) *c12ConfReg {
	n.mu.Lock()
	defer n.mu.Unlock()
	for i := len(n.confs) - 1; i >= 0; i-- {
		if r := n.confs[i]; r.txid == txid && !r.cancelled.Load() {
			return r
		}
	}
	return nil
}

func (n *c12Notifier) describe() string {
	n.mu.Lock()
	defer n.mu.Unlock()
	var s []string
	for _, r := range n.confs {
		s = append(s, fmt.Sprintf("%v x%d cancelled=%v", r.txid.String()[:8], r.numConfs, r.cancelled.Load()))
	}
	return "[" + strings.Join(s, ", ") + "]"
}

// c12PipeEvent is one close event the watcher dispatched to its subscriber.
type c12PipeEvent struct {
	kind   string
	local  *LocalUnilateralCloseInfo
	remote *RemoteUnilateralCloseInfo
	coop   *CooperativeCloseInfo
}

func drainEvents(sub *ChainEventSubscription) (evs []c12PipeEvent) {
	for {
		select {
		case l := <-sub.LocalUnilateralClosure:
			evs = append(evs, c12PipeEvent{kind: "local", local: l})
		case r := <-sub.RemoteUnilateralClosure:
			evs = append(evs, c12PipeEvent{kind: "remote", remote: r})
		case <-sub.ContractBreach:
			evs = append(evs, c12PipeEvent{kind: "breach"})
		case c := <-sub.CooperativeClosure:
			evs = append(evs, c12PipeEvent{kind: "coop", coop: c})
		default:
			return evs
		}
	}
}

// c12CoopTx: a cooperative close of the channel: one input (the funding outpoint, with
// the given sequence), one P2WPKH output per party with its settled balance.
func c12CoopTx(st *chanstate.OpenChannel, seq uint32) *wire.MsgTx {
	mk := func(b byte) []byte {
		s := make([]byte, 22)
		s[1] = 0x14
		for i := 2; i < 22; i++ {
			s[i] = b
		}
		return s
	}
	tx := &wire.MsgTx{Version: 2, TxIn: []*wire.TxIn{{PreviousOutPoint: st.FundingOutpoint, Sequence: seq}}}
	if v := int64(st.LocalCommitment.LocalBalance.ToSatoshis()); v > 0 {
		tx.TxOut = append(tx.TxOut, &wire.TxOut{Value: v, PkScript: mk(0xa1)})
	}
	if v := int64(st.LocalCommitment.RemoteBalance.ToSatoshis()); v > 0 || len(tx.TxOut) == 0 {
		tx.TxOut = append(tx.TxOut, &wire.TxOut{Value: v, PkScript: mk(0xb2)})
	}
	return tx
}

// pipeTx names a spend of the funding output: one of the three commitments of the
// party's channel state, or a cooperative close.
func pipeTx(st *chanstate.OpenChannel, name string) (tx *wire.MsgTx, confirmed *channeldb.ChannelCommitment, ownerDust btcutil.Amount, ok bool) {
	switch name {
	case "local":
		return st.LocalCommitment.CommitTx, &st.LocalCommitment, st.LocalChanCfg.DustLimit, true
	case "remote":
		return st.RemoteCommitment.CommitTx, &st.RemoteCommitment, st.RemoteChanCfg.DustLimit, true
	case "pending":
		tip, err := st.RemoteCommitChainTip()
		if err != nil || tip == nil {
			return nil, nil, 0, false
		}
		return tip.Commitment.CommitTx, &tip.Commitment, st.RemoteChanCfg.DustLimit, true
	case "coop-final":
		return c12CoopTx(st, wire.MaxTxInSequenceNum), nil, 0, true
	case "coop-rbf":
		return c12CoopTx(st, mempool.MaxRBFSequence), nil, 0, true
	}
	return nil, nil, 0, false
}

func (pc c12PipeCase) coop() bool { return strings.HasPrefix(pc.Conf, "coop") }

// tag: signature suffix of the observer dimensions (empty for the direct call).
func (pc c12PipeCase) tag() string {
	if pc.Confs == 0 {
		return ""
	}
	r := pc.Rival
	if r == "" {
		r = "none"
	}
	how := "replaced"
	if pc.Reorg {
		how = "reorged"
	}
	if pc.Rival == "" {
		how = "-"
	}
	if pc.ViaBeat {
		how += ",beat"
	}
	return fmt.Sprintf("/observer(confs=%d,rival=%s,%s)", pc.Confs, r, how)
}

// pipeDeliver hands the spend(s) of a case to a real chain watcher of the party's
// channel state and returns the close events it dispatched. ok=false: a violation was
// reported (or the case does not apply) and the case ends here.
func pipeDeliver(w *chanmc.World, st *chanstate.OpenChannel, pc c12PipeCase, tx *wire.MsgTx, hc uint32,
	replaying bool, info func(string, ...any), bad func(clause, format string, a ...any)) (evs []c12PipeEvent, ok bool) {

	spendOf := func(t *wire.MsgTx, h uint32) *chainntnfs.SpendDetail {
		id := t.TxHash()
		return &chainntnfs.SpendDetail{
			SpentOutPoint: &st.FundingOutpoint, SpenderTxHash: &id, SpendingTx: t,
			SpenderInputIndex: 0, SpendingHeight: int32(h),
		}
	}
	base := &mock.ChainNotifier{
		SpendChan: make(chan *chainntnfs.SpendDetail),
		EpochChan: make(chan *chainntnfs.BlockEpoch),
		ConfChan:  make(chan *chainntnfs.TxConfirmation),
	}
	cfg := chainWatcherConfig{
		chanState:           st,
		notifier:            base,
		signer:              w.Signer(pc.Party),
		extractStateNumHint: lnwallet.GetStateNumHint,
		chanCloseConfs:      fn.Some(uint32(1)),
		auxLeafStore:        fn.Some[lnwallet.AuxLeafStore](&lnwallet.MockAuxLeafStore{}),
		isOurAddr:           func(address.Address) bool { return false },
		contractBreach:      func(*lnwallet.BreachRetribution) error { return nil },
	}
	txid := tx.TxHash()
	stuckKey := fmt.Sprintf("%s|%v", pc.Conf+pc.tag(), st.ChanType)
	if c12StuckKnown(stuckKey) && !replaying {
		bad("watcher-stuck", "the chain watcher blocked on an earlier case of this class (%s); not waited for again", stuckKey)
		return nil, false
	}

	// --- the direct call (original pipe) ---
	if pc.Confs == 0 {
		watcher, err := newChainWatcher(cfg)
		if err != nil {
			bad("harness", "newChainWatcher: %v", err)
			return nil, false
		}
		sub := watcher.SubscribeChannelEvents()
		info("chain watcher: funding output spent by the %s transaction %v at height %d", pc.Conf, txid, hc)
		// own goroutine + join: classification paths that wait for something (the
		// data-loss commit point poll) must not take the harness with them
		done := make(chan error, 1)
		go func() {
			defer func() {
				if v := recover(); v != nil {
					done <- fmt.Errorf("panic: %v", v)
				}
			}()
			done <- watcher.handleCommitSpend(spendOf(tx, hc))
		}()
		select {
		case err := <-done:
			if err != nil {
				bad("watcher-error", "handleCommitSpend failed for our party's %s transaction: %v", pc.Conf, err)
				return nil, false
			}
		case <-time.After(c12StuckCap()):
			_ = watcher.Stop() // closes quit: the blocked call returns
			<-done
			c12StuckNote(stuckKey)
			bad("watcher-stuck", "handleCommitSpend did not return within %v for the %s transaction: it is blocked (waiting for a data-loss commit point?)", c12StuckCap(), pc.Conf)
			return nil, false
		}
		return drainEvents(sub), true
	}

	// --- the started watcher (closeObserver) ---
	nt := &c12Notifier{ChainNotifier: base, funding: st.FundingOutpoint}
	cfg.notifier, cfg.chanCloseConfs = nt, fn.Some(pc.Confs)
	watcher, err := newChainWatcher(cfg)
	if err != nil {
		bad("harness", "newChainWatcher: %v", err)
		return nil, false
	}
	sub := watcher.SubscribeChannelEvents()
	if err := watcher.Start(); err != nil {
		bad("harness", "chainWatcher.Start: %v", err)
		return nil, false
	}
	defer func() {
		_ = watcher.Stop()
		// the asynchronous path records the spend height in the channel database:
		// leave the live world as we found it
		_ = st.ResetCloseConfirmationHeight()
	}()
	stuck := func(step string) {
		c12StuckNote(stuckKey)
		bad("watcher-stuck", "the close observer did not take %s within %v: it is blocked", step, c12StuckCap())
	}
	// barrier: the observer acknowledges a block beat only after it finished whatever
	// it received before (one goroutine, one select loop).
	barrier := func(h uint32) bool {
		done := make(chan struct{})
		go func() {
			_ = watcher.ProcessBlock(chainio.NewBeat(chainntnfs.BlockEpoch{Height: int32(h)}))
			close(done)
		}()
		select {
		case <-done:
			return true
		case <-time.After(c12StuckCap()):
			stuck("a block beat")
			return false
		}
	}
	// drained: the observer took the spend out of the (buffered) notification channel.
	// Nothing else is pending at that moment, so it took it in the spend case of its
	// select; the barrier that follows returns after that case's body.
	drained := func(ch chan *chainntnfs.SpendDetail) bool {
		deadline := time.Now().Add(c12StuckCap())
		for len(ch) > 0 {
			if time.Now().After(deadline) {
				stuck("a spend notification")
				return false
			}
			time.Sleep(20 * time.Microsecond)
		}
		return true
	}
	detect := func(t *wire.MsgTx, h uint32, what string, viaBeat bool) bool {
		ch := nt.liveSpend()
		if !viaBeat {
			info("chain notifier: funding output spent by %s %v at height %d", what, t.TxHash(), h)
			select {
			case ch <- spendOf(t, h):
			default:
				bad("harness", "spend notification channel still full")
				return false
			}
			return drained(ch) && barrier(h)
		}
		// The spend is found by a block beat (handleBlockbeat -> checkFundingSpend)
		// instead of the spend case: the observer is held inside the beat (in the
		// Height() call it makes before handleBlockbeat), the notifier gets the spend
		// ready, the beat is released.
		var (
			entered, gate = make(chan struct{}), make(chan struct{})
			once, release sync.Once
			open          = func() { release.Do(func() { close(gate) }) }
		)
		defer open()
		beat := &chainio.MockBlockbeat{}
		beat.On("logger").Return(log)
		beat.On("Height").Return(int32(h)).Run(func(tmock.Arguments) {
			once.Do(func() {
				close(entered)
				<-gate
			})
		})
		done := make(chan struct{})
		go func() {
			_ = watcher.ProcessBlock(beat)
			close(done)
		}()
		select {
		case <-entered:
		case <-done:
			// the hook was not reached (no Height() call before handleBlockbeat any
			// more): the variant does not apply
			info("block-beat variant not applicable: the beat was processed without the hook being reached")
			return false
		case <-time.After(c12StuckCap()):
			stuck("a block beat")
			return false
		}
		info("chain notifier: funding output spent by %s %v at height %d, found by the block beat", what, t.TxHash(), h)
		select {
		case ch <- spendOf(t, h):
		default:
			bad("harness", "spend notification channel still full")
			return false
		}
		open()
		select {
		case <-done:
		case <-time.After(c12StuckCap()):
			stuck("a block beat")
			return false
		}
		// the beat is acknowledged before the spend it found is processed: a second
		// beat returns after that
		return drained(ch) && barrier(h)
	}
	early := func(after string) bool {
		if evs := drainEvents(sub); len(evs) > 0 {
			bad("observer-event-before-confirmation", "chanCloseConfs=%d: a %q close event was dispatched after %s although no confirmation has been delivered yet",
				pc.Confs, evs[0].kind, after)
			return true
		}
		return false
	}

	h := hc
	if pc.Rival != "" {
		rtx := tx
		if pc.Rival != "same" {
			var ok bool
			if rtx, _, _, ok = pipeTx(st, pc.Rival); !ok {
				return nil, false
			}
		}
		if !detect(rtx, h, "the rival ("+pc.Rival+")", false) {
			return nil, false
		}
		if early("the first spend was detected") {
			return nil, false
		}
		if pc.Reorg {
			r := nt.liveConf(rtx.TxHash())
			if r == nil {
				bad("observer-no-conf-registration", "the watcher detected the spend by %v but holds no live confirmation registration for it; registrations: %s",
					rtx.TxHash(), nt.describe())
				return nil, false
			}
			info("chain notifier: %v re-orged out (negative confirmation)", rtx.TxHash())
			select {
			case r.neg <- 1:
			case <-time.After(c12StuckCap()):
				stuck("a negative confirmation")
				return nil, false
			}
			if !barrier(h) {
				return nil, false
			}
			h++
		}
	}
	if !detect(tx, h, "the "+pc.Conf+" transaction", pc.ViaBeat) {
		return nil, false
	}
	if pc.Confs > 1 {
		if early("the spend that is about to confirm was detected") {
			return nil, false
		}
		r := nt.liveConf(txid)
		if r == nil {
			bad("observer-no-conf-registration", "the watcher detected the spend by %v last but holds no live confirmation registration for it (it waits for another transaction); registrations: %s",
				txid, nt.describe())
			return nil, false
		}
		if r.numConfs != pc.Confs {
			bad("observer-conf-depth", "chanCloseConfs=%d but the watcher waits for %d confirmation(s) of %v", pc.Confs, r.numConfs, txid)
			return nil, false
		}
		info("chain notifier: %v reached %d confirmations", txid, pc.Confs)
		select {
		case r.conf <- &chainntnfs.TxConfirmation{Tx: tx, BlockHeight: h + pc.Confs - 1}:
		case <-time.After(c12StuckCap()):
			stuck("the confirmation")
			return nil, false
		}
		if !barrier(h + pc.Confs - 1) {
			return nil, false
		}
	}
	evs = drainEvents(sub)
	nt.mu.Lock()
	foreign := append([]string{}, nt.foreign...)
	nt.mu.Unlock()
	if len(foreign) > 0 {
		bad("queried-with-foreign-key/dep=ChainNotifier", "the watcher registered for something that is not its funding outpoint: %v", foreign)
		return nil, false
	}
	return evs, true
}

// c12ObserverCases: the cases of the families pipe/coop and pipe/observer for one
// (state, party). full: the whole product; otherwise the two cooperative-close
// sequences (direct) and one asynchronous confirmation of the peer's newest commitment.
func c12ObserverCases(party int, hasPending, full bool) (out []c12PipeCase) {
	three := []string{"local", "remote"}
	if hasPending {
		three = append(three, "pending")
	}
	add := func(pc c12PipeCase) {
		pc.Party, pc.Pre = party, "none"
		out = append(out, pc)
	}
	for _, c := range []string{"coop-final", "coop-rbf"} {
		add(c12PipeCase{Conf: c})
	}
	if !full {
		add(c12PipeCase{Conf: three[len(three)-1], Confs: 3})
		return out
	}
	for _, x := range three {
		add(c12PipeCase{Conf: x, Confs: 1})
		add(c12PipeCase{Conf: x, Confs: 3})
		var rivals []string
		for _, y := range three {
			if y != x {
				rivals = append(rivals, y)
			}
		}
		// the spend that confirms is found by a block beat instead of the spend case
		add(c12PipeCase{Conf: x, Confs: 1, ViaBeat: true})
		add(c12PipeCase{Conf: x, Confs: 3, ViaBeat: true})
		for _, r := range rivals {
			for _, reorg := range []bool{false, true} {
				add(c12PipeCase{Conf: x, Confs: 3, Rival: r, Reorg: reorg, ViaBeat: true})
			}
		}
		rivals = append(rivals, "same", "coop-rbf")
		for _, r := range rivals {
			for _, reorg := range []bool{false, true} {
				add(c12PipeCase{Conf: x, Confs: 3, Rival: r, Reorg: reorg})
			}
		}
	}
	for _, c := range []string{"coop-final", "coop-rbf"} {
		add(c12PipeCase{Conf: c, Confs: 3})
	}
	add(c12PipeCase{Conf: "coop-rbf", Confs: 3, Rival: "local"})
	add(c12PipeCase{Conf: "coop-final", Confs: 3, Rival: "remote", Reorg: true})
	return out
}

// c12StuckNote counts one really observed blocked watcher for a class; c12StuckKnown:
// the class blocked three times (a case and the two re-executions of its determinism
// gate), later cases are not waited for again.
func c12StuckNote(key string) {
	v, _ := c12StuckSeen.LoadOrStore(key, new(atomic.Int32))
	if v.(*atomic.Int32).Add(1) >= 3 {
		c12StuckConfirmed.Store(true)
	}
}

// c12StuckConfirmed: a blocked watcher was established for one class in this run (three
// hits at the full cap). Other classes then wait c12ObsStuckShort per step only - they
// still have to block three times in a row to be reported - so that a tree with a
// blocking watcher costs minutes, not the tier's budget.
var c12StuckConfirmed atomic.Bool

const c12ObsStuckShort = 3 * time.Second

func c12StuckCap() time.Duration {
	if c12StuckConfirmed.Load() {
		return c12ObsStuckShort
	}
	return c12ObsStuck
}

func c12StuckKnown(key string) bool {
	v, ok := c12StuckSeen.Load(key)
	return ok && v.(*atomic.Int32).Load() >= 3
}
