// C12 harness, part 2: scenarios and the spec function.
//
// The oracle below is written from the text of property C12 only. It never looks at
// the arbitrator's ChainActionMap or at which code path produced an observation; its
// inputs are the cell (HTLC sets + configuration), the scenario (which triggers were
// delivered at which heights) and the observations made at the arbitrator's
// boundary: ForceCloseChan invocations, ResolutionMsgs handed to the switch,
// PutFinalHtlcOutcome calls and the resolvers passed to InsertUnresolvedContracts.
package contractcourt

import (
	"fmt"
	"runtime/debug"
	"strings"
)

// c12Scenario is one execution on a cell.
type c12Scenario struct {
	Kind string `json:"kind"` // "time" or "disp"
	// time: block heights Lo..Hi are delivered in order with chainTrigger until the
	// arbitrator force closes.
	Lo uint32 `json:"lo,omitempty"`
	Hi uint32 `json:"hi,omitempty"`
	// Start "late": Lo is already past a cutoff (skipped heights).
	Start string `json:"start,omitempty"`
	// disp: optional go-to-chain step at height H0 ("chain": a block epoch,
	// "user": a force-close request, "none": nothing), then the confirmation of
	// one commitment ("local", "remote", "pending"), a breach or a cooperative
	// close at H0 (Pre none) or H0+1.
	Pre  string `json:"pre,omitempty"`
	Conf string `json:"conf,omitempty"`
	H0   uint32 `json:"h0,omitempty"`
	// Fault (disp, Pre chain/user): what the go-to-chain step runs into.
	//   dataloss    ForceCloseChan answers ErrForceCloseLocalDataLoss
	//   doublespend PublishTx answers ErrDoubleSpend (e.g. the peer's commitment is
	//               already in the mempool)
	//   mempoolfee  PublishTx answers ErrMempoolFee
	//   pubfail     PublishTx fails with another error
	Fault string `json:"fault,omitempty"`
	// Restart (disp): node restarts at quiescent points of the history.
	//   pre        after the go-to-chain step, before anything confirms
	//   redeliver  the close event was logged and the channel marked closed, but
	//              the state machine did not advance; the next start finds a
	//              closing channel (IsPendingClose, CloseType, ClosingHeight)
	//   unmarked   the close event was logged but the channel not yet marked
	//              closed when the node stopped; the restarted arbitrator (open
	//              channel) processes a block (Pre "chain": at H0, this IS the
	//              go-to-chain step; Pre "none": at H0-20, where nothing is at its
	//              cutoff), then the chain watcher delivers the event again
	//   pre+redeliver  both of the first two
	Restart string `json:"restart,omitempty"`
}

// vtag is the signature suffix naming every non-default audit dimension of the
// execution (cell dimensions, fault, restart); empty for the original lattice, so
// original signatures are unchanged.
func vtag(c *c12Cell, sc c12Scenario) string {
	t := c.vtags()
	if sc.Fault != "" {
		t = append(t, sc.Fault)
	}
	if sc.Restart != "" {
		t = append(t, "restart:"+sc.Restart)
	}
	if sc.Start != "" {
		t = append(t, "start:"+sc.Start)
	}
	if len(t) == 0 {
		return ""
	}
	return "/v=" + strings.Join(t, ",")
}

type c12Viol struct {
	Sig  string
	What string
	// MapOrder: the judged HTLC is map-order sensitive inside lnd (see
	// c12HTLC.mapOrderSensitive).
	MapOrder bool
}

// atCutoff: height h is no more than delta blocks before expiry (h >= exp-delta,
// written without subtraction).
func atCutoff(h, exp, delta uint32) bool { return uint64(h)+uint64(delta) >= uint64(exp) }

// ---------------------------------------------------------------------------
// (a) timeliness
// ---------------------------------------------------------------------------

// mustClose: sentence 1 of C12 for one HTLC at height h. A still-pending offered
// HTLC is one that is on at least one of the three commitments and whose preimage
// the node has not learnt; for own payments the obligation exists only once the
// start-up grace period has passed. A received HTLC obliges iff its preimage is
// known.
func mustClose(c *c12Cell, x c12HTLC, h uint32) bool {
	if x.In {
		return c12Known(x.Pre) && atCutoff(h, x.Exp, c.DIn)
	}
	return !c12Known(x.Pre) && (x.Fwd || c.GracePassed) && atCutoff(h, x.Exp, c.DOut)
}

type c12TimeResult struct {
	ClosedAt  int64  `json:"closed_at"` // -1: never within the sweep
	FirstMust int64  `json:"first_must"`
	Class     string `json:"class"`
}

// runTime delivers the block heights of the scenario and judges sentence 1.
func runTime(cell c12Cell, sc c12Scenario, info func(string, ...any)) (res c12TimeResult, obs c12Obs, viols []c12Viol) {
	w := newC12World(cell, info)
	defer w.close()
	cell = w.cell
	res.ClosedAt, res.FirstMust = -1, -1
	foreignSeen := false
	vt := vtag(&cell, sc)
	defer func() {
		if v := recover(); v != nil {
			st := debug.Stack()
			viols = append(viols, c12Viol{
				Sig:  "time/panic/at=" + panicSite(st),
				What: fmt.Sprintf("panic in advanceState: %v\n%s", v, st),
			})
		}
	}()
	w.lateFeed(sc.Lo - 20)
	for h := sc.Lo; h <= sc.Hi; h++ {
		must := -1
		for k, x := range cell.HTLCs {
			if mustClose(&cell, x, h) {
				must = k
				break
			}
		}
		if must >= 0 && res.FirstMust < 0 {
			res.FirstMust = int64(h)
		}
		st := w.advance(h, chainTrigger, nil)
		w.mu.Lock()
		obs.ForceCloses, obs.Errors, obs.States = w.obs.ForceCloses, w.obs.Errors, w.obs.States
		w.mu.Unlock()
		closed := obs.ForceCloses > 0
		w.mu.Lock()
		nf := len(w.foreign)
		w.mu.Unlock()
		if closed || nf > 0 {
			obs = w.snapshot()
		}
		if nf > 0 && !foreignSeen {
			foreignSeen = true
			viols = append(viols, foreignViols("time", &obs)...)
		}
		if len(obs.Errors) > 0 {
			viols = append(viols, c12Viol{
				Sig:  "time/advance-error",
				What: fmt.Sprintf("advanceState failed at height %d: %v", h, obs.Errors),
			})
			res.Class = "error"
			return
		}
		if !closed && st != StateDefault {
			viols = append(viols, c12Viol{
				Sig:  "time/left-default-without-force-close",
				What: fmt.Sprintf("state %v at height %d without a ForceCloseChan call", st, h),
			})
			res.Class = "error"
			return
		}
		if must >= 0 && !closed {
			x := cell.HTLCs[must]
			delta := cell.DOut
			if x.In {
				delta = cell.DIn
			}
			viols = append(viols, c12Viol{
				Sig: fmt.Sprintf("time/no-force-close-by-cutoff/htlc=%s/n=%d%s", x.desc(cell.HasPending), len(cell.HTLCs), vt),
				What: fmt.Sprintf("height %d is within %d blocks of the expiry %d of HTLC #%d (%s) but ForceCloseChan "+
					"was not called (delta_out=%d delta_in=%d grace_passed=%v)", h, delta, x.Exp, must,
					x.desc(cell.HasPending), cell.DOut, cell.DIn, cell.GracePassed),
			})
			res.Class = "late"
			return
		}
		if !closed {
			continue
		}
		res.ClosedAt = int64(h)
		if must >= 0 {
			res.Class = "closed-at-first-required-height"
			return
		}
		// Closed although sentence 1 did not require it at this height. "No later
		// than" permits an early close for any offered or claimable HTLC, so the
		// only thing the text forbids is a close that cannot be attributed to one:
		// the cell holds nothing but received HTLCs the node cannot claim.
		var other, offeredAt, unclaimable *c12HTLC
		for k := range cell.HTLCs {
			x := &cell.HTLCs[k]
			switch {
			case !x.In:
				other = x
				if atCutoff(h, x.Exp, cell.DOut) {
					offeredAt = x
				}
			case c12Known(x.Pre):
				other = x
			default:
				if unclaimable == nil || atCutoff(h, x.Exp, cell.DIn) {
					unclaimable = x
				}
			}
		}
		switch {
		case offeredAt != nil:
			// e.g. an offered HTLC whose preimage is already known, or an own
			// payment before the grace period: not demanded, not forbidden.
			res.Class = "closed-for-offered-htlc-not-demanded-by-text"
		case other != nil:
			res.Class = "closed-early-while-another-htlc-is-pending"
		case unclaimable != nil:
			viols = append(viols, c12Viol{
				Sig: fmt.Sprintf("time/closed-merely-for-unclaimable-received/htlc=%s/n=%d%s",
					unclaimable.desc(cell.HasPending), len(cell.HTLCs), vt),
				What: fmt.Sprintf("ForceCloseChan at height %d although the channel holds only received HTLCs whose "+
					"preimage is unknown (e.g. %s, expiry %d, delta_in=%d)", h,
					unclaimable.desc(cell.HasPending), unclaimable.Exp, cell.DIn),
			})
			res.Class = "closed-for-unclaimable"
		default:
			res.Class = "closed-without-htlcs"
		}
		return
	}
	if res.Class == "" {
		res.Class = "never-closed-none-required"
	}
	return
}

// ---------------------------------------------------------------------------
// (b) disposition
// ---------------------------------------------------------------------------

type c12DispResult struct {
	Skipped string   `json:"skipped,omitempty"`
	Classes []string `json:"classes"` // per-HTLC outcome classes
}

func runDisp(cell c12Cell, sc c12Scenario, info func(string, ...any)) (res c12DispResult, obs c12Obs, viols []c12Viol) {
	w := newC12World(cell, info)
	defer w.close()
	cell = w.cell
	defer func() {
		if v := recover(); v != nil {
			// One signature per panic site (not per scenario): the site names the
			// defect, the replay names one execution that reaches it.
			st := debug.Stack()
			obs = w.snapshot()
			viols = append(viols, c12Viol{
				Sig: "disp/panic/at=" + panicSite(st),
				What: fmt.Sprintf("panic in the arbitrator (pre=%s conf=%s%s): %v\n%s", sc.Pre, sc.Conf,
					vtag(&cell, sc), v, st),
			})
		}
	}()
	hc := sc.H0
	w.lateFeed(sc.H0 - 20)
	w.mu.Lock()
	w.fault = sc.Fault
	w.mu.Unlock()
	unmarked := sc.Restart == "unmarked"
	if unmarked {
		// The close event's log writes happened, then the node stopped before
		// the channel was marked closed. Not yet a confirmation the arbitrator
		// acts on: the phase stays 0 until the event is delivered again.
		w.persistClose(sc.Conf)
		w.info("close event (%s) written to the log, node stops before marking the channel closed", sc.Conf)
	}
	switch sc.Pre {
	case "chain":
		if unmarked {
			w.restart(sc.H0, nil)
		} else {
			w.advance(sc.H0, chainTrigger, nil)
		}
		if w.snapshot().ForceCloses == 0 {
			// Nothing forced a close at H0: the rest would duplicate Pre=none.
			res.Skipped = "no-close-at-h0"
			obs = w.snapshot()
			return
		}
		hc++
	case "user":
		w.advance(sc.H0, userTrigger, nil)
		hc++
	default:
		if unmarked {
			w.restart(sc.H0-20, nil)
		}
	}
	if sc.Restart == "pre" || sc.Restart == "pre+redeliver" {
		w.restart(sc.H0, nil)
	}
	if sc.Restart == "redeliver" || sc.Restart == "pre+redeliver" {
		w.confirmThenRestart(hc, sc.Conf)
	} else {
		w.confirm(hc, sc.Conf)
	}
	obs = w.snapshot()
	res.Classes, viols = judgeDisp(&cell, sc, &obs)
	return
}

// panicSite: the innermost lnd (non-harness) function on a panicking stack.
func panicSite(stack []byte) string {
	seenPanic := false
	for _, ln := range strings.Split(string(stack), "\n") {
		if strings.HasPrefix(ln, "panic(") {
			seenPanic = true
			continue
		}
		if !seenPanic || strings.HasPrefix(ln, "\t") || strings.HasPrefix(ln, "runtime.") {
			continue
		}
		if i := strings.Index(ln, "lightningnetwork/lnd/"); i >= 0 {
			f := ln[i+len("lightningnetwork/lnd/"):]
			if j := strings.LastIndex(f, "("); j > 0 {
				f = f[:j]
			}
			return f
		}
	}
	return "unknown"
}

func kindDir(kind string) string {
	switch {
	case strings.Contains(kind, "Timeout"), strings.Contains(kind, "OutgoingContest"):
		return "out"
	case strings.Contains(kind, "Success"), strings.Contains(kind, "IncomingContest"):
		return "in"
	}
	return "?"
}

func shortKind(kind string) string {
	if i := strings.LastIndex(kind, "."); i >= 0 {
		kind = kind[i+1:]
	}
	return kind
}

// judgeDisp is sentences 2 and 3 of C12.
func judgeDisp(c *c12Cell, sc c12Scenario, o *c12Obs) (classes []string, viols []c12Viol) {
	pfx := fmt.Sprintf("pre=%s/conf=%s", sc.Pre, sc.Conf)
	vt := vtag(c, sc)
	// cpfx: prefix of the outcome classes (coverage accounting only).
	cpfx := pfx
	if sc.Fault != "" {
		cpfx += "/fault=" + sc.Fault
	}
	if sc.Restart != "" {
		cpfx += "/restart=" + sc.Restart
	}
	add := func(clause string, x *c12HTLC, what string) {
		d := "-"
		if x != nil {
			d = x.desc(c.HasPending)
			// whether the HTLC was within its broadcast delta at H0
			dl := c.DOut
			if x.In {
				dl = c.DIn
			}
			if atCutoff(sc.H0, x.Exp, dl) {
				d += ":at"
			} else {
				d += ":far"
			}
		}
		viols = append(viols, c12Viol{
			Sig:      fmt.Sprintf("disp/%s/%s/htlc=%s%s", clause, pfx, d, vt),
			What:     what,
			MapOrder: x != nil && x.mapOrderSensitive(),
		})
	}
	if len(o.Errors) > 0 {
		add("advance-error", nil, fmt.Sprintf("advanceState returned an error: %v", o.Errors))
	}
	viols = append(viols, foreignViols("disp", o)...)

	threeCommit := sc.Conf == "local" || sc.Conf == "remote" || sc.Conf == "pending"
	var key HtlcSetKey
	if threeCommit {
		key, _ = confKey(sc.Conf)
	}

	// Attribute observations. ResolutionMsgs address offered HTLCs, final outcomes
	// address received HTLCs (separate id spaces).
	failsPre := map[uint64]int{}
	failsPost := map[uint64]int{}
	for _, m := range o.Msgs {
		if !m.Fail {
			continue
		}
		if m.Phase == 0 {
			failsPre[m.Idx]++
		} else {
			failsPost[m.Idx]++
		}
	}
	finalFail := map[uint64]int{}
	finalSettle := map[uint64]int{}
	for _, f := range o.Finals {
		if f.Settled {
			finalSettle[f.Idx]++
		} else {
			finalFail[f.Idx]++
		}
	}
	offered := map[uint64]bool{}
	received := map[uint64]bool{}
	for _, x := range c.HTLCs {
		if x.In {
			received[x.Idx] = true
		} else {
			offered[x.Idx] = true
		}
	}
	for idx := range mergeKeys(failsPre, failsPost) {
		if !offered[idx] {
			add("failback-for-no-offered-htlc", nil,
				fmt.Sprintf("a fail ResolutionMsg was delivered for HTLC index %d which is not an offered HTLC of this channel", idx))
		}
	}
	for idx := range mergeKeys(finalFail, finalSettle) {
		if !received[idx] {
			add("final-outcome-for-no-received-htlc", nil,
				fmt.Sprintf("PutFinalHtlcOutcome for HTLC index %d which is not a received HTLC of this channel", idx))
		}
	}

	// Resolvers by output index on the confirmed commitment.
	resAt := map[uint32][]c12Res{}
	for _, r := range o.Resolvers {
		if !r.Htlc {
			continue
		}
		if !threeCommit {
			classes = append(classes, cpfx+"|htlc-resolver-on-"+sc.Conf)
			continue
		}
		if r.Hash != c.commitHash(key).String()[:8] {
			add("resolver-for-other-commitment", nil, fmt.Sprintf("resolver %s watches %s:%d, not the confirmed commitment", r.Kind, r.Hash, r.Index))
			continue
		}
		resAt[r.Index] = append(resAt[r.Index], r)
	}

	for k := range c.HTLCs {
		x := &c.HTLCs[k]
		fp, fq := failsPre[x.Idx], failsPost[x.Idx]
		if x.In {
			fp, fq = 0, 0
		}
		ff, fs := 0, 0
		if x.In {
			ff, fs = finalFail[x.Idx], finalSettle[x.Idx]
		}
		var rs []c12Res
		pk := int8(c12Absent)
		if threeCommit {
			pk = x.on(key)
			rs = resAt[uint32(c.outIdx(key, k))]
			delete(resAt, uint32(c.outIdx(key, k)))
		}
		rk := "none"
		if len(rs) > 0 {
			rk = shortKind(rs[0].Kind)
			if len(rs) > 1 {
				rk += fmt.Sprintf("x%d", len(rs))
			}
		}
		classes = append(classes, fmt.Sprintf("%s|%s|onconf=%s|res=%s|fail=%d+%d|final=%d/%d",
			cpfx, x.desc(c.HasPending), presCh(pk), rk, fp, fq, ff, fs))
		if !threeCommit {
			// Breach / cooperative close: sentence 2 speaks about the three
			// valid commitments only. Recorded, not judged.
			continue
		}
		dir := "out"
		if x.In {
			dir = "in"
		}

		switch {
		case pk == c12Output:
			// "every HTLC with an output on it gets exactly one on-chain resolver"
			switch {
			case len(rs) == 0:
				add("resolver-missing", x, fmt.Sprintf("HTLC #%d has output %d on the confirmed %s commitment but no resolver was inserted", k, c.outIdx(key, k), sc.Conf))
			case len(rs) > 1:
				add("resolver-duplicate", x, fmt.Sprintf("HTLC #%d has %d resolvers: %v", k, len(rs), rs))
			case kindDir(rs[0].Kind) != dir:
				add("resolver-wrong-direction", x, fmt.Sprintf("HTLC #%d (%s) got resolver %s", k, dir, rs[0].Kind))
			}
			// "An upstream fail-back is never issued for an offered HTLC that
			// still has an output on the confirmed commitment."
			if !x.In && fq > 0 {
				add("failback-with-output/issued=after-confirmation", x, fmt.Sprintf(
					"offered HTLC #%d (idx %d) has output %d on the confirmed %s commitment, yet %d upstream fail(s) were issued after the confirmation", k, x.Idx, c.outIdx(key, k), sc.Conf, fq))
			}
			if !x.In && fp > 0 {
				add("failback-with-output/issued=before-confirmation", x, fmt.Sprintf(
					"offered HTLC #%d (idx %d) was failed back upstream (%d msg) at the go-to-chain step (%s trigger, height %d), before anything confirmed; the %s commitment then confirmed and the HTLC has output %d on it (and a resolver: %s)",
					k, x.Idx, fp, sc.Pre, sc.H0, sc.Conf, c.outIdx(key, k), rk))
			}

		case !x.In && pk == c12Dust:
			// "every offered HTLC that is dust there ... is failed back upstream
			// exactly once"
			switch n := fp + fq; {
			case n == 0:
				add("failback-missing/dust-on-confirmed", x, fmt.Sprintf(
					"offered HTLC #%d (idx %d) is dust on the confirmed %s commitment but was never failed back upstream", k, x.Idx, sc.Conf))
			case n > 1:
				add("failback-duplicate/dust-on-confirmed", x, fmt.Sprintf(
					"offered HTLC #%d (idx %d), dust on the confirmed %s commitment, was failed back %d times (%d before, %d after confirmation)", k, x.Idx, sc.Conf, n, fp, fq))
			}

		case !x.In && pk == c12Absent:
			// "... or exists only on a non-confirmed commitment is failed back
			// upstream exactly once (the latter unless its preimage is already
			// known)"
			if c12Known(x.Pre) {
				break
			}
			switch n := fp + fq; {
			case n == 0:
				add("failback-missing/only-on-unconfirmed", x, fmt.Sprintf(
					"offered HTLC #%d (idx %d) exists only on non-confirmed commitments (%s confirmed), its preimage is unknown, but it was never failed back upstream", k, x.Idx, sc.Conf))
			case n > 1:
				add("failback-duplicate/only-on-unconfirmed", x, fmt.Sprintf(
					"offered HTLC #%d (idx %d), only on non-confirmed commitments, was failed back %d times (%d before, %d after confirmation)", k, x.Idx, n, fp, fq))
			}

		case x.In && pk == c12Dust:
			// "received dust is closed out without further action"
			switch {
			case fs > 0:
				add("received-dust-marked-settled", x, fmt.Sprintf("received dust HTLC #%d (idx %d) got final outcome settled=true", k, x.Idx))
			case ff == 0:
				add("received-dust-not-closed-out", x, fmt.Sprintf("received HTLC #%d (idx %d) is dust on the confirmed %s commitment but no final outcome was recorded for it", k, x.Idx, sc.Conf))
			case ff > 1:
				add("received-dust-closed-out-twice", x, fmt.Sprintf("received dust HTLC #%d (idx %d) got %d final outcomes", k, x.Idx, ff))
			}
		}
	}
	for idx, rs := range resAt {
		add("resolver-without-output", nil, fmt.Sprintf("resolver(s) %v inserted for output %d of the confirmed commitment, where no HTLC of the commit set has an output", rs, idx))
	}
	return
}

// foreignViols: a dependency was queried (or notified) with a key that belongs to
// no HTLC of the channel: whatever the arbitrator concluded from the answer, it was
// not about the HTLC it was deciding on.
func foreignViols(kind string, o *c12Obs) (viols []c12Viol) {
	seen := map[string]bool{}
	for _, f := range o.Foreign {
		dep := f
		if i := strings.Index(f, ":"); i >= 0 {
			dep = f[:i]
		}
		if seen[dep] {
			continue
		}
		seen[dep] = true
		viols = append(viols, c12Viol{
			Sig:  fmt.Sprintf("%s/queried-with-foreign-key/dep=%s", kind, dep),
			What: fmt.Sprintf("%s was called with a key that addresses no HTLC of this channel (%v)", dep, o.Foreign),
		})
	}
	return
}

func mergeKeys(a, b map[uint64]int) map[uint64]bool {
	m := map[uint64]bool{}
	for k := range a {
		m[k] = true
	}
	for k := range b {
		m[k] = true
	}
	return m
}
