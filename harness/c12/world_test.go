// C12 harness, part 1: the closed world around one un-started ChannelArbitrator.
//
// The arbitrator is built with the exported constructor NewChannelArbitrator and a
// harness-owned configuration (every dependency is an exported interface or func
// field), a harness-owned in-memory ArbitratorLog, and is *never started*: the state
// machine is driven synchronously through advanceState, exactly the call the
// arbitrator's own goroutine makes for a block epoch, a user request or a close
// event.
//
// Unexported identifiers relied on (kept minimal, see the final report):
//
//	advanceState, the six transitionTrigger constants, notifyContractUpdate,
//	htlcSet/newHtlcSet (start-up feed only), and the package's test fixture
//	mockOnionProcessor (so that launched incoming-contest resolvers can decode a
//	payload and park on the silent notifier).
package contractcourt

import (
	"context"
	"crypto/sha256"
	"errors"
	"fmt"
	"sort"
	"sync"
	"sync/atomic"
	"time"

	"github.com/btcsuite/btcd/chainhash/v2"
	"github.com/btcsuite/btcd/txscript/v2"
	"github.com/btcsuite/btcd/wire/v2"
	"github.com/lightningnetwork/lnd/chainntnfs"
	"github.com/lightningnetwork/lnd/channeldb"
	"github.com/lightningnetwork/lnd/chanstate"
	"github.com/lightningnetwork/lnd/clock"
	"github.com/lightningnetwork/lnd/fn/v2"
	"github.com/lightningnetwork/lnd/graph/db/models"
	"github.com/lightningnetwork/lnd/htlcswitch/hop"
	"github.com/lightningnetwork/lnd/input"
	"github.com/lightningnetwork/lnd/invoices"
	"github.com/lightningnetwork/lnd/kvdb"
	"github.com/lightningnetwork/lnd/lntest/mock"
	"github.com/lightningnetwork/lnd/lntypes"
	"github.com/lightningnetwork/lnd/lnwallet"
	"github.com/lightningnetwork/lnd/lnwallet/chainfee"
	"github.com/lightningnetwork/lnd/lnwire"
	"github.com/lightningnetwork/lnd/sweep"
)

// ---------------------------------------------------------------------------
// Cell description (JSON-able: it is the replay artefact)
// ---------------------------------------------------------------------------

// Presence of an HTLC on one commitment.
const (
	c12Absent  = 0
	c12Dust    = 1 // present, OutputIndex = -1
	c12Output  = 2 // present, has an output
	c12Grace   = time.Hour
	c12PreNone = 0
	c12PreBcn  = 1 // preimage in the witness beacon (PreimageDB)
	c12PreInv  = 2 // preimage in an invoice of the registry
	// Two more answers of the registry that both mean "preimage NOT known":
	c12PreHold  = 3 // an invoice for the hash exists but carries no preimage (hold invoice not yet settled)
	c12PreNoInv = 4 // the registry answers ErrNoInvoicesCreated instead of ErrInvoiceNotFound
)

// c12Known: does the node know the preimage of an HTLC with this Pre value.
func c12Known(p int8) bool { return p == c12PreBcn || p == c12PreInv }

// c12HTLC is one HTLC of a cell.
type c12HTLC struct {
	In  bool   `json:"in"`  // received (true) or offered (false)
	L   int8   `json:"l"`   // presence on the local commitment
	R   int8   `json:"r"`   // presence on the remote commitment
	P   int8   `json:"p"`   // presence on the remote pending commitment (0 if none exists)
	Pre int8   `json:"pre"` // preimage knowledge
	Fwd bool   `json:"fwd"` // offered HTLC was forwarded for an upstream peer (false: own payment)
	Exp uint32 `json:"exp"` // absolute expiry height
	// Idx is assigned by the world: offered and received HTLCs are numbered
	// independently from 0 (as the two parties' HTLC counters are), so ids collide
	// across directions on purpose.
	Idx uint64 `json:"idx"`
}

// c12Cell is one enumerated input: HTLC sets on the three commitments plus config.
type c12Cell struct {
	HTLCs       []c12HTLC `json:"htlcs"`
	HasPending  bool      `json:"has_pending"` // a remote pending commitment exists
	DOut        uint32    `json:"delta_out"`
	DIn         uint32    `json:"delta_in"`
	GracePassed bool      `json:"grace_passed"`
	Startup     bool      `json:"startup_feed"` // HTLC sets given at construction instead of by contract updates

	// Dimensions added by the audit (zero value = the original behaviour, so old
	// replay artefacts keep their meaning).
	//
	// GraceMode: 0 = PaymentsExpirationGracePeriod 1h, uptime 1h-/+1min according
	// to GracePassed; 1 = grace 1h, uptime exactly 1h (threshold: not passed);
	// 2 = grace 0 (lnd's default), uptime 1min (passed); 3 = grace 0, uptime 0
	// (threshold: not passed).
	GraceMode int8 `json:"grace_mode,omitempty"`
	// Numbering: 0 = HTLC ids from 1, output indices 20+/40+/60+ (disjoint per
	// commitment); 1 = everything zero-based (ids from 0, output indices from 0 on
	// every commitment: the first HTLC of a young channel sits at output 0).
	Numbering int8 `json:"numbering,omitempty"`
	// Extras: 1 = the close summary also carries a commit (to-self) resolution and
	// an anchor resolution next to the HTLC resolutions.
	Extras int8 `json:"extras,omitempty"`
	// Hist: answer of FetchHistoricalChannel: 0 = found (zero-value legacy
	// channel), 1 = ErrChannelNotFound, 2 = ErrNoHistoricalBucket, 3 = found,
	// anchor channel type.
	Hist int8 `json:"hist,omitempty"`
	// SameHash: all HTLCs of the cell carry one payment hash (shards of one MPP
	// payment / a circular route); requires equal Pre values.
	SameHash bool `json:"same_hash,omitempty"`
	// LateFeed: the link's contract updates arrive only after a first block epoch
	// has been processed on empty HTLC sets (every HTLC added after start-up).
	LateFeed bool `json:"late_feed,omitempty"`

	// real: the cell was read off a live channel (pipe spaces, see pipe_test.go);
	// HTLC entries, output indices, payment hashes and commitment txids are the
	// channel's own instead of the synthetic ones.
	real *c12Real
}

type c12Real struct {
	sets      map[HtlcSetKey][]channeldb.HTLC
	commit    map[HtlcSetKey]chainhash.Hash
	out       [][3]int32 // per HTLC: output index on (local, remote, pending), -1 if none
	hashes    []lntypes.Hash
	preimages []*lntypes.Preimage
	chanState *chanstate.OpenChannel
}

// vtag renders the non-default audit dimensions of a cell (signature suffix).
func (c *c12Cell) vtags() []string {
	var t []string
	if c.real != nil {
		t = append(t, "pipe")
	}
	if c.GraceMode != 0 {
		t = append(t, fmt.Sprintf("grace%d", c.GraceMode))
	}
	if c.Numbering != 0 {
		t = append(t, "zerobased")
	}
	if c.Extras != 0 {
		t = append(t, "extras")
	}
	if c.Hist != 0 {
		t = append(t, fmt.Sprintf("hist%d", c.Hist))
	}
	if c.SameHash {
		t = append(t, "samehash")
	}
	if c.LateFeed {
		t = append(t, "latefeed")
	}
	return t
}

func (c *c12Cell) number() {
	// HTLC ids start at 1 in each direction: non-zero, colliding across the two
	// directions on purpose, and disjoint from the ranges used for LogIndex
	// (100+) and for the per-commitment output indices (20+, 40+, 60+), so that
	// any index-like field read in place of another addresses no HTLC at all.
	//
	// Numbering 1 gives up that separation on purpose: ids and output indices start
	// at 0, the value the code's comparisons against zero single out.
	if c.real != nil {
		return // ids are the channel's own
	}
	o, i := uint64(1), uint64(1)
	if c.Numbering == 1 {
		o, i = 0, 0
	}
	for k := range c.HTLCs {
		if c.HTLCs[k].In {
			c.HTLCs[k].Idx = i
			i++
		} else {
			c.HTLCs[k].Idx = o
			o++
		}
	}
}

func presCh(p int8) string {
	switch p {
	case c12Dust:
		return "d"
	case c12Output:
		return "n"
	}
	return "-"
}

// desc is the class descriptor of an HTLC used in signatures.
func (h c12HTLC) desc(hasPending bool) string {
	d := "out"
	if h.In {
		d = "in"
	}
	p := "x"
	if hasPending {
		p = presCh(h.P)
	}
	f := ""
	if !h.In {
		f = ":own"
		if h.Fwd {
			f = ":fwd"
		}
	}
	return fmt.Sprintf("%s:%s%s%s:p%d%s", d, presCh(h.L), presCh(h.R), p, h.Pre, f)
}

// mapOrderSensitive: an offered HTLC that is absent from the local commitment and
// present on both remote commitments with different dust-ness. lnd's
// checkRemoteDanglingActions merges the two entries into one map keyed by HTLC id
// while ranging over a Go map, so which OutputIndex it sees is not determined.
func (h c12HTLC) mapOrderSensitive() bool {
	return !h.In && h.L == c12Absent && h.R != c12Absent && h.P != c12Absent && h.R != h.P
}

func (c *c12Cell) mapOrderSensitive() bool {
	for _, h := range c.HTLCs {
		if h.mapOrderSensitive() {
			return true
		}
	}
	return false
}

func (h c12HTLC) on(key HtlcSetKey) int8 {
	switch key {
	case LocalHtlcSet:
		return h.L
	case RemoteHtlcSet:
		return h.R
	}
	return h.P
}

func c12Preimage(in bool, idx uint64) lntypes.Preimage {
	return lntypes.Preimage(sha256.Sum256([]byte(fmt.Sprintf("c12-preimage-%v-%d", in, idx))))
}

// hashOf is the payment hash of HTLC k.
func (c *c12Cell) hashOf(k int) lntypes.Hash {
	if c.real != nil {
		return c.real.hashes[k]
	}
	p := c.preimage(k)
	return p.Hash()
}

// commitHash is the txid of the given commitment.
func (c *c12Cell) commitHash(key HtlcSetKey) chainhash.Hash {
	if c.real != nil {
		return c.real.commit[key]
	}
	return c12CommitHash[key]
}

// preimage of HTLC k of the cell (one shared value when SameHash).
func (c *c12Cell) preimage(k int) lntypes.Preimage {
	if c.real != nil {
		if p := c.real.preimages[k]; p != nil {
			return *p
		}
		return lntypes.Preimage{}
	}
	if c.SameHash {
		return lntypes.Preimage(sha256.Sum256([]byte("c12-preimage-shared")))
	}
	return c12Preimage(c.HTLCs[k].In, c.HTLCs[k].Idx)
}

// ---------------------------------------------------------------------------
// Observations
// ---------------------------------------------------------------------------

type c12Msg struct {
	Idx    uint64 `json:"idx"`
	Fail   bool   `json:"fail"`
	Settle bool   `json:"settle"`
	// Phase 0: before any commitment confirmed; 1: after a confirmation was
	// delivered to the arbitrator.
	Phase int `json:"phase"`
}

type c12Final struct {
	Idx     uint64 `json:"idx"`
	Settled bool   `json:"settled"`
	Phase   int    `json:"phase"`
}

type c12Res struct {
	Kind  string `json:"kind"`
	Index uint32 `json:"out_index"`
	Hash  string `json:"commit"`
	Htlc  bool   `json:"htlc_resolver"`
}

type c12Obs struct {
	ForceCloses   int        `json:"force_closes"`
	Published     int        `json:"published"`
	Msgs          []c12Msg   `json:"msgs"`
	Finals        []c12Final `json:"finals"`
	NotifyFinal   int        `json:"notify_final_events"`
	Inserts       int        `json:"insert_calls"`
	Resolvers     []c12Res   `json:"resolvers"`
	ResolvedNotif int        `json:"channel_resolved_notifications"`
	States        []string   `json:"states"`
	Errors        []string   `json:"errors"`
	// Injected: errors that are the injected publication failure coming back.
	Injected []string `json:"injected_errors,omitempty"`
	// Foreign: keyed queries/notifications whose key belongs to no HTLC of the
	// cell ("dependency: key"), sorted and de-duplicated. Queries: number of keyed
	// calls answered from the tables.
	Foreign []string `json:"foreign_keys"`
	Queries int      `json:"keyed_queries"`
}

func (o *c12Obs) canon() string {
	ms := append([]c12Msg{}, o.Msgs...)
	sort.Slice(ms, func(i, j int) bool {
		if ms[i].Idx != ms[j].Idx {
			return ms[i].Idx < ms[j].Idx
		}
		return ms[i].Phase < ms[j].Phase
	})
	fs := append([]c12Final{}, o.Finals...)
	sort.Slice(fs, func(i, j int) bool { return fs[i].Idx < fs[j].Idx })
	rs := append([]c12Res{}, o.Resolvers...)
	sort.Slice(rs, func(i, j int) bool {
		if rs[i].Index != rs[j].Index {
			return rs[i].Index < rs[j].Index
		}
		return rs[i].Kind < rs[j].Kind
	})
	return fmt.Sprintf("fc=%d pub=%d msgs=%v finals=%v nf=%d ins=%d res=%v done=%d states=%v errs=%v foreign=%v",
		o.ForceCloses, o.Published, ms, fs, o.NotifyFinal, o.Inserts, rs, o.ResolvedNotif, o.States, o.Errors, o.Foreign)
}

// ---------------------------------------------------------------------------
// Harness-owned dependencies
// ---------------------------------------------------------------------------

// c12Log is an in-memory ArbitratorLog. The first InsertUnresolvedContracts call
// is the arbitrator's own (resolvers are launched only after it returns); later
// calls are resolver checkpoints and are only counted.
type c12Log struct {
	mu         sync.Mutex
	state      ArbitratorState
	res        *ContractResolutions
	cs         *CommitSet
	inserted   []ContractResolver
	inserts    int
	unresolved map[ContractResolver]struct{}
}

var _ ArbitratorLog = (*c12Log)(nil)

func (l *c12Log) CurrentState(kvdb.RTx) (ArbitratorState, error) {
	l.mu.Lock()
	defer l.mu.Unlock()
	return l.state, nil
}
func (l *c12Log) CommitState(s ArbitratorState) error {
	l.mu.Lock()
	l.state = s
	l.mu.Unlock()
	return nil
}
func (l *c12Log) InsertUnresolvedContracts(_ []*channeldb.ResolverReport, rs ...ContractResolver) error {
	l.mu.Lock()
	defer l.mu.Unlock()
	l.inserts++
	if l.inserts == 1 {
		l.inserted = append(l.inserted, rs...)
	}
	for _, r := range rs {
		l.unresolved[r] = struct{}{}
	}
	return nil
}
func (l *c12Log) FetchUnresolvedContracts() ([]ContractResolver, error) {
	l.mu.Lock()
	defer l.mu.Unlock()
	var v []ContractResolver
	for r := range l.unresolved {
		v = append(v, r)
	}
	return v, nil
}
func (l *c12Log) SwapContract(o, n ContractResolver) error {
	l.mu.Lock()
	delete(l.unresolved, o)
	l.unresolved[n] = struct{}{}
	l.mu.Unlock()
	return nil
}
func (l *c12Log) ResolveContract(r ContractResolver) error {
	l.mu.Lock()
	delete(l.unresolved, r)
	l.mu.Unlock()
	return nil
}
func (l *c12Log) LogContractResolutions(c *ContractResolutions) error {
	l.mu.Lock()
	l.res = c
	l.mu.Unlock()
	return nil
}
func (l *c12Log) FetchContractResolutions() (*ContractResolutions, error) {
	l.mu.Lock()
	defer l.mu.Unlock()
	if l.res == nil {
		return nil, fmt.Errorf("c12: no contract resolutions logged")
	}
	return l.res, nil
}
func (l *c12Log) InsertConfirmedCommitSet(c *CommitSet) error {
	l.mu.Lock()
	l.cs = c
	l.mu.Unlock()
	return nil
}
func (l *c12Log) FetchConfirmedCommitSet(kvdb.RTx) (*CommitSet, error) {
	l.mu.Lock()
	defer l.mu.Unlock()
	return l.cs, nil
}
func (l *c12Log) FetchChainActions() (ChainActionMap, error) { return nil, nil }
func (l *c12Log) WipeHistory() error                         { return nil }

type c12Channel struct{ w *c12World }

func (c *c12Channel) ForceCloseChan() (*wire.MsgTx, error) {
	c.w.mu.Lock()
	c.w.obs.ForceCloses++
	fault := c.w.fault
	c.w.mu.Unlock()
	if fault == "dataloss" {
		return nil, lnwallet.ErrForceCloseLocalDataLoss
	}
	return &wire.MsgTx{Version: 2}, nil
}
func (c *c12Channel) NewAnchorResolutions() (*lnwallet.AnchorResolutions, error) {
	return &lnwallet.AnchorResolutions{}, nil
}

// c12Beacon is the witness beacon: a fixed preimage table, silent subscriptions.
type c12Beacon struct {
	w     *c12World
	known map[lntypes.Hash]lntypes.Preimage
}

func (b *c12Beacon) SubscribeUpdates(scid lnwire.ShortChannelID, htlc *channeldb.HTLC, _ *hop.Payload,
	_ []byte) (*WitnessSubscription, error) {

	if htlc != nil {
		b.w.keyed("PreimageDB.SubscribeUpdates", scid == c12Scid && b.w.hashes[htlc.RHash],
			"chan %v hash %x", scid, htlc.RHash[:4])
	}
	return &WitnessSubscription{
		WitnessUpdates:     make(chan lntypes.Preimage),
		CancelSubscription: func() {},
	}, nil
}
func (b *c12Beacon) LookupPreimage(h lntypes.Hash) (lntypes.Preimage, bool) {
	b.w.keyed("PreimageDB.LookupPreimage", b.w.hashes[h], "hash %x", h[:4])
	p, ok := b.known[h]
	return p, ok
}
func (b *c12Beacon) AddPreimages(...lntypes.Preimage) error { return nil }

// c12Registry answers invoice lookups from a fixed table.
type c12Registry struct {
	w     *c12World
	known map[lntypes.Hash]lntypes.Preimage
	hold  map[lntypes.Hash]bool // invoice exists, preimage not known
	noinv map[lntypes.Hash]bool // answered with ErrNoInvoicesCreated
}

func (r *c12Registry) LookupInvoice(_ context.Context, h lntypes.Hash) (invoices.Invoice, error) {
	r.w.keyed("Registry.LookupInvoice", r.w.hashes[h], "hash %x", h[:4])
	p, ok := r.known[h]
	switch {
	case ok:
		return invoices.Invoice{Terms: invoices.ContractTerm{PaymentPreimage: &p}}, nil
	case r.hold[h]:
		return invoices.Invoice{Terms: invoices.ContractTerm{Value: 1000}, State: invoices.ContractAccepted}, nil
	case r.noinv[h]:
		return invoices.Invoice{}, invoices.ErrNoInvoicesCreated
	}
	return invoices.Invoice{}, invoices.ErrInvoiceNotFound
}
func (r *c12Registry) NotifyExitHopHtlc(lntypes.Hash, lnwire.MilliSatoshi, uint32, int32,
	models.CircuitKey, chan<- interface{}, lnwire.CustomRecords,
	invoices.Payload) (invoices.HtlcResolution, error) {

	return nil, fmt.Errorf("c12: registry is lookup-only")
}
func (r *c12Registry) HodlUnsubscribeAll(chan<- interface{}) {}

// c12Sweeper accepts every input and never reports a result.
type c12Sweeper struct{}

func (c12Sweeper) SweepInput(input.Input, sweep.Params) (chan sweep.Result, error) {
	return make(chan sweep.Result), nil
}
func (c12Sweeper) RelayFeePerKW() chainfee.SatPerKWeight { return 253 }
func (c12Sweeper) UpdateParams(wire.OutPoint, sweep.Params) (chan sweep.Result, error) {
	return make(chan sweep.Result), nil
}

type c12ChainIO struct {
	lnwallet.BlockChainIO
	w *c12World
}

func (c *c12ChainIO) GetBestBlock() (*chainhash.Hash, int32, error) {
	return &chainhash.Hash{}, c.w.height.Load(), nil
}

type c12HtlcNotifier struct{ w *c12World }

func (n *c12HtlcNotifier) NotifyFinalHtlcEvent(k models.CircuitKey, _ channeldb.FinalHtlcInfo) {
	n.w.keyed("HtlcNotifier.NotifyFinalHtlcEvent", k.ChanID == c12Scid && n.w.recvIdx[k.HtlcID],
		"chan %v htlc %d", k.ChanID, k.HtlcID)
	n.w.mu.Lock()
	n.w.obs.NotifyFinal++
	n.w.mu.Unlock()
}

// ---------------------------------------------------------------------------
// World
// ---------------------------------------------------------------------------

type c12World struct {
	cell   c12Cell
	arb    *ChannelArbitrator
	log    *c12Log
	mu     sync.Mutex
	obs    c12Obs
	phase  int
	height atomic.Int32
	info   func(string, ...any)

	// key tables (read-only after construction)
	hashes   map[lntypes.Hash]bool // payment hashes of the cell's HTLCs
	offIdx   map[uint64]bool       // HtlcIndex of offered HTLCs
	recvIdx  map[uint64]bool       // HtlcIndex of received HTLCs
	entries  map[c12Entry]bool     // every channeldb.HTLC entry handed to the arbitrator
	foreign  map[string]bool
	nQueries int

	// fault injected into the go-to-chain step ("", dataloss, doublespend,
	// mempoolfee, pubfail); arbs: every arbitrator instance created (restarts).
	fault  string
	arbs   []*ChannelArbitrator
	beacon *c12Beacon
	reg    *c12Registry
	fwd    map[uint64]bool
}

// errC12Publish is the injected generic publication failure.
var errC12Publish = fmt.Errorf("c12: injected publish failure")

// keyed records one keyed call; ok=false means the key addresses no HTLC of the
// cell (the dependency then gives its "unknown" answer).
func (w *c12World) keyed(dep string, ok bool, format string, a ...any) {
	w.mu.Lock()
	w.nQueries++
	if !ok {
		w.foreign[dep+": "+fmt.Sprintf(format, a...)] = true
	}
	w.mu.Unlock()
	if !ok {
		w.info("FOREIGN KEY %s queried with "+format, append([]any{dep}, a...)...)
	}
}

type c12Entry struct {
	In       bool
	Idx, Log uint64
	Out      int32
	Hash     lntypes.Hash
	Exp      uint32
}

func c12EntryKey(h channeldb.HTLC) c12Entry {
	return c12Entry{h.Incoming, h.HtlcIndex, h.LogIndex, h.OutputIndex, h.RHash, h.RefundTimeout}
}

var c12CommitHash = map[HtlcSetKey]chainhash.Hash{
	LocalHtlcSet:         chainhash.Hash(sha256.Sum256([]byte("c12-commit-local"))),
	RemoteHtlcSet:        chainhash.Hash(sha256.Sum256([]byte("c12-commit-remote"))),
	RemotePendingHtlcSet: chainhash.Hash(sha256.Sum256([]byte("c12-commit-remote-pending"))),
}

var c12BreachHash = chainhash.Hash(sha256.Sum256([]byte("c12-commit-revoked")))

// outIdx is the output index of HTLC k on the given commitment (if it has an
// output there). The three commitments use disjoint ranges: an output index taken
// from the wrong commitment's HTLC entry matches nothing.
func (c *c12Cell) outIdx(key HtlcSetKey, k int) int32 {
	if c.real != nil {
		switch key {
		case LocalHtlcSet:
			return c.real.out[k][0]
		case RemoteHtlcSet:
			return c.real.out[k][1]
		}
		return c.real.out[k][2]
	}
	if c.Numbering == 1 {
		return int32(k)
	}
	switch key {
	case LocalHtlcSet:
		return int32(20 + k)
	case RemoteHtlcSet:
		return int32(40 + k)
	}
	return int32(60 + k)
}

// c12LogIndex is the update-log index of HTLC k (equal on all commitments).
func c12LogIndex(k int) uint64 { return uint64(100 + k) }

// c12Scid is the channel the arbitrator watches; c12OtherScid never appears.
var c12Scid = lnwire.NewShortChanIDFromInt(0x0c12)

// htlcsOn renders the channeldb.HTLC list of one commitment.
func (c *c12Cell) htlcsOn(key HtlcSetKey) []channeldb.HTLC {
	if c.real != nil {
		return c.real.sets[key]
	}
	var out []channeldb.HTLC
	for k, h := range c.HTLCs {
		p := h.on(key)
		if p == c12Absent {
			continue
		}
		pre := c.preimage(k)
		e := channeldb.HTLC{
			RHash:         pre.Hash(),
			Amt:           lnwire.MilliSatoshi(1_000_000 * (k + 1)),
			RefundTimeout: h.Exp,
			OutputIndex:   -1,
			Incoming:      h.In,
			HtlcIndex:     h.Idx,
			LogIndex:      c12LogIndex(k),
		}
		if p == c12Output {
			e.OutputIndex = c.outIdx(key, k)
		}
		out = append(out, e)
	}
	return out
}

func (c *c12Cell) commitSet(conf HtlcSetKey) *CommitSet {
	cs := &CommitSet{
		ConfCommitKey: fn.Some(conf),
		HtlcSets: map[HtlcSetKey][]channeldb.HTLC{
			LocalHtlcSet:  c.htlcsOn(LocalHtlcSet),
			RemoteHtlcSet: c.htlcsOn(RemoteHtlcSet),
		},
	}
	if c.HasPending {
		cs.HtlcSets[RemotePendingHtlcSet] = c.htlcsOn(RemotePendingHtlcSet)
	}
	return cs
}

// startupSets is what ChainArbitrator hands to NewChannelArbitrator when it loads
// an open channel from the database.
func (c *c12Cell) startupSets() map[HtlcSetKey]htlcSet {
	sets := make(map[HtlcSetKey]htlcSet)
	sets[LocalHtlcSet] = newHtlcSet(c.htlcsOn(LocalHtlcSet))
	sets[RemoteHtlcSet] = newHtlcSet(c.htlcsOn(RemoteHtlcSet))
	if c.HasPending {
		sets[RemotePendingHtlcSet] = newHtlcSet(c.htlcsOn(RemotePendingHtlcSet))
	}
	return sets
}

// extras adds the non-HTLC resolutions (Extras dimension): our to-self output and
// our anchor, at output indices no HTLC uses.
func (c *c12Cell) extras(res *ContractResolutions, local bool) {
	if c.Extras == 0 {
		return
	}
	// The commit sweep resolver tells our own commitment from the peer's by the
	// first opcode of the to-self script.
	ws := []byte{txscript.OP_DUP}
	if local {
		ws = []byte{txscript.OP_IF}
	}
	sd := input.SignDescriptor{Output: &wire.TxOut{Value: 50_000}, WitnessScript: ws}
	res.CommitResolution = &lnwallet.CommitOutputResolution{
		SelfOutPoint:       wire.OutPoint{Hash: res.CommitHash, Index: 90},
		SelfOutputSignDesc: sd,
		MaturityDelay:      4,
	}
	res.AnchorResolution = &lnwallet.AnchorResolution{
		AnchorSignDescriptor: input.SignDescriptor{Output: &wire.TxOut{Value: 330}},
		CommitAnchor:         wire.OutPoint{Hash: res.CommitHash, Index: 91},
	}
}

// resolutions synthesises the lnwallet resolutions the chain watcher would hand
// over for the confirmed commitment: one per HTLC that has an output on it.
// Second-level transactions exist only on our own commitment.
func (c *c12Cell) resolutions(conf HtlcSetKey) *ContractResolutions {
	hash := c12CommitHash[conf]
	res := &ContractResolutions{CommitHash: hash}
	c.extras(res, conf == LocalHtlcSet)
	for k, h := range c.HTLCs {
		if h.on(conf) != c12Output {
			continue
		}
		op := wire.OutPoint{Hash: hash, Index: uint32(c.outIdx(conf, k))}
		sd := input.SignDescriptor{Output: &wire.TxOut{Value: int64(1000 * (k + 1))}}
		var second *wire.MsgTx
		claim := op
		if conf == LocalHtlcSet {
			second = &wire.MsgTx{
				Version: 2,
				TxIn:    []*wire.TxIn{{PreviousOutPoint: op, Witness: [][]byte{{}, {1}, {2}, {}, {3}}}},
				TxOut:   []*wire.TxOut{{Value: int64(1000 * (k + 1))}},
			}
			claim = wire.OutPoint{Hash: second.TxHash(), Index: 0}
		}
		if h.In {
			res.HtlcResolutions.IncomingHTLCs = append(res.HtlcResolutions.IncomingHTLCs,
				lnwallet.IncomingHtlcResolution{
					SignedSuccessTx: second, ClaimOutpoint: claim, SweepSignDesc: sd, CsvDelay: 4,
				})
		} else {
			res.HtlcResolutions.OutgoingHTLCs = append(res.HtlcResolutions.OutgoingHTLCs,
				lnwallet.OutgoingHtlcResolution{
					Expiry: h.Exp, SignedTimeoutTx: second, ClaimOutpoint: claim, SweepSignDesc: sd, CsvDelay: 4,
				})
		}
	}
	return res
}

// graceAndUptime renders the GraceMode dimension.
func (c *c12Cell) graceAndUptime() (grace, uptime time.Duration) {
	switch c.GraceMode {
	case 1:
		return c12Grace, c12Grace
	case 2:
		return 0, time.Minute
	case 3:
		return 0, 0
	}
	if c.GracePassed {
		return c12Grace, c12Grace + time.Minute
	}
	return c12Grace, c12Grace - time.Minute
}

// c12Closed describes a channel that is marked closed in the database (what
// ChainArbitrator passes for a closing channel after a restart).
type c12Closed struct {
	Type   channeldb.ClosureType
	Height uint32
}

func newC12World(cell c12Cell, info func(string, ...any)) *c12World {
	cell.number()
	w := &c12World{cell: cell, info: info}
	if w.info == nil {
		w.info = func(string, ...any) {}
	}
	w.log = &c12Log{state: StateDefault, unresolved: map[ContractResolver]struct{}{}}

	w.hashes, w.offIdx, w.recvIdx = map[lntypes.Hash]bool{}, map[uint64]bool{}, map[uint64]bool{}
	w.entries, w.foreign = map[c12Entry]bool{}, map[string]bool{}
	for k, h := range cell.HTLCs {
		for _, key := range []HtlcSetKey{LocalHtlcSet, RemoteHtlcSet, RemotePendingHtlcSet} {
			if p := h.on(key); p != c12Absent {
				out := int32(-1)
				if p == c12Output {
					out = cell.outIdx(key, k)
				}
				w.entries[c12Entry{h.In, h.Idx, c12LogIndex(k), out, cell.hashOf(k), h.Exp}] = true
			}
		}
	}
	if cell.real != nil {
		w.entries = map[c12Entry]bool{}
		for _, hs := range cell.real.sets {
			for _, e := range hs {
				w.entries[c12EntryKey(e)] = true
			}
		}
	}
	w.beacon = &c12Beacon{w: w, known: map[lntypes.Hash]lntypes.Preimage{}}
	w.reg = &c12Registry{
		w: w, known: map[lntypes.Hash]lntypes.Preimage{},
		hold: map[lntypes.Hash]bool{}, noinv: map[lntypes.Hash]bool{},
	}
	w.fwd = map[uint64]bool{}
	for k, h := range cell.HTLCs {
		p := cell.preimage(k)
		hash := cell.hashOf(k)
		w.hashes[hash] = true
		if h.In {
			w.recvIdx[h.Idx] = true
		} else {
			w.offIdx[h.Idx] = true
		}
		switch h.Pre {
		case c12PreBcn:
			w.beacon.known[hash] = p
		case c12PreInv:
			w.reg.known[hash] = p
		case c12PreHold:
			w.reg.hold[hash] = true
		case c12PreNoInv:
			w.reg.noinv[hash] = true
		}
		if !h.In && h.Fwd {
			w.fwd[h.Idx] = true
		}
	}

	sets := make(map[HtlcSetKey]htlcSet)
	if cell.Startup {
		// What ChainArbitrator does when it loads an open channel.
		sets = cell.startupSets()
	}
	w.arb = w.newArb(sets, nil)
	if !cell.Startup && !cell.LateFeed {
		w.feed()
	}
	return w
}

// feed is what the link does after every commitment update.
func (w *c12World) feed() {
	cell := &w.cell
	w.arb.notifyContractUpdate(&ContractUpdate{HtlcKey: LocalHtlcSet, Htlcs: cell.htlcsOn(LocalHtlcSet)})
	w.arb.notifyContractUpdate(&ContractUpdate{HtlcKey: RemoteHtlcSet, Htlcs: cell.htlcsOn(RemoteHtlcSet)})
	if cell.HasPending {
		w.arb.notifyContractUpdate(&ContractUpdate{
			HtlcKey: RemotePendingHtlcSet, Htlcs: cell.htlcsOn(RemotePendingHtlcSet),
		})
	}
}

// lateFeed (LateFeed dimension): a block epoch at height h is processed while the
// channel carries no HTLC yet, then the link reports the HTLC sets.
func (w *c12World) lateFeed(h uint32) {
	if !w.cell.LateFeed {
		return
	}
	w.advance(h, chainTrigger, nil)
	w.info("link reports the HTLC sets (after the block at height %d)", h)
	w.feed()
}

// newArb builds one (un-started) arbitrator instance on the world's log. closed !=
// nil: the channel is marked closed in the database (no ArbChannel, no HTLC sets).
func (w *c12World) newArb(sets map[HtlcSetKey]htlcSet, closed *c12Closed) *ChannelArbitrator {
	cell := &w.cell

	// The arbitrator is never started, so its start timestamp is the zero time:
	// a test clock at zero+uptime makes the uptime exact.
	grace, uptime := cell.graceAndUptime()

	chainCfg := ChainArbitratorConfig{
		ChainIO:                &c12ChainIO{w: w},
		IncomingBroadcastDelta: cell.DIn,
		OutgoingBroadcastDelta: cell.DOut,
		PublishTx: func(*wire.MsgTx, string) error {
			w.mu.Lock()
			w.obs.Published++
			fault := w.fault
			w.mu.Unlock()
			switch fault {
			case "doublespend":
				return lnwallet.ErrDoubleSpend
			case "mempoolfee":
				return lnwallet.ErrMempoolFee
			case "pubfail":
				return errC12Publish
			}
			return nil
		},
		DeliverResolutionMsg: func(msgs ...ResolutionMsg) error {
			for _, m := range msgs {
				w.keyed("DeliverResolutionMsg", m.SourceChan == c12Scid && w.offIdx[m.HtlcIndex],
					"chan %v htlc %d", m.SourceChan, m.HtlcIndex)
			}
			w.mu.Lock()
			for _, m := range msgs {
				w.obs.Msgs = append(w.obs.Msgs, c12Msg{
					Idx: m.HtlcIndex, Fail: m.Failure != nil, Settle: m.PreImage != nil, Phase: w.phase,
				})
			}
			w.mu.Unlock()
			return nil
		},
		Notifier: &mock.ChainNotifier{
			SpendChan: make(chan *chainntnfs.SpendDetail),
			EpochChan: make(chan *chainntnfs.BlockEpoch),
			ConfChan:  make(chan *chainntnfs.TxConfirmation),
		},
		IncubateOutputs: func(wire.OutPoint, fn.Option[lnwallet.OutgoingHtlcResolution],
			fn.Option[lnwallet.IncomingHtlcResolution], uint32, fn.Option[int32],
			...IncubateOption) error {

			return nil
		},
		OnionProcessor: &mockOnionProcessor{},
		IsForwardedHTLC: func(scid lnwire.ShortChannelID, idx uint64) bool {
			ok := scid == c12Scid && w.offIdx[idx]
			w.keyed("IsForwardedHTLC", ok, "chan %v htlc %d", scid, idx)
			return ok && w.fwd[idx]
		},
		SubscribeBreachComplete: func(*wire.OutPoint, chan struct{}) (bool, error) {
			return false, nil
		},
		Clock:                         clock.NewTestClock(time.Time{}.Add(uptime)),
		PaymentsExpirationGracePeriod: grace,
		Sweeper:                       c12Sweeper{},
		HtlcNotifier:                  &c12HtlcNotifier{w: w},
		PutFinalHtlcOutcome: func(scid lnwire.ShortChannelID, id uint64, settled bool) error {
			w.keyed("PutFinalHtlcOutcome", scid == c12Scid && w.recvIdx[id], "chan %v htlc %d", scid, id)
			w.mu.Lock()
			w.obs.Finals = append(w.obs.Finals, c12Final{Idx: id, Settled: settled, Phase: w.phase})
			w.mu.Unlock()
			return nil
		},
		Budget:     *DefaultBudgetConfig(),
		PreimageDB: w.beacon,
		Registry:   w.reg,
		QueryIncomingCircuit: func(k models.CircuitKey) *models.CircuitKey {
			w.keyed("QueryIncomingCircuit", k.ChanID == c12Scid && w.offIdx[k.HtlcID],
				"chan %v htlc %d", k.ChanID, k.HtlcID)
			return nil
		},
	}
	arbCfg := ChannelArbitratorConfig{
		ChanPoint:   wire.OutPoint{Index: 7},
		ShortChanID: c12Scid,
		Channel:     &c12Channel{w: w},
		ChainEvents: &ChainEventSubscription{},
		NotifyChannelResolved: func() {
			w.mu.Lock()
			w.obs.ResolvedNotif++
			w.mu.Unlock()
		},
		MarkCommitmentBroadcasted: func(*wire.MsgTx, lntypes.ChannelParty) error { return nil },
		MarkChannelClosed: func(*channeldb.ChannelCloseSummary, ...channeldb.ChannelStatus) error {
			return nil
		},
		PutResolverReport: func(kvdb.RwTx, *channeldb.ResolverReport) error { return nil },
		FetchHistoricalChannel: func() (*chanstate.OpenChannel, error) {
			switch cell.Hist {
			case 1:
				return nil, channeldb.ErrChannelNotFound
			case 2:
				return nil, channeldb.ErrNoHistoricalBucket
			case 3:
				return &chanstate.OpenChannel{
					ChanType: channeldb.SingleFunderTweaklessBit | channeldb.AnchorOutputsBit |
						channeldb.ZeroHtlcTxFeeBit,
				}, nil
			}
			if cell.real != nil {
				return cell.real.chanState, nil
			}
			return &chanstate.OpenChannel{}, nil
		},
		FindOutgoingHTLCDeadline: func(h channeldb.HTLC) fn.Option[int32] {
			// keyed by the complete HTLC entry: it must be one the harness handed
			// over, and an offered one.
			w.keyed("FindOutgoingHTLCDeadline", !h.Incoming && w.entries[c12EntryKey(h)],
				"entry %+v", c12EntryKey(h))
			return fn.None[int32]()
		},
		ChainArbitratorConfig: chainCfg,
	}
	if closed != nil {
		// ChainArbitrator's configuration for a channel found in the closing state.
		arbCfg.Channel = nil
		arbCfg.IsPendingClose = true
		arbCfg.CloseType = closed.Type
		arbCfg.ClosingHeight = closed.Height
	}
	arb := NewChannelArbitrator(arbCfg, sets, w.log)
	w.arbs = append(w.arbs, arb)
	return arb
}

// restart models a node restart at a quiescent point: the running instance is
// stopped, a new one is built on the same log the way ChainArbitrator does (open
// channel: HTLC sets from the channel database; closed != nil: a closing channel),
// and the two things ChannelArbitrator.Start / channelAttendant do synchronously
// before entering the event loop are executed: load the start state, then
// progressStateMachineAfterRestart at the current best height.
func (w *c12World) restart(best uint32, closed *c12Closed) ArbitratorState {
	_ = w.arb.Stop()
	sets := make(map[HtlcSetKey]htlcSet)
	if closed == nil {
		sets = w.cell.startupSets()
	}
	arb := w.newArb(sets, closed)
	w.arb = arb
	w.height.Store(int32(best))
	st, err := arb.getStartState(nil)
	if err == nil {
		arb.state = st.currentState
		err = arb.progressStateMachineAfterRestart(int32(best), st.commitSet)
	}
	w.mu.Lock()
	w.obs.States = append(w.obs.States, arb.state.String())
	if err != nil {
		w.noteError(fmt.Sprintf("restart@%d: %v", best, err), err)
	}
	w.mu.Unlock()
	w.info("RESTART at best height %d (closed=%+v): start state from the log, progressStateMachineAfterRestart -> %v err=%v",
		best, closed, arb.state, err)
	return arb.state
}

// noteError records an error returned by the arbitrator (w.mu held). The injected
// generic publication failure is expected to surface as an error; it is kept apart.
func (w *c12World) noteError(desc string, err error) {
	if w.fault == "pubfail" && errors.Is(err, errC12Publish) {
		w.obs.Injected = append(w.obs.Injected, desc)
		return
	}
	w.obs.Errors = append(w.obs.Errors, desc)
}

// advance calls advanceState synchronously and records the resulting state.
func (w *c12World) advance(h uint32, trig transitionTrigger, cs *CommitSet) ArbitratorState {
	w.height.Store(int32(h))
	st, _, err := w.arb.advanceState(h, trig, cs)
	w.mu.Lock()
	w.obs.States = append(w.obs.States, st.String())
	if err != nil {
		w.noteError(fmt.Sprintf("%v@%d: %v", trig, h, err), err)
	}
	w.mu.Unlock()
	w.info("advanceState(height=%d, %v, confirmed=%s) -> %v err=%v", h, trig, confName(cs), st, err)
	return st
}

func confName(cs *CommitSet) string {
	if cs == nil {
		return "nil"
	}
	return cs.ConfCommitKey.UnwrapOr(HtlcSetKey{}).String()
}

// persistClose performs the log writes of a close event the way the handle*Event
// functions do (resolutions, then the confirmed commit set) and returns what
// advanceState is then called with, plus the close type recorded in the database.
func (w *c12World) persistClose(conf string) (transitionTrigger, *CommitSet, channeldb.ClosureType) {
	switch conf {
	case "coop":
		return coopCloseTrigger, nil, channeldb.CooperativeClose
	case "breach":
		cs := w.cell.commitSet(RemoteHtlcSet)
		res := &ContractResolutions{
			CommitHash:       c12BreachHash,
			BreachResolution: &BreachResolution{FundingOutPoint: wire.OutPoint{Index: 7}},
		}
		if w.cell.Extras != 0 {
			res.AnchorResolution = &lnwallet.AnchorResolution{
				AnchorSignDescriptor: input.SignDescriptor{Output: &wire.TxOut{Value: 330}},
				CommitAnchor:         wire.OutPoint{Hash: c12BreachHash, Index: 91},
			}
		}
		_ = w.log.LogContractResolutions(res)
		_ = w.log.InsertConfirmedCommitSet(cs)
		return breachCloseTrigger, cs, channeldb.BreachClose
	}
	key, trig := confKey(conf)
	cs := w.cell.commitSet(key)
	_ = w.log.LogContractResolutions(w.cell.resolutions(key))
	_ = w.log.InsertConfirmedCommitSet(cs)
	ct := channeldb.RemoteForceClose
	if conf == "local" {
		ct = channeldb.LocalForceClose
	}
	return trig, cs, ct
}

func (w *c12World) setPhase(p int) {
	w.mu.Lock()
	w.phase = p
	w.mu.Unlock()
}

// confirm delivers a close event the way the handle*Event functions do: log the
// resolutions and the commit set, then advance with the matching trigger.
func (w *c12World) confirm(h uint32, conf string) ArbitratorState {
	w.setPhase(1)
	trig, cs, _ := w.persistClose(conf)
	return w.advance(h, trig, cs)
}

// confirmThenRestart: the close event was written to the log and the channel marked
// closed, but the state machine never advanced (the node stopped, or advanceState
// failed); the next start finds a closing channel.
func (w *c12World) confirmThenRestart(h uint32, conf string) ArbitratorState {
	w.setPhase(1)
	_, _, ct := w.persistClose(conf)
	w.info("close event (%s) persisted and channel marked closed at height %d; node stops before advancing", conf, h)
	return w.restart(h+3, &c12Closed{Type: ct, Height: h})
}

func confKey(conf string) (HtlcSetKey, transitionTrigger) {
	switch conf {
	case "local":
		return LocalHtlcSet, localCloseTrigger
	case "remote":
		return RemoteHtlcSet, remoteCloseTrigger
	case "pending":
		return RemotePendingHtlcSet, remoteCloseTrigger
	}
	panic("c12: unknown confirmation " + conf)
}

// snapshot freezes the observations (resolver goroutines may still be parked on
// the silent notifier; they are joined by close()).
func (w *c12World) snapshot() c12Obs {
	w.log.mu.Lock()
	ins := append([]ContractResolver{}, w.log.inserted...)
	n := w.log.inserts
	w.log.mu.Unlock()
	w.mu.Lock()
	defer w.mu.Unlock()
	o := w.obs
	o.Msgs = append([]c12Msg{}, w.obs.Msgs...)
	o.Finals = append([]c12Final{}, w.obs.Finals...)
	o.States = append([]string{}, w.obs.States...)
	o.Errors = append([]string{}, w.obs.Errors...)
	o.Injected = append([]string{}, w.obs.Injected...)
	o.Inserts = n
	o.Queries = w.nQueries
	o.Foreign = nil
	for k := range w.foreign {
		o.Foreign = append(o.Foreign, k)
	}
	sort.Strings(o.Foreign)
	o.Resolvers = nil
	for _, r := range ins {
		cr := c12Res{Kind: fmt.Sprintf("%T", r)}
		if hp, ok := r.(interface{ HtlcPoint() wire.OutPoint }); ok {
			op := hp.HtlcPoint()
			cr.Htlc, cr.Index, cr.Hash = true, op.Index, op.Hash.String()[:8]
		}
		o.Resolvers = append(o.Resolvers, cr)
	}
	return o
}

func (w *c12World) close() {
	for _, a := range w.arbs {
		_ = a.Stop()
	}
}
