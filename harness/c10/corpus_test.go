// C10, lnwire half: the deterministic seed corpus. Corpus construction is sampling
// (fixed rapid seeds through the repository's own RandTestMessage generators, plus
// hand-built boundary values); the deciding enumeration over each seed is exhaustive.
package c10

import (
	"bytes"
	"compress/zlib"
	"encoding/binary"
	"fmt"
	"reflect"
	"sort"
	"strings"

	"github.com/btcsuite/btcd/chainhash/v2"
	"github.com/lightningnetwork/lnd/lnwire"
	"github.com/lightningnetwork/lnd/verifmc/bytemut"
	"pgregory.net/rapid"
)

// seed is one corpus entry of a codec.
type seed struct {
	name string
	full []byte     // prefix || body
	gen  func() any // regenerates the value (nil for byte-only seeds)
	// wellFormed: the value comes from the repo's generator / an exported constructor,
	// so clause V1 (decode(encode(v)) == v) applies. Derived values (optional fields
	// cleared by reflection, extra data swapped) only get V2 and the byte oracle.
	wellFormed bool
	valueOnly  bool // value oracle only, no byte-level neighbourhood
	sweep      bool // the field-value sweep family runs on this value
	desc       map[string]any
}

type codecCorpus struct {
	c     *codec
	seeds []seed
	notes []string
}

// buildViols collects the violations met while the corpus is being built (codec
// discovery, seed encoding, sanity decodes). Every call into lnd made during
// construction goes through guard / guardBytes: "never panics" is the first clause of
// the property, so a panic there is a verdict about an input, not a reason to die.
// The parent reports the list; workers build the same corpus and ignore theirs.
var buildViols []violRec

func failCodecName(code lnwire.FailCode) string {
	name := "?"
	safely(func() { name = code.String() })
	return fmt.Sprintf("fail/%s(0x%04x)", name, uint16(code))
}

// guardBytes runs a decode of full (= prefix || body) under recover.
func guardBytes(codecName string, prefixLen int, full []byte, f func()) (panicked bool) {
	p := safely(f)
	if p == "" {
		return false
	}
	body := bytemut.Raw(full[prefixLen:])
	buildViols = append(buildViols, violRec{
		Sig:  "lnwire:" + codecName + ":decode-panic:" + panicClass(p),
		What: fmt.Sprintf("decoding %s panicked: %s (met while building the corpus)", hexs(full, 64), p),
		Replay: replayCase{Half: "lnwire", Codec: codecName, Kind: "bytes", Family: "corpus",
			Prefix: fmt.Sprintf("%x", full[:prefixLen]), Mut: &body},
	})
	return true
}

// guard runs an encode / constructor / generator call under recover.
func guard(codecName, what string, desc map[string]any, f func()) (panicked bool) {
	p := safely(f)
	if p == "" {
		return false
	}
	buildViols = append(buildViols, violRec{
		Sig:    "lnwire:" + codecName + ":" + what + "-panic:" + panicClass(p),
		What:   fmt.Sprintf("%s of corpus value %v panicked: %s (met while building the corpus)", what, desc, p),
		Replay: replayCase{Half: "lnwire", Codec: codecName, Kind: "value", Desc: desc},
	})
	return true
}

// registeredTypes asks the real dispatcher which types exist.
func registeredTypes() []lnwire.MessageType {
	var out []lnwire.MessageType
	for t := 0; t < int(lnwire.MsgEnd)+8; t++ {
		var err error
		if guard(fmt.Sprintf("msg/type%d", t), "make-empty-message", nil, func() { _, err = lnwire.MakeEmptyMessage(lnwire.MessageType(t)) }) {
			continue
		}
		if err == nil {
			out = append(out, lnwire.MessageType(t))
		}
	}
	return append(out, lnwire.CustomTypeStart) // Custom
}

// registeredFailCodes asks the real decoder which failure codes exist (all 65536).
func registeredFailCodes() []lnwire.FailCode {
	var out []lnwire.FailCode
	for c := 0; c < 65536; c++ {
		p := be16(uint16(c))
		full := append(p[:], make([]byte, 300)...)
		var err error
		// a code whose decoder panics on this probe is a registered code (and the
		// panic is recorded as a violation with the probe as its input)
		guardBytes(failCodecName(lnwire.FailCode(c)), 2, full, func() {
			_, err = lnwire.DecodeFailureMessage(bytes.NewReader(full), 0)
		})
		if err != nil && strings.Contains(err.Error(), "unknown error code") {
			continue
		}
		out = append(out, lnwire.FailCode(c))
	}
	return out
}

func typeName(m any) string {
	n := reflect.TypeOf(m).String()
	return strings.TrimPrefix(strings.TrimPrefix(n, "*"), "lnwire.")
}

// heavyType: does the message contain a feature vector or a signature vector?
func heavyType(t reflect.Type, depth int) bool {
	if depth > 3 {
		return false
	}
	n := t.String()
	if strings.Contains(n, "RawFeatureVector") || strings.Contains(n, "[]lnwire.Sig") {
		return true
	}
	switch t.Kind() {
	case reflect.Ptr, reflect.Slice:
		return heavyType(t.Elem(), depth+1)
	case reflect.Struct:
		for i := 0; i < t.NumField(); i++ {
			if heavyType(t.Field(i).Type, depth+1) {
				return true
			}
		}
	}
	return false
}

// sortIDs puts the short-channel-id list of a gossip query value into the ascending
// order BOLT 7 requires (the generator emits them unordered and relies on the encoder
// to sort in place), permuting the parallel timestamp list alongside.
func sortIDs(m lnwire.Message) lnwire.Message {
	v := reflect.ValueOf(m).Elem()
	ids := v.FieldByName("ShortChanIDs")
	if !ids.IsValid() || ids.Kind() != reflect.Slice {
		return m
	}
	n := ids.Len()
	idx := make([]int, n)
	for i := range idx {
		idx[i] = i
	}
	key := func(i int) uint64 { return ids.Index(i).Interface().(lnwire.ShortChannelID).ToUint64() }
	sort.SliceStable(idx, func(a, b int) bool { return key(idx[a]) < key(idx[b]) })
	perm := func(f reflect.Value) {
		if !f.IsValid() || f.Kind() != reflect.Slice || f.Len() != n {
			return
		}
		out := reflect.MakeSlice(f.Type(), n, n)
		for i, j := range idx {
			out.Index(i).Set(f.Index(j))
		}
		f.Set(out)
	}
	ts := v.FieldByName("Timestamps")
	perm(ts)
	perm(ids)
	return m
}

// randMsg draws the k-th deterministic example of the repo's generator.
func randMsg(t lnwire.MessageType, k int) (m lnwire.Message, failed string) {
	p := safely(func() {
		empty, err := lnwire.MakeEmptyMessage(t)
		if err != nil {
			failed = err.Error()
			return
		}
		tm, ok := empty.(lnwire.TestMessage)
		if !ok {
			failed = "no RandTestMessage"
			return
		}
		g := rapid.Custom(func(rt *rapid.T) lnwire.Message { return tm.RandTestMessage(rt) })
		m = sortIDs(g.Example(k))
	})
	if p != "" {
		return nil, "generator panicked: " + p
	}
	return m, failed
}

// optionalFields lists the exported top-level fields of kind ptr/slice/map/Option
// that are zero in some and non-zero in other examples.
func optionalFields(examples []lnwire.Message) []string {
	if len(examples) == 0 {
		return nil
	}
	rt := reflect.TypeOf(examples[0]).Elem()
	var out []string
	for i := 0; i < rt.NumField(); i++ {
		f := rt.Field(i)
		if !f.IsExported() {
			continue
		}
		switch f.Type.Kind() {
		case reflect.Ptr, reflect.Slice, reflect.Map:
		case reflect.Struct:
			n := f.Type.String()
			if !strings.Contains(n, "OptionalRecordT") && !strings.Contains(n, "fn.Option") {
				continue
			}
		default:
			continue
		}
		z, nz := false, false
		for _, e := range examples {
			if reflect.TypeOf(e).Elem() != rt {
				continue
			}
			if reflect.ValueOf(e).Elem().Field(i).IsZero() {
				z = true
			} else {
				nz = true
			}
		}
		if z && nz {
			out = append(out, f.Name)
		}
	}
	return out
}

func presentMask(m lnwire.Message, opt []string) (mask, n int) {
	v := reflect.ValueOf(m).Elem()
	for i, f := range opt {
		if !v.FieldByName(f).IsZero() {
			mask |= 1 << i
			n++
		}
	}
	return
}

// fillerStream is a canonical one-record TLV stream of exactly n bytes (n >= 8):
// unknown odd type 60001, below the custom-record range.
func fillerStream(n int) []byte {
	if n < 8 {
		return nil
	}
	t := bytemut.BigSize(60001) // 3 bytes
	vl := n - len(t) - 3
	if vl < 0xfd {
		vl = n - len(t) - 1
		if vl >= 0xfd || vl < 0 {
			return nil
		}
	}
	out := append(append([]byte{}, t...), bytemut.BigSize(uint64(vl))...)
	for i := 0; i < vl; i++ {
		out = append(out, byte(i*31+7))
	}
	if len(out) != n {
		return nil
	}
	return out
}

// buildMsgCorpus builds the seeds of one message type.
func buildMsgCorpus(t lnwire.MessageType, nMut, nVal int, thorough bool) *codecCorpus {
	var empty lnwire.Message
	safely(func() { empty, _ = lnwire.MakeEmptyMessage(t) })
	if empty == nil {
		return &codecCorpus{c: &codec{name: fmt.Sprintf("msg/type%d", t), kind: kMsg, prefix: be16(uint16(t))}, notes: []string{"MakeEmptyMessage failed"}}
	}
	c := &codec{name: "msg/" + typeName(empty), kind: kMsg, prefix: be16(uint16(t))}
	switch t {
	case lnwire.MsgQueryShortChanIDs, lnwire.MsgReplyChannelRange:
		c.zlib = true
	}
	c.heavy = heavyType(reflect.TypeOf(empty).Elem(), 0)
	cc := &codecCorpus{c: c}
	seen := map[string]bool{}
	add := func(s seed) bool {
		if s.full == nil {
			return false
		}
		key := string(s.full)
		if seen[key] {
			return false
		}
		seen[key] = true
		cc.seeds = append(cc.seeds, s)
		return true
	}
	encDesc := map[string]any{}
	enc := func(v any) []byte {
		var b []byte
		if guard(c.name, "encode", encDesc, func() { b, _ = c.encode(v) }) {
			return nil
		}
		return b
	}

	// (1) the zero message
	zero := func() any {
		var m lnwire.Message
		safely(func() { m, _ = lnwire.MakeEmptyMessage(t) })
		return m
	}
	encDesc = map[string]any{"gen": "zero"}
	if b := enc(zero()); b != nil {
		add(seed{name: "zero", full: b, gen: zero, desc: map[string]any{"gen": "zero"}})
	} else {
		cc.notes = append(cc.notes, "zero value not encodable")
	}

	// (2) the repo's generator with fixed seeds
	var examples []lnwire.Message
	for k := 0; k < nVal; k++ {
		m, failed := randMsg(t, k)
		if m == nil {
			cc.notes = append(cc.notes, fmt.Sprintf("example %d: %s", k, failed))
			continue
		}
		examples = append(examples, m)
	}
	opt := optionalFields(examples)
	if len(opt) > 6 {
		opt = opt[:6]
	}
	npk := 0
	for rt, i := reflect.TypeOf(empty).Elem(), 0; i < rt.NumField(); i++ {
		if strings.Contains(rt.Field(i).Type.String(), "btcec.PublicKey") {
			npk++
		}
	}
	manyKeys := npk >= 4
	fullest, fullestN, emptiest, emptiestN := -1, -1, -1, 1<<30
	for k, m := range examples {
		_, n := presentMask(m, opt)
		if n > fullestN {
			fullest, fullestN = k, n
		}
		if n < emptiestN {
			emptiest, emptiestN = k, n
		}
	}
	for k := range examples {
		k := k
		gen := func() any { m, _ := randMsg(t, k); return m }
		mutate := k < nMut || k == fullest || k == emptiest
		if manyKeys && !thorough {
			// each decode of such a message decompresses >= 4 public keys (~15 us
			// each): the quick tier keeps the byte-level neighbourhood of the
			// fullest example only.
			mutate = k == fullest
		}
		encDesc = map[string]any{"gen": "rapid", "type": int(t), "seed": k}
		add(seed{name: fmt.Sprintf("rand%d", k), full: enc(gen()), gen: gen, wellFormed: true, valueOnly: !mutate,
			sweep: k == fullest || (thorough && k == emptiest),
			desc:  map[string]any{"gen": "rapid", "type": int(t), "seed": k}})
	}

	// (2b) address kinds: the generator fills []net.Addr fields with tcp4 / tcp6 only, so
	// that no byte-level edit ever lands inside a tor v2 / v3, DNS or opaque descriptor.
	// For every message type with a []net.Addr field: the fullest example with that field
	// holding one address of every kind the codec knows (and one with a maximal hostname);
	// well-formed values with the full byte-level neighbourhood.
	if fullest >= 0 {
		for _, spec := range addrKindSpecs {
			spec := spec
			k := fullest
			gen := func() any {
				m, _ := randMsg(t, k)
				if !setAddrFields(m, spec) {
					return nil
				}
				return m
			}
			var probe any
			safely(func() { probe = gen() })
			if probe == nil {
				break
			}
			d := map[string]any{"gen": "addrkinds", "type": int(t), "seed": k, "spec": spec}
			encDesc = d
			add(seed{name: "addrkinds-" + spec, full: enc(gen()), gen: gen, wellFormed: true, desc: d})
		}
	}

	// (3) every present/absent combination of the optional fields (<= 2^6), derived
	// from the examples by clearing fields.
	masksSeen := map[int]bool{}
	for _, m := range examples {
		mk, _ := presentMask(m, opt)
		masksSeen[mk] = true
	}
	derived := 0
	for k, m := range examples {
		mk, _ := presentMask(m, opt)
		for sub := 0; sub < 1<<len(opt); sub++ {
			if sub&^mk != 0 || sub == mk || masksSeen[sub] {
				continue // not a subset, or already present in the corpus as a generator value
			}
			masksSeen[sub] = true
			k, sub := k, sub
			clear := []string{}
			for i, f := range opt {
				if mk&(1<<i) != 0 && sub&(1<<i) == 0 {
					clear = append(clear, f)
				}
			}
			gen := func() any {
				m, _ := randMsg(t, k)
				v := reflect.ValueOf(m).Elem()
				for _, f := range clear {
					fv := v.FieldByName(f)
					fv.Set(reflect.Zero(fv.Type()))
				}
				return m
			}
			encDesc = map[string]any{"gen": "rapid", "type": int(t), "seed": k, "clear": clear}
			if add(seed{name: fmt.Sprintf("rand%d-without-%s", k, strings.Join(clear, "+")), full: enc(gen()), gen: gen, valueOnly: true,
				desc: map[string]any{"gen": "rapid", "type": int(t), "seed": k, "clear": clear}}) {
				derived++
			}
		}
	}
	cc.notes = append(cc.notes, fmt.Sprintf("optional fields %v: %d/%d presence combinations covered (%d derived)", opt, len(masksSeen), 1<<len(opt), derived))

	// (4) maximal encodings: body of exactly 65533 and 65532 bytes; 65534 must be refused.
	for _, bodyLen := range []int{lnwire.MaxMsgBody, lnwire.MaxMsgBody - 1, lnwire.MaxMsgBody + 1} {
		bodyLen := bodyLen
		gen := maxValue(t, examples, bodyLen)
		if gen == nil {
			if bodyLen == lnwire.MaxMsgBody {
				cc.notes = append(cc.notes, "no maximal seed")
			}
			continue
		}
		encDesc = map[string]any{"gen": "max", "type": int(t), "body": bodyLen}
		b := enc(gen())
		if bodyLen > lnwire.MaxMsgBody {
			// V3: the encoder must refuse. Recorded as a pseudo-seed without bytes.
			cc.seeds = append(cc.seeds, seed{name: "oversize", gen: gen, valueOnly: true, desc: map[string]any{"gen": "max", "type": int(t), "body": bodyLen}})
			continue
		}
		if b != nil && len(b) != bodyLen+2 {
			// the encoder rebuilds the extra data from the known fields and drops the
			// filler: fall back to a byte-level seed = a valid encoding followed by a
			// filler record, kept only if the decoder accepts it.
			if bodyLen == lnwire.MaxMsgBody {
				cc.notes = append(cc.notes, fmt.Sprintf("encoder discards caller-supplied extra data (body %d instead of %d): maximal seed built at byte level", len(b)-2, bodyLen))
			}
			fill := fillerStream(bodyLen + 2 - len(b))
			raw := append(append([]byte{}, b...), fill...)
			err := fmt.Errorf("not decoded")
			guardBytes(c.name, 2, raw, func() { _, err = lnwire.ReadMessage(bytes.NewReader(raw), 0) })
			if err == nil && fill != nil {
				add(seed{name: fmt.Sprintf("maxbytes%d", bodyLen), full: raw, valueOnly: bodyLen != lnwire.MaxMsgBody, desc: map[string]any{"gen": "bytes"}})
			} else if bodyLen == lnwire.MaxMsgBody {
				cc.notes = append(cc.notes, "no maximal seed (appended filler record refused)")
			}
			continue
		}
		add(seed{name: fmt.Sprintf("max%d", bodyLen), full: b, gen: gen, valueOnly: bodyLen != lnwire.MaxMsgBody,
			desc: map[string]any{"gen": "max", "type": int(t), "body": bodyLen}})
	}

	// (5) zlib-encoded id lists for the two gossip-query messages (the generator only
	// emits the plain encoding): small, and the largest strictly increasing run whose
	// deflate output still fits a message.
	if c.zlib {
		for _, n := range zlibSizes(thorough) {
			n := n
			gen := func() any { return zlibValue(t, n) }
			encDesc = map[string]any{"gen": "zlib", "type": int(t), "ids": n}
			add(seed{name: fmt.Sprintf("zlib%d", n), full: enc(gen()), gen: gen, valueOnly: n > 64,
				desc: map[string]any{"gen": "zlib", "type": int(t), "ids": n}})
			if raw := zlibRaw(t, n); raw != nil {
				add(seed{name: fmt.Sprintf("zlibraw%d", n), full: raw, valueOnly: n > 64, desc: map[string]any{"gen": "zlibraw", "type": int(t), "ids": n}})
			}
		}
	}
	return cc
}

// addrKindSpecs: address lists (syntax of addrsOf, varlen_test.go) used as extra seeds.
var addrKindSpecs = []string{"tcp4,tcp6,v2,v3,dns12,opq9", "dns255,tcp4"}

// setAddrFields sets every exported []net.Addr field of m; false if there is none.
func setAddrFields(m any, spec string) bool {
	rv := reflect.ValueOf(m)
	if rv.Kind() != reflect.Ptr || rv.IsNil() || rv.Elem().Kind() != reflect.Struct {
		return false
	}
	found := false
	for i := 0; i < rv.Elem().NumField(); i++ {
		f := rv.Elem().Field(i)
		if f.Kind() == reflect.Slice && f.Type().Elem() == netAddrType && f.CanSet() {
			f.Set(reflect.ValueOf(addrsOf(spec)))
			found = true
		}
	}
	return found
}

// maxValue returns a generator of a value of type t whose body is bodyLen bytes.
func maxValue(t lnwire.MessageType, examples []lnwire.Message, bodyLen int) func() any {
	switch t {
	case lnwire.MsgPing:
		return func() any { return &lnwire.Ping{NumPongBytes: 7, PaddingBytes: patt(bodyLen - 4)} }
	case lnwire.MsgPong:
		return func() any { return &lnwire.Pong{PongBytes: patt(bodyLen - 2)} }
	case lnwire.MsgError:
		return func() any { return &lnwire.Error{ChanID: lnwire.ChannelID{1, 2, 3}, Data: patt(bodyLen - 34)} }
	case lnwire.MsgWarning:
		return func() any { return &lnwire.Warning{ChanID: lnwire.ChannelID{1, 2, 3}, Data: patt(bodyLen - 34)} }
	case lnwire.CustomTypeStart:
		return func() any { m, _ := lnwire.NewCustom(lnwire.CustomTypeStart, patt(bodyLen)); return m }
	}
	if len(examples) == 0 {
		return nil
	}
	// generic: swap the ExtraData of the first example for a filler TLV stream.
	k := 0
	probe, _ := randMsg(t, k)
	fname := "ExtraData"
	fv := reflect.ValueOf(probe).Elem().FieldByName(fname)
	if !fv.IsValid() {
		fname = "ExtraOpaqueData"
		fv = reflect.ValueOf(probe).Elem().FieldByName(fname)
	}
	if !fv.IsValid() || fv.Type() != reflect.TypeOf(lnwire.ExtraOpaqueData{}) {
		return nil
	}
	fv.Set(reflect.ValueOf(lnwire.ExtraOpaqueData{}))
	var buf bytes.Buffer
	err := fmt.Errorf("not encoded")
	safely(func() { _, err = lnwire.WriteMessage(&buf, probe, 0) }) // a panic here is reported through enc() on the same value
	if err != nil {
		return nil
	}
	base := buf.Len() - 2
	fill := fillerStream(bodyLen - base)
	if fill == nil {
		return nil
	}
	return func() any {
		m, _ := randMsg(t, k)
		reflect.ValueOf(m).Elem().FieldByName(fname).Set(reflect.ValueOf(lnwire.ExtraOpaqueData(append([]byte{}, fill...))))
		return m
	}
}

func patt(n int) []byte {
	if n < 0 {
		n = 0
	}
	b := make([]byte, n)
	for i := range b {
		b[i] = byte(i*13 + 5)
	}
	return b
}

func zlibSizes(thorough bool) []int {
	return []int{1, 3, 64, 8000, 30000}
}

func scids(n int) []lnwire.ShortChannelID {
	out := make([]lnwire.ShortChannelID, n)
	for i := range out {
		out[i] = lnwire.NewShortChanIDFromInt(uint64(i+1) << 16) // strictly increasing, very compressible
	}
	return out
}

func zlibValue(t lnwire.MessageType, n int) lnwire.Message {
	var h chainhash.Hash
	h[0] = 0x6f
	if t == lnwire.MsgQueryShortChanIDs {
		return lnwire.NewQueryShortChanIDs(h, lnwire.EncodingSortedZlib, scids(n))
	}
	m := lnwire.NewReplyChannelRange()
	m.ChainHash = h
	m.FirstBlockHeight = 1
	m.NumBlocks = uint32(n) + 1
	m.Complete = 1
	m.EncodingType = lnwire.EncodingSortedZlib
	m.ShortChanIDs = scids(n)
	return m
}

// zlibRaw builds the wire bytes by hand with BestCompression (an encoder other than
// lnd's own), so that decode(b) != canonical re-encoding is exercised.
func zlibRaw(t lnwire.MessageType, n int) []byte {
	var raw bytes.Buffer
	for _, id := range scids(n) {
		var b [8]byte
		binary.BigEndian.PutUint64(b[:], id.ToUint64())
		raw.Write(b[:])
	}
	var z bytes.Buffer
	zw, _ := zlib.NewWriterLevel(&z, zlib.BestCompression)
	zw.Write(raw.Bytes())
	zw.Close()
	if z.Len()+1 > 65000 {
		return nil
	}
	var out bytes.Buffer
	p := be16(uint16(t))
	out.Write(p[:])
	var h chainhash.Hash
	h[0] = 0x6f
	out.Write(h[:])
	if t == lnwire.MsgReplyChannelRange {
		out.Write([]byte{0, 0, 0, 1})
		var nb [4]byte
		binary.BigEndian.PutUint32(nb[:], uint32(n)+1)
		out.Write(nb[:])
		out.WriteByte(1)
	}
	l := be16(uint16(z.Len() + 1))
	out.Write(l[:])
	out.WriteByte(byte(lnwire.EncodingSortedZlib))
	out.Write(z.Bytes())
	return out.Bytes()
}

// ---------------------------------------------------------------------------------
// onion failures

var cuCache []*lnwire.ChannelUpdate1

// chanUpdates returns three fresh-looking ChannelUpdate1 values (cached: the failure
// constructors copy them by value or only read them).
func chanUpdates() []*lnwire.ChannelUpdate1 {
	if cuCache != nil {
		out := make([]*lnwire.ChannelUpdate1, len(cuCache))
		for i, c := range cuCache {
			cp := *c
			cp.ExtraOpaqueData = append(lnwire.ExtraOpaqueData(nil), c.ExtraOpaqueData...)
			out[i] = &cp
		}
		return out
	}
	defer func() { cuCache = chanUpdates0() }()
	return chanUpdates0()
}

func chanUpdates0() []*lnwire.ChannelUpdate1 {
	var out []*lnwire.ChannelUpdate1
	for k := 0; k < 24 && len(out) < 3; k++ {
		m, _ := randMsg(lnwire.MsgChannelUpdate, k)
		cu, ok := m.(*lnwire.ChannelUpdate1)
		if !ok {
			continue
		}
		// one without and two with extra data
		if (len(out) == 0) == (len(cu.ExtraOpaqueData) == 0) || k > 12 {
			out = append(out, cu)
		}
	}
	return out
}

// failureValues builds values for a failure code through the exported constructors.
func failureValues(code lnwire.FailCode) []func() any {
	cus := func(i int) *lnwire.ChannelUpdate1 {
		c := chanUpdates()
		return c[i%len(c)]
	}
	onion := bytes.Repeat([]byte{0xA7}, 1366)
	var out []func() any
	add := func(f func() any) { out = append(out, f) }
	switch code {
	case lnwire.CodeInvalidRealm:
		add(func() any { return &lnwire.FailInvalidRealm{} })
	case lnwire.CodeTemporaryNodeFailure:
		add(func() any { return &lnwire.FailTemporaryNodeFailure{} })
	case lnwire.CodePermanentNodeFailure:
		add(func() any { return &lnwire.FailPermanentNodeFailure{} })
	case lnwire.CodeRequiredNodeFeatureMissing:
		add(func() any { return &lnwire.FailRequiredNodeFeatureMissing{} })
	case lnwire.CodePermanentChannelFailure:
		add(func() any { return &lnwire.FailPermanentChannelFailure{} })
	case lnwire.CodeRequiredChannelFeatureMissing:
		add(func() any { return &lnwire.FailRequiredChannelFeatureMissing{} })
	case lnwire.CodeUnknownNextPeer:
		add(func() any { return &lnwire.FailUnknownNextPeer{} })
	case lnwire.CodeIncorrectPaymentAmount:
		add(func() any { return &lnwire.FailIncorrectPaymentAmount{} })
	case lnwire.CodeFinalExpiryTooSoon:
		add(func() any { return lnwire.NewFinalExpiryTooSoon() })
	case lnwire.CodeExpiryTooFar:
		add(func() any { return &lnwire.FailExpiryTooFar{} })
	case lnwire.CodeMPPTimeout:
		add(func() any { return &lnwire.FailMPPTimeout{} })
	case lnwire.CodeIncorrectOrUnknownPaymentDetails:
		add(func() any { return lnwire.NewFailIncorrectDetails(0, 0) })
		add(func() any { return lnwire.NewFailIncorrectDetails(123456789, 800123) })
		add(func() any { return lnwire.NewFailIncorrectDetails(1<<63-1, 1<<32-1) })
	case lnwire.CodeInvalidOnionVersion:
		add(func() any { return lnwire.NewInvalidOnionVersion(onion) })
	case lnwire.CodeInvalidOnionHmac:
		add(func() any { return lnwire.NewInvalidOnionHmac(onion) })
	case lnwire.CodeInvalidOnionKey:
		add(func() any { return lnwire.NewInvalidOnionKey(onion) })
	case lnwire.CodeTemporaryChannelFailure:
		add(func() any { return lnwire.NewTemporaryChannelFailure(nil) })
		add(func() any { return lnwire.NewTemporaryChannelFailure(cus(0)) })
		add(func() any { return lnwire.NewTemporaryChannelFailure(cus(1)) })
	case lnwire.CodeAmountBelowMinimum:
		add(func() any { return lnwire.NewAmountBelowMinimum(999, *cus(0)) })
		add(func() any { return lnwire.NewAmountBelowMinimum(1<<62, *cus(1)) })
	case lnwire.CodeFeeInsufficient:
		add(func() any { return lnwire.NewFeeInsufficient(1001, *cus(0)) })
		add(func() any { return lnwire.NewFeeInsufficient(1<<40, *cus(2)) })
	case lnwire.CodeIncorrectCltvExpiry:
		add(func() any { return lnwire.NewIncorrectCltvExpiry(144, *cus(0)) })
		add(func() any { return lnwire.NewIncorrectCltvExpiry(1<<32-1, *cus(1)) })
	case lnwire.CodeExpiryTooSoon:
		add(func() any { return lnwire.NewExpiryTooSoon(*cus(0)) })
		add(func() any { return lnwire.NewExpiryTooSoon(*cus(2)) })
	case lnwire.CodeChannelDisabled:
		add(func() any { return lnwire.NewChannelDisabled(0, *cus(0)) })
		add(func() any { return lnwire.NewChannelDisabled(0xffff, *cus(1)) })
	case lnwire.CodeFinalIncorrectCltvExpiry:
		add(func() any { return lnwire.NewFinalIncorrectCltvExpiry(0) })
		add(func() any { return lnwire.NewFinalIncorrectCltvExpiry(1<<32 - 1) })
	case lnwire.CodeFinalIncorrectHtlcAmount:
		add(func() any { return lnwire.NewFinalIncorrectHtlcAmount(0) })
		add(func() any { return lnwire.NewFinalIncorrectHtlcAmount(1<<63 - 1) })
	case lnwire.CodeInvalidOnionPayload:
		for _, ty := range []uint64{0, 0xfc, 0xfd, 0xffff, 0x10000, 1 << 32, 1<<64 - 1} {
			ty := ty
			add(func() any { return lnwire.NewInvalidOnionPayload(ty, uint16(ty)) })
		}
	case lnwire.CodeInvalidBlinding:
		add(func() any { return &lnwire.FailInvalidBlinding{OnionSHA256: [32]byte{9, 8, 7}} })
	}
	return out
}

func buildFailCorpus(code lnwire.FailCode) (*codecCorpus, []seed) {
	c := &codec{name: failCodecName(code), kind: kFailMsg, prefix: be16(uint16(code))}
	cc := &codecCorpus{c: c}
	var pkts []seed
	pc := &codec{kind: kFailPkt}
	gens := failureValues(code)
	for i, g := range gens {
		g := g
		var b, p []byte
		fdesc := map[string]any{"gen": "failctor", "code": int(code), "i": i}
		guard(c.name, "encode", fdesc, func() { b, _ = c.encode(g()) })
		if b == nil {
			cc.notes = append(cc.notes, fmt.Sprintf("constructor value %d not encodable", i))
			continue
		}
		cc.seeds = append(cc.seeds, seed{name: fmt.Sprintf("ctor%d", i), full: b, gen: g, wellFormed: true, sweep: true,
			desc: map[string]any{"gen": "failctor", "code": int(code), "i": i}})
		guard("failpkt", "encode", fdesc, func() { p, _ = pc.encode(g()) })
		if p != nil {
			pkts = append(pkts, seed{name: fmt.Sprintf("%s-ctor%d", code.String(), i), full: p, gen: g, wellFormed: true,
				desc: map[string]any{"gen": "failctor", "code": int(code), "i": i}})
		}
	}
	if len(gens) == 0 {
		// a code the harness has no constructor for: byte seed = shortest zero body that decodes
		p := be16(uint16(code))
		for n := 0; n <= 300; n++ {
			full := append(p[:], make([]byte, n)...)
			err := fmt.Errorf("not decoded")
			guardBytes(c.name, 2, full, func() { _, err = lnwire.DecodeFailureMessage(bytes.NewReader(full), 0) })
			if err == nil {
				cc.seeds = append(cc.seeds, seed{name: fmt.Sprintf("zeros%d", n), full: full, desc: map[string]any{"gen": "bytes"}})
				break
			}
		}
		cc.notes = append(cc.notes, "no constructor known to the harness: byte seed only")
	}
	return cc, pkts
}

// corpus is everything the lnwire half enumerates over.
type corpus struct {
	codecs []*codecCorpus
	notes  map[string][]string
}

func buildCorpus(thorough bool) *corpus {
	buildViols = nil
	nMut, nVal := 0, 48
	if thorough {
		nMut, nVal = 6, 256
	}
	co := &corpus{notes: map[string][]string{}}
	for _, t := range registeredTypes() {
		co.codecs = append(co.codecs, buildMsgCorpus(t, nMut, nVal, thorough))
	}
	pkt := &codecCorpus{c: &codec{name: "failpkt", kind: kFailPkt}}
	for _, code := range registeredFailCodes() {
		cc, pkts := buildFailCorpus(code)
		co.codecs = append(co.codecs, cc)
		if len(pkts) > 1 && !thorough {
			pkts = pkts[len(pkts)-1:]
		}
		pkt.seeds = append(pkt.seeds, pkts...)
	}
	co.codecs = append(co.codecs, pkt)
	for _, cc := range co.codecs {
		sort.SliceStable(cc.seeds, func(i, j int) bool { return false })
		if len(cc.notes) > 0 {
			co.notes[cc.c.name] = cc.notes
		}
	}
	return co
}
